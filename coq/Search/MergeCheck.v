(* Executable comparison functions of the C04 correspondence check. *)
From Coq Require Import List NArith ZArith Bool Arith.
Import ListNotations.
From NV Require Import Gen.S256Consts Gen.SearchConsts S256.S256 S256.S256Check Search.Search Search.SearchCheck Search.Merge Search.MergeLoop Search.MergeLoopProofs.
Local Open Scope N_scope.

Record ccase := CCase {
  cc_attr : bytes; cc_op : matcher; cc_id : bytes; cc_text : bytes; cc_raw : bytes; cc_int : bool;
  cc_cursor : option bytes;   (* CalculateCursor output, None = error *)
  cc_accepted : bool          (* PreprocessSearchQuery accepts it *)
}.

(* the codec behaviour observed for this very value *)
Definition ccase_codecs (c : ccase) : codecs :=
  mk_codecs [] [(0, cc_text c, cc_raw c); (1, cc_text c, cc_raw c); (2, cc_text c, cc_raw c)].

Definition cursor_model_ok (c : ccase) : bool :=
  opt_eqb bytes_eqb (calc_cursor (ccase_codecs c) (cc_attr c) (cc_op c) (cc_id c) [cc_text c]) (cc_cursor c).
Definition cursor_ref_ok (c : ccase) : bool :=
  opt_eqb bytes_eqb (cc_cursor c) (Some (index_key (cc_attr c) (cc_int c) (cc_raw c) (cc_id c))) && cc_accepted c.

Record mcase := MCase {
  mc_lim : nat; mc_sets : list (list mitem); mc_mores : list bool; mc_sorted : bool;
  mc_err : bool; mc_res : list mitem; mc_more : bool
}.

Definition mitem_eqb (a b : mitem) : bool := bytes_eqb (m_id a) (m_id b) && bytes_eqb (m_raw a) (m_raw b).

Definition merge_ref_ok (c : mcase) : bool :=
  if negb (mc_sorted c) then true else
  let '(r, more) := ref_merge (mc_lim c) (mc_sets c) (mc_mores c) in
  negb (mc_err c) && list_eqb_by mitem_eqb (mc_res c) r && Bool.eqb (mc_more c) more.

Definition cursor_model_mismatches := mism_from cursor_model_ok 0.
Definition cursor_ref_mismatches := mism_from cursor_ref_ok 0.
Definition merge_ref_mismatches := mism_from merge_ref_ok 0.

(* ---------- the k-way merge loop: model = implementation, implementation = reference ---------- *)

Definition tbl (t : list (bytes * bytes)) (k : bytes) : option bytes :=
  match find (fun p => bytes_eqb (fst p) k) t with Some p => Some (snd p) | None => None end.

Record lcase := LCase {
  lc_lim : nat; lc_attr : bytes; lc_int : bool;
  lc_dec : list (bytes * bytes);     (* texts oid.ID / user.ID DecodeString accepts, with their bytes *)
  lc_cat : list (bytes * bytes);     (* object ID -> stored value of the primary attribute *)
  lc_pages : bool;                   (* sets = first lim items of lc_fulls, flags = "there is more" *)
  lc_fulls : list (list ritem);
  lc_sets : list (list ritem); lc_mores : list bool;
  lc_obs : option (list ritem * bool)    (* MergeSearchResults: None = error *)
}.

Definition ritem_eqb (a b : ritem) : bool := bytes_eqb (r_id a) (r_id b) && bytes_eqb (r_attr a) (r_attr b).
Definition lres_eqb (a b : option (list ritem * bool)) : bool :=
  match a, b with
  | None, None => true
  | Some (r1, m1), Some (r2, m2) => list_eqb_by ritem_eqb r1 r2 && Bool.eqb m1 m2
  | _, _ => false
  end.

Definition loop_model_ok (c : lcase) : bool :=
  lres_eqb (merge_results (tbl (lc_dec c)) (tbl (lc_dec c)) (lc_lim c) (lc_attr c) (lc_int c) (lc_sets c) (lc_mores c)) (lc_obs c).

(* right-hand side of C04_merge: first lim items of the sorted union of the shards' lists, exact flag *)
Definition loop_ref_ok (c : lcase) : bool :=
  if negb (lc_pages c) then true else
  let rawv := fun x => match tbl (lc_cat c) (r_id x) with Some r => r | None => [] end in
  let u := union rawv (lc_fulls c) in
  lres_eqb (lc_obs c) (Some (firstn (lc_lim c) u, Nat.ltb (lc_lim c) (length u))).

Definition loop_model_mismatches := mism_from loop_model_ok 0.
Definition loop_ref_mismatches := mism_from loop_ref_ok 0.

(* StorageEngine.Search over real shards: per request the sets the shards returned, and what the engine returned *)
Record ecase := ECase {
  ec_count : nat; ec_filters : list filter; ec_attrs : list bytes;
  ec_dec : list (bytes * bytes);
  ec_sets : list (list ritem); ec_mores : list bool;
  ec_obs : option (list ritem * bool)    (* items (ID, first attribute), "a cursor was returned" *)
}.
Definition engine_model_ok (c : ecase) : bool :=
  lres_eqb (engine_merge (tbl (ec_dec c)) (tbl (ec_dec c)) (ec_count c) (ec_filters c) (ec_attrs c) (ec_sets c) (ec_mores c)) (ec_obs c).
Definition engine_model_mismatches := mism_from engine_model_ok 0.
