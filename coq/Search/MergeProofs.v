(* C04: the rebuilt cursor is the index key of the last item, for every primary
   attribute class, given that the text codecs round-trip (premises). *)
From Coq Require Import List NArith ZArith Bool Arith Lia.
Import ListNotations.
From NV Require Import Gen.S256Consts Gen.SearchConsts S256.S256 S256.DecimalProofs S256.ReadersProofs
  Search.Search Search.Merge.
Local Open Scope N_scope.

Section Proofs.
Variable cd : codecs.
Hypothesis b58_rt : forall r, dec_b58 cd (enc_b58 cd r) = Some r.
Hypothesis hex_rt : forall r, dec_hex cd (enc_hex cd r) = Some r.
Hypothesis hex_len : forall r, Nat.div2 (length (enc_hex cd r)) = length r.
Hypothesis uuid_rt : forall r, length r = 16%nat -> dec_uuid cd (enc_uuid cd r) = Some r.

(* numeric primary attribute: the shard returns String() of the stored integer *)
Theorem cursor_int attr op id z rest : canonical z ->
  cursor_class_of attr op = CC_INT ->
  calc_cursor cd attr op id (to_string z :: rest) = Some (index_key attr true (encode z) id).
Proof.
  intros Hz Hc. unfold calc_cursor. rewrite Hc, (parse_print z Hz). reflexivity.
Qed.

(* every other class: the shard returns restore_value attr raw *)
Theorem cursor_plain attr op id raw text rest :
  restore_value cd attr raw = Some text ->
  (class_of attr = C_SUM -> length raw = 32%nat) -> (class_of attr = C_HOMO -> length raw = 64%nat) ->
  raw <> [] ->
  match cursor_class_of attr op with CC_ID | CC_INT => False | _ => True end ->
  calc_cursor cd attr op id (text :: rest) = Some (index_key attr false raw id).
Proof.
  intros Hr Hs Hh Hne Hc. unfold calc_cursor, index_key. unfold cursor_class_of in *. unfold restore_value in Hr.
  destruct (matcher_eqb op M_NOT_PRESENT); [contradiction|].
  destruct (class_of attr) eqn:Ec.
  - injection Hr as <-. now rewrite b58_rt.
  - injection Hr as <-. now rewrite b58_rt.
  - injection Hr as <-. rewrite hex_len, (Hs eq_refl), hex_rt. reflexivity.
  - injection Hr as <-. rewrite hex_len, (Hh eq_refl), hex_rt. reflexivity.
  - destruct raw as [|b r]; [congruence|].
    destruct (Nat.eqb_spec (length (b :: r)) 16) as [E|NE]; [|discriminate].
    injection Hr as <-. now rewrite (uuid_rt _ E).
  - injection Hr as <-.
    destruct (bytes_eqb attr key_version || bytes_eqb attr key_type); [reflexivity|].
    destruct (is_int_op op); [contradiction|reflexivity].
Qed.

End Proofs.

(* the defect that was repaired: the old layout for the payload checksum *)
Definition old_sum_cursor (attr v id : bytes) : bytes :=
  attr ++ delim ++ firstn 1 v ++ id ++ repeat 0 (length v).
Lemma old_sum_cursor_wrong :
  old_sum_cursor key_checksum (repeat 171 32) (repeat 1 32)
  <> index_key key_checksum false (repeat 171 32) (repeat 1 32).
Proof. vm_compute. discriminate. Qed.
