(* Model of the shard search path (C03):
     pkg/core/object/metadata.go   PreprocessSearchQuery, parseIntFilters,
                                   MetaDataKVHandler, combineValues, matchValues,
                                   intBytesMatch, restoreAttributeValue
     pkg/local_object_storage/metabase/metadata.go
                                   PutMetadataForObject (which index entries an
                                   object gets), searchTx, searchUnfiltered.
   Definitions only.  Bytes are N, byte strings are list N.

   The bbolt bucket is modelled per primary index as the list of its keys in
   byte order; a key is kept as its tail after the common prefix
   (<prefix byte> attr 0x00), together with the parts it was built from.
   Text codecs of libraries outside the repo (base58, hex, UUID) are a record
   parameter. *)
From Coq Require Import List NArith ZArith Bool Arith.
Import ListNotations.
From NV Require Import Gen.S256Consts Gen.SearchConsts S256.S256.
Local Open Scope N_scope.

Definition bytes := list N.

Fixpoint bytes_eqb (a b : bytes) : bool :=
  match a, b with
  | [], [] => true
  | x :: a', y :: b' => (x =? y) && bytes_eqb a' b'
  | _, _ => false
  end.

Fixpoint is_prefix (p s : bytes) : bool :=
  match p, s with
  | [], _ => true
  | x :: p', y :: s' => (x =? y) && is_prefix p' s'
  | _ :: _, [] => false
  end.

Inductive matcher := M_UNSPEC | M_EQ | M_NE | M_NOT_PRESENT | M_PREFIX | M_GT | M_GE | M_LT | M_LE.

Definition matcher_eqb (a b : matcher) : bool :=
  match a, b with
  | M_UNSPEC, M_UNSPEC | M_EQ, M_EQ | M_NE, M_NE | M_NOT_PRESENT, M_NOT_PRESENT | M_PREFIX, M_PREFIX
  | M_GT, M_GT | M_GE, M_GE | M_LT, M_LT | M_LE, M_LE => true
  | _, _ => false
  end.

(* IsIntegerSearchOp *)
Definition is_int_op (m : matcher) : bool :=
  match m with M_GT | M_GE | M_LT | M_LE => true | _ => false end.

Record filter := Filter { f_key : bytes; f_op : matcher; f_val : bytes }.
Record obj := Obj { o_id : bytes; o_attrs : list (bytes * bytes); o_avail : bool }.
Record item := Item { it_id : bytes; it_attrs : list bytes }.

(* objectcore.SearchFilter: filter + AutoMatch + Raw *)
Record ofilter := OFilter { of_f : filter; of_auto : bool; of_raw : bytes }.

(* libraries outside the repo *)
Record codecs := Codecs {
  enc_b58 : bytes -> bytes;
  dec_b58 : bytes -> option bytes;       (* None = error *)
  enc_hex : bytes -> bytes;
  dec_hex : bytes -> option bytes;
  enc_uuid : bytes -> bytes;             (* uuid.UUID.String of 16 bytes *)
  dec_uuid : bytes -> option bytes       (* uuid.Parse *)
}.

Inductive attr_class := C_OWNER | C_OID | C_SUM | C_HOMO | C_SPLIT | C_PLAIN.

Definition class_of (k : bytes) : attr_class :=
  if bytes_eqb k key_owner then C_OWNER
  else if bytes_eqb k key_first || bytes_eqb k key_parent || bytes_eqb k key_associate then C_OID
  else if bytes_eqb k key_checksum then C_SUM
  else if bytes_eqb k key_homo then C_HOMO
  else if bytes_eqb k key_split_id then C_SPLIT
  else C_PLAIN.

Definition bin_prop_marker : bytes := [49].   (* "1" *)

(* convertFilterValue *)
Definition convert_filter (f : filter) : matcher * bytes :=
  if bytes_eqb (f_key f) key_root || bytes_eqb (f_key f) key_phy then (M_EQ, bin_prop_marker)
  else (f_op f, f_val f).

Fixpoint lookup (k : bytes) (l : list (bytes * bytes)) : option bytes :=
  match l with
  | [] => None
  | (k', v) :: r => if bytes_eqb k k' then Some v else lookup k r
  end.

Section WithCodecs.
Variable cd : codecs.

Definition opt_nil (o : option bytes) : bytes := match o with Some b => b | None => [] end.

(* combineValues; None = error ("invalid ... len") *)
Definition combine_values (attr dbVal fltVal : bytes) : option (bytes * bytes) :=
  match class_of attr with
  | C_OWNER =>
    if negb (Nat.eqb (length dbVal) owner_size) then None else
    let b := opt_nil (dec_b58 cd fltVal) in
    if Nat.eqb (length b) owner_size then Some (dbVal, b) else Some (enc_b58 cd dbVal, fltVal)
  | C_OID =>
    if negb (Nat.eqb (length dbVal) oid_size) then None else
    let b := opt_nil (dec_b58 cd fltVal) in
    if Nat.eqb (length b) oid_size then Some (dbVal, b) else Some (enc_b58 cd dbVal, fltVal)
  | C_SUM =>
    if negb (Nat.eqb (length dbVal) 32) then None else
    match dec_hex cd fltVal with Some b => Some (dbVal, b) | None => Some (enc_hex cd dbVal, fltVal) end
  | C_HOMO =>
    if negb (Nat.eqb (length dbVal) 64) then None else
    match dec_hex cd fltVal with Some b => Some (dbVal, b) | None => Some (enc_hex cd dbVal, fltVal) end
  | C_SPLIT =>
    if negb (Nat.eqb (length dbVal) 16) then None else
    match dec_uuid cd fltVal with Some b => Some (dbVal, b) | None => Some (enc_uuid cd dbVal, fltVal) end
  | C_PLAIN => Some (dbVal, fltVal)
  end.

(* matchValues *)
Definition match_values (dbVal : bytes) (m : matcher) (fltVal : bytes) : bool :=
  match m with
  | M_EQ => bytes_eqb dbVal fltVal
  | M_NE => negb (bytes_eqb dbVal fltVal)
  | M_PREFIX => is_prefix fltVal dbVal
  | _ => false
  end.

Definition cmp_matches (c : comparison) (m : matcher) : bool :=
  match m, c with
  | M_GT, Gt => true
  | M_GE, (Gt | Eq) => true
  | M_LT, Lt => true
  | M_LE, (Lt | Eq) => true
  | _, _ => false
  end.

(* intBytesMatch *)
Definition int_bytes_match (dbVal : bytes) (m : matcher) (raw : bytes) : bool :=
  cmp_matches (lex_compare dbVal raw) m.
(* intMatches *)
Definition int_matches (dbVal : sint) (m : matcher) (flt : sint) : bool :=
  cmp_matches (cmp dbVal flt) m.

(* restoreAttributeValue; None = error *)
Definition restore_value (attr stored : bytes) : option bytes :=
  match class_of attr with
  | C_OWNER | C_OID => Some (enc_b58 cd stored)
  | C_SUM | C_HOMO => Some (enc_hex cd stored)
  | C_SPLIT => match stored with
               | [] => Some []        (* no split ID (repaired: used to be an error) *)
               | _ => if Nat.eqb (length stored) 16 then Some (enc_uuid cd stored) else None
               end
  | C_PLAIN => Some stored
  end.

(* RestoreIntAttribute *)
Definition restore_int (b : bytes) : option bytes := option_map to_string (decode b).

(* ---------- PreprocessSearchQuery ---------- *)

Inductive pres (A : Type) := P_Ok (a : A) | P_Err | P_Unreach.
Arguments P_Ok {A}. Arguments P_Err {A}. Arguments P_Unreach {A}.

Definition is_cmp_ge (c : comparison) : bool := match c with Lt => false | _ => true end.

(* one filter of parseIntFilters; i0 = (i == 0), same0 = IsIntegerSearchOp(fs[0].Operation()) && same header *)
Definition parse_int_filter (i0 same0 : bool) (f : filter) : pres ofilter :=
  let '(m, val) := convert_filter f in
  if negb (is_int_op m) then P_Ok (OFilter f false []) else
  match split_int_string val with
  | None => P_Err
  | Some (neg, digits) =>
    let c := compare_normalized_digits digits max_digits in
    let step (auto : bool) :=
      if auto then P_Ok (OFilter f true [])
      else if i0 || same0 then
        match parse_normalized neg digits with
        | None => P_Err
        | Some z => P_Ok (OFilter f false (encode z))
        end
      else P_Ok (OFilter f false []) in
    if negb neg && is_cmp_ge c then
      match c with
      | Gt => P_Err
      | _ => if matcher_eqb m M_GT then P_Unreach else step (matcher_eqb m M_LE)
      end
    else if neg then
      match compare_normalized_digits digits min_digits with
      | Gt => P_Err
      | Eq => if matcher_eqb m M_LT then P_Unreach else step (matcher_eqb m M_GE)
      | Lt => step false
      end
    else step false
  end.

Fixpoint parse_int_filters_from (first : bool) (f0 : filter) (fs : list filter) : pres (list ofilter) :=
  match fs with
  | [] => P_Ok []
  | f :: r =>
    match parse_int_filter first (is_int_op (f_op f0) && bytes_eqb (f_key f) (f_key f0)) f with
    | P_Ok o =>
      match parse_int_filters_from false f0 r with
      | P_Ok os => P_Ok (o :: os)
      | P_Err => P_Err
      | P_Unreach => P_Unreach
      end
    | P_Err => P_Err
    | P_Unreach => P_Unreach
    end
  end.

Definition obj_prefix : bytes := [36; 79; 98; 106; 101; 99; 116; 58].  (* "$Object:" *)

(* blindlyProcess *)
Definition blindly_process (fs : list filter) : bool :=
  existsb (fun f => matcher_eqb (f_op f) M_NOT_PRESENT && is_prefix obj_prefix (f_key f)) fs.

Inductive idx_kind := K_ID | K_INT | K_PLAIN.

(* SearchCursor: which index is scanned and the tail of PrimarySeekKey after
   the common key prefix *)
Record scursor := SCursor { sc_kind : idx_kind; sc_attr : bytes; sc_seek : bytes }.

Definition nth_byte (l : bytes) (i : nat) : N := nth i l 256.

Definition preprocess (fs : list filter) (attrs : list bytes) (cursor : option bytes)
  : pres (list ofilter * scursor) :=
  match fs with
  | [] =>
    match cursor with
    | Some c => if Nat.eqb (length c) oid_size then P_Ok ([], SCursor K_ID [] c) else P_Err
    | None => P_Ok ([], SCursor K_ID [] [])
    end
  | f0 :: _ =>
    let '(primM, primVal) := convert_filter f0 in
    let a0 := hd [] attrs in
    let oid_sorted := match attrs with [] => true | _ => matcher_eqb primM M_NOT_PRESENT end in
    let need_val := negb oid_sorted && (match cursor with None => true | _ => false end)
                    && negb (matcher_eqb primM M_NE) && negb (is_int_op primM) in
    let prim_val_db : option bytes :=
      if need_val then
        match class_of (f_key f0) with
        | C_PLAIN => Some primVal
        | C_OWNER | C_OID => dec_b58 cd primVal
        | C_SUM | C_HOMO => dec_hex cd primVal
        | C_SPLIT => dec_uuid cd primVal
        end
      else Some [] in
    match prim_val_db with
    | None => P_Err
    | Some pv =>
      let cursor_ok :=
        match cursor with
        | None => true
        | Some c =>
          if oid_sorted then Nat.eqb (length c) oid_size
          else
            let n := length c in
            let la := length a0 in
            if is_int_op primM then
              Nat.eqb n (la + 1 + int_val_len + oid_size)
              && bytes_eqb (firstn la c) a0
              && bytes_eqb (firstn 1 (skipn la c)) delim
              && (nth_byte c (la + 1) <=? 1)
            else
              Nat.leb (la + 1 + 1 + 1 + oid_size) n
              && bytes_eqb (firstn la c) a0
              && bytes_eqb (firstn 1 (skipn la c)) delim
              && bytes_eqb (firstn 1 (skipn (n - oid_size - 1) c)) delim
        end in
      if negb cursor_ok then P_Err
      else if blindly_process fs then P_Unreach
      else
        match (if existsb (fun f => is_int_op (f_op f)) fs
               then parse_int_filters_from true f0 fs
               else P_Ok (map (fun f => OFilter f false []) fs)) with
        | P_Err => P_Err
        | P_Unreach => P_Unreach
        | P_Ok ofs =>
          if oid_sorted then P_Ok (ofs, SCursor K_ID [] (opt_nil cursor))
          else
            match cursor with
            | Some c =>
              P_Ok (ofs, SCursor (if is_int_op primM then K_INT else K_PLAIN) a0 (skipn (length a0 + 1) c))
            | None =>
              if is_int_op primM then
                match ofs with
                | o0 :: _ =>
                  if negb (of_auto o0) && (matcher_eqb primM M_GE || matcher_eqb primM M_GT)
                  then P_Ok (ofs, SCursor K_INT a0 (of_raw o0))
                  else P_Ok (ofs, SCursor K_INT a0 [])
                | [] => P_Err
                end
              else P_Ok (ofs, SCursor K_PLAIN a0 pv)
            end
        end
    end
  end.

(* ---------- the index ---------- *)

(* a key of the scanned index: tail bytes (after the common prefix), the value
   part, and the object it belongs to *)
Record entry := Entry { e_tail : bytes; e_val : bytes; e_obj : obj }.

(* PutMetadataForObject: entries of one object in the index (kind, attr) *)
Definition obj_entries (k : idx_kind) (attr : bytes) (o : obj) : list entry :=
  match k with
  | K_ID => [Entry (o_id o) [] o]
  | K_PLAIN =>
    flat_map (fun kv => if bytes_eqb (fst kv) attr
                        then [Entry (snd kv ++ delim ++ o_id o) (snd kv) o] else []) (o_attrs o)
  | K_INT =>
    flat_map (fun kv => if bytes_eqb (fst kv) attr
                        then match set_from_decimal (snd kv) with
                             | Some z => [Entry (encode z ++ o_id o) (encode z) o]
                             | None => []
                             end
                        else []) (o_attrs o)
  end.

Fixpoint insert_entry (e : entry) (l : list entry) : list entry :=
  match l with
  | [] => [e]
  | x :: r => match lex_compare (e_tail e) (e_tail x) with
              | Gt => x :: insert_entry e r
              | _ => e :: l
              end
  end.
Definition sort_entries (l : list entry) : list entry := fold_right insert_entry [] l.

Definition index_of (k : idx_kind) (attr : bytes) (objs : list obj) : list entry :=
  sort_entries (flat_map (obj_entries k attr) objs).

(* Cursor.Seek(seek) and "points to the last response element, so go next" *)
Fixpoint seek_after (seek : bytes) (l : list entry) : list entry :=
  match l with
  | [] => []
  | x :: r => match lex_compare (e_tail x) seek with
              | Lt => seek_after seek r
              | Eq => r
              | Gt => l
              end
  end.

(* ---------- MetaDataKVHandler ---------- *)

Inductive verdict := V_Match | V_Skip | V_Stop | V_Err.

(* filters on the primary attribute, checked against the key's value; returns
   the verdict and the new wasPrimMatch *)
Fixpoint prim_check (f0key : bytes) (first : bool) (ofs : list ofilter) (dbv : bytes) (was : bool)
  : verdict * bool :=
  match ofs with
  | [] => (V_Match, was)
  | o :: r =>
    let f := of_f o in
    if negb first && negb (bytes_eqb (f_key f) f0key) then prim_check f0key false r dbv was else
    let '(m, val) := convert_filter f in
    let res : option bool :=
      if is_int_op m then Some (of_auto o || int_bytes_match dbv m (of_raw o))
      else match combine_values (f_key f) dbv val with
           | None => None
           | Some (a, b) =>
             (* matchValues panics on NOT_PRESENT; reported as an error *)
             if matcher_eqb m M_NOT_PRESENT then None else Some (match_values a m b)
           end in
    match res with
    | None => (V_Err, was)
    | Some true => prim_check f0key false r dbv true
    | Some false =>
      if negb (matcher_eqb m M_NE) && (was || negb (matcher_eqb m M_GT)) then (V_Stop, was) else (V_Skip, was)
    end
  end.

(* parseNumericFilterValue *)
Definition parse_numeric_filter_value (f : filter) : option sint :=
  match split_int_string (f_val f) with
  | None => None
  | Some (neg, digits) => parse_normalized neg digits
  end.

(* the inner loop "for j := i; j < len(fs); j++" over filters with header attr;
   firstj = (j == 0) *)
Fixpoint sec_inner (attr : bytes) (dbVal : option bytes) (firstj : bool) (ofs : list ofilter) : verdict :=
  match ofs with
  | [] => V_Match
  | o :: r =>
    let f := of_f o in
    if negb firstj && negb (bytes_eqb (f_key f) attr) then sec_inner attr dbVal false r else
    let '(m, val) := convert_filter f in
    match dbVal with
    | None => if matcher_eqb m M_NOT_PRESENT then sec_inner attr dbVal false r else V_Skip
    | Some dv =>
      if matcher_eqb m M_NOT_PRESENT then V_Skip else
      let res : option bool :=
        if is_int_op m then
          match set_from_decimal dv with
          | Some z =>
            if of_auto o then Some true
            else match parse_numeric_filter_value f with
                 | None => None
                 | Some fz => Some (int_matches z m fz)
                 end
          | None => Some false
          end
        else match combine_values attr dv val with
             | None => None
             | Some (a, b) => Some (match_values a m b)
             end in
      match res with
      | None => V_Err
      | Some true => sec_inner attr dbVal false r
      | Some false => V_Skip
      end
    end
  end.

(* the outer loop "apply other filters"; firsti = (i == 0) *)
Fixpoint sec_check (id_iter : bool) (f0key : bytes) (o : obj) (firsti : bool) (ofs : list ofilter) : verdict :=
  match ofs with
  | [] => V_Match
  | x :: r =>
    if negb id_iter && (firsti || bytes_eqb (f_key (of_f x)) f0key) then sec_check id_iter f0key o false r
    else
      let attr := f_key (of_f x) in
      match sec_inner attr (lookup attr (o_attrs o)) firsti ofs with
      | V_Match => sec_check id_iter f0key o false r
      | v => v
      end
  end.

Record hstate := HState {
  h_n : nat; h_was : bool; h_items : list item (* reversed *); h_last : bytes;
  h_more : bool; h_err : bool }.

Definition h0 : hstate := HState 0 false [] [] false false.

(* attributes of a matched object; (values, error flag, stop) *)
Fixpoint collect_rest (o : obj) (attrs : list bytes) : option (list bytes) :=
  match attrs with
  | [] => Some []
  | a :: r =>
    match restore_value a (opt_nil (lookup a (o_attrs o))), collect_rest o r with
    | Some v, Some vs => Some (v :: vs)
    | _, _ => None
    end
  end.

(* one call of the handler on key e; returns the new state and "continue?" *)
Definition handle (ofs : list ofilter) (attrs : list bytes) (count : nat) (id_iter int_prim : bool)
  (st : hstate) (e : entry) : hstate * bool :=
  let f0key := match ofs with o :: _ => f_key (of_f o) | [] => [] end in
  let '(pv, was) := if id_iter then (V_Match, h_was st) else prim_check f0key true ofs (e_val e) (h_was st) in
  let st := HState (h_n st) was (h_items st) (h_last st) (h_more st) (h_err st) in
  match pv with
  | V_Err => (HState (h_n st) was (h_items st) (h_last st) (h_more st) true, false)
  | V_Stop => (st, false)
  | V_Skip => (st, true)
  | V_Match =>
    match sec_check id_iter f0key (e_obj e) true ofs with
    | V_Err => (HState (h_n st) was (h_items st) (h_last st) (h_more st) true, false)
    | V_Stop => (st, false)
    | V_Skip => (st, true)
    | V_Match =>
      if negb (o_avail (e_obj e)) then (st, true)
      else if Nat.eqb (h_n st) count then (HState (h_n st) was (h_items st) (h_last st) true (h_err st), false)
      else
        match attrs with
        | [] =>
          (HState (S (h_n st)) was (Item (o_id (e_obj e)) [] :: h_items st) (e_tail e) (h_more st) (h_err st), true)
        | _ :: rest =>
          let first : option (bytes * bool) :=   (* value, error flag raised but scan goes on *)
            if int_prim then
              match restore_int (e_val e) with Some v => Some (v, false) | None => None end
            else
              match restore_value f0key (e_val e) with
              | Some v => Some (v, false)
              | None => Some ([], true)
              end in
          match first with
          | None => (HState (h_n st) was (h_items st) (h_last st) (h_more st) true, false)
          | Some (v0, e0) =>
            match collect_rest (e_obj e) rest with
            | None => (HState (h_n st) was (h_items st) (h_last st) (h_more st) true, false)
            | Some vs =>
              (HState (S (h_n st)) was (Item (o_id (e_obj e)) (v0 :: vs) :: h_items st) (e_tail e)
                      (h_more st) (h_err st || e0), true)
            end
          end
        end
    end
  end.

Fixpoint scan (ofs : list ofilter) (attrs : list bytes) (count : nat) (id_iter int_prim : bool)
  (st : hstate) (l : list entry) : hstate :=
  match l with
  | [] => st
  | e :: r =>
    let '(st', cont) := handle ofs attrs count id_iter int_prim st e in
    if cont then scan ofs attrs count id_iter int_prim st' r else st'
  end.

(* result of one Search call *)
Inductive sres :=
| R_Page (items : list item) (cursor : option bytes)
| R_Error       (* Search returned an error *)
| R_Rejected    (* PreprocessSearchQuery returned an error *)
| R_Unreachable.

(* cursor bytes = key without its first byte *)
Definition cursor_bytes (c : scursor) (tail : bytes) : bytes :=
  match sc_kind c with
  | K_ID => tail
  | _ => sc_attr c ++ delim ++ tail
  end.

(* searchTx *)
Definition search_filtered (objs : list obj) (ofs : list ofilter) (attrs : list bytes) (c : scursor) (count : nat) : sres :=
  let primM := match ofs with o :: _ => fst (convert_filter (of_f o)) | [] => M_UNSPEC end in
  let id_iter := match attrs with [] => true | _ => matcher_eqb primM M_NOT_PRESENT end in
  let l := seek_after (sc_seek c) (index_of (sc_kind c) (sc_attr c) objs) in
  let st := scan ofs attrs count id_iter (is_int_op primM) h0 l in
  if h_err st then R_Error
  else R_Page (rev (h_items st)) (if h_more st then Some (cursor_bytes c (h_last st)) else None).

(* searchUnfiltered *)
Fixpoint scan_unfiltered (count n : nat) (acc : list item) (last : bytes) (l : list entry) : list item * option bytes :=
  match l with
  | [] => (rev acc, None)
  | e :: r =>
    if Nat.eqb n count then (rev acc, Some last)
    else if o_avail (e_obj e) then scan_unfiltered count (S n) (Item (o_id (e_obj e)) [] :: acc) (o_id (e_obj e)) r
    else scan_unfiltered count n acc last r
  end.

Definition search_unfiltered (objs : list obj) (c : scursor) (count : nat) : sres :=
  let '(its, cur) := scan_unfiltered count 0 [] [] (seek_after (sc_seek c) (index_of K_ID [] objs)) in
  R_Page its cur.

(* PreprocessSearchQuery + DB.Search *)
Definition search (objs : list obj) (fs : list filter) (attrs : list bytes) (cursor : option bytes) (count : nat) : sres :=
  match preprocess fs attrs cursor with
  | P_Err => R_Rejected
  | P_Unreach => R_Unreachable
  | P_Ok (ofs, c) =>
    match fs with
    | [] => search_unfiltered objs c count
    | _ => search_filtered objs ofs attrs c count
    end
  end.

(* following the cursor until it is empty; the list of results, last first *)
Fixpoint search_all (fuel : nat) (objs : list obj) (fs : list filter) (attrs : list bytes)
  (cursor : option bytes) (count : nat) : list sres :=
  match fuel with
  | O => []
  | S f =>
    let r := search objs fs attrs cursor count in
    match r with
    | R_Page _ (Some c) => r :: search_all f objs fs attrs (Some c) count
    | _ => [r]
    end
  end.

(* ---------- reference: filter, sort, page ---------- *)

(* does object o satisfy filter f (no index, no scan state) *)
Definition sat (f : filter) (o : obj) : option bool :=
  let '(m, val) := convert_filter f in
  (* absence of a header field ("$Object:..." key) is never satisfied by definition of the API *)
  if matcher_eqb m M_NOT_PRESENT && is_prefix obj_prefix (f_key f) then Some false else
  match lookup (f_key f) (o_attrs o) with
  | None => Some (matcher_eqb m M_NOT_PRESENT)
  | Some dv =>
    if matcher_eqb m M_NOT_PRESENT then Some false
    else if is_int_op m then
      match spec_read dv, spec_parse val with
      | Some z, Some fv => Some (cmp_matches (S256.val z ?= fv)%Z m)
      | None, Some _ => Some false
      | _, None => None              (* not a valid numeric filter *)
      end
    else match combine_values (f_key f) dv val with
         | None => None
         | Some (a, b) => Some (match_values a m b)
         end
  end.

Fixpoint sat_all (fs : list filter) (o : obj) : bool :=
  match fs with
  | [] => true
  | f :: r => match sat f o with Some true => sat_all r o | _ => false end
  end.

(* ordering key of a matching object: numeric value of the primary attribute
   for numeric primary matchers, its raw bytes otherwise, nothing when the
   result is ordered by ID only *)
Inductive okey := OK_None | OK_Int (z : Z) | OK_Bytes (b : bytes).

Definition order_key (fs : list filter) (attrs : list bytes) (o : obj) : okey :=
  match fs, attrs with
  | f0 :: _, _ :: _ =>
    let m := fst (convert_filter f0) in
    if matcher_eqb m M_NOT_PRESENT then OK_None
    else match lookup (f_key f0) (o_attrs o) with
         | None => OK_None
         | Some dv => if is_int_op m
                      then match spec_read dv with Some z => OK_Int (val z) | None => OK_None end
                      else OK_Bytes dv
         end
  | _, _ => OK_None
  end.

Definition okey_compare (a b : okey) : comparison :=
  match a, b with
  | OK_Int x, OK_Int y => (x ?= y)%Z
  | OK_Bytes x, OK_Bytes y => lex_compare x y
  | _, _ => Eq
  end.

Definition ref_le (fs : list filter) (attrs : list bytes) (a b : obj) : bool :=
  match okey_compare (order_key fs attrs a) (order_key fs attrs b) with
  | Lt => true
  | Gt => false
  | Eq => match lex_compare (o_id a) (o_id b) with Gt => false | _ => true end
  end.

Fixpoint ref_insert (le : obj -> obj -> bool) (x : obj) (l : list obj) : list obj :=
  match l with
  | [] => [x]
  | y :: r => if le x y then x :: l else y :: ref_insert le x r
  end.
Definition ref_sort (le : obj -> obj -> bool) (l : list obj) : list obj := fold_right (ref_insert le) [] l.

(* requested attribute values of a matching object *)
Definition ref_item (fs : list filter) (attrs : list bytes) (o : obj) : item :=
  match attrs with
  | [] => Item (o_id o) []
  | a0 :: rest =>
    let v0 :=
      match order_key fs attrs o with
      | OK_Int z => to_string (of_Z z)
      | OK_Bytes b => opt_nil (restore_value a0 b)
      | OK_None => opt_nil (restore_value a0 [])
      end in
    Item (o_id o) (v0 :: map (fun a => opt_nil (restore_value a (opt_nil (lookup a (o_attrs o))))) rest)
  end.

Definition ref_search (objs : list obj) (fs : list filter) (attrs : list bytes) : list item :=
  map (ref_item fs attrs)
      (ref_sort (ref_le fs attrs) (List.filter (fun o => o_avail o && sat_all fs o) objs)).

End WithCodecs.
