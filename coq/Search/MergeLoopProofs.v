(* C04: correctness of the k-way merge loop of MergeSearchResults (model
   Search/MergeLoop.v).

   Generic part (Section Generic): for any universe U of result items in which
   an ID determines the item (overlapping copies of one object carry the same
   value), and any "stored value" function rawv such that the comparator the
   loop uses agrees with byte order of the stored values (hypothesis `agree`),
   merging strictly index-ordered sets gives the first `lim` items of their
   sorted de-duplicated union, with the `more` flag as computed.  Then the page
   form: when every set is the first `lim` items of its shard's list with the
   flag "the shard has more", the result is the first `lim` items of the union
   of the shards' full lists and `more` is exact. *)
From Coq Require Import List NArith ZArith Bool Arith Lia Permutation.
Import ListNotations.
From NV Require Import Gen.S256Consts Gen.SearchConsts S256.S256 S256.BytesProofs Search.Search Search.MergeLoop.
Local Open Scope N_scope.

(* ---------- byte strings ---------- *)

Lemma lex_compare_eq a : forall b, lex_compare a b = Eq -> a = b.
Proof.
  induction a as [|x a IH]; intros [|y b]; cbn [lex_compare]; try discriminate; [reflexivity|].
  destruct (N.compare_spec x y) as [E|L|G]; try discriminate.
  intros H. subst. f_equal. now apply IH.
Qed.

Lemma lex_compare_trans a : forall b c, lex_compare a b = Lt -> lex_compare b c = Lt -> lex_compare a c = Lt.
Proof.
  induction a as [|x a IH]; intros [|y b] [|z c]; cbn [lex_compare]; try discriminate; try reflexivity.
  destruct (N.compare_spec x y) as [E|L|G]; try discriminate;
  destruct (N.compare_spec y z) as [E'|L'|G']; try discriminate; intros H1 H2.
  - subst. rewrite N.compare_refl. eapply IH; eauto.
  - subst. apply N.compare_lt_iff in L'. now rewrite L'.
  - subst. apply N.compare_lt_iff in L. now rewrite L.
  - assert (x < z) as H by lia. apply N.compare_lt_iff in H. now rewrite H.
Qed.

Lemma bytes_eqb_iff a : forall b, bytes_eqb a b = true <-> a = b.
Proof.
  induction a as [|x a IH]; intros [|y b]; cbn [bytes_eqb]; try (split; congruence).
  rewrite andb_true_iff, N.eqb_eq, IH. split; [intros [-> ->]; reflexivity|intros H; injection H; auto].
Qed.

Lemma bytes_eqb_false a b : bytes_eqb a b = false <-> a <> b.
Proof.
  rewrite <- (bytes_eqb_iff a b). destruct (bytes_eqb a b); split; congruence.
Qed.

Lemma firstn_min {A} (l : list A) n : firstn (Nat.min (length l) n) l = firstn n l.
Proof.
  destruct (Nat.le_ge_cases n (length l)) as [H|H].
  - now rewrite Nat.min_r.
  - rewrite Nat.min_l by exact H. rewrite firstn_all. symmetry. now apply firstn_all2.
Qed.

(* ---------- the generic merge theorem ---------- *)

Section Generic.
Variable dec_oid dec_usr : bytes -> option bytes.
Variable first_attr : bytes.
Variable cmp_int : bool.
Variable U : ritem -> Prop.          (* the result items that can occur *)
Variable rawv : ritem -> bytes.      (* stored value of the primary attribute (value part of the index key) *)

(* index order: (stored value, ID) *)
Definition icmp (a b : ritem) : comparison :=
  match lex_compare (rawv a) (rawv b) with
  | Eq => lex_compare (r_id a) (r_id b)
  | c => c
  end.

Hypothesis id_inj : forall a b, U a -> U b -> r_id a = r_id b -> a = b.
Hypothesis agree : forall a b, U a -> U b -> r_id a <> r_id b ->
  attr_cmp dec_oid dec_usr first_attr cmp_int (r_attr a) (r_attr b) = Some (lex_compare (rawv a) (rawv b)).
Hypothesis precheck : forall a, U a -> cmp_int = true -> split_int_string (r_attr a) <> None.

Lemma icmp_refl a : icmp a a = Eq.
Proof. unfold icmp. now rewrite !lex_compare_refl. Qed.

Lemma icmp_eq a b : U a -> U b -> icmp a b = Eq -> a = b.
Proof.
  unfold icmp. intros Ha Hb H. destruct (lex_compare (rawv a) (rawv b)) eqn:E; try discriminate.
  apply lex_compare_eq in H. now apply id_inj.
Qed.

Lemma icmp_antisym a b : icmp b a = CompOpp (icmp a b).
Proof.
  unfold icmp. rewrite (lex_compare_antisym (rawv a) (rawv b)), (lex_compare_antisym (r_id a) (r_id b)).
  destruct (lex_compare (rawv a) (rawv b)); reflexivity.
Qed.

Lemma icmp_trans a b c : icmp a b = Lt -> icmp b c = Lt -> icmp a c = Lt.
Proof.
  unfold icmp.
  destruct (lex_compare (rawv a) (rawv b)) eqn:E1; try discriminate;
  destruct (lex_compare (rawv b) (rawv c)) eqn:E2; try discriminate; intros H1 H2.
  - apply lex_compare_eq in E1, E2. rewrite E1, E2, lex_compare_refl. eapply lex_compare_trans; eauto.
  - apply lex_compare_eq in E1. now rewrite E1, E2.
  - apply lex_compare_eq in E2. now rewrite <- E2, E1.
  - now rewrite (lex_compare_trans _ _ _ E1 E2).
Qed.

Definition ile (a b : ritem) : Prop := icmp a b <> Gt.

Lemma ile_refl a : ile a a.
Proof. unfold ile. rewrite icmp_refl. discriminate. Qed.

Lemma ile_lt a b : icmp a b = Lt -> ile a b.
Proof. unfold ile. congruence. Qed.

Lemma ile_trans a b c : U a -> U b -> U c -> ile a b -> ile b c -> ile a c.
Proof.
  unfold ile. intros Ha Hb Hc H1 H2.
  destruct (icmp a b) eqn:E1; [|clear H1|congruence].
  - apply icmp_eq in E1; auto. now subst.
  - destruct (icmp b c) eqn:E2; [| |congruence].
    + apply icmp_eq in E2; auto. subst. congruence.
    + rewrite (icmp_trans _ _ _ E1 E2). discriminate.
Qed.

Lemma ile_antisym a b : U a -> U b -> ile a b -> ile b a -> a = b.
Proof.
  unfold ile. intros Ha Hb H1 H2. rewrite (icmp_antisym a b) in H2.
  destruct (icmp a b) eqn:E; cbn in H2; try congruence. now apply icmp_eq.
Qed.

Lemma not_ile a b : ~ ile a b -> icmp b a = Lt.
Proof.
  unfold ile. intros H. rewrite icmp_antisym. destruct (icmp a b); try (exfalso; apply H; discriminate). reflexivity.
Qed.

(* strictly sorted in index order *)
Fixpoint ssorted (l : list ritem) : Prop :=
  match l with
  | [] => True
  | x :: r => Forall (fun y => icmp x y = Lt) r /\ ssorted r
  end.

Definition good (s : list ritem) : Prop := Forall U s /\ ssorted s.
Definition Inv (sets : list (list ritem)) : Prop := Forall good sets.

Lemma ssorted_notin x r : ssorted (x :: r) -> ~ In x r.
Proof.
  intros [H _] Hin. rewrite Forall_forall in H. specialize (H _ Hin). rewrite icmp_refl in H. discriminate.
Qed.

Lemma ssorted_NoDup l : ssorted l -> NoDup l.
Proof.
  induction l as [|x r IH]; intros H; constructor.
  - now apply ssorted_notin.
  - apply IH, H.
Qed.

Lemma good_tl x r : good (x :: r) -> good r.
Proof. intros [HU [_ Hs]]. split; [now inversion HU|exact Hs]. Qed.

(* a strictly sorted list is determined by its elements *)
Lemma ssorted_unique l : forall l', Forall U l -> Forall U l' -> ssorted l -> ssorted l' ->
  (forall y, In y l <-> In y l') -> l = l'.
Proof.
  induction l as [|x r IH]; intros [|x' r'] HU HU' Hs Hs' Hi.
  - reflexivity.
  - exfalso. apply (proj2 (Hi x')). now left.
  - exfalso. apply (proj1 (Hi x)). now left.
  - assert (x = x') as ->.
    { apply ile_antisym; [now inversion HU|now inversion HU'| |].
      - destruct (proj2 (Hi x') (or_introl eq_refl)) as [->|Hin]; [apply ile_refl|].
        apply ile_lt. destruct Hs as [Hf _]. rewrite Forall_forall in Hf. now apply Hf.
      - destruct (proj1 (Hi x) (or_introl eq_refl)) as [->|Hin]; [apply ile_refl|].
        apply ile_lt. destruct Hs' as [Hf _]. rewrite Forall_forall in Hf. now apply Hf. }
    f_equal. apply IH; [now inversion HU|now inversion HU'|apply Hs|apply Hs'|].
    intros y. split; intros Hy.
    + destruct (proj1 (Hi y) (or_intror Hy)) as [->|]; [|assumption].
      exfalso. now apply (ssorted_notin _ _ Hs).
    + destruct (proj2 (Hi y) (or_intror Hy)) as [->|]; [|assumption].
      exfalso. now apply (ssorted_notin _ _ Hs').
Qed.

(* ---------- the reference: sorted union without duplicates ---------- *)

Fixpoint uinsert (x : ritem) (l : list ritem) : list ritem :=
  match l with
  | [] => [x]
  | y :: r => match icmp x y with
              | Lt => x :: l
              | Eq => l
              | Gt => y :: uinsert x r
              end
  end.
Definition usort (l : list ritem) : list ritem := fold_right uinsert [] l.
Definition union (sets : list (list ritem)) : list ritem := usort (concat sets).

Lemma uinsert_in x l : U x -> Forall U l -> forall y, In y (uinsert x l) <-> y = x \/ In y l.
Proof.
  intros Hx. induction l as [|z r IH]; intros HU y; cbn [uinsert].
  - cbn. intuition.
  - destruct (icmp x z) eqn:E.
    + apply icmp_eq in E; [|assumption|now inversion HU]. subst. cbn. intuition.
    + cbn. intuition.
    + cbn [In]. rewrite IH by now inversion HU. intuition.
Qed.

Lemma uinsert_sorted x l : U x -> Forall U l -> ssorted l -> ssorted (uinsert x l).
Proof.
  intros Hx. induction l as [|z r IH]; intros HU Hs; cbn [uinsert].
  - cbn. auto.
  - destruct (icmp x z) eqn:E.
    + exact Hs.
    + cbn [ssorted]. split; [|exact Hs]. constructor; [exact E|].
      destruct Hs as [Hf _]. rewrite Forall_forall in Hf |- *. intros y Hy. eapply icmp_trans; eauto.
    + cbn [ssorted]. destruct Hs as [Hf Hs]. split; [|apply IH; [now inversion HU|exact Hs]].
      rewrite Forall_forall in Hf |- *. intros y Hy. apply uinsert_in in Hy; [|assumption|now inversion HU].
      destruct Hy as [->|Hy]; [|now apply Hf]. rewrite icmp_antisym, E. reflexivity.
Qed.

Lemma usort_spec l : Forall U l ->
  Forall U (usort l) /\ ssorted (usort l) /\ forall y, In y (usort l) <-> In y l.
Proof.
  induction l as [|x r IH]; intros HU; cbn [usort fold_right].
  - cbn. intuition.
  - inversion HU as [|? ? Hx Hr]; subst. destruct (IH Hr) as (I1 & I2 & I3). fold (usort r).
    split; [|split].
    + rewrite Forall_forall. intros y Hy. apply uinsert_in in Hy; auto. destruct Hy as [->|Hy]; [assumption|].
      rewrite Forall_forall in I1. now apply I1.
    + now apply uinsert_sorted.
    + intros y. rewrite uinsert_in by assumption. cbn [In]. rewrite I3. intuition.
Qed.

Lemma Inv_concat sets : Inv sets -> Forall U (concat sets).
Proof.
  induction sets as [|s r IH]; intros H; cbn [concat]; [constructor|].
  inversion H as [|? ? [Hs _] Hr]; subst. apply Forall_app. split; [assumption|now apply IH].
Qed.

Lemma union_spec sets : Inv sets ->
  Forall U (union sets) /\ ssorted (union sets) /\ forall y, In y (union sets) <-> In y (concat sets).
Proof. intros H. apply usort_spec, Inv_concat, H. Qed.

Lemma union_unique sets u : Inv sets -> Forall U u -> ssorted u -> (forall y, In y u <-> In y (concat sets)) ->
  u = union sets.
Proof.
  intros HI HU Hs Hi. destruct (union_spec sets HI) as (I1 & I2 & I3).
  apply ssorted_unique; auto. intros y. now rewrite Hi, I3.
Qed.

Lemma union_single s : good s -> union [s] = s.
Proof.
  intros [HU Hs]. symmetry. apply union_unique; auto.
  - constructor; [split; assumption|constructor].
  - intros y. cbn [concat]. now rewrite app_nil_r.
Qed.


(* ---------- the inner loop: selection of the minimal head ---------- *)

Notation sel_step' := (sel_step dec_oid dec_usr first_attr cmp_int).
Notation select_from' := (select_from dec_oid dec_usr first_attr cmp_int).

Definition inj (o : option (nat * ritem)) : sel :=
  match o with None => S_None | Some (i, x) => S_Min i x end.

Definition is_lt (c : comparison) : bool := match c with Lt => true | _ => false end.

Lemma sel_step_min mi m i x t : U m -> U x ->
  sel_step' (S_Min mi m) i (x :: t) = if is_lt (icmp x m) then S_Min i x else S_Min mi m.
Proof.
  intros Hm Hx. cbn [sel_step].
  destruct (lex_compare (r_id x) (r_id m)) eqn:Eid.
  - apply lex_compare_eq in Eid. assert (x = m) as -> by (apply id_inj; auto).
    now rewrite icmp_refl.
  - assert (r_id x <> r_id m) as Hne by (intros E; rewrite E, lex_compare_refl in Eid; discriminate).
    rewrite (agree x m Hx Hm Hne). unfold icmp. rewrite Eid.
    destruct (lex_compare (rawv x) (rawv m)); reflexivity.
  - assert (r_id x <> r_id m) as Hne by (intros E; rewrite E, lex_compare_refl in Eid; discriminate).
    rewrite (agree x m Hx Hm Hne). unfold icmp. rewrite Eid.
    destruct (lex_compare (rawv x) (rawv m)); reflexivity.
Qed.

Lemma sel_step_none i x t : U x -> sel_step' S_None i (x :: t) = S_Min i x.
Proof.
  intros Hx. cbn [sel_step]. pose proof (precheck x Hx) as H. destruct cmp_int; [|reflexivity].
  specialize (H eq_refl). destruct (split_int_string (r_attr x)); [reflexivity|congruence].
Qed.

Definition accU (acc : option (nat * ritem)) : Prop := match acc with Some (_, m) => U m | None => True end.

Lemma select_from_spec : forall sets i acc, Forall (Forall U) sets -> accU acc ->
  exists res, select_from' i (inj acc) sets = inj res /\
    match res with
    | None => acc = None /\ Forall (fun s => s = []) sets
    | Some (mi, m) =>
      U m /\
      (acc = Some (mi, m) \/ (exists t, nth_error sets (mi - i) = Some (m :: t) /\ (i <= mi)%nat)) /\
      (forall mi0 m0, acc = Some (mi0, m0) -> ile m m0) /\
      (forall s y t, In s sets -> s = y :: t -> ile m y)
    end.
Proof.
  induction sets as [|s r IH]; intros i acc HU Hacc; cbn [select_from].
  - exists acc. split; [reflexivity|]. destruct acc as [[mi m]|].
    + cbn in Hacc. repeat split; auto.
      * intros mi0 m0 E. injection E as <- <-. apply ile_refl.
      * intros s y t [].
    + split; [reflexivity|constructor].
  - inversion HU as [|? ? Hs Hr]; subst. destruct s as [|x t].
    + assert (sel_step' (inj acc) i [] = inj acc) as -> by (destruct acc as [[? ?]|]; reflexivity).
      destruct (IH (S i) acc Hr Hacc) as (res & E & P). exists res. split; [exact E|].
      destruct res as [[mi m]|].
      * destruct P as (P1 & P2 & P3 & P4). repeat split; auto.
        -- destruct P2 as [P2|(t & P2 & Hle)]; [now left|right]. exists t. split; [|lia].
           replace (mi - i)%nat with (S (mi - S i)) by lia. exact P2.
        -- intros s y t [<-|Hin] Es; [discriminate|]. eapply P4; eauto.
      * destruct P as [P1 P2]. split; [exact P1|]. constructor; [reflexivity|exact P2].
    + assert (U x) as Hx by now inversion Hs.
      destruct acc as [[mi0 m0]|].
      * cbn in Hacc. cbn [inj]. rewrite (sel_step_min mi0 m0 i x t Hacc Hx).
        destruct (is_lt (icmp x m0)) eqn:El.
        -- destruct (IH (S i) (Some (i, x)) Hr Hx) as (res & E & P). exists res. split; [exact E|].
           destruct res as [[mi m]|]; [|destruct P as [P _]; discriminate].
           destruct P as (P1 & P2 & P3 & P4).
           assert (ile m x) as Hmx by (eapply P3; reflexivity).
           assert (ile x m0) as Hxm by (apply ile_lt; destruct (icmp x m0); try discriminate; reflexivity).
           repeat split; auto.
           ++ right. destruct P2 as [P2|(t' & P2 & Hle)].
              ** injection P2 as <- <-. exists t. rewrite Nat.sub_diag. split; [reflexivity|lia].
              ** exists t'. split; [|lia]. replace (mi - i)%nat with (S (mi - S i)) by lia. exact P2.
           ++ intros mi1 m1 E1. injection E1 as <- <-. apply (ile_trans m x m0 P1 Hx Hacc Hmx Hxm).
           ++ intros s y t' [<-|Hin] Es; [injection Es as <- <-; exact Hmx|]. eapply P4; eauto.
        -- destruct (IH (S i) (Some (mi0, m0)) Hr Hacc) as (res & E & P). exists res. split; [exact E|].
           destruct res as [[mi m]|]; [|destruct P as [P _]; discriminate].
           destruct P as (P1 & P2 & P3 & P4).
           assert (ile m m0) as Hmm by (eapply P3; reflexivity).
           assert (ile m0 x) as Hmx.
           { unfold ile. rewrite icmp_antisym. destruct (icmp x m0); cbn; try discriminate. }
           repeat split; auto.
           ++ destruct P2 as [P2|(t' & P2 & Hle)]; [now left|right].
              exists t'. split; [|lia]. replace (mi - i)%nat with (S (mi - S i)) by lia. exact P2.
           ++ intros s y t' [<-|Hin] Es; [injection Es as <- <-; apply (ile_trans m m0 x P1 Hacc Hx Hmm Hmx)|]. eapply P4; eauto.
      * cbn [inj]. rewrite (sel_step_none i x t Hx).
        destruct (IH (S i) (Some (i, x)) Hr Hx) as (res & E & P). exists res. split; [exact E|].
        destruct res as [[mi m]|]; [|destruct P as [P _]; discriminate].
        destruct P as (P1 & P2 & P3 & P4).
        assert (ile m x) as Hmx by (eapply P3; reflexivity).
        repeat split; auto.
        -- right. destruct P2 as [P2|(t' & P2 & Hle)].
           ++ injection P2 as <- <-. exists t. rewrite Nat.sub_diag. split; [reflexivity|lia].
           ++ exists t'. split; [|lia]. replace (mi - i)%nat with (S (mi - S i)) by lia. exact P2.
        -- intros mi1 m1 E1. discriminate.
        -- intros s y t' [<-|Hin] Es; [injection Es as <- <-; exact Hmx|]. eapply P4; eauto.
Qed.

Lemma Inv_U sets : Inv sets -> Forall (Forall U) sets.
Proof. intros H. eapply Forall_impl; [|exact H]. intros s [Hs _]. exact Hs. Qed.

Lemma sorted_head_le y t z : good (y :: t) -> In z (y :: t) -> ile y z.
Proof.
  intros [_ [Hf _]] [<-|Hin]; [apply ile_refl|]. apply ile_lt. rewrite Forall_forall in Hf. now apply Hf.
Qed.

Lemma select_top sets : Inv sets ->
  (Forall (fun s => s = []) sets /\ select_from' 0 S_None sets = S_None) \/
  (exists mi m t, select_from' 0 S_None sets = S_Min mi m /\ nth_error sets mi = Some (m :: t) /\ U m /\
                  forall y, In y (concat sets) -> ile m y).
Proof.
  intros HI. destruct (select_from_spec sets 0 None (Inv_U _ HI) I) as (res & E & P). cbn [inj] in E.
  destruct res as [[mi m]|].
  - right. destruct P as (P1 & P2 & _ & P4). destruct P2 as [P2|(t & P2 & _)]; [discriminate|].
    rewrite Nat.sub_0_r in P2. exists mi, m, t. repeat split; auto.
    intros y Hy. apply in_concat in Hy. destruct Hy as (s & Hs & Hy).
    unfold Inv in HI. rewrite Forall_forall in HI. pose proof (HI s Hs) as Hg.
    destruct s as [|h t']; [destruct Hy|].
    assert (ile m h) as H1 by (eapply P4; eauto).
    assert (ile h y) as H2 by (eapply sorted_head_le; eauto).
    destruct Hg as [HUs _]. rewrite Forall_forall in HUs.
    apply (ile_trans m h y P1 (HUs h (or_introl eq_refl)) (HUs y Hy) H1 H2).
  - left. destruct P as [_ P]. split; [exact P|exact E].
Qed.

(* ---------- removal of the selected item from every set ---------- *)

Definition pop (id : bytes) (s : list ritem) : list ritem :=
  match s with
  | y :: r => if bytes_eqb (r_id y) id then r else s
  | [] => []
  end.

Lemma drop_through_none id s : (forall z, In z s -> r_id z <> id) -> drop_through id s = None.
Proof.
  induction s as [|y r IH]; intros H; cbn [drop_through]; [reflexivity|].
  assert (bytes_eqb (r_id y) id = false) as -> by (apply bytes_eqb_false, H; now left).
  apply IH. intros z Hz. apply H. now right.
Qed.

Lemma min_notin_tail m y r : U m -> good (y :: r) -> ile m y -> ~ In m r.
Proof.
  intros Hm [_ [Hf _]] Hle Hin. rewrite Forall_forall in Hf. specialize (Hf _ Hin).
  unfold ile in Hle. rewrite icmp_antisym, Hf in Hle. now apply Hle.
Qed.

Lemma pop_spec m s : U m -> good s -> (forall y, In y s -> ile m y) ->
  (forall y, In y (pop (r_id m) s) <-> In y s /\ y <> m) /\ good (pop (r_id m) s) /\
  match drop_through (r_id m) s with Some s' => s' | None => s end = pop (r_id m) s /\
  (hd_error s = Some m -> tl s = pop (r_id m) s) /\
  existsb (fun y => negb (bytes_eqb (r_id y) (r_id m))) s = match pop (r_id m) s with [] => false | _ => true end.
Proof.
  intros Hm Hg Hle. destruct s as [|y r].
  - cbn. repeat split; auto; try tauto; try discriminate.
  - assert (U y) as Hy by (destruct Hg as [HU _]; now inversion HU).
    assert (~ In m r) as Hnr by (eapply min_notin_tail; eauto; apply Hle; now left).
    assert (forall z, In z r -> r_id z <> r_id m) as Hids.
    { intros z Hz E. destruct Hg as [HU _]. rewrite Forall_forall in HU.
      assert (z = m) by (apply id_inj; auto; apply HU; now right). now subst. }
    cbn [pop drop_through hd_error tl existsb]. destruct (bytes_eqb (r_id y) (r_id m)) eqn:Eb.
    + apply bytes_eqb_iff in Eb. assert (y = m) as -> by (apply id_inj; auto).
      split; [|split; [|split; [|split]]].
      * intros z. split.
        -- intros Hz. split; [now right|]. intros ->. contradiction.
        -- intros [[->|Hz] Hn]; [contradiction|exact Hz].
      * apply (good_tl _ _ Hg).
      * reflexivity.
      * reflexivity.
      * cbn [negb orb]. destruct r as [|z r']; [reflexivity|]. cbn [existsb].
        assert (bytes_eqb (r_id z) (r_id m) = false) as -> by (apply bytes_eqb_false, Hids; now left).
        reflexivity.
    + apply bytes_eqb_false in Eb.
      split; [|split; [|split; [|split]]].
      * intros z. split.
        -- intros Hz. split; [exact Hz|]. intros ->. destruct Hz as [->|Hz]; [congruence|contradiction].
        -- tauto.
      * exact Hg.
      * now rewrite (drop_through_none _ _ Hids).
      * intros E. injection E as ->. congruence.
      * reflexivity.
Qed.

Lemma advance_spec m mi : forall sets i, U m -> Inv sets -> (forall y, In y (concat sets) -> ile m y) ->
  (forall k s, nth_error sets k = Some s -> (i + k)%nat = mi -> hd_error s = Some m) ->
  advance_from i mi m sets = map (pop (r_id m)) sets.
Proof.
  induction sets as [|s r IH]; intros i Hm HI Hle Hhd; cbn [advance_from map]; [reflexivity|].
  inversion HI as [|? ? Hg Hr]; subst.
  assert (forall y, In y s -> ile m y) as Hles by (intros y Hy; apply Hle; cbn [concat]; apply in_or_app; now left).
  destruct (pop_spec m s Hm Hg Hles) as (_ & _ & P3 & P4 & _).
  f_equal.
  - destruct (Nat.eqb_spec i mi) as [E|NE].
    + apply P4. apply (Hhd 0%nat s eq_refl). lia.
    + exact P3.
  - apply IH; auto.
    + intros y Hy. apply Hle. cbn [concat]. apply in_or_app. now right.
    + intros k s' Hk E. apply (Hhd (S k) s' Hk). lia.
Qed.

Definition nonempty (sets : list (list ritem)) : bool :=
  existsb (fun s => match s with [] => false | _ => true end) sets.

Lemma other_spec m mi : forall sets i, U m -> Inv sets -> (forall y, In y (concat sets) -> ile m y) ->
  (forall k s, nth_error sets k = Some s -> (i + k)%nat = mi -> hd_error s = Some m) ->
  (Nat.leb i mi && Nat.ltb 1 (length (nth (mi - i) sets []))) || other_from i mi m sets
  = nonempty (map (pop (r_id m)) sets).
Proof.
  induction sets as [|s r IH]; intros i Hm HI Hle Hhd.
  - cbn. destruct (mi - i)%nat; now rewrite andb_false_r.
  - inversion HI as [|? ? Hg Hr]; subst.
    assert (forall y, In y s -> ile m y) as Hles by (intros y Hy; apply Hle; cbn [concat]; apply in_or_app; now left).
    destruct (pop_spec m s Hm Hg Hles) as (_ & _ & _ & P4 & P5).
    assert (forall y, In y (concat r) -> ile m y) as Hler by (intros y Hy; apply Hle; cbn [concat]; apply in_or_app; now right).
    assert (forall k s', nth_error r k = Some s' -> (S i + k)%nat = mi -> hd_error s' = Some m) as Hhdr
      by (intros k s' Hk E; apply (Hhd (S k) s' Hk); lia).
    specialize (IH (S i) Hm Hr Hler Hhdr).
    cbn [other_from map nonempty existsb]. fold (nonempty (map (pop (r_id m)) r)). rewrite <- IH.
    destruct (Nat.eqb_spec i mi) as [E|NE].
    + subst i. rewrite Nat.sub_diag, Nat.leb_refl. cbn [nth negb andb orb].
      assert (Nat.leb (S mi) mi = false) as -> by (apply Nat.leb_gt; lia). cbn [andb orb].
      rewrite <- (P4 (Hhd 0%nat s eq_refl ltac:(lia))).
      destruct s as [|a [|b t]]; reflexivity.
    + cbn [negb andb]. rewrite P5.
      destruct (Nat.leb_spec i mi) as [L|G].
      * assert (Nat.leb (S i) mi = true) as -> by (apply Nat.leb_le; lia).
        replace (mi - i)%nat with (S (mi - S i)) by lia. cbn [nth andb].
        destruct (Nat.ltb 1 (length (nth (mi - S i) r []))); destruct (pop (r_id m) s); destruct (other_from (S i) mi m r); reflexivity.
      * assert (Nat.leb (S i) mi = false) as -> by (apply Nat.leb_gt; lia). cbn [andb orb].
        destruct (pop (r_id m) s); reflexivity.
Qed.


(* ---------- one step of the outer loop on the reference ---------- *)

Lemma pop_all m : forall sets, U m -> Inv sets -> (forall y, In y (concat sets) -> ile m y) ->
  Inv (map (pop (r_id m)) sets) /\
  forall y, In y (concat (map (pop (r_id m)) sets)) <-> In y (concat sets) /\ y <> m.
Proof.
  induction sets as [|s r IH]; intros Hm HI Hle; cbn [map concat].
  - split; [constructor|]. intros y. cbn. tauto.
  - inversion HI as [|? ? Hg Hr]; subst.
    assert (forall y, In y s -> ile m y) as Hles by (intros y Hy; apply Hle; cbn [concat]; apply in_or_app; now left).
    assert (forall y, In y (concat r) -> ile m y) as Hler by (intros y Hy; apply Hle; cbn [concat]; apply in_or_app; now right).
    destruct (pop_spec m s Hm Hg Hles) as (P1 & P2 & _).
    destruct (IH Hm Hr Hler) as (I1 & I2).
    split; [constructor; assumption|].
    intros y. rewrite !in_app_iff, P1, I2. tauto.
Qed.

Lemma union_step m sets : U m -> Inv sets -> In m (concat sets) -> (forall y, In y (concat sets) -> ile m y) ->
  union sets = m :: union (map (pop (r_id m)) sets).
Proof.
  intros Hm HI Hin Hle. destruct (pop_all m sets Hm HI Hle) as (HI' & Hp).
  destruct (union_spec _ HI') as (V1 & V2 & V3).
  symmetry. apply union_unique; auto.
  - cbn [ssorted]. split; [|exact V2]. rewrite Forall_forall. intros y Hy.
    apply V3, Hp in Hy. destruct Hy as [Hy Hne].
    pose proof (Hle y Hy) as Hl. unfold ile in Hl.
    destruct (icmp m y) eqn:E; [|reflexivity|congruence].
    exfalso. apply Hne. symmetry. apply icmp_eq; auto.
    pose proof (Inv_concat _ HI) as HU. rewrite Forall_forall in HU. now apply HU.
  - intros y. cbn [In]. rewrite V3, Hp. split.
    + intros [<-|[Hy _]]; assumption.
    + intros Hy. destruct (icmp m y) eqn:E.
      * left. apply icmp_eq; auto.
        pose proof (Inv_concat _ HI) as HU. rewrite Forall_forall in HU. now apply HU.
      * right. split; [exact Hy|]. intros ->. rewrite icmp_refl in E. discriminate.
      * right. split; [exact Hy|]. intros ->. rewrite icmp_refl in E. discriminate.
Qed.

Lemma all_empty_concat (sets : list (list ritem)) : Forall (fun s => s = []) sets -> concat sets = [].
Proof. induction 1 as [|s r -> _ IH]; cbn [concat]; [reflexivity|exact IH]. Qed.

Lemma union_nil_iff sets : Inv sets -> (union sets = [] <-> concat sets = []).
Proof.
  intros HI. destruct (union_spec _ HI) as (_ & _ & V3). split; intros E.
  - destruct (concat sets) as [|y l] eqn:Ec; [reflexivity|].
    exfalso. assert (In y (union sets)) as H by (apply V3; now left). rewrite E in H. destruct H.
  - destruct (union sets) as [|y l] eqn:Eu; [reflexivity|].
    exfalso. assert (In y (concat sets)) as H by (apply V3; now left). rewrite E in H. destruct H.
Qed.

Lemma nonempty_concat (sets : list (list ritem)) : nonempty sets = false <-> concat sets = [].
Proof.
  induction sets as [|s r IH]; cbn [nonempty existsb concat]; [tauto|].
  fold (nonempty r). destruct s as [|y t]; cbn [orb app]; [exact IH|]. split; discriminate.
Qed.

Lemma nonempty_union sets : Inv sets -> nonempty sets = match union sets with [] => false | _ => true end.
Proof.
  intros HI. destruct (union sets) eqn:Eu.
  - apply nonempty_concat, (union_nil_iff _ HI), Eu.
  - destruct (nonempty sets) eqn:En; [reflexivity|].
    apply nonempty_concat, (union_nil_iff _ HI) in En. congruence.
Qed.

Notation mloop' := (mloop dec_oid dec_usr first_attr cmp_int).

Lemma mloop_spec : forall fuel sets n lim mores, Inv sets ->
  (length (union sets) < fuel)%nat -> (n < lim)%nat -> (lim <= n + length (union sets))%nat ->
  mloop' fuel lim n mores sets =
  Some (firstn (lim - n) (union sets), any_true mores || Nat.ltb (lim - n) (length (union sets))).
Proof.
  induction fuel as [|fuel IH]; intros sets n lim mores HI Hf Hn Hl; [lia|].
  cbn [mloop]. destruct (select_top sets HI) as [[Hall E]|(mi & m & t & E & Hnth & Hm & Hle)].
  - apply all_empty_concat, (union_nil_iff _ HI) in Hall. rewrite Hall in Hl. cbn [length] in Hl. lia.
  - rewrite E.
    assert (In m (concat sets)) as Hin.
    { apply in_concat. exists (m :: t). split; [eapply nth_error_In; eauto|now left]. }
    assert (forall k s, nth_error sets k = Some s -> (0 + k)%nat = mi -> hd_error s = Some m) as Hhd.
    { intros k s Hk Ek. cbn in Ek. subst k. rewrite Hnth in Hk. injection Hk as <-. reflexivity. }
    rewrite (union_step m sets Hm HI Hin Hle) in *.
    destruct (pop_all m sets Hm HI Hle) as (HI' & _).
    cbn [length] in Hf, Hl.
    destruct (Nat.eqb_spec (S n) lim) as [En|En].
    + replace (lim - n)%nat with 1%nat by lia. cbn [firstn length]. f_equal. f_equal.
      unfold more_at.
      pose proof (other_spec m mi sets 0 Hm HI Hle Hhd) as Ho.
      rewrite Nat.sub_0_r in Ho. cbn [Nat.leb andb] in Ho.
      rewrite (nonempty_union _ HI') in Ho.
      destruct (union (map (pop (r_id m)) sets)) as [|z u'];
        destruct (Nat.ltb 1 (length (nth mi sets []))); destruct (other_from 0 mi m sets);
        destruct (any_true mores); cbn in Ho |- *; congruence.
    + rewrite (advance_spec m mi sets 0 Hm HI Hle Hhd).
      rewrite (IH _ (S n) lim mores HI') by lia.
      replace (lim - n)%nat with (S (lim - S n)) by lia. cbn [firstn length]. reflexivity.
Qed.

(* ---------- calcMaxUniqueSearchResults ---------- *)

Lemma id_in_spec y prev : U y -> Inv prev -> (id_in (r_id y) prev = true <-> In y (concat prev)).
Proof.
  intros Hy HI. unfold id_in. rewrite existsb_exists. split.
  - intros (s & Hs & He). apply existsb_exists in He. destruct He as (z & Hz & Ez).
    apply bytes_eqb_iff in Ez.
    assert (U z) as HUz.
    { unfold Inv in HI. rewrite Forall_forall in HI. destruct (HI s Hs) as [HU _].
      rewrite Forall_forall in HU. now apply HU. }
    assert (z = y) as -> by (apply id_inj; auto).
    apply in_concat. exists s. split; assumption.
  - intros Hin. apply in_concat in Hin. destruct Hin as (s & Hs & Hys). exists s. split; [exact Hs|].
    apply existsb_exists. exists y. split; [exact Hys|]. now apply bytes_eqb_iff.
Qed.

Definition fresh (prev : list (list ritem)) (y : ritem) : bool := negb (id_in (r_id y) prev).

Lemma cmu_set_spec lim prev : forall s n, (n <= lim)%nat ->
  cmu_set lim prev s n = Nat.min lim (n + length (List.filter (fresh prev) s)).
Proof.
  induction s as [|y r IH]; intros n Hn; cbn [cmu_set List.filter length].
  - lia.
  - destruct (Nat.eqb_spec n lim) as [E|NE]; [lia|].
    unfold fresh at 1. destruct (id_in (r_id y) prev); cbn [negb].
    + apply IH. lia.
    + rewrite IH by lia. cbn [length]. lia.
Qed.

Lemma NoDup_app_intro {A} (a b : list A) : NoDup a -> NoDup b -> (forall x, In x a -> ~ In x b) -> NoDup (a ++ b).
Proof.
  induction a as [|x a IH]; intros Ha Hb Hd; cbn [app]; [exact Hb|].
  inversion Ha as [|? ? Hx Ha']; subst. constructor.
  - rewrite in_app_iff. intros [H|H]; [contradiction|]. apply (Hd x); [now left|exact H].
  - apply IH; auto. intros y Hy. apply Hd. now right.
Qed.

Lemma Inv_app a b : Inv a -> Inv b -> Inv (a ++ b).
Proof. intros Ha Hb. apply Forall_app. split; assumption. Qed.

Lemma union_snoc_length prev s : Inv prev -> good s ->
  length (union (prev ++ [s])) = (length (union prev) + length (List.filter (fresh prev) s))%nat.
Proof.
  intros HI Hg.
  assert (Inv (prev ++ [s])) as HI2 by (apply Inv_app; [exact HI|constructor; [exact Hg|constructor]]).
  destruct (union_spec _ HI) as (_ & V2 & V3). destruct (union_spec _ HI2) as (_ & W2 & W3).
  rewrite <- app_length. apply Permutation_length. apply NoDup_Permutation.
  - apply ssorted_NoDup, W2.
  - apply NoDup_app_intro.
    + apply ssorted_NoDup, V2.
    + apply NoDup_filter, ssorted_NoDup, Hg.
    + intros y Hy Hf. apply filter_In in Hf. destruct Hf as [Hys Hfr].
      apply V3 in Hy. destruct Hg as [HU _]. rewrite Forall_forall in HU.
      apply (id_in_spec y prev (HU y Hys) HI) in Hy. unfold fresh in Hfr. rewrite Hy in Hfr. discriminate.
  - intros y. rewrite W3, concat_app, !in_app_iff, V3, filter_In. cbn [concat]. rewrite app_nil_r.
    split.
    + intros [Hy|Hy]; [now left|].
      destruct (id_in (r_id y) prev) eqn:Ei.
      * left. destruct Hg as [HU _]. rewrite Forall_forall in HU. now apply (id_in_spec y prev (HU y Hy) HI).
      * right. split; [exact Hy|]. unfold fresh. now rewrite Ei.
    + intros [Hy|[Hy _]]; [now left|now right].
Qed.

Lemma cmu_sets_spec lim : forall rest prev n, Inv prev -> Inv rest -> n = Nat.min lim (length (union prev)) ->
  cmu_sets lim prev rest n = Nat.min lim (length (union (prev ++ rest))).
Proof.
  induction rest as [|s r IH]; intros prev n HP HR Hn; cbn [cmu_sets].
  - now rewrite app_nil_r.
  - inversion HR as [|? ? Hg Hr]; subst.
    rewrite (IH (prev ++ [s]) _ (Inv_app _ _ HP (Forall_cons _ Hg (Forall_nil _))) Hr).
    + now rewrite <- app_assoc.
    + rewrite cmu_set_spec by lia. rewrite (union_snoc_length prev s HP Hg). lia.
Qed.

Lemma good_len_union s sets : Inv sets -> In s sets -> (length s <= length (union sets))%nat.
Proof.
  intros HI Hs. destruct (union_spec _ HI) as (_ & _ & V3).
  unfold Inv in HI. rewrite Forall_forall in HI. destruct (HI s Hs) as [_ Hss].
  apply NoDup_incl_length; [apply ssorted_NoDup, Hss|].
  intros y Hy. apply V3, in_concat. exists s. split; assumption.
Qed.

Lemma calc_max_unique_spec lim sets : Inv sets ->
  calc_max_unique lim sets = Nat.min lim (length (union sets)).
Proof.
  intros HI. destruct sets as [|s0 r]; cbn [calc_max_unique].
  - cbn. lia.
  - pose proof (good_len_union s0 (s0 :: r) HI (or_introl eq_refl)) as Hl.
    destruct (Nat.leb_spec lim (length s0)) as [L|G]; [lia|].
    inversion HI as [|? ? Hg Hr]; subst.
    rewrite (cmu_sets_spec lim r [s0] (length s0)); [reflexivity| |exact Hr|].
    + constructor; [exact Hg|constructor].
    + rewrite (union_single s0 Hg). lia.
Qed.

(* ---------- MergeSearchResults on index-ordered sets ---------- *)

Lemma union_len_concat sets : Inv sets -> (length (union sets) <= length (concat sets))%nat.
Proof.
  intros HI. destruct (union_spec _ HI) as (_ & V2 & V3).
  apply NoDup_incl_length; [apply ssorted_NoDup, V2|]. intros y Hy. now apply V3.
Qed.

Theorem merge_sorted lim sets mores : Inv sets -> (0 < lim)%nat ->
  (any_true mores = true -> (lim <= length (union sets))%nat) ->
  merge_results dec_oid dec_usr lim first_attr cmp_int sets mores =
  Some (firstn lim (union sets), Nat.ltb lim (length (union sets)) || any_true mores).
Proof.
  intros HI Hlim Hfl. destruct lim as [|lim]; [lia|].
  destruct sets as [|s [|s2 r]].
  - cbn. destruct (any_true mores); [specialize (Hfl eq_refl); cbn in Hfl; lia|reflexivity].
  - inversion HI as [|? ? Hg _]; subst. cbn [merge_results]. rewrite (union_single s Hg) in *.
    rewrite firstn_min. f_equal. f_equal.
    destruct (any_true mores); [specialize (Hfl eq_refl)|];
      destruct (Nat.ltb_spec (S lim) (length s)); destruct (Nat.eqb_spec (length s) (S lim)); cbn; try reflexivity; lia.
  - cbn [merge_results]. rewrite (calc_max_unique_spec _ _ HI).
    remember (s :: s2 :: r) as sets eqn:Es. clear Es.
    destruct (union sets) as [|u0 u] eqn:Eu.
    + cbn [length]. rewrite Nat.min_0_r. cbn [mloop].
      destruct (select_top sets HI) as [[Hall E]|(mi & m & t & E & Hnth & Hm & Hle)].
      * rewrite E. destruct (any_true mores); [specialize (Hfl eq_refl); cbn in Hfl; lia|reflexivity].
      * exfalso. assert (In m (concat sets)) as Hin.
        { apply in_concat. exists (m :: t). split; [eapply nth_error_In; eauto|now left]. }
        apply (union_spec _ HI) in Hin. rewrite Eu in Hin. destruct Hin.
    + rewrite <- Eu in *.
      assert (0 < length (union sets))%nat as Hpos by (rewrite Eu; cbn; lia).
      pose proof (union_len_concat _ HI) as Hlc.
      rewrite mloop_spec; auto; try lia.
      rewrite Nat.sub_0_r. rewrite Nat.min_comm, firstn_min. f_equal. f_equal.
      destruct (any_true mores); [specialize (Hfl eq_refl)|];
        destruct (Nat.ltb_spec (Nat.min (length (union sets)) (S lim)) (length (union sets)));
        destruct (Nat.ltb_spec (S lim) (length (union sets))); cbn; try reflexivity; lia.
Qed.


(* ---------- pages of the shards' lists ---------- *)

Lemma In_firstn {A} (z : A) k : forall l, In z (firstn k l) -> In z l.
Proof.
  induction k as [|k IH]; intros [|y r] H; cbn [firstn] in H; try destruct H.
  - now left.
  - right. now apply IH.
Qed.

Lemma ssorted_firstn k : forall s, ssorted s -> ssorted (firstn k s).
Proof.
  induction k as [|k IH]; intros [|y r] Hs; cbn [firstn]; try exact I.
  destruct Hs as [Hf Hs]. split; [|now apply IH].
  rewrite Forall_forall in Hf |- *. intros z Hz. apply Hf. eapply (In_firstn _ k); eauto.
Qed.

Lemma good_firstn k s : good s -> good (firstn k s).
Proof.
  intros [HU Hs]. split; [|now apply ssorted_firstn].
  rewrite Forall_forall in HU |- *. intros z Hz. apply HU. eapply In_firstn; eauto.
Qed.

(* s is a prefix of f that contains at least its first lim items *)
Definition prefix_of (lim : nat) (f s : list ritem) : Prop :=
  exists k, s = firstn k f /\ (Nat.min lim (length f) <= k)%nat.

Lemma prefix_Inv lim fulls sets : Inv fulls -> Forall2 (prefix_of lim) fulls sets -> Inv sets.
Proof.
  intros HI H. induction H as [|f s fr sr (k & -> & _) _ IH]; [constructor|].
  inversion HI; subst. constructor; [now apply good_firstn|now apply IH].
Qed.

Lemma prefix_incl lim fulls sets : Forall2 (prefix_of lim) fulls sets ->
  forall y, In y (concat sets) -> In y (concat fulls).
Proof.
  intros H. induction H as [|f s fr sr (k & -> & _) _ IH]; intros y Hy; [exact Hy|].
  cbn [concat] in *. apply in_app_iff in Hy. apply in_app_iff. destruct Hy as [Hy|Hy].
  - left. eapply In_firstn; eauto.
  - right. now apply IH.
Qed.

Lemma prefix_pop lim m fulls sets : Forall2 (prefix_of (S lim)) fulls sets ->
  Forall2 (prefix_of lim) (map (pop (r_id m)) fulls) (map (pop (r_id m)) sets).
Proof.
  intros H. induction H as [|f s fr sr (k & -> & Hk) _ IH]; cbn [map]; [constructor|].
  constructor; [|exact IH].
  destruct f as [|y r].
  - exists 0%nat. rewrite firstn_nil. cbn. split; [reflexivity|lia].
  - destruct k as [|k]; [cbn [length] in Hk; lia|].
    cbn [firstn pop]. destruct (bytes_eqb (r_id y) (r_id m)).
    + exists k. split; [reflexivity|]. cbn [length] in Hk. lia.
    + exists (S k). split; [reflexivity|]. cbn [length] in Hk |- *. lia.
Qed.

Lemma prefix_head lim m t fulls sets : Forall2 (prefix_of (S lim)) fulls sets -> In (m :: t) fulls ->
  In m (concat sets).
Proof.
  intros H. induction H as [|f s fr sr (k & -> & Hk) _ IH]; intros Hin; [destruct Hin|].
  cbn [concat]. apply in_app_iff. destruct Hin as [->|Hin].
  - left. destruct k as [|k]; [cbn [length] in Hk; lia|]. now left.
  - right. now apply IH.
Qed.

Lemma prefix_all_empty lim fulls sets : Forall2 (prefix_of lim) fulls sets ->
  Forall (fun s => s = []) fulls -> Forall (fun s => s = []) sets.
Proof.
  intros H. induction H as [|f s fr sr (k & -> & _) _ IH]; intros Hall; [constructor|].
  inversion Hall; subst. constructor; [apply firstn_nil|now apply IH].
Qed.

Lemma page_union : forall lim fulls sets, Inv fulls -> Forall2 (prefix_of lim) fulls sets ->
  firstn lim (union sets) = firstn lim (union fulls).
Proof.
  induction lim as [|lim IH]; intros fulls sets HI HP; [reflexivity|].
  pose proof (prefix_Inv _ _ _ HI HP) as HIs.
  destruct (select_top fulls HI) as [[Hall _]|(mi & m & t & _ & Hnth & Hm & Hle)].
  - pose proof (prefix_all_empty _ _ _ HP Hall) as Halls.
    apply all_empty_concat, (union_nil_iff _ HI) in Hall.
    apply all_empty_concat, (union_nil_iff _ HIs) in Halls. now rewrite Hall, Halls.
  - assert (In (m :: t) fulls) as Hmt by (eapply nth_error_In; eauto).
    assert (In m (concat fulls)) as Hin by (apply in_concat; exists (m :: t); split; [exact Hmt|now left]).
    assert (In m (concat sets)) as Hins by (eapply prefix_head; eauto).
    assert (forall y, In y (concat sets) -> ile m y) as Hles by (intros y Hy; apply Hle; eapply prefix_incl; eauto).
    rewrite (union_step m fulls Hm HI Hin Hle), (union_step m sets Hm HIs Hins Hles).
    cbn [firstn]. f_equal. apply IH.
    + apply (pop_all m fulls Hm HI Hle).
    + now apply prefix_pop.
Qed.

Lemma any_true_map {A} (g : A -> bool) l : any_true (map g l) = existsb g l.
Proof. induction l as [|x r IH]; cbn; [reflexivity|]. unfold any_true in IH. now rewrite IH. Qed.

Lemma map_firstn_all lim (fulls : list (list ritem)) : Forall (fun f => (length f <= lim)%nat) fulls ->
  map (firstn lim) fulls = fulls.
Proof.
  induction 1 as [|f r Hf _ IH]; cbn [map]; [reflexivity|]. rewrite IH. f_equal. now apply firstn_all2.
Qed.

(* the statement of the property for one merge: every set is the page (first
   lim items) of its shard's index-ordered list, with the flag "the shard has
   more"; the result is the page of the union and its flag is exact *)
Theorem merge_pages lim fulls : Inv fulls -> (0 < lim)%nat ->
  merge_results dec_oid dec_usr lim first_attr cmp_int
    (map (firstn lim) fulls) (map (fun f => Nat.ltb lim (length f)) fulls)
  = Some (firstn lim (union fulls), Nat.ltb lim (length (union fulls))).
Proof.
  intros HI Hlim.
  assert (Forall2 (prefix_of lim) fulls (map (firstn lim) fulls)) as HP.
  { clear HI. induction fulls as [|f r IH]; cbn [map]; constructor; [|exact IH].
    exists lim. split; [reflexivity|lia]. }
  pose proof (prefix_Inv _ _ _ HI HP) as HIs.
  assert (forall f, In f fulls -> Nat.ltb lim (length f) = true -> (lim <= length (union (map (firstn lim) fulls)))%nat) as Hpage.
  { intros f Hf Hlt. apply Nat.ltb_lt in Hlt.
    pose proof (good_len_union (firstn lim f) _ HIs (in_map _ _ _ Hf)) as H.
    rewrite firstn_length in H. lia. }
  rewrite merge_sorted; auto.
  - rewrite (page_union lim fulls _ HI HP). f_equal. f_equal.
    rewrite any_true_map.
    destruct (existsb (fun f => Nat.ltb lim (length f)) fulls) eqn:Ex.
    + rewrite orb_true_r. symmetry. apply Nat.ltb_lt.
      apply existsb_exists in Ex. destruct Ex as (f & Hf & Hlt). apply Nat.ltb_lt in Hlt.
      pose proof (good_len_union f fulls HI Hf). lia.
    + rewrite orb_false_r.
      assert (map (firstn lim) fulls = fulls) as ->; [|reflexivity].
      apply map_firstn_all. rewrite Forall_forall. intros f Hf.
      destruct (Nat.ltb_spec lim (length f)) as [L|G]; [|exact G].
      exfalso. assert (existsb (fun f => Nat.ltb lim (length f)) fulls = true) as Ht; [|congruence].
      apply existsb_exists. exists f. split; [exact Hf|now apply Nat.ltb_lt].
  - rewrite any_true_map. intros Ex. apply existsb_exists in Ex. destruct Ex as (f & Hf & Hlt). eapply Hpage; eauto.
Qed.

End Generic.
