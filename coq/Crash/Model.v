(* Crash-consistency model of one shard (C15, C09): metabase x blob storage x
   optional write-cache.  Definitions only (executable), no proofs.

   Every shard operation is a SEQUENCE of atomic component steps in the order of
   the Go source (pkg/local_object_storage/shard/{put,delete,gc,inhume}.go,
   writecache/flush.go).  A step, when executed, may push further steps of the
   same operation (the rollback of a failed put, the data removals that follow a
   metabase delete, the deletions a GC pass decides on, ...).

   Objects are addresses 0..N-1 of one container with a fixed header each (kind,
   target, expiration epoch): the header of an address never changes, so the
   metabase keeps only "has an entry for a" plus the garbage mark of a. *)
From Coq Require Import List Arith Bool.
Import ListNotations.

Inductive kind := KReg | KTomb | KLock.
Record objt := { okind : kind; otgt : nat; oexp : nat (* 0 = none *) }.

Record cfg := { objs : list objt; wcen : bool }.
Definition nobj (c : cfg) := length (objs c).
Definition tmpl (c : cfg) (a : nat) : objt :=
  nth a (objs c) {| okind := KReg; otgt := 0; oexp := 0 |}.

Definition is_reg (o : objt) := match okind o with KReg => true | _ => false end.
Definition is_tomb (o : objt) := match okind o with KTomb => true | _ => false end.
Definition is_lock (o : objt) := match okind o with KLock => true | _ => false end.

(* garbage marks: 0 none, 1 default (forced: the object is treated as removed),
   2 redundant (the object stays readable until GC removes it) *)
Record state := {
  ent : nat -> bool;    (* metabase: object entry present *)
  mk : nat -> nat;      (* metabase: garbage mark *)
  blob : nat -> bool;   (* blob storage holds the object *)
  wc : nat -> bool;     (* write-cache holds the object *)
  ep : nat;             (* network epoch as seen by the metabase *)
  gep : nat;            (* gc.currentEpoch (reset by a restart) *)
  pe : nat              (* gc.processedEpoch *)
}.

Definition upd {A} (f : nat -> A) (a : nat) (v : A) : nat -> A :=
  fun x => if Nat.eqb x a then v else f x.

Definition init_state : state :=
  {| ent := fun _ => false; mk := fun _ => 0; blob := fun _ => false; wc := fun _ => false;
     ep := 0; gep := 0; pe := 0 |}.

Definition set_ent s a v := {| ent := upd (ent s) a v; mk := mk s; blob := blob s; wc := wc s; ep := ep s; gep := gep s; pe := pe s |}.
Definition set_mk s a v := {| ent := ent s; mk := upd (mk s) a v; blob := blob s; wc := wc s; ep := ep s; gep := gep s; pe := pe s |}.
Definition set_blob s a v := {| ent := ent s; mk := mk s; blob := upd (blob s) a v; wc := wc s; ep := ep s; gep := gep s; pe := pe s |}.
Definition set_wc s a v := {| ent := ent s; mk := mk s; blob := blob s; wc := upd (wc s) a v; ep := ep s; gep := gep s; pe := pe s |}.
Definition set_pe s v := {| ent := ent s; mk := mk s; blob := blob s; wc := wc s; ep := ep s; gep := gep s; pe := v |}.
Definition set_epoch s e := {| ent := ent s; mk := mk s; blob := blob s; wc := wc s; ep := e; gep := e; pe := pe s |}.

(* ---- metabase status rules (metabase/exists.go, lock.go) ------------------- *)

(* isExpired: reads the expiration attribute of the STORED object *)
Definition is_exp c s e a : bool :=
  ent s a && negb (oexp (tmpl c a) =? 0) && (oexp (tmpl c a) <? e).

(* associatedWithTypedObject(0, ..., TypeTombstone): expiry of the tombstone ignored *)
Definition tombstoned c s a : bool :=
  existsb (fun t => ent s t && is_tomb (tmpl c t) && (otgt (tmpl c t) =? a)) (seq 0 (nobj c)).

(* inGarbage: 0 available, 1 GC-marked, 2 tombstoned *)
Definition in_garb c s a : nat :=
  if tombstoned c s a then 2 else if mk s a =? 1 then 1 else 0.

(* objectLocked *)
Definition locked c s e a : bool :=
  existsb (fun l => ent s l && is_lock (tmpl c l) && (otgt (tmpl c l) =? a)
                    && negb ((0 <? e) && is_exp c s e l) && (in_garb c s l =? 0))
          (seq 0 (nobj c)).

(* objectStatusDirect (no split parents in this universe): 3 = expired *)
Definition status c s e a : nat :=
  if is_exp c s e a then (if locked c s e a then 0 else 3)
  else let g := in_garb c s a in
       if negb (g =? 0) && locked c s e a then 0 else g.

(* Shard.Exists(addr, false) as the harness classifies it:
   0 false, 1 true, 2 already removed, 3 expired, 4 not-found error (GC mark) *)
Definition exists_obs c s e a : nat :=
  match status c s e a with
  | 1 => 4 | 2 => 2 | 3 => 3
  | _ => if ent s a then 1 else 0
  end.

(* Shard.Get(addr, false): 0 ok, 1 not found, 2 removed, 3 expired, 4 meta without object *)
Definition get_obs c s e a : nat :=
  match exists_obs c s e a with
  | 2 => 2 | 3 => 3 | 4 => 1
  | x => if wcen c && wc s a then 0
         else if x =? 0 then 1
         else if blob s a then 0 else 4
  end.

(* ---- metabase updates --------------------------------------------------------- *)

(* db.put: returns the new state and whether the put succeeded *)
Definition meta_put c s a : state * bool :=
  let e := ep s in
  let o := tmpl c a in
  let st := status c s e a in
  if (st =? 2) || (st =? 3) then (s, false)
  else if (st =? 0) && ent s a then (s, true)
  else match okind o with
       | KReg => (set_ent s a true, true)
       | KLock =>
           let t := otgt o in
           if ent s t && negb (is_reg (tmpl c t)) then (s, false)
           else if (status c s e t =? 2) || (in_garb c s t =? 2) then (s, false)
           else (set_ent s a true, true)
       | KTomb =>
           let t := otgt o in
           if ent s t && negb (is_reg (tmpl c t)) then (s, false)
           else if locked c s e t then (s, false)
           else (set_ent (set_mk s t 1) a true, true)
       end.

(* db.Delete: entries and marks of the listed addresses go, whatever their status *)
Fixpoint meta_delete s (l : list nat) : state :=
  match l with
  | [] => s
  | a :: r => meta_delete (set_mk (set_ent s a false) a 0) r
  end.

(* db.MarkGarbage: m = 1 default (forced), anything else redundant; a present
   redundant mark is upgraded by a default one, otherwise a present mark stays *)
Definition meta_mark s a m : state :=
  if mk s a =? 0 then set_mk s a (if m =? 1 then 1 else 2)
  else if m =? 1 then set_mk s a 1 else s.

(* db.IterateExpired(e): stored, expired (exp < e), not locked; by (exp, address) *)
Definition expired_list c s e : list nat :=
  flat_map (fun x => filter (fun a => ent s a && (oexp (tmpl c a) =? x) && negb (locked c s e a))
                            (seq 0 (nobj c)))
           (seq 1 (e - 1)).

(* db.GetGarbage: every marked address, ascending *)
Definition garbage_list c s : list nat :=
  filter (fun a => negb (mk s a =? 0)) (seq 0 (nobj c)).

(* ---- steps ------------------------------------------------------------------------ *)

Inductive step :=
  | SDataPut (a : nat)               (* Put: write-cache put if enabled, else blob put *)
  | SMetaPut (a : nat) (fail : bool) (* Put: metabase update; fail = refused for an outside reason *)
  | SRbCheck (a : nat)               (* Put, after a failed update: is the object known to the metabase? *)
  | SMetaDel (l : list nat)          (* deleteObjs: metabase delete *)
  | SWcDelD (a : nat)                (* write-cache delete (deleteObjs, rollback, MarkGarbage) *)
  | SBlobDel (a : nat)               (* blob delete (deleteObjs, rollback) *)
  | SMetaMark (a m : nat)            (* MarkGarbage: metabase mark *)
  | SFlushRead (a : nat)             (* flushSingle: read from the cache *)
  | SBlobPut (a : nat)               (* flushSingle: blob put *)
  | SWcDelF (a : nat)                (* flushSingle: cache delete *)
  | SGcCollect                       (* removeGarbage: collectExpiredObjects (reads the metabase) *)
  | SGcGarbage                       (* removeGarbage: GetGarbage (reads the metabase) *)
  | SEpoch (e : nat)
  (* C09 *)
  | SRestart                         (* clean restart: GC epochs are forgotten *)
  | SResyncReset                     (* ResyncFromBlobstor: Reset *)
  | SResyncPut (a : nat) (e0 : bool) (* ResyncFromBlobstor: one object re-indexed (if its blob exists) *).

(* exec returns the new state, the steps pushed in front of the operation's
   continuation and whether the operation is now known to return an error *)
Definition exec (c : cfg) (s : state) (x : step) : state * list step * bool :=
  match x with
  | SDataPut a => (if wcen c then set_wc s a true else set_blob s a true, [], false)
  | SMetaPut a fail =>
      if fail then (s, [SRbCheck a], true)
      else let '(s', ok) := meta_put c s a in
           if ok then (s', [], false) else (s, [SRbCheck a], true)
  | SRbCheck a =>
      (* Exists(addr, true): epoch 0 *)
      if exists_obs c s 0 a =? 1 then (s, [], false)
      else (s, (if wcen c then [SWcDelD a] else []) ++ [SBlobDel a], false)
  | SMetaDel l =>
      (meta_delete s l, (if wcen c then map SWcDelD l else []) ++ map SBlobDel l, false)
  | SWcDelD a => (set_wc s a false, [], false)
  | SBlobDel a => (set_blob s a false, [], false)
  | SMetaMark a m =>
      (meta_mark s a m, if (m =? 1) && wcen c then [SWcDelD a] else [], false)
  | SFlushRead a => (s, if wc s a then [SBlobPut a; SWcDelF a] else [], false)
  | SBlobPut a => (set_blob s a true, [], false)
  | SWcDelF a => (set_wc s a false, [], false)
  | SGcCollect =>
      if pe s =? gep s then (s, [SGcGarbage], false)
      else if gep s <? pe s then (set_pe s (gep s), [SGcGarbage], false)
      else
        let l := expired_list c s (gep s) in
        let ts := filter (fun a => is_tomb (tmpl c a)) l in
        let others := filter (fun a => negb (is_tomb (tmpl c a))) l in
        (match l with [] => set_pe s (gep s) | _ => s end,
         (match ts with [] => [] | _ => [SMetaDel ts] end)
           ++ map (fun a => SMetaDel [a]) others ++ [SGcGarbage], false)
  | SGcGarbage =>
      (s, match garbage_list c s with [] => [] | l => [SMetaDel l] end, false)
  | SEpoch e => (set_epoch s e, [], false)
  | SRestart => ({| ent := ent s; mk := mk s; blob := blob s; wc := wc s; ep := ep s; gep := 0; pe := 0 |}, [], false)
  | SResyncReset =>
      ({| ent := fun _ => false; mk := fun _ => 0; blob := blob s; wc := wc s; ep := ep s; gep := gep s; pe := pe s |}, [], false)
  | SResyncPut a e0 =>
      if blob s a then
        let s0 := if e0 then {| ent := ent s; mk := mk s; blob := blob s; wc := wc s; ep := 0; gep := gep s; pe := pe s |} else s in
        let '(s', _) := meta_put c s0 a in
        ({| ent := ent s'; mk := mk s'; blob := blob s'; wc := wc s'; ep := ep s; gep := gep s'; pe := pe s' |}, [], false)
      else (s, [], false)
  end.

(* the wrapped component calls: (kind, address); 1 blob put, 2 blob delete,
   3 write-cache put, 4 write-cache delete *)
Definition dcode (c : cfg) (x : step) : option (nat * nat) :=
  match x with
  | SDataPut a => Some (if wcen c then 3 else 1, a)
  | SBlobPut a => Some (1, a)
  | SBlobDel a => Some (2, a)
  | SWcDelD a => Some (4, a)
  | _ => None
  end.

(* ---- operations --------------------------------------------------------------------- *)

Inductive op :=
  | OPut (a : nat) (fail : bool)
  | ODel (l : list nat)
  | OMark (a m : nat)         (* m: 1 default, 2 redundant *)
  | OGc
  | OEpoch (e : nat)
  | OFlush (a : nat)
  | ORestart
  | OResync (ord : list nat) (e0 : bool).

Definition init_op (c : cfg) (o : op) : list step :=
  match o with
  | OPut a f => [SDataPut a; SMetaPut a f]
  | ODel l => match l with [] => [] | _ => [SMetaDel l] end
  | OMark a m => [SMetaMark a m]
  | OGc => [SGcCollect]
  | OEpoch e => [SEpoch e]
  | OFlush a => if wcen c then [SFlushRead a] else []
  | ORestart => [SRestart]
  | OResync ord e0 => SResyncReset :: map (fun a => SResyncPut a e0) ord
  end.

(* ---- the sequential machine: one tick = one atomic step or one operation start ---- *)

Record mst := {
  st : state;
  cur : list step;           (* continuation of the operation in flight *)
  todo : list op;
  nstart : nat;              (* operations started *)
  failed : bool;             (* the operation in flight is known to return an error *)
  tr : list (nat * nat);     (* wrapped component calls so far, latest first *)
  resl : list (nat * nat)    (* (operation index, 0 ok / 1 error) of completed operations, latest first *)
}.

Definition b2n (b : bool) := if b then 1 else 0.

Definition tick (c : cfg) (m : mst) : mst :=
  match cur m with
  | x :: r =>
      let '(s', ex, f) := exec c (st m) x in
      let cur' := ex ++ r in
      let failed' := failed m || f in
      {| st := s'; cur := cur'; todo := todo m; nstart := nstart m;
         failed := match cur' with [] => false | _ => failed' end;
         tr := match dcode c x with Some d => d :: tr m | None => tr m end;
         resl := match cur' with [] => (nstart m - 1, b2n failed') :: resl m | _ => resl m end |}
  | [] =>
      match todo m with
      | o :: os =>
          let c0 := init_op c o in
          {| st := st m; cur := c0; todo := os; nstart := S (nstart m); failed := false;
             tr := tr m;
             resl := match c0 with [] => (nstart m, 0) :: resl m | _ => resl m end |}
      | [] => m
      end
  end.

Definition start (ops : list op) : mst :=
  {| st := init_state; cur := []; todo := ops; nstart := 0; failed := false; tr := []; resl := [] |}.

(* crash after n ticks *)
Definition run_n (c : cfg) (ops : list op) (n : nat) : mst := Nat.iter n (tick c) (start ops).

(* what a restart keeps: the components' contents; the operation in flight is gone *)
Definition reopen (m : mst) : state :=
  let s := st m in
  {| ent := ent s; mk := mk s; blob := blob s; wc := wc s; ep := ep s; gep := 0; pe := 0 |}.

(* ---- the property's vocabulary --------------------------------------------------------- *)

(* the metabase reports the object as available (Exists = true) at its epoch *)
Definition available c s a : bool := exists_obs c s (ep s) a =? 1.
(* the object's data can be read from the blob storage or from the write-cache *)
Definition has_data s a : bool := blob s a || wc s a.
(* entry present and not carrying the forced garbage mark *)
Definition protected s a : bool := ent s a && negb (mk s a =? 1).

(* The one situation the rollback of a refused put (SRbCheck) is not safe in: the
   metabase has an entry for the address without the forced mark, and yet does not
   report it as known (possible only for an address that is tombstoned without
   carrying the mark a tombstone sets - an object re-indexed under a lock that
   overrides its tombstone). *)
Definition bad_rb c s a : bool :=
  protected s a && negb (exists_obs c s 0 a =? 1).
Definition bad_head c (m : mst) : bool :=
  match cur m with SRbCheck a :: _ => bad_rb c (st m) a | _ => false end.
(* none of the first n ticks executes such a rollback *)
Fixpoint clean_run c ops n : bool :=
  match n with
  | 0 => true
  | S k => clean_run c ops k && negb (bad_head c (run_n c ops k))
  end.
