(* C09 - proofs and refutation witnesses over the histories of Crash/RModel.v. *)
From Coq Require Import List Arith Bool Lia.
Import ListNotations.
From NV Require Import Crash.Model Crash.Proofs Crash.Inter.
From NV Require Export Crash.RModel.

(* ------------------------------------------------------------------------------------------ *)
(* What holds: once nothing of an object is left on the node, only a new put of
   that object brings it back - across GC passes, epochs, tombstone expiry, resyncs
   in any order (with the real epoch or with epoch 0), flushes, restarts and process
   deaths at any step. *)

Definition adds (a : nat) (x : step) : bool :=
  match x with
  | SDataPut b | SMetaPut b _ | SBlobPut b => b =? a
  | _ => false
  end.

Lemma gone_fields s a : gone s a = true <-> ent s a = false /\ blob s a = false /\ wc s a = false.
Proof.
  unfold gone. split.
  - intros H. apply andb_prop in H as [H H3]. apply andb_prop in H as [H1 H2].
    repeat split; now apply negb_true_iff.
  - intros (H1 & H2 & H3). now rewrite H1, H2, H3.
Qed.

Lemma meta_delete_ent_false s l a : ent s a = false -> ent (meta_delete s l) a = false.
Proof.
  revert s; induction l as [|b r IH]; intros s H; simpl; auto.
  apply IH. unfold set_mk, set_ent; simpl. unfold upd. destruct (a =? b); auto.
Qed.

Lemma meta_put_ent c s b s' ok a :
  meta_put c s b = (s', ok) -> a <> b -> ent s a = false -> ent s' a = false.
Proof.
  intros H N E. apply meta_put_shape in H as [-> | [-> | [t ->]]]; auto;
    unfold set_ent, set_mk; simpl; now rewrite upd_other.
Qed.

Lemma exec_gone c s x a :
  gone s a = true -> adds a x = false ->
  gone (fst (fst (exec c s x))) a = true
  /\ forallb (fun y => negb (adds a y)) (snd (fst (exec c s x))) = true.
Proof.
  intros G A. apply gone_fields in G as (Ge & Gb & Gw).
  assert (K : forall s', ent s' a = false -> blob s' a = false -> wc s' a = false -> gone s' a = true)
    by (intros; apply gone_fields; auto).
  destruct x; simpl in *.
  - (* SDataPut *) apply Nat.eqb_neq in A. assert (A' : a <> a0) by (intro; apply A; auto).
    destruct (wcen c); simpl; split; auto; apply K; auto; unfold set_wc, set_blob; simpl;
      rewrite upd_other by exact A'; auto.
  - (* SMetaPut *) apply Nat.eqb_neq in A. assert (A' : a <> a0) by (intro; apply A; auto).
    destruct fail; simpl; [split; auto|].
    destruct (meta_put c s a0) as [s' ok] eqn:E. destruct ok; simpl; [|split; auto].
    pose proof (meta_put_ent _ _ _ _ _ a E A' Ge). apply meta_put_prot in E as (_ & Hb & Hw).
    split; auto. apply K; auto; [now rewrite Hb|now rewrite Hw].
  - (* SRbCheck *)
    destruct (exists_obs c s 0 a0 =? 1); simpl; split; auto. destruct (wcen c); reflexivity.
  - (* SMetaDel *)
    split.
    + apply K; [now apply meta_delete_ent_false|now rewrite meta_delete_blob|now rewrite meta_delete_wc].
    + rewrite forallb_app. apply andb_true_intro; split.
      * destruct (wcen c); auto. induction l; simpl; auto.
      * induction l; simpl; auto.
  - (* SWcDelD *) split; auto. apply K; auto. unfold set_wc; simpl. unfold upd. destruct (a =? a0); auto.
  - (* SBlobDel *) split; auto. apply K; auto. unfold set_blob; simpl. unfold upd. destruct (a =? a0); auto.
  - (* SMetaMark *)
    split; [|destruct ((m =? 1) && wcen c); reflexivity].
    unfold meta_mark. destruct (mk s a0 =? 0); [|destruct (m =? 1)]; apply K; auto.
  - (* SFlushRead *)
    split; auto. destruct (wc s a0) eqn:W; auto. simpl.
    destruct (Nat.eq_dec a0 a) as [->|N]; [congruence|]. apply Nat.eqb_neq in N. now rewrite N.
  - (* SBlobPut *) apply Nat.eqb_neq in A. assert (A' : a <> a0) by (intro; apply A; auto).
    split; auto. apply K; auto. unfold set_blob; simpl. rewrite upd_other by exact A'. auto.
  - (* SWcDelF *) split; auto. apply K; auto. unfold set_wc; simpl. unfold upd. destruct (a =? a0); auto.
  - (* SGcCollect *)
    destruct (pe s =? gep s); [|destruct (gep s <? pe s)]; simpl; [split; auto|split; auto|].
    split; [destruct (expired_list c s (gep s)); apply K; auto|].
    rewrite !forallb_app.
    destruct (filter (fun a1 => is_tomb (tmpl c a1)) (expired_list c s (gep s))); simpl;
      rewrite andb_true_r;
      induction (filter (fun a1 => negb (is_tomb (tmpl c a1))) (expired_list c s (gep s))); simpl; auto.
  - (* SGcGarbage *) split; auto. destruct (garbage_list c s); reflexivity.
  - (* SEpoch *) split; auto.
  - (* SRestart *) split; auto.
  - (* SResyncReset *) split; auto.
  - (* SResyncPut *)
    split; [|destruct (blob s a0); [destruct (meta_put c _ a0)|]; reflexivity].
    destruct (blob s a0) eqn:B; [|apply K; auto].
    assert (N : a <> a0) by (intros ->; congruence).
    match goal with |- context [meta_put c ?s0 a0] => destruct (meta_put c s0 a0) as [s' ok] eqn:E end.
    simpl.
    assert (Q : ent s' a = false).
    { eapply meta_put_ent; eauto. destruct e0; auto. }
    apply meta_put_prot in E as (_ & Hb & Hw).
    apply K; simpl; auto; [rewrite Hb|rewrite Hw]; destruct e0; auto.
Qed.

Lemma run_cont_gone c n s k a :
  gone s a = true -> forallb (fun y => negb (adds a y)) k = true ->
  gone (fst (run_cont c n s k)) a = true.
Proof.
  revert s k; induction n; intros s k G F; simpl; [destruct k; auto|].
  destruct k as [|x r]; auto. simpl in F. apply andb_prop in F as [F1 F2].
  apply negb_true_iff in F1. destruct (exec_gone c s x a G F1) as [G' F'].
  apply IHn; auto. rewrite forallb_app. now rewrite F', F2.
Qed.

Lemma init_op_adds c o a :
  (match o with OPut b _ => b =? a | _ => false end) = false ->
  forallb (fun y => negb (adds a y)) (init_op c o) = true.
Proof.
  destruct o; simpl; intros H; auto.
  - now rewrite H.
  - destruct l; auto.
  - destruct (wcen c); auto.
  - induction ord; simpl; auto.
Qed.

Lemma happly_gone c s h a : gone s a = true -> is_put_of a h = false -> gone (happly c s h) a = true.
Proof.
  intros G P. destruct h as [o|o k]; unfold is_put_of in P; cbn [op_of] in P; unfold happly.
  - apply run_cont_gone; auto. now apply init_op_adds.
  - change (gone (fst (run_cont c k s (init_op c o))) a = true).
    apply run_cont_gone; auto. now apply init_op_adds.
Qed.

Lemma hrun_app c hs1 hs2 : hrun c (hs1 ++ hs2) = fold_left (happly c) hs2 (hrun c hs1).
Proof. unfold hrun. apply fold_left_app. Qed.

Lemma fold_gone c hs s a :
  gone s a = true -> no_put a hs = true -> gone (fold_left (happly c) hs s) a = true.
Proof.
  revert s; induction hs as [|h r IH]; intros s G N; simpl in *; auto.
  apply andb_prop in N as [N1 N2]. apply IH; auto. apply happly_gone; auto. now apply negb_true_iff.
Qed.

Lemma gone_not_readable c s a : gone s a = true -> readable c s a = false.
Proof.
  intros G. apply gone_fields in G as (Ge & Gb & Gw).
  unfold readable, get_obs, exists_obs. rewrite Ge, Gw, Gb.
  destruct (status c s (ep s) a) as [|[|[|[|?]]]]; simpl; try reflexivity;
    rewrite andb_false_r; reflexivity.
Qed.

Theorem gone_stays_gone c hs1 hs2 a :
  gone (hrun c hs1) a = true -> no_put a hs2 = true ->
  readable c (hrun c (hs1 ++ hs2)) a = false.
Proof.
  intros G N. apply gone_not_readable. rewrite hrun_app. now apply fold_gone.
Qed.

(* ------------------------------------------------------------------------------------------ *)
(* What does not hold.  Full statement: once the shard reports a stored object as
   removed (tombstoned or dropped), it is never readable again unless it is put anew:

     forall c hs1 hs2 a, reported_removed c (hrun c hs1) a = true -> no_put a hs2 = true ->
                         readable c (hrun c (hs1 ++ hs2)) a = false.

   Three independent witnesses, each confirmed against the real shard by the harness. *)

Definition resurrected c hs1 hs2 a : Prop :=
  reported_removed c (hrun c hs1) a = true /\ no_put a hs2 = true
  /\ readable c (hrun c (hs1 ++ hs2)) a = true.

(* 1. the process dies between the metabase delete and the blob delete of a GC pass;
      the tombstone expires and is collected; a resync re-indexes the left-over blob *)
Definition w1_cfg : cfg :=
  {| objs := [{| okind := KReg; otgt := 0; oexp := 0 |}; {| okind := KTomb; otgt := 0; oexp := 2 |}]; wcen := false |}.
Definition w1_before := [HOp (OPut 0 false); HOp (OPut 1 false)].
Definition w1_after := [HCut OGc 3; HOp (OEpoch 3); HOp OGc; HOp (OResync [0; 1] false)].
Theorem orphan_blob_resync_refuted : resurrected w1_cfg w1_before w1_after 0.
Proof. vm_compute. auto. Qed.

(* 2. resync with an epoch source that returns 0 (neofs-lancet): an expired lock
      counts as live, the tombstone is refused, its target is indexed as available *)
Definition w2_cfg : cfg :=
  {| objs := [{| okind := KReg; otgt := 0; oexp := 0 |}; {| okind := KLock; otgt := 0; oexp := 1 |};
              {| okind := KTomb; otgt := 0; oexp := 9 |}]; wcen := false |}.
Definition w2_before := [HOp (OPut 0 false); HOp (OPut 1 false); HOp (OEpoch 2); HOp (OPut 2 false)].
Definition w2_after := [HOp (OResync [1; 0; 2] true)].
Theorem resync_epoch0_refuted : resurrected w2_cfg w2_before w2_after 0.
Proof. vm_compute. auto. Qed.
(* with the real epoch the same resync keeps the object removed *)
Lemma resync_real_epoch_keeps_removed :
  readable w2_cfg (hrun w2_cfg (w2_before ++ [HOp (OResync [1; 0; 2] false)])) 0 = false.
Proof. vm_compute. reflexivity. Qed.

(* 3. a LOCK stored for a dropped object (forced garbage mark) overrides the mark:
      the metabase reports the object as available again (no resync, no crash) *)
Definition w3_cfg : cfg :=
  {| objs := [{| okind := KReg; otgt := 0; oexp := 0 |}; {| okind := KLock; otgt := 0; oexp := 0 |}]; wcen := false |}.
Definition w3_before := [HOp (OPut 0 false); HOp (OMark 0 1)].
Definition w3_after := [HOp (OPut 1 false)].
Theorem lock_on_dropped_refuted : resurrected w3_cfg w3_before w3_after 0.
Proof. vm_compute. auto. Qed.
(* a tombstoned object, expired or not, is no longer revived that way
   (metabase fix 497eb4c: the lock is refused) *)
Lemma lock_on_tombstoned_refused :
  let c := {| objs := [{| okind := KReg; otgt := 0; oexp := 1 |}; {| okind := KTomb; otgt := 0; oexp := 0 |};
                       {| okind := KLock; otgt := 0; oexp := 0 |}]; wcen := false |} in
  readable c (hrun c [HOp (OPut 0 false); HOp (OPut 1 false); HOp (OEpoch 2); HOp (OPut 2 false)]) 0 = false.
Proof. vm_compute. reflexivity. Qed.

(* 4. flush-versus-delete schedule (interleaving machine of Crash/Inter.v): the flusher
      reads the object from the cache, a complete delete runs, the flusher writes the
      blob - an orphan the next resync indexes.  Here the object was dropped (garbage
      mark) before. *)
Definition w4_cfg : cfg := {| objs := [{| okind := KReg; otgt := 0; oexp := 0 |}]; wcen := true |}.
Definition w4_events : list event :=
  [EStart (OPut 0 false); EAdv 0; EAdv 0;           (* stored in the cache, indexed *)
   EStart (OMark 0 2); EAdv 1;                        (* dropped as redundant *)
   EStart (OFlush 0); EAdv 2;                         (* flusher has read the object *)
   EStart OGc; EAdv 3; EAdv 3; EAdv 3; EAdv 3; EAdv 3; (* GC pass deletes it everywhere *)
   EAdv 2; EAdv 2;                                    (* flusher writes the blob, drops the cache file *)
   EStart (OResync [0] false); EAdv 4; EAdv 4].
Theorem flush_delete_race_refuted :
  let s := pst (prun w4_cfg w4_events) in readable w4_cfg s 0 = true.
Proof. vm_compute. reflexivity. Qed.
