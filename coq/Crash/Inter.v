(* C15: concurrent operations as interleavings of atomic steps.
   A pool of operations in flight; an event starts an operation or advances the
   i-th one by one atomic step (program order inside an operation is kept by
   construction, everything else is free).  Model definitions first, proofs below. *)
From Coq Require Import List Arith Bool Lia.
Import ListNotations.
From NV Require Import Crash.Model Crash.Proofs.

Record pstate := { pst : state; pool : list (list step) }.
Inductive event := EStart (o : op) | EAdv (i : nat).

Fixpoint set_nth {A} (l : list A) (i : nat) (v : A) : list A :=
  match l, i with
  | [], _ => []
  | _ :: r, 0 => v :: r
  | x :: r, S j => x :: set_nth r j v
  end.

Definition papply (c : cfg) (p : pstate) (e : event) : pstate :=
  match e with
  | EStart o => {| pst := pst p; pool := pool p ++ [init_op c o] |}
  | EAdv i =>
      match nth i (pool p) [] with
      | x :: r => {| pst := fst (fst (exec c (pst p) x));
                     pool := set_nth (pool p) i (snd (fst (exec c (pst p) x)) ++ r) |}
      | [] => p
      end
  end.

Definition pinit : pstate := {| pst := init_state; pool := [] |}.
Definition prun (c : cfg) (evs : list event) : pstate := fold_left (papply c) evs pinit.

(* addresses a step works on / whose data or "not indexed" status it may destroy *)
Definition touch (x : step) : list nat :=
  match x with
  | SDataPut a | SMetaPut a _ | SRbCheck a | SWcDelD a | SBlobDel a | SMetaMark a _
  | SFlushRead a | SBlobPut a | SWcDelF a | SResyncPut a _ => [a]
  | SMetaDel l => l
  | _ => []
  end.
Definition destr (x : step) : list nat :=
  match x with
  | SMetaPut a _ | SRbCheck a | SWcDelD a | SBlobDel a => [a]   (* a put may fail and roll back *)
  | SMetaMark a m => if m =? 1 then [a] else []
  | SMetaDel l => l
  | _ => []
  end.

Definition disj (l1 l2 : list nat) : bool := forallb (fun a => negb (existsb (Nat.eqb a) l2)) l1.
Definition touch_c (k : list step) := flat_map touch k.
Definition destr_c (k : list step) := flat_map destr k.
Definition no_rs (k : list step) := forallb (fun x => negb (isRs x)) k.

(* no operation in flight may destroy what another operation in flight works on;
   the offline resync never runs next to anything *)
Fixpoint compat_pool (l : list (list step)) : bool :=
  match l with
  | [] => true
  | k :: r =>
      no_rs k
      && forallb (fun k' => disj (destr_c k) (touch_c k') && disj (destr_c k') (touch_c k)) r
      && compat_pool r
  end.

Definition bad_ev (c : cfg) (p : pstate) (e : event) : bool :=
  match e with
  | EAdv i => match nth i (pool p) [] with SRbCheck a :: _ => bad_rb c (pst p) a | _ => false end
  | _ => false
  end.

(* the interleaving keeps the pool compatible at every moment *)
Fixpoint compat_from (c : cfg) (p : pstate) (evs : list event) : bool :=
  compat_pool (pool p) &&
  match evs with
  | [] => true
  | e :: r => compat_from c (papply c p e) r
  end.
Definition compat_run c evs := compat_from c pinit evs.

(* no unsafe rollback (see Model.bad_rb) is executed *)
Fixpoint clean_from (c : cfg) (p : pstate) (evs : list event) : bool :=
  match evs with
  | [] => true
  | e :: r => negb (bad_ev c p e) && clean_from c (papply c p e) r
  end.
Definition clean_events c evs := clean_from c pinit evs.

(* ------------------------------------------------------------------------------------------ *)
(* proofs *)

Lemma disj_spec l1 l2 a : disj l1 l2 = true -> In a l1 -> ~ In a l2.
Proof.
  unfold disj. rewrite forallb_forall. intros H H1 H2. specialize (H a H1).
  apply negb_true_iff in H. assert (existsb (Nat.eqb a) l2 = true); [|congruence].
  apply existsb_exists. exists a. split; auto. apply Nat.eqb_refl.
Qed.

Lemma in_touch_c x k a : In x k -> In a (touch x) -> In a (touch_c k).
Proof. intros. unfold touch_c. apply in_flat_map. eauto. Qed.
Lemma in_destr_c x k a : In x k -> In a (destr x) -> In a (destr_c k).
Proof. intros. unfold destr_c. apply in_flat_map. eauto. Qed.

(* frame of one step *)
Lemma exec_frame c s x :
  let s' := fst (fst (exec c s x)) in
  isRs x = false ->
  (forall b, protected s' b = true -> protected s b = true \/ In b (touch x))
  /\ (forall b, blob s b = true -> blob s' b = true \/ In b (destr x))
  /\ (forall b, need s x -> has_data s b = true -> has_data s' b = true \/ In b (destr x)).
Proof.
  destruct x; simpl; intros Hrs; try discriminate.
  - (* SDataPut *)
    destruct (wcen c); simpl; repeat split; auto; intros b; unfold has_data, set_wc, set_blob; simpl.
    + intros _ H. left. destruct (Nat.eq_dec b a) as [->|N]; [rewrite upd_same; apply orb_true_r|now rewrite upd_other].
    + intros H. left. destruct (Nat.eq_dec b a) as [->|N]; [now rewrite upd_same|now rewrite upd_other].
    + intros _ H. left. destruct (Nat.eq_dec b a) as [->|N]; [now rewrite upd_same|now rewrite upd_other].
  - (* SMetaPut *)
    destruct fail; simpl; [repeat split; auto|].
    destruct (meta_put c s a) as [s' ok] eqn:E. destruct ok; simpl; [|repeat split; auto].
    apply meta_put_prot in E as (Hp & Hb & Hw). repeat split.
    + intros b H. destruct (Hp b H); auto.
    + intros b H. left. now rewrite Hb.
    + intros b _ H. left. unfold has_data. now rewrite Hb, Hw.
  - (* SRbCheck *)
    destruct (exists_obs c s 0 a =? 1); simpl; repeat split; auto.
  - (* SMetaDel *)
    repeat split.
    + intros b H. apply meta_delete_prot in H as [H _]. auto.
    + intros b H. left. now rewrite meta_delete_blob.
    + intros b _ H. left. unfold has_data. now rewrite meta_delete_blob, meta_delete_wc.
  - (* SWcDelD *)
    repeat split; auto. intros b _ H. destruct (Nat.eq_dec b a) as [->|N]; auto. left.
    unfold has_data, set_wc in *; simpl. now rewrite upd_other.
  - (* SBlobDel *)
    repeat split; auto.
    + intros b H. destruct (Nat.eq_dec b a) as [->|N]; auto. left. unfold set_blob; simpl. now rewrite upd_other.
    + intros b _ H. destruct (Nat.eq_dec b a) as [->|N]; auto. left.
      unfold has_data, set_blob in *; simpl. now rewrite upd_other.
  - (* SMetaMark *)
    destruct (meta_mark_shrink s a m) as (Hp & Hb & Hw). repeat split.
    + intros b H. auto.
    + intros b H. left. now rewrite Hb.
    + intros b _ H. left. unfold has_data. now rewrite Hb, Hw.
  - (* SFlushRead *) repeat split; auto.
  - (* SBlobPut *)
    repeat split; auto; intros b; unfold has_data, set_blob; simpl.
    + intros H. left. destruct (Nat.eq_dec b a) as [->|N]; [now rewrite upd_same|now rewrite upd_other].
    + intros _ H. left. destruct (Nat.eq_dec b a) as [->|N]; [now rewrite upd_same|now rewrite upd_other].
  - (* SWcDelF *)
    repeat split; auto. intros b Hn H. left. unfold has_data, set_wc in *; simpl.
    destruct (Nat.eq_dec b a) as [->|N]; [now rewrite Hn|now rewrite upd_other].
  - (* SGcCollect *)
    destruct (pe s =? gep s); [|destruct (gep s <? pe s)]; simpl; repeat split; auto;
      destruct (expired_list c s (gep s)); simpl; auto.
  - (* SGcGarbage *) repeat split; auto.
  - (* SEpoch *) repeat split; auto.
  - (* SRestart *) repeat split; auto.
Qed.

(* a pending step of another operation keeps what it relies on *)
Lemma need_stable c s x y :
  isRs x = false -> need s x -> need s y ->
  (forall b, In b (destr y) -> ~ In b (touch x)) ->
  (forall b, In b (touch y) -> ~ In b (destr x)) ->
  need (fst (fst (exec c s x))) y.
Proof.
  intros Hrs Hx Hy D1 D2. destruct (exec_frame c s x Hrs) as (Fp & Fb & Fd).
  destruct y; simpl in *; auto.
  - destruct (Fd a Hx Hy) as [H|H]; auto. exfalso. eapply D2; eauto.
  - destruct (protected (fst (fst (exec c s x))) a) eqn:E; auto.
    destruct (Fp a E) as [H|H]; [congruence|]. exfalso. eapply D1; eauto.
  - destruct (protected (fst (fst (exec c s x))) a) eqn:E; auto.
    destruct (Fp a E) as [H|H]; [congruence|]. exfalso. eapply D1; eauto.
  - destruct (Fb a Hy) as [H|H]; auto. exfalso. eapply D2; eauto.
Qed.

Lemma okc_head_need s x r : okc s (x :: r) -> need s x.
Proof.
  intros H. inversion H; subst; simpl; auto.
  inversion H1; auto.
Qed.

Lemma okc_stable c s x k :
  isRs x = false -> need s x -> no_rs k = true -> okc s k ->
  (forall b, In b (destr_c k) -> ~ In b (touch x)) ->
  (forall b, In b (touch_c k) -> ~ In b (destr x)) ->
  okc (fst (fst (exec c s x))) k.
Proof.
  intros Hrs Hx Hk Hok D1 D2. inversion Hok; subst.
  - apply okD; auto. apply Forall_forall. intros y Hy.
    rewrite Forall_forall in H0. apply need_stable; auto.
    + intros b Hb. apply D1. eapply in_destr_c; eauto.
    + intros b Hb. apply D2. eapply in_touch_c; eauto.
  - apply okPut0.
  - apply okPut1. change (need (fst (fst (exec c s x))) (SMetaPut a f)). apply need_stable; auto.
    + intros b Hb. apply D1. simpl. rewrite app_nil_r. exact Hb.
    + intros b Hb. apply D2. simpl. rewrite app_nil_r. exact Hb.
  - apply okFl0.
  - apply okFl1.
  - apply okFl2. change (need (fst (fst (exec c s x))) (SWcDelF a)). apply need_stable; auto.
    + intros b Hb. simpl in Hb. contradiction.
    + intros b Hb. apply D2. simpl. exact Hb.
  - destruct k as [|y k']; [apply okD; [reflexivity|constructor]|].
    simpl in H, Hk. apply andb_prop in H as [H _]. apply andb_prop in Hk as [Hk _].
    rewrite H in Hk. discriminate.
Qed.

Definition pinv (p : pstate) : Prop := inv (pst p) /\ Forall (okc (pst p)) (pool p).

Lemma compat_pool_nth l i j :
  compat_pool l = true -> i <> j -> i < length l -> j < length l ->
  no_rs (nth i l []) = true /\ disj (destr_c (nth i l [])) (touch_c (nth j l [])) = true
  /\ disj (destr_c (nth j l [])) (touch_c (nth i l [])) = true.
Proof.
  revert i j. induction l as [|k r IH]; intros i j H Hij Hi Hj; simpl in *; [lia|].
  apply andb_prop in H as [H H3]. apply andb_prop in H as [H1 H2].
  rewrite forallb_forall in H2.
  destruct i, j; try lia.
  - assert (In (nth j r []) r) by (apply nth_In; lia).
    specialize (H2 _ H). apply andb_prop in H2 as [A B]. auto.
  - assert (In (nth i r []) r) by (apply nth_In; lia).
    specialize (H2 _ H). apply andb_prop in H2 as [A B].
    destruct (IH i (S i)) as (N & _); auto; try lia.
    + (* need some j' <> i inside r; if r has one element use itself *)
      destruct r as [|k0 r0]; simpl in *; [lia|].
      destruct i; simpl.
      * apply andb_prop in H3 as [H3 _]. apply andb_prop in H3 as [H3 _].
        (* no_rs of head of r *) repeat split; auto.
      * repeat split; auto.
        apply andb_prop in H3 as [_ H3].
        clear - H3 Hi. revert i Hi. induction r0 as [|k1 r1 IH1]; intros i Hi; simpl in *; [lia|].
        apply andb_prop in H3 as [H3 H4]. apply andb_prop in H3 as [H3 _].
        destruct i; auto. apply IH1; auto. lia.
    + (* unreachable *) idtac.
Abort.
