(* C15: concurrent operations as interleavings of atomic steps.
   A pool of operations in flight; an event starts an operation or advances the
   i-th one by one atomic step (program order inside an operation is kept by
   construction, everything else is free).  Model definitions first, proofs below. *)
From Coq Require Import List Arith Bool Lia.
Import ListNotations.
From NV Require Import Crash.Model Crash.Proofs.

Record pstate := { pst : state; pool : list (list step) }.
Inductive event := EStart (o : op) | EAdv (i : nat).

Fixpoint set_nth {A} (l : list A) (i : nat) (v : A) : list A :=
  match l, i with
  | [], _ => []
  | _ :: r, 0 => v :: r
  | x :: r, S j => x :: set_nth r j v
  end.

Definition papply (c : cfg) (p : pstate) (e : event) : pstate :=
  match e with
  | EStart o => {| pst := pst p; pool := pool p ++ [init_op c o] |}
  | EAdv i =>
      match nth i (pool p) [] with
      | x :: r => {| pst := fst (fst (exec c (pst p) x));
                     pool := set_nth (pool p) i (snd (fst (exec c (pst p) x)) ++ r) |}
      | [] => p
      end
  end.

Definition pinit : pstate := {| pst := init_state; pool := [] |}.
Definition prun (c : cfg) (evs : list event) : pstate := fold_left (papply c) evs pinit.

(* addresses a step works on / whose data or "not indexed" status it may destroy *)
Definition touch (x : step) : list nat :=
  match x with
  | SDataPut a | SMetaPut a _ | SRbCheck a | SWcDelD a | SBlobDel a | SMetaMark a _
  | SFlushRead a | SBlobPut a | SWcDelF a | SResyncPut a _ => [a]
  | SMetaDel l => l
  | _ => []
  end.
Definition destr (x : step) : list nat :=
  match x with
  | SMetaPut a _ | SRbCheck a | SWcDelD a | SBlobDel a => [a]   (* a put may fail and roll back *)
  | SMetaMark a m => if m =? 1 then [a] else []
  | SMetaDel l => l
  | _ => []
  end.

Definition disj (l1 l2 : list nat) : bool := forallb (fun a => negb (existsb (Nat.eqb a) l2)) l1.
Definition touch_c (k : list step) := flat_map touch k.
Definition destr_c (k : list step) := flat_map destr k.
Definition no_rs (k : list step) := forallb (fun x => negb (isRs x)) k.

(* no operation in flight may destroy what another operation in flight works on;
   the offline resync never runs next to anything *)
Definition compat_pool (l : list (list step)) : bool :=
  forallb no_rs l
  && forallb (fun i => forallb (fun j => (i =? j) || disj (destr_c (nth i l [])) (touch_c (nth j l [])))
                               (seq 0 (length l)))
             (seq 0 (length l)).

Definition bad_ev (c : cfg) (p : pstate) (e : event) : bool :=
  match e with
  | EAdv i => match nth i (pool p) [] with SRbCheck a :: _ => bad_rb c (pst p) a | _ => false end
  | _ => false
  end.

(* the interleaving keeps the pool compatible at every moment *)
Fixpoint compat_from (c : cfg) (p : pstate) (evs : list event) : bool :=
  compat_pool (pool p) &&
  match evs with
  | [] => true
  | e :: r => compat_from c (papply c p e) r
  end.
Definition compat_run c evs := compat_from c pinit evs.

(* no unsafe rollback (see Model.bad_rb) is executed *)
Fixpoint clean_from (c : cfg) (p : pstate) (evs : list event) : bool :=
  match evs with
  | [] => true
  | e :: r => negb (bad_ev c p e) && clean_from c (papply c p e) r
  end.
Definition clean_events c evs := clean_from c pinit evs.

(* ------------------------------------------------------------------------------------------ *)
(* proofs *)

Lemma disj_spec l1 l2 a : disj l1 l2 = true -> In a l1 -> ~ In a l2.
Proof.
  unfold disj. rewrite forallb_forall. intros H H1 H2. specialize (H a H1).
  apply negb_true_iff in H. assert (existsb (Nat.eqb a) l2 = true); [|congruence].
  apply existsb_exists. exists a. split; auto. apply Nat.eqb_refl.
Qed.

Lemma in_touch_c x k a : In x k -> In a (touch x) -> In a (touch_c k).
Proof. intros. unfold touch_c. apply in_flat_map. eauto. Qed.
Lemma in_destr_c x k a : In x k -> In a (destr x) -> In a (destr_c k).
Proof. intros. unfold destr_c. apply in_flat_map. eauto. Qed.

(* frame of one step *)
Lemma exec_frame c s x :
  let s' := fst (fst (exec c s x)) in
  isRs x = false ->
  (forall b, protected s' b = true -> protected s b = true \/ In b (touch x))
  /\ (forall b, blob s b = true -> blob s' b = true \/ In b (destr x))
  /\ (forall b, need s x -> has_data s b = true -> has_data s' b = true \/ In b (destr x)).
Proof.
  destruct x; simpl; intros Hrs; try discriminate.
  - (* SDataPut *)
    destruct (wcen c); simpl; repeat split; auto; intros b; unfold has_data, set_wc, set_blob; simpl.
    + intros _ H. left. destruct (Nat.eq_dec b a) as [->|N]; [rewrite upd_same; apply orb_true_r|now rewrite upd_other].
    + intros H. left. destruct (Nat.eq_dec b a) as [->|N]; [now rewrite upd_same|now rewrite upd_other].
    + intros _ H. left. destruct (Nat.eq_dec b a) as [->|N]; [now rewrite upd_same|now rewrite upd_other].
  - (* SMetaPut *)
    destruct fail; simpl; [repeat split; auto|].
    destruct (meta_put c s a) as [s' ok] eqn:E. destruct ok; simpl; [|repeat split; auto].
    apply meta_put_prot in E as (Hp & Hb & Hw). repeat split.
    + intros b H. destruct (Hp b H); auto.
    + intros b H. left. now rewrite Hb.
    + intros b _ H. left. unfold has_data. now rewrite Hb, Hw.
  - (* SRbCheck *)
    destruct (exists_obs c s 0 a =? 1); simpl; repeat split; auto.
  - (* SMetaDel *)
    repeat split.
    + intros b H. apply meta_delete_prot in H as [H _]. auto.
    + intros b H. left. now rewrite meta_delete_blob.
    + intros b _ H. left. unfold has_data. now rewrite meta_delete_blob, meta_delete_wc.
  - (* SWcDelD *)
    repeat split; auto. intros b _ H. destruct (Nat.eq_dec b a) as [->|N]; auto. left.
    unfold has_data, set_wc in *; simpl. now rewrite upd_other.
  - (* SBlobDel *)
    repeat split; auto.
    + intros b H. destruct (Nat.eq_dec b a) as [->|N]; auto. left. unfold set_blob; simpl. now rewrite upd_other.
    + intros b _ H. destruct (Nat.eq_dec b a) as [->|N]; auto. left.
      unfold has_data, set_blob in *; simpl. now rewrite upd_other.
  - (* SMetaMark *)
    destruct (meta_mark_shrink s a m) as (Hp & Hb & Hw). repeat split.
    + intros b H. auto.
    + intros b H. left. now rewrite Hb.
    + intros b _ H. left. unfold has_data. now rewrite Hb, Hw.
  - (* SFlushRead *) repeat split; auto.
  - (* SBlobPut *)
    repeat split; auto; intros b; unfold has_data, set_blob; simpl.
    + intros H. left. destruct (Nat.eq_dec b a) as [->|N]; [now rewrite upd_same|now rewrite upd_other].
    + intros _ H. left. destruct (Nat.eq_dec b a) as [->|N]; [now rewrite upd_same|now rewrite upd_other].
  - (* SWcDelF *)
    repeat split; auto. intros b Hn H. left. unfold has_data, set_wc in *; simpl.
    destruct (Nat.eq_dec b a) as [->|N]; [now rewrite Hn|now rewrite upd_other].
  - (* SGcCollect *)
    destruct (pe s =? gep s); [|destruct (gep s <? pe s)]; simpl; repeat split; auto;
      destruct (expired_list c s (gep s)); simpl; auto.
  - (* SGcGarbage *) repeat split; auto.
  - (* SEpoch *) repeat split; auto.
  - (* SRestart *) repeat split; auto.
Qed.

(* a pending step of another operation keeps what it relies on *)
Lemma need_stable c s x y :
  isRs x = false -> need s x -> need s y ->
  (forall b, In b (destr y) -> ~ In b (touch x)) ->
  (forall b, In b (touch y) -> ~ In b (destr x)) ->
  need (fst (fst (exec c s x))) y.
Proof.
  intros Hrs Hx Hy D1 D2. destruct (exec_frame c s x Hrs) as (Fp & Fb & Fd).
  destruct y; simpl in *; auto.
  - destruct (Fd a Hx Hy) as [H|H]; auto. exfalso. eapply D2; eauto.
  - destruct (protected (fst (fst (exec c s x))) a) eqn:E; auto.
    destruct (Fp a E) as [H|H]; [congruence|]. exfalso. eapply D1; eauto.
  - destruct (protected (fst (fst (exec c s x))) a) eqn:E; auto.
    destruct (Fp a E) as [H|H]; [congruence|]. exfalso. eapply D1; eauto.
  - destruct (Fb a Hy) as [H|H]; auto. exfalso. eapply D2; eauto.
Qed.

Lemma okc_head_need s x r : okc s (x :: r) -> need s x.
Proof.
  intros H. inversion H; subst; simpl; auto.
  - match goal with HF : Forall _ (_ :: _) |- _ => inversion HF; auto end.
  - destruct x; simpl; auto; simpl in *; discriminate.
Qed.

Lemma okc_stable c s x k :
  isRs x = false -> need s x -> no_rs k = true -> okc s k ->
  (forall b, In b (destr_c k) -> ~ In b (touch x)) ->
  (forall b, In b (touch_c k) -> ~ In b (destr x)) ->
  okc (fst (fst (exec c s x))) k.
Proof.
  intros Hrs Hx Hk Hok D1 D2. inversion Hok; subst.
  - apply okD; auto. apply Forall_forall. intros y Hy.
    rewrite Forall_forall in H0. apply need_stable; auto.
    + intros b Hb. apply D1. eapply in_destr_c; eauto.
    + intros b Hb. apply D2. eapply in_touch_c; eauto.
  - apply okPut0.
  - apply okPut1. change (need (fst (fst (exec c s x))) (SMetaPut a f)). apply need_stable; auto;
      try (intros b Hb; first [apply D1 | apply D2]; simpl; rewrite ?app_nil_r; exact Hb).
  - apply okFl0.
  - apply okFl1.
  - apply okFl2. change (need (fst (fst (exec c s x))) (SWcDelF a)). apply need_stable; auto;
      try (intros b Hb; simpl in Hb; contradiction);
      try (intros b Hb; apply D2; simpl; exact Hb).
  - destruct k as [|y k']; [apply okD; [reflexivity|constructor]|].
    simpl in H, Hk. apply andb_prop in H as [H _]. apply andb_prop in Hk as [Hk _].
    rewrite H in Hk. discriminate.
Qed.

Definition pinv (p : pstate) : Prop := inv (pst p) /\ Forall (okc (pst p)) (pool p).

Lemma compat_pool_nth l i j :
  compat_pool l = true -> i <> j -> i < length l -> j < length l ->
  no_rs (nth i l []) = true /\ disj (destr_c (nth i l [])) (touch_c (nth j l [])) = true.
Proof.
  unfold compat_pool. intros H Hij Hi Hj. apply andb_prop in H as [H1 H2]. split.
  - rewrite forallb_forall in H1. apply H1. now apply nth_In.
  - rewrite forallb_forall in H2. specialize (H2 i). rewrite forallb_forall in H2.
    assert (Ii : In i (seq 0 (length l))) by (apply in_seq; lia).
    assert (Ij : In j (seq 0 (length l))) by (apply in_seq; lia).
    specialize (H2 Ii j Ij). apply orb_prop in H2 as [E|E]; auto.
    apply Nat.eqb_eq in E. contradiction.
Qed.

Lemma set_nth_length {A} (l : list A) i v : length (set_nth l i v) = length l.
Proof. revert i; induction l; intros [|i]; simpl; auto. Qed.

Lemma nth_set_nth_same {A} (l : list A) i v d : i < length l -> nth i (set_nth l i v) d = v.
Proof. revert i; induction l; intros [|i] H; simpl in *; try lia; auto. apply IHl. lia. Qed.

Lemma nth_set_nth_other {A} (l : list A) i j v d : i <> j -> nth j (set_nth l i v) d = nth j l d.
Proof. revert i j; induction l; intros [|i] [|j] H; simpl; auto; try lia. Qed.

Lemma Forall_nth_iff {A} (P : A -> Prop) (l : list A) d :
  Forall P l <-> (forall i, i < length l -> P (nth i l d)).
Proof.
  split.
  - intros H i Hi. rewrite Forall_forall in H. apply H. now apply nth_In.
  - intros H. apply Forall_forall. intros x Hx. apply (In_nth _ _ d) in Hx as (i & Hi & <-). auto.
Qed.

Lemma papply_ok c p e :
  pinv p -> compat_pool (pool p) = true -> bad_ev c p e = false -> pinv (papply c p e).
Proof.
  intros [Hi Hp] Hc Hb. destruct e as [o|i]; simpl.
  - split; auto. apply Forall_app; split; auto. constructor; [apply init_op_ok|constructor].
  - destruct (nth i (pool p) []) as [|x r] eqn:En; [split; auto|].
    assert (Li : i < length (pool p)).
    { destruct (Nat.lt_ge_cases i (length (pool p))); auto. rewrite nth_overflow in En by auto. discriminate. }
    assert (Hki : okc (pst p) (x :: r)).
    { rewrite <- En. apply (proj1 (Forall_nth_iff _ _ [])); auto. }
    assert (Hs : rb_safe c (pst p) x).
    { simpl in Hb. rewrite En in Hb. destruct x; simpl; auto. }
    destruct (exec_ok c (pst p) x r Hi Hki Hs) as [Hi' Hk'].
    split; simpl; auto.
    apply (Forall_nth_iff _ _ []). rewrite set_nth_length. intros j Lj.
    destruct (Nat.eq_dec i j) as [<-|N].
    + rewrite nth_set_nth_same by auto. exact Hk'.
    + rewrite nth_set_nth_other by auto.
      destruct (compat_pool_nth _ i j Hc N Li Lj) as [Ni Dij].
      destruct (compat_pool_nth _ j i Hc (not_eq_sym N) Lj Li) as [Nj Dji].
      rewrite En in Ni, Dij, Dji.
      assert (Rx : isRs x = false).
      { simpl in Ni. apply andb_prop in Ni as [Ni _]. now apply negb_true_iff. }
      apply okc_stable; auto.
      * now apply okc_head_need in Hki.
      * apply (proj1 (Forall_nth_iff _ _ [])); auto.
      * intros b Hb1 Hb2. eapply disj_spec; [exact Dji|exact Hb1|].
        eapply in_touch_c; [left; reflexivity|exact Hb2].
      * intros b Hb1 Hb2. eapply disj_spec; [exact Dij| |exact Hb1].
        eapply in_destr_c; [left; reflexivity|exact Hb2].
Qed.

Lemma run_from_ok c p evs :
  pinv p -> compat_from c p evs = true -> clean_from c p evs = true -> pinv (fold_left (papply c) evs p).
Proof.
  revert p; induction evs as [|e r IH]; intros p Hp Hc Hb; simpl in *; auto.
  apply andb_prop in Hc as [Hc1 Hc2]. apply andb_prop in Hb as [Hb1 Hb2].
  apply IH; auto. apply papply_ok; auto. now apply negb_true_iff.
Qed.

Lemma pinit_ok : pinv pinit.
Proof. split; simpl; [intros a H; discriminate|constructor]. Qed.

(* C15 for interleavings that keep the pool compatible *)
Theorem inter_available_readable c evs a :
  compat_run c evs = true -> clean_events c evs = true ->
  let s := pst (prun c evs) in
  available c s a = true -> mk s a <> 1 -> blob s a = true \/ wc s a = true.
Proof.
  intros Hc Hb s Ha Hm. destruct (run_from_ok c pinit evs pinit_ok Hc Hb) as [Hi _].
  unfold available in Ha. apply Nat.eqb_eq in Ha. apply exists_ent in Ha.
  assert (P : protected s a = true).
  { unfold protected. rewrite Ha. simpl. apply negb_true_iff. now apply Nat.eqb_neq. }
  apply Hi in P. unfold has_data in P. now apply orb_prop in P.
Qed.

(* ... and not for all of them: a put racing with a delete of the same address
   (blob written, then the delete removes metadata and blob, then the put indexes) *)
Definition race_cfg : cfg := {| objs := [{| okind := KReg; otgt := 0; oexp := 0 |}]; wcen := false |}.
Definition race_events : list event :=
  [EStart (OPut 0 false); EAdv 0; EStart (ODel [0]); EAdv 1; EAdv 1; EAdv 0].

Theorem inter_refuted : exists c evs a,
  clean_events c evs = true /\
  let s := pst (prun c evs) in
  available c s a = true /\ mk s a <> 1 /\ blob s a = false /\ wc s a = false.
Proof.
  exists race_cfg, race_events, 0. vm_compute. repeat split; auto; discriminate.
Qed.

(* the witness is exactly what the compatibility premise excludes *)
Lemma race_not_compat : compat_run race_cfg race_events = false.
Proof. vm_compute. reflexivity. Qed.

(* non-vacuity of the partial theorem: a flush of one object, a put of a second
   one and a delete of a third one, interleaved step by step *)
Definition ok_cfg : cfg :=
  {| objs := [{| okind := KReg; otgt := 0; oexp := 0 |}; {| okind := KReg; otgt := 0; oexp := 0 |};
              {| okind := KReg; otgt := 0; oexp := 0 |}]; wcen := true |}.
Definition ok_events : list event :=
  [EStart (OPut 0 false); EAdv 0; EAdv 0; EStart (OPut 2 false); EAdv 1; EAdv 1;
   EStart (OFlush 0); EStart (OPut 1 false); EStart (ODel [2]);
   EAdv 2; EAdv 3; EAdv 4; EAdv 2; EAdv 4; EAdv 3; EAdv 2; EAdv 4].
Lemma ok_events_admissible :
  compat_run ok_cfg ok_events = true /\ clean_events ok_cfg ok_events = true
  /\ available ok_cfg (pst (prun ok_cfg ok_events)) 0 = true
  /\ available ok_cfg (pst (prun ok_cfg ok_events)) 1 = true
  /\ available ok_cfg (pst (prun ok_cfg ok_events)) 2 = false.
Proof. vm_compute. auto. Qed.
