(* Executable comparison functions of the C09 check: a harness history is a list of
   operations, each possibly cut at its j-th wrapped component call (before or after
   it); after every operation the harness observes every address. *)
From Coq Require Import List Arith Bool.
Import ListNotations.
From NV Require Import Crash.Model Crash.Check Crash.RModel.

Definition hhop := (op * nat * bool)%type.   (* operation, cut index (0 = none), cut after the call *)

(* number of atomic steps the operation makes before the process dies *)
Fixpoint cut_steps (fuel : nat) (c : cfg) (s : state) (k : list step) (j : nat) (after : bool)
                   (cnt acc : nat) : option nat :=
  match fuel with
  | 0 => None
  | S f =>
      match k with
      | [] => None      (* the operation has fewer wrapped calls: it completes *)
      | x :: r =>
          let isd := match dcode c x with Some _ => true | None => false end in
          if isd && negb after && (S cnt =? j) then Some acc
          else
            let s' := fst (fst (exec c s x)) in
            let k' := snd (fst (exec c s x)) ++ r in
            let cnt' := if isd then S cnt else cnt in
            if isd && after && (cnt' =? j) then Some (S acc)
            else cut_steps f c s' k' j after cnt' (S acc)
      end
  end.

Definition to_hop (c : cfg) (s : state) (h : hhop) : hop :=
  let '(o, j, after) := h in
  if j =? 0 then HOp o
  else match cut_steps OPFUEL c s (init_op c o) j after 0 0 with
       | Some k => HCut o k
       | None => HOp o
       end.

(* the hop list (Resurrect.hop) a harness history denotes *)
Fixpoint conv (c : cfg) (s : state) (hs : list hhop) : list hop :=
  match hs with
  | [] => []
  | h :: r => let hp := to_hop c s h in hp :: conv c (happly c s hp) r
  end.

Definition predict_s (c : cfg) (s : state) : list (nat * nat * nat * nat) :=
  map (fun a => (exists_obs c s (ep s) a, get_obs c s (ep s) a, b2n (blob s a), b2n (wc s a)))
      (seq 0 (nobj c)).

Definition is_cut (h : hop) : bool := match h with HCut _ _ => true | HOp _ => false end.

(* indices (from i) of the operations after which implementation and model differ *)
Fixpoint mism_hops (i : nat) (c : cfg) (s : state) (l : list (hhop * (bool * list (nat * nat * nat * nat))))
  : list nat * nat :=
  match l with
  | [] => ([], i)
  | (h, (wascut, obs)) :: r =>
      let hp := to_hop c s h in
      let s' := happly c s hp in
      let ok := Bool.eqb (is_cut hp) wascut && list_eqb quad_eqb (predict_s c s') obs in
      let '(bad, j) := mism_hops (S i) c s' r in
      (if ok then bad else i :: bad, j)
  end.

Definition case09 := (cfg * list (hhop * (bool * list (nat * nat * nat * nat))))%type.

Fixpoint mism_cases09 (i : nat) (cs : list case09) : list nat :=
  match cs with
  | [] => []
  | (c, l) :: r =>
      let '(bad, j) := mism_hops i c init_state l in
      (if universe_ok c then bad else seq i (j - i)) ++ mism_cases09 j r
  end.

Definition model_mismatches09 := mism_cases09 0.
