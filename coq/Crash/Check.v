(* Executable comparison functions of the crash-consistency checks (C15, C09).
   No proofs here (the only lemma about these functions lives in Proofs.v:
   the state a crash point is compared with is `run_n c ops n` for some n). *)
From Coq Require Import List Arith Bool.
Import ListNotations.
From NV Require Import Crash.Model.
From NV Require Gen.CrashConsts.

(* a crash point as the harness names it *)
Inductive cpoint :=
  | CBefore (k : nat)   (* died before the k-th wrapped component call (1-based) *)
  | CAfter (k : nat)    (* died right after the k-th wrapped component call *)
  | CEnd (m : nat).     (* died between operations, m operations done *)

Definition head_is_data (c : cfg) (m : mst) : bool :=
  match cur m with
  | x :: _ => match dcode c x with Some _ => true | None => false end
  | [] => false
  end.

Definition at_point (c : cfg) (p : cpoint) (m : mst) : bool :=
  match p with
  | CBefore k => head_is_data c m && (S (length (tr m)) =? k)
  | CAfter k => length (tr m) =? k
  | CEnd n => match cur m with [] => nstart m =? n | _ => false end
  end.

(* tick until the crash point is reached *)
Fixpoint seek (fuel : nat) (c : cfg) (p : cpoint) (m : mst) : option mst :=
  if at_point c p m then Some m
  else match fuel with
       | 0 => None
       | S f => seek f c p (tick c m)
       end.

(* what the harness reports for one crash point *)
Record obsv := {
  o_epoch : nat;
  o_trace : list (nat * nat);        (* oldest first *)
  o_res : list (nat * nat);          (* oldest first *)
  o_nops : nat;
  o_obs : list (nat * nat * nat * nat)   (* per address: exists, get, blob has, write-cache has *)
}.

Definition pair_eqb (x y : nat * nat) := (fst x =? fst y) && (snd x =? snd y).
Fixpoint list_eqb {A} (eqb : A -> A -> bool) (l1 l2 : list A) : bool :=
  match l1, l2 with
  | [], [] => true
  | x :: r1, y :: r2 => eqb x y && list_eqb eqb r1 r2
  | _, _ => false
  end.
Definition quad_eqb (x y : nat * nat * nat * nat) : bool :=
  let '(a1, b1, c1, d1) := x in let '(a2, b2, c2, d2) := y in
  (a1 =? a2) && (b1 =? b2) && (c1 =? c2) && (d1 =? d2).

(* the model's prediction of the observation after the restart *)
Definition predict (c : cfg) (m : mst) : list (nat * nat * nat * nat) :=
  let s := reopen m in
  map (fun a => (exists_obs c s (ep s) a, get_obs c s (ep s) a, b2n (blob s a), b2n (wc s a)))
      (seq 0 (nobj c)).

Definition FUEL := 2000.

(* implementation = model at this crash point *)
Definition model_ok (c : cfg) (ops : list op) (p : cpoint) (o : obsv) : bool :=
  match seek FUEL c p (start ops) with
  | None => false
  | Some m =>
      (ep (st m) =? o_epoch o)
      && list_eqb pair_eqb (rev (tr m)) (o_trace o)
      (* after the k-th call the process died inside the operation: its result is not reported *)
      && list_eqb pair_eqb
           (rev (match p with
                 | CAfter _ => filter (fun x => negb (fst x =? nstart m - 1)) (resl m)
                 | _ => resl m
                 end)) (o_res o)
      && (nstart m =? o_nops o)
      && list_eqb quad_eqb (predict c m) (o_obs o)
  end.

(* the property itself on the implementation's observation: every address that
   Exists reports as available is read back in full.  Addresses that carry the
   forced garbage mark in the model are outside the statement (see Properties_C15). *)
Definition ref_ok (c : cfg) (ops : list op) (p : cpoint) (o : obsv) : bool :=
  let marks := match seek FUEL c p (start ops) with Some m => mk (st m) | None => fun _ => 0 end in
  forallb (fun '(a, q) => let '(ex, g, _, _) := q in
                          negb (ex =? 1) || (marks a =? 1) || (g =? 0))
          (combine (seq 0 (nobj c)) (o_obs o)).

(* the garbage removal batch of the shard must not cut the lists of this universe *)
Definition universe_ok (c : cfg) : bool := nobj c <=? Gen.CrashConsts.rm_batch_size.

Definition case := (cfg * list op * list (cpoint * obsv))%type.

(* flat index over all crash points of all cases, in order *)
Fixpoint mism_points (i : nat) (f : cpoint -> obsv -> bool) (l : list (cpoint * obsv)) : list nat * nat :=
  match l with
  | [] => ([], i)
  | (p, o) :: r =>
      let '(bad, j) := mism_points (S i) f r in
      (if f p o then bad else i :: bad, j)
  end.

Fixpoint mism_cases (i : nat) (f : cfg -> list op -> cpoint -> obsv -> bool) (cs : list case) : list nat :=
  match cs with
  | [] => []
  | (c, ops, pts) :: r =>
      let '(bad, j) := mism_points i (fun p o => universe_ok c && f c ops p o) pts in
      bad ++ mism_cases j f r
  end.

Definition model_mismatches := mism_cases 0 model_ok.
Definition ref_mismatches := mism_cases 0 ref_ok.
