(* C15: proofs about the sequential step machine of Crash/Model.v.
   Invariant: "data before metadata on put, metadata before data on delete, blob
   before cache removal on flush":  every address the metabase has an entry for
   (and that does not carry the forced garbage mark) has its data in the blob
   storage or in the write-cache - after ANY number of atomic steps. *)
From Coq Require Import List Arith Bool Lia.
Import ListNotations.
From NV Require Import Crash.Model.

Definition inv (s : state) : Prop :=
  forall a, protected s a = true -> has_data s a = true.

(* what a pending step relies on *)
Definition need (s : state) (x : step) : Prop :=
  match x with
  | SMetaPut a _ => has_data s a = true
  | SWcDelD a | SBlobDel a => protected s a = false
  | SWcDelF a => blob s a = true
  | _ => True
  end.

(* steps that never extend the protected set and rely on nothing but "not protected" *)
Definition isD (x : step) : bool :=
  match x with
  | SWcDelD _ | SBlobDel _ | SMetaDel _ | SGcGarbage | SGcCollect | SEpoch _
  | SRestart | SMetaMark _ _ | SRbCheck _ => true
  | _ => false
  end.
Definition isRs (x : step) : bool :=
  match x with SResyncReset | SResyncPut _ _ => true | _ => false end.

(* the shapes a continuation of one operation can have, with what each relies on *)
Inductive okc (s : state) : list step -> Prop :=
  | okD r : forallb isD r = true -> Forall (need s) r -> okc s r
  | okPut0 a f : okc s [SDataPut a; SMetaPut a f]
  | okPut1 a f : has_data s a = true -> okc s [SMetaPut a f]
  | okFl0 a : okc s [SFlushRead a]
  | okFl1 a : okc s [SBlobPut a; SWcDelF a]
  | okFl2 a : blob s a = true -> okc s [SWcDelF a]
  | okRs r : forallb isRs r = true -> okc s r.

(* s' protects no more than s (plus possibly x) and holds at least the data of s *)
Definition shrink (s s' : state) : Prop :=
  (forall b, protected s' b = true -> protected s b = true)
  /\ blob s' = blob s /\ wc s' = wc s.

Lemma upd_same {A} (f : nat -> A) a v : upd f a v a = v.
Proof. unfold upd. now rewrite Nat.eqb_refl. Qed.
Lemma upd_other {A} (f : nat -> A) a v b : b <> a -> upd f a v b = f b.
Proof. intros H. unfold upd. apply Nat.eqb_neq in H. now rewrite H. Qed.

Lemma shrink_refl s : shrink s s.
Proof. repeat split; auto. Qed.

Lemma shrink_inv s s' : shrink s s' -> inv s -> inv s'.
Proof.
  intros (Hp & Hb & Hw) Hi a Ha. unfold has_data. rewrite Hb, Hw. apply Hi, Hp, Ha.
Qed.

Lemma prot_need s s' y :
  (forall b, protected s' b = true -> protected s b = true) -> isD y = true -> need s y -> need s' y.
Proof.
  intros Hp HD Hn. destruct y; simpl in *; try discriminate; auto;
    destruct (protected s' a) eqn:E; auto; apply Hp in E; congruence.
Qed.

Lemma prot_needs s s' r :
  (forall b, protected s' b = true -> protected s b = true) ->
  forallb isD r = true -> Forall (need s) r -> Forall (need s') r.
Proof.
  intros Hs HD HF. induction HF; simpl in *; constructor.
  - apply andb_prop in HD as [H1 _]. eapply prot_need; eauto.
  - apply andb_prop in HD as [_ H2]. auto.
Qed.

Lemma shrink_needs s s' r :
  shrink s s' -> forallb isD r = true -> Forall (need s) r -> Forall (need s') r.
Proof. intros (Hp & _). now apply prot_needs. Qed.

(* ---- metabase updates ---------------------------------------------------------- *)

Lemma prot_set_ent_true s a b :
  protected (set_ent s a true) b = true -> protected s b = true \/ b = a.
Proof.
  unfold protected, set_ent; simpl. destruct (Nat.eq_dec b a) as [->|N]; auto.
  rewrite upd_other by auto. auto.
Qed.

Lemma prot_set_mk1 s t b : protected (set_mk s t 1) b = true -> protected s b = true.
Proof.
  unfold protected, set_mk; simpl. destruct (Nat.eq_dec b t) as [->|N].
  - rewrite upd_same. simpl. rewrite andb_false_r. discriminate.
  - rewrite upd_other by auto. auto.
Qed.

Lemma meta_put_shape c s a s' ok :
  meta_put c s a = (s', ok) ->
  s' = s \/ s' = set_ent s a true \/ exists t, s' = set_ent (set_mk s t 1) a true.
Proof.
  unfold meta_put.
  repeat match goal with
         | |- context [if ?b then _ else _] => destruct b
         | |- context [match okind ?o with _ => _ end] => destruct (okind o)
         end; intros H; inversion H; subst; eauto.
Qed.

Lemma meta_put_prot c s a s' ok :
  meta_put c s a = (s', ok) ->
  (forall b, protected s' b = true -> protected s b = true \/ b = a)
  /\ blob s' = blob s /\ wc s' = wc s.
Proof.
  intros H. apply meta_put_shape in H as [-> | [-> | [t ->]]]; repeat split; auto; intros b Hb.
  - now apply prot_set_ent_true.
  - apply prot_set_ent_true in Hb as [Hb | ->]; auto. left. eapply prot_set_mk1; eauto.
Qed.

Lemma meta_delete_blob s l : blob (meta_delete s l) = blob s.
Proof. revert s; induction l; intros; simpl; auto. now rewrite IHl. Qed.
Lemma meta_delete_wc s l : wc (meta_delete s l) = wc s.
Proof. revert s; induction l; intros; simpl; auto. now rewrite IHl. Qed.

Lemma meta_delete_prot s l b :
  protected (meta_delete s l) b = true -> protected s b = true /\ ~ In b l.
Proof.
  revert s; induction l as [|a r IH]; intros s H; simpl in *; auto.
  apply IH in H as [H1 H2].
  unfold protected, set_mk, set_ent in H1; simpl in H1.
  destruct (Nat.eq_dec b a) as [->|N].
  - rewrite upd_same in H1. discriminate.
  - rewrite !upd_other in H1 by auto. split; auto. intros [E|E]; auto.
Qed.

Lemma meta_delete_shrink s l : shrink s (meta_delete s l).
Proof.
  repeat split; [|apply meta_delete_blob|apply meta_delete_wc].
  intros b H. now apply meta_delete_prot in H.
Qed.

Lemma meta_mark_shrink s a m : shrink s (meta_mark s a m).
Proof.
  unfold meta_mark. repeat split;
    try (destruct (mk s a =? 0); [|destruct (m =? 1)]; reflexivity).
  intros b. destruct (mk s a =? 0) eqn:E0; [|destruct (m =? 1) eqn:E1]; auto.
  - unfold protected, set_mk; simpl. destruct (Nat.eq_dec b a) as [->|N].
    + rewrite upd_same. apply Nat.eqb_eq in E0. rewrite E0. simpl.
      intros H. apply andb_prop in H as [H _]. now rewrite H.
    + now rewrite upd_other by auto.
  - apply prot_set_mk1.
Qed.

Lemma meta_mark_forced s a : protected (meta_mark s a 1) a = false.
Proof.
  unfold meta_mark. simpl.
  destruct (mk s a =? 0); unfold protected, set_mk; simpl; rewrite upd_same; simpl; apply andb_false_r.
Qed.

(* ---- one step ---------------------------------------------------------------------- *)

Lemma forallb_map_D (f : nat -> step) l : (forall a, isD (f a) = true) -> forallb isD (map f l) = true.
Proof. intros H. induction l; simpl; auto. now rewrite H, IHl. Qed.

Lemma Forall_map_need s (f : nat -> step) l :
  (forall a, In a l -> need s (f a)) -> Forall (need s) (map f l).
Proof. intros H. induction l; simpl; constructor; [apply H; now left|apply IHl; intros; apply H; now right]. Qed.

Definition rb_safe c s x : Prop :=
  match x with SRbCheck a => bad_rb c s a = false | _ => True end.

Lemma exec_D c s x r :
  inv s -> isD x = true -> forallb isD r = true -> need s x -> Forall (need s) r -> rb_safe c s x ->
  inv (fst (fst (exec c s x))) /\ okc (fst (fst (exec c s x))) (snd (fst (exec c s x)) ++ r).
Proof.
  intros Hi HDx HDr Hn Hr Hsafe.
  assert (K : forall s' ex, shrink s s' -> forallb isD ex = true -> Forall (need s') ex ->
                            inv s' /\ okc s' (ex ++ r)).
  { intros s' ex Hs He Hne. split; [eapply shrink_inv; eauto|].
    apply okD; [rewrite forallb_app, He; auto|].
    apply Forall_app; split; auto. eapply shrink_needs; eauto. }
  destruct x; simpl in HDx; try discriminate; simpl in *.
  - (* SRbCheck *)
    destruct (exists_obs c s 0 a =? 1) eqn:E; simpl.
    + apply (K s []); auto using shrink_refl.
    + assert (P : protected s a = false).
      { unfold bad_rb in Hsafe. rewrite E in Hsafe. simpl in Hsafe. now rewrite andb_true_r in Hsafe. }
      apply (K s); auto using shrink_refl.
      * destruct (wcen c); reflexivity.
      * destruct (wcen c); simpl; repeat constructor; auto.
  - (* SMetaDel *)
    apply K.
    + apply meta_delete_shrink.
    + rewrite forallb_app. destruct (wcen c); simpl; rewrite ?forallb_map_D; auto.
    + assert (P : forall a, In a l -> protected (meta_delete s l) a = false).
      { intros a Ha. destruct (protected (meta_delete s l) a) eqn:E; auto.
        apply meta_delete_prot in E as [_ E]. contradiction. }
      apply Forall_app; split; [destruct (wcen c); [|constructor]|]; apply Forall_map_need; auto.
  - (* SWcDelD *)
    assert (S' : forall b, protected (set_wc s a false) b = protected s b) by reflexivity.
    split.
    + intros b Hb. rewrite S' in Hb. destruct (Nat.eq_dec b a) as [->|N]; [congruence|].
      specialize (Hi b Hb). unfold has_data, set_wc in *; simpl. now rewrite upd_other.
    + apply okD; auto. simpl. refine (prot_needs s _ r _ HDr Hr). intros b Hb. exact Hb.
  - (* SBlobDel *)
    assert (S' : forall b, protected (set_blob s a false) b = protected s b) by reflexivity.
    split.
    + intros b Hb. rewrite S' in Hb. destruct (Nat.eq_dec b a) as [->|N]; [congruence|].
      specialize (Hi b Hb). unfold has_data, set_blob in *; simpl. now rewrite upd_other.
    + apply okD; auto. simpl. refine (prot_needs s _ r _ HDr Hr). intros b Hb. exact Hb.
  - (* SMetaMark *)
    apply K.
    + apply meta_mark_shrink.
    + destruct ((m =? 1) && wcen c); reflexivity.
    + destruct (m =? 1) eqn:E; simpl; [|constructor].
      apply Nat.eqb_eq in E; subst m.
      destruct (wcen c); [constructor; [apply meta_mark_forced|constructor]|constructor].
  - (* SGcCollect *)
    destruct (pe s =? gep s); [|destruct (gep s <? pe s)]; simpl.
    + apply (K s [SGcGarbage]); auto using shrink_refl; repeat constructor.
    + apply (K (set_pe s (gep s)) [SGcGarbage]); [repeat split; auto|auto|repeat constructor].
    + set (l := expired_list c s (gep s)).
      set (ts := filter (fun a => is_tomb (tmpl c a)) l).
      set (ot := filter (fun a => negb (is_tomb (tmpl c a))) l).
      assert (Hs : shrink s (match l with [] => set_pe s (gep s) | _ => s end))
        by (destruct l; repeat split; auto).
      apply K; auto.
      * rewrite !forallb_app. destruct ts; simpl; rewrite forallb_map_D; auto.
      * apply Forall_app; split; [destruct ts; repeat constructor|].
        apply Forall_app; split; [apply Forall_map_need; simpl; auto|repeat constructor].
  - (* SGcGarbage *)
    destruct (garbage_list c s) as [|g gl]; simpl;
      [apply (K s []) | apply (K s [SMetaDel (g :: gl)])]; auto using shrink_refl; repeat constructor.
  - (* SEpoch *)
    apply (K (set_epoch s e) []); auto. repeat split; auto.
  - (* SRestart *)
    apply (K _ []); auto. repeat split; auto.
Qed.

Lemma data_grows_wc s a : inv s -> inv (set_wc s a true).
Proof.
  intros Hi b Hb. specialize (Hi b Hb). unfold has_data, set_wc in *; simpl.
  destruct (Nat.eq_dec b a) as [->|N]; [rewrite upd_same; apply orb_true_r|now rewrite upd_other].
Qed.
Lemma data_grows_blob s a : inv s -> inv (set_blob s a true).
Proof.
  intros Hi b Hb. specialize (Hi b Hb). unfold has_data, set_blob in *; simpl.
  destruct (Nat.eq_dec b a) as [->|N]; [now rewrite upd_same|now rewrite upd_other].
Qed.

Lemma exec_ok c s x r :
  inv s -> okc s (x :: r) -> rb_safe c s x ->
  inv (fst (fst (exec c s x))) /\ okc (fst (fst (exec c s x))) (snd (fst (exec c s x)) ++ r).
Proof.
  intros Hi Hok Hsafe. inversion Hok; subst.
  - (* delete-like continuation *)
    simpl in H. apply andb_prop in H as [Hx Hr']. inversion H0; subst. apply exec_D; auto.
  - (* put: data write *)
    simpl. destruct (wcen c); simpl; split; auto using data_grows_wc, data_grows_blob;
      apply okPut1; unfold has_data, set_wc, set_blob; simpl; rewrite upd_same; auto using orb_true_r.
  - (* put: metabase update *)
    simpl. destruct f; simpl.
    + split; auto. apply okD; [reflexivity|repeat constructor].
    + destruct (meta_put c s a) as [s' ok] eqn:E. destruct ok; simpl.
      * apply meta_put_prot in E as (Hp & Hb & Hw). split.
        -- intros b Hb'. unfold has_data. rewrite Hb, Hw.
           destruct (Hp b Hb') as [P | ->]; [now apply Hi|exact H0].
        -- apply okD; [reflexivity|constructor].
      * split; auto. apply okD; [reflexivity|repeat constructor].
  - (* flush: read *)
    simpl. destruct (wc s a); simpl; split; auto; [apply okFl1|apply okD; [reflexivity|constructor]].
  - (* flush: blob put *)
    simpl. split; auto using data_grows_blob. apply okFl2. unfold set_blob; simpl. apply upd_same.
  - (* flush: cache delete *)
    simpl. split; [|apply okD; [reflexivity|constructor]].
    intros b Hb. change (protected s b = true) in Hb. specialize (Hi b Hb).
    unfold has_data, set_wc in *; simpl. destruct (Nat.eq_dec b a) as [->|N].
    + now rewrite H0.
    + now rewrite upd_other.
  - (* resync *)
    simpl in H. apply andb_prop in H as [Hx Hr']. destruct x; simpl in Hx; try discriminate; simpl.
    + split; [intros b Hb; discriminate|now apply okRs].
    + destruct (blob s a) eqn:B; simpl; [|split; auto; now apply okRs].
      match goal with |- context [meta_put c ?s0 a] => destruct (meta_put c s0 a) as [s' ok] eqn:E end.
      simpl. split; [|now apply okRs].
      apply meta_put_prot in E as (Hp & Hb & Hw).
      intros b Hb'. change (protected s' b = true) in Hb'. unfold has_data; simpl. rewrite Hb, Hw.
      assert (Q : blob (if e0 then {| ent := ent s; mk := mk s; blob := blob s; wc := wc s; ep := 0; gep := gep s; pe := pe s |} else s) = blob s
                  /\ wc (if e0 then {| ent := ent s; mk := mk s; blob := blob s; wc := wc s; ep := 0; gep := gep s; pe := pe s |} else s) = wc s)
        by (destruct e0; auto).
      destruct Q as [Q1 Q2]. rewrite Q1, Q2.
      destruct (Hp b Hb') as [P | ->]; [|now rewrite B].
      apply Hi. destruct e0; exact P.
Qed.

(* ---- the machine ------------------------------------------------------------------------ *)

Definition minv (m : mst) : Prop := inv (st m) /\ okc (st m) (cur m).

Lemma init_op_ok c s o : okc s (init_op c o).
Proof.
  destruct o; simpl.
  - apply okPut0.
  - destruct l; apply okD; try reflexivity; repeat constructor.
  - apply okD; [reflexivity|repeat constructor].
  - apply okD; [reflexivity|repeat constructor].
  - apply okD; [reflexivity|repeat constructor].
  - destruct (wcen c); [apply okFl0|apply okD; [reflexivity|constructor]].
  - apply okD; [reflexivity|repeat constructor].
  - apply okRs. simpl. induction ord; simpl; auto.
Qed.

Lemma tick_ok c m : minv m -> bad_head c m = false -> minv (tick c m).
Proof.
  intros [Hi Hc] Hb. unfold tick. destruct (cur m) as [|x r] eqn:Ec.
  - destruct (todo m) as [|o os]; [split; [auto|rewrite Ec; auto]|].
    split; simpl; auto. apply init_op_ok.
  - assert (Hs : rb_safe c (st m) x).
    { unfold bad_head in Hb. rewrite Ec in Hb. destruct x; simpl; auto. }
    pose proof (exec_ok c (st m) x r Hi Hc Hs) as H.
    destruct (exec c (st m) x) as [[s' ex] f]. simpl in H. exact H.
Qed.

Lemma run_n_S c ops n : run_n c ops (S n) = tick c (run_n c ops n).
Proof. reflexivity. Qed.

Lemma run_n_ok c ops n : clean_run c ops n = true -> minv (run_n c ops n).
Proof.
  induction n; intros H.
  - split; simpl; [intros a Ha; discriminate|apply okD; [reflexivity|constructor]].
  - simpl in H. apply andb_prop in H as [H1 H2]. rewrite run_n_S. apply tick_ok; auto.
    now apply negb_true_iff.
Qed.

Lemma exists_ent c s e a : exists_obs c s e a = 1 -> ent s a = true.
Proof.
  unfold exists_obs. destruct (status c s e a) as [|[|[|[|?]]]]; try discriminate;
    destruct (ent s a); auto; discriminate.
Qed.

(* C15: every history, every crash point n *)
Theorem crash_available_readable c ops n a :
  clean_run c ops n = true ->
  let s := reopen (run_n c ops n) in
  available c s a = true -> mk s a <> 1 -> blob s a = true \/ wc s a = true.
Proof.
  intros Hc s Ha Hm. destruct (run_n_ok c ops n Hc) as [Hi _].
  unfold available in Ha. apply Nat.eqb_eq in Ha. apply exists_ent in Ha.
  assert (P : protected (st (run_n c ops n)) a = true).
  { unfold protected. change (ent (st (run_n c ops n)) a) with (ent s a). rewrite Ha. simpl.
    change (mk (st (run_n c ops n)) a) with (mk s a). apply negb_true_iff. now apply Nat.eqb_neq. }
  apply Hi in P. unfold has_data in P. apply orb_prop in P. exact P.
Qed.

(* an available object that no lock keeps available carries no forced mark *)
Lemma unlocked_available_unmarked c s a :
  available c s a = true -> locked c s (ep s) a = false -> mk s a <> 1.
Proof.
  unfold available, exists_obs, status. intros H L. rewrite L in H. rewrite andb_false_r in H.
  destruct (is_exp c s (ep s) a); [discriminate|].
  unfold in_garb in H. destruct (tombstoned c s a); [discriminate|].
  destruct (mk s a =? 1) eqn:E; [discriminate|]. now apply Nat.eqb_neq.
Qed.

Theorem crash_unlocked_available_readable c ops n a :
  clean_run c ops n = true ->
  let s := reopen (run_n c ops n) in
  available c s a = true -> locked c s (ep s) a = false -> blob s a = true \/ wc s a = true.
Proof.
  intros Hc s Ha Hl. apply crash_available_readable; auto. eapply unlocked_available_unmarked; eauto.
Qed.

(* a rollback is unsafe only for an address that is tombstoned without carrying
   the mark every tombstone sets on its target *)
Lemma bad_rb_tombstoned c s a : bad_rb c s a = true -> tombstoned c s a = true /\ ent s a = true /\ mk s a <> 1.
Proof.
  unfold bad_rb, protected. intros H. apply andb_prop in H as [H1 H2]. apply andb_prop in H1 as [He Hm].
  apply negb_true_iff in Hm. apply Nat.eqb_neq in Hm. apply negb_true_iff in H2.
  repeat split; auto.
  unfold exists_obs, status in H2. rewrite He in H2.
  assert (X : is_exp c s 0 a = false).
  { unfold is_exp. destruct (oexp (tmpl c a)); simpl; [apply andb_false_r|apply andb_false_r]. }
  rewrite X in H2. unfold in_garb in H2 |- *.
  destruct (tombstoned c s a); auto.
  apply Nat.eqb_neq in Hm. rewrite Hm in H2. simpl in H2. discriminate.
Qed.

(* ---- link to the comparison functions ------------------------------------------------------ *)
From NV Require Import Crash.Check.

(* the model state every observed crash point is compared with is the state after
   some number n of ticks of the same history: a state the theorems above speak about *)
Lemma iter_shift {A} (f : A -> A) n x : Nat.iter (S n) f x = Nat.iter n f (f x).
Proof. induction n; simpl in *; auto. now rewrite <- IHn. Qed.

Lemma seek_iter fuel c p m m' :
  seek fuel c p m = Some m' -> exists n, m' = Nat.iter n (tick c) m.
Proof.
  revert m; induction fuel; intros m H; simpl in H.
  - destruct (at_point c p m); [|discriminate]. inversion H. now exists 0.
  - destruct (at_point c p m); [inversion H; now exists 0|].
    apply IHfuel in H as [n ->]. exists (S n). now rewrite iter_shift.
Qed.

Theorem seek_is_run_n fuel c p ops m :
  seek fuel c p (start ops) = Some m -> exists n, m = run_n c ops n.
Proof. apply seek_iter. Qed.
