(* C09 - model part (definitions only, executable).
   A removed object never becomes readable again without a new upload.
   Histories over the step machine of Crash/Model.v in which an operation may be
   cut by a process death after k of its atomic steps (followed by a restart), with
   restarts and metabase resyncs from the blob storage in any enumeration order.
   Proofs: Crash/Resurrect.v. *)
From Coq Require Import List Arith Bool Lia.
Import ListNotations.
From NV Require Import Crash.Model.

Inductive hop :=
  | HOp (o : op)               (* the operation runs to completion *)
  | HCut (o : op) (k : nat).   (* the process dies after k atomic steps of the operation; restart *)

(* run a continuation for at most n atomic steps *)
Fixpoint run_cont (c : cfg) (n : nat) (s : state) (k : list step) : state * list step :=
  match n, k with
  | S m, x :: r => run_cont c m (fst (fst (exec c s x))) (snd (fst (exec c s x)) ++ r)
  | _, _ => (s, k)
  end.

Definition restart (s : state) : state :=
  {| ent := ent s; mk := mk s; blob := blob s; wc := wc s; ep := ep s; gep := 0; pe := 0 |}.

(* no operation of this model needs more steps than this in the universes used *)
Definition OPFUEL := 400.
Global Opaque OPFUEL.

Definition happly (c : cfg) (s : state) (h : hop) : state :=
  match h with
  | HOp o => fst (run_cont c OPFUEL s (init_op c o))
  | HCut o k => restart (fst (run_cont c k s (init_op c o)))
  end.

Definition hrun (c : cfg) (hs : list hop) : state := fold_left (happly c) hs init_state.

(* Shard.Get returns the object *)
Definition readable c s a : bool := get_obs c s (ep s) a =? 0.
(* the shard reports the object as removed: tombstoned (2) or dropped with a garbage mark (4) *)
Definition reported_removed c s a : bool :=
  (exists_obs c s (ep s) a =? 2) || (exists_obs c s (ep s) a =? 4).
(* nothing of the object is left: no metabase entry, no blob, no cache file *)
Definition gone s a : bool := negb (ent s a) && negb (blob s a) && negb (wc s a).

Definition op_of (h : hop) : op := match h with HOp o => o | HCut o _ => o end.
Definition is_put_of (a : nat) (h : hop) : bool :=
  match op_of h with OPut b _ => b =? a | _ => false end.
Definition no_put (a : nat) (hs : list hop) : bool := forallb (fun h => negb (is_put_of a h)) hs.

