(* C44, scenario class "expired split objects": executable model of the engine's collection of the
   children of an expired split parent (engine/inhume.go collectChildrenWithoutLink, reached from
   processExpiredObjects -> processAddrDelete when the LINK object cannot be read), the reference
   of the property text, and the comparison functions used by props/C44.py.  Definitions only.

   A stored object is seen through what the lookups use: its ID, its split.first attribute, its split
   ID attribute.  [collect_without_link] is a function from the stored set (of the container, all
   shards merged) to the list of IDs handed to Shard.Delete:
     first ID known  -> objects whose split.first = first ID, then the first ID itself (the first part
                        does not carry the attribute);
     split ID known  -> objects whose split ID matches (V1: every part carries it);
     neither         -> nothing. *)
From Coq Require Import List NArith Bool.
Import ListNotations.
Local Open Scope N_scope.

Record spart := mkSPart { sp_id : N; sp_first : option N; sp_split : option N }.
Record sinfo := mkSInfo { si_first : option N; si_split : option N }.

Definition opt_is (a : option N) (x : N) : bool := match a with Some y => y =? x | None => false end.

Definition raw_with_first (f : N) (st : list spart) : list N := map sp_id (filter (fun p => opt_is (sp_first p) f) st).
Definition raw_with_split (s : N) (st : list spart) : list N := map sp_id (filter (fun p => opt_is (sp_split p) s) st).

Definition collect_without_link (si : sinfo) (st : list spart) : list N :=
  match si_first si, si_split si with
  | Some f, _ => raw_with_first f st ++ [f]
  | None, Some s => raw_with_split s st
  | None, None => []
  end.

(* children named by a readable link object + the link itself; otherwise the lookup above *)
Definition collect_children (link : option (list N * N)) (si : sinfo) (st : list spart) : list N :=
  match link with
  | Some (children, l) => children ++ [l]
  | None => collect_without_link si st
  end.

Definition mem_id (x : N) (l : list N) : bool := existsb (N.eqb x) l.
(* what is left of the stored set when the collected IDs are deleted (Shard.Delete on every shard) *)
Definition split_survivors (st : list spart) (collected : list N) : list spart :=
  filter (fun p => negb (mem_id (sp_id p) collected)) st.

(* ---- chains as the slicer lays them out *)
Inductive sver := SV1 (sid : N) | SV2.
Definition v2_first (f : N) := mkSPart f None None.
Definition v2_later (f id : N) := mkSPart id (Some f) None.          (* middle / last part, LINK object *)
Definition v1_part (s id : N) := mkSPart id None (Some s).           (* any part, link object *)
Definition chain_of (v : sver) (f : N) (rest : list N) : list spart :=
  match v with
  | SV2 => v2_first f :: map (v2_later f) rest
  | SV1 s => v1_part s f :: map (v1_part s) rest
  end.
Definition sinfo_of (v : sver) (f : N) : sinfo :=
  match v with SV2 => mkSInfo (Some f) None | SV1 s => mkSInfo None (Some s) end.

(* ---- cases of the harness (`gc split`): chain number k of a case, object indices 0..n (n = link) *)
Record schain := mkSChain {
  sc_cnr : N; sc_v1 : bool; sc_n : N; sc_exp : option N;
  sc_stored : list N;     (* indices stored before the drain (observed) *)
  sc_after : list N       (* indices still stored after the drain (BLOB storage or metabase, any shard) *)
}.
Record scase := mkSCase { sca_epoch : N (* epoch reached by the drain *); sca_chains : list schain }.

Definition sc_id (k idx : N) : N := 20 * (k + 1) + 1 + idx.
Definition sc_ver (k : N) (ch : schain) : sver := if sc_v1 ch then SV1 (k + 1) else SV2.
Definition sc_part (k : N) (ch : schain) (idx : N) : spart :=
  if sc_v1 ch then v1_part (k + 1) (sc_id k idx)
  else if idx =? 0 then v2_first (sc_id k 0) else v2_later (sc_id k 0) (sc_id k idx).
Definition sc_expired (e : N) (ch : schain) : bool := match sc_exp ch with Some x => x <? e | None => false end.

Fixpoint number {A} (k : N) (l : list A) : list (N * A) :=
  match l with [] => [] | x :: t => (k, x) :: number (k + 1) t end.

Definition stored_of_cnr (c : N) (chs : list (N * schain)) : list spart :=
  flat_map (fun kc => if sc_cnr (snd kc) =? c then map (sc_part (fst kc) (snd kc)) (sc_stored (snd kc)) else []) chs.

(* IDs deleted in container c: for every expired chain of c the collected list (the LINK object of an expired
   parent is not readable any more -- Get answers "not found" -- so the lookup path is the one taken) *)
Definition dead_of_cnr (e c : N) (chs : list (N * schain)) : list N :=
  flat_map (fun kc => if (sc_cnr (snd kc) =? c) && sc_expired e (snd kc)
                      then collect_children None (sinfo_of (sc_ver (fst kc) (snd kc)) (sc_id (fst kc) 0)) (stored_of_cnr c chs)
                      else []) chs.

Definition model_after (e : N) (chs : list (N * schain)) (k : N) (ch : schain) : list N :=
  filter (fun idx => negb (mem_id (sc_id k idx) (dead_of_cnr e (sc_cnr ch) chs))) (sc_stored ch).

(* the property text: an expired (unlocked) parent leaves nothing behind, anything else stays *)
Definition ref_after (e : N) (ch : schain) : list N := if sc_expired e ch then [] else sc_stored ch.

Fixpoint list_eqb (a b : list N) : bool :=
  match a, b with
  | [], [] => true
  | x :: a', y :: b' => (x =? y) && list_eqb a' b'
  | _, _ => false
  end.

(* codes: 40 * case + 4 * chain + (1: implementation <> model, 2: implementation <> reference); kept small (unary nat):
   at most 50 cases per evaluation, at most 9 chains per case *)
Definition chain_codes (i : nat) (e : N) (chs : list (N * schain)) (kc : N * schain) : list nat :=
  let base := (40 * i + 4 * N.to_nat (fst kc))%nat in
  (if list_eqb (sc_after (snd kc)) (model_after e chs (fst kc) (snd kc)) then [] else [(base + 1)%nat]) ++
  (if list_eqb (sc_after (snd kc)) (ref_after e (snd kc)) then [] else [(base + 2)%nat]).

Definition case_codes (i : nat) (c : scase) : list nat :=
  let chs := number 0 (sca_chains c) in
  flat_map (chain_codes i (sca_epoch c) chs) chs.

Fixpoint split_mismatches_from (i : nat) (cs : list scase) : list nat :=
  match cs with [] => [] | c :: t => case_codes i c ++ split_mismatches_from (S i) t end.
Definition split_mismatches (cs : list scase) : list nat := split_mismatches_from 0 cs.
