(* C07: a live lock protects its object from tombstones, expiry and garbage collection. *)
From Coq Require Import List NArith ZArith Bool Lia.
Import ListNotations.
From NV Require Import Base.U64 Gen.MetaConsts Meta.SMap Meta.SMapProofs Meta.Model Meta.Spec
     Meta.StatusProofs Meta.WfProofs Meta.TypedProofs Meta.ViewProofs GC.Model GC.Spec GC.Lemmas.
Local Open Scope N_scope.

(* ---------------------------------------------------------------- metabase put of an association object *)

(* the put reaches the association checks: its own ID is neither removed, nor expired, nor already stored and available *)
Definition proceeds (cur : N) (b : cstate) (id : oid) : bool :=
  let st := status_direct b id cur in
  negb (st =? st_tombstoned) && negb (st =? st_expired) && negb ((st =? st_available) && stored b id).

(* If the association check of a tombstone / lock object refuses (whatever the
   counter diff handed in), the put leaves the bucket as it is; it reports success
   only when the very same ID is already stored (repeated put, nothing done). *)
Lemma assoc_put_refused cur b o e' :
  GInv b -> simple_obj o = true -> cgc b = false ->
  (h_typ (o_hdr o) = TTombstone \/ h_typ (o_hdr o) = TLock) ->
  (forall d, exists d', handle_assoc cur b d o = (b, d', e')) -> e' <> EOk ->
  fst (fst (put_top cur b o)) = b /\
  (snd (put_top cur b o) = EOk -> stored b (o_id o) = true) /\
  (proceeds cur b (o_id o) = true -> snd (put_top cur b o) = e').
Proof.
  intros G So Cg Ty HA Ne. unfold put_top, max_nesting. simpl put_obj.
  unfold simple_obj in So. apply andb_true_iff in So as [Sh Sp].
  destruct (o_par o) eqn:Par; [discriminate|]. rewrite Cg.
  rewrite (ginv_status b (o_id o) cur G). unfold proceeds.
  destruct (status_direct b (o_id o) cur =? st_tombstoned); simpl; [repeat split; auto; discriminate|].
  destruct (status_direct b (o_id o) cur =? st_expired); simpl; [repeat split; auto; discriminate|].
  destruct ((status_direct b (o_id o) cur =? st_available) && stored b (o_id o)) eqn:Sc; simpl.
  { apply andb_true_iff in Sc as [_ Sc]. repeat split; auto. discriminate. }
  destruct (HA (mkDiff 0 0 0 0 0 0 (Z.of_N (h_size (o_hdr o))))) as [d' E].
  destruct Ty as [Ty|Ty]; rewrite Ty, E; destruct e'; try congruence; simpl; repeat split; auto; discriminate.
Qed.

(* refusals of handleObjectWithAssociation *)
Lemma ha_tomb_locked cur b o x :
  h_typ (o_hdr o) = TTombstone -> h_assoc (o_hdr o) = Some x -> object_locked cur b x = true ->
  exists e', e' <> EOk /\ (forall d, exists d', handle_assoc cur b d o = (b, d', e')) /\
             (match type_of b x with Some TTombstone | Some TLock => False | _ => True end -> e' = ELocked).
Proof.
  intros Ty As L. unfold handle_assoc. rewrite As, Ty, L.
  destruct (type_of b x) as [[| | |]|].
  - exists ELocked. split; [discriminate|]. split; [intros d; eexists; reflexivity|auto].
  - exists EOther. split; [discriminate|]. split; [intros d; eexists; reflexivity|tauto].
  - exists ELockRemoval. split; [discriminate|]. split; [intros d; eexists; reflexivity|tauto].
  - exists ELocked. split; [discriminate|]. split; [intros d; eexists; reflexivity|auto].
  - exists ELocked. split; [discriminate|]. split; [intros d; eexists; reflexivity|auto].
Qed.

Lemma ha_lock_tombstoned cur b o x :
  wfc b -> h_typ (o_hdr o) = TLock -> h_assoc (o_hdr o) = Some x -> tombstoned b x = true ->
  exists e', (e' = EAlreadyRemoved \/ e' = ELockNonRegular) /\ (forall d, exists d', handle_assoc cur b d o = (b, d', e')).
Proof.
  intros W Ty As T. unfold handle_assoc. rewrite As, Ty.
  assert (IG : in_garbage b x =? st_tombstoned = true) by (rewrite (in_garbage_spec b x W), T; reflexivity).
  rewrite IG, orb_true_r.
  destruct (type_of b x) as [[| | |]|].
  - exists EAlreadyRemoved. split; [auto|intros d; eexists; reflexivity].
  - exists ELockNonRegular. split; [auto|intros d; eexists; reflexivity].
  - exists ELockNonRegular. split; [auto|intros d; eexists; reflexivity].
  - exists ELockNonRegular. split; [auto|intros d; eexists; reflexivity].
  - exists EAlreadyRemoved. split; [auto|intros d; eexists; reflexivity].
Qed.

Lemma ha_tomb_of_lock cur b o x :
  h_typ (o_hdr o) = TTombstone -> h_assoc (o_hdr o) = Some x -> type_of b x = Some TLock ->
  forall d, exists d', handle_assoc cur b d o = (b, d', ELockRemoval).
Proof. intros Ty As T d. unfold handle_assoc. rewrite As, Ty, T. eexists; reflexivity. Qed.

(* ---------------------------------------------------------------- Shard.Put of a refused object *)

Lemma sm_put_same {A} k (v : A) m : sm_get k m = Some v -> sm_put k v m = m.
Proof.
  induction m as [|[k' v'] r IH]; simpl; intros H; [discriminate|].
  destruct (k =? k') eqn:E.
  - apply N.eqb_eq in E. inversion H; subst. reflexivity.
  - destruct (k <? k'); [discriminate|]. now rewrite IH.
Qed.

Lemma set_bucket_same m c b : bucket m c = Some b -> set_bucket m c b = m.
Proof. intros B. unfold set_bucket. rewrite (sm_put_same c b (cnrs m) B). now destruct m. Qed.

(* what a refused put does to the shard: metadata and clocks untouched; data of every
   other address untouched; success is reported only for an ID that is already stored *)
Definition put_no_effect (s : shard) (c : cid) (o : obj) : Prop :=
  sh_meta (fst (sput s c o)) = sh_meta s /\
  sh_cur (fst (sput s c o)) = sh_cur s /\ sh_done (fst (sput s c o)) = sh_done s /\
  (forall c' y, (c', y) <> (c, o_id o) -> blob_has (sh_blob (fst (sput s c o))) c' y = blob_has (sh_blob s) c' y) /\
  (snd (sput s c o) = EOk -> stored_at (sh_meta s) c (o_id o) = true).

Lemma blob_other bl c x c' y : (c', y) <> (c, x) ->
  blob_has (blob_put c x bl) c' y = blob_has bl c' y /\
  blob_has (blob_del c x (blob_put c x bl)) c' y = blob_has bl c' y.
Proof.
  intros Ne.
  assert (E1 : addr_eqb (c', y) (c, x) = false) by (apply not_true_is_false; intros H; apply addr_eqb_eq in H; congruence).
  assert (E2 : addr_eqb (c, x) (c', y) = false) by (apply not_true_is_false; intros H; apply addr_eqb_eq in H; congruence).
  rewrite blob_has_del, blob_has_put, E1, E2. simpl. now rewrite orb_false_r, andb_true_r.
Qed.

Lemma sput_refused s c o b e' :
  inv s -> simple_obj o = true -> bucket (sh_meta s) c = Some b -> cgc b = false ->
  (h_typ (o_hdr o) = TTombstone \/ h_typ (o_hdr o) = TLock) ->
  (forall d, exists d', handle_assoc (epoch (sh_meta s)) b d o = (b, d', e')) -> e' <> EOk ->
  put_no_effect s c o /\
  (proceeds (epoch (sh_meta s)) b (o_id o) = true -> snd (sput s c o) = e').
Proof.
  intros I So B Cg Ty HA Ne. destruct (inv_bucket s c b I B) as [W G].
  destruct (assoc_put_refused (epoch (sh_meta s)) b o e' G So Cg Ty HA Ne) as (P1 & P2 & P3).
  unfold put_no_effect, sput. unfold bucket_or_new. rewrite B.
  destruct (put_top (epoch (sh_meta s)) b o) as [[b' d] e] eqn:E. simpl in P1, P2, P3. subst b'.
  assert (St : stored b (o_id o) = true -> stored_at (sh_meta s) c (o_id o) = true).
  { unfold stored, sm_mem, stored_at, entry_at. fold (bucket (sh_meta s) c). rewrite B.
    destruct (sm_get (o_id o) (objs b)); auto. }
  destruct e; simpl.
  1:{ rewrite (set_bucket_same _ _ _ B). repeat split; auto.
      intros c' y Hn. now apply blob_other. }
  all: split; [|exact P3]; split; [reflexivity|]; split; [reflexivity|]; split; [reflexivity|];
       (split; [|discriminate]); intros c' y Hn;
       destruct (view_exists (sh_meta s) true c (o_id o) =? v_ok); now apply blob_other.
Qed.

Lemma locked_at_bucket m e c x :
  locked_at m e c x = true -> exists b, bucket m c = Some b /\ cgc b = false /\ live_lock b e x = true.
Proof.
  unfold locked_at. fold (bucket m c). destruct (bucket m c) as [b|]; [|discriminate].
  intros H. apply andb_true_iff in H as [H1 H2]. exists b. repeat split; auto. now destruct (cgc b).
Qed.

(* C07_tombstone_rejected *)
Theorem tombstone_rejected s c o x :
  inv s -> simple_obj o = true -> h_typ (o_hdr o) = TTombstone -> h_assoc (o_hdr o) = Some x ->
  locked_at (sh_meta s) (epoch (sh_meta s)) c x = true ->
  put_no_effect s c o /\
  (forall b, bucket (sh_meta s) c = Some b -> proceeds (epoch (sh_meta s)) b (o_id o) = true ->
             match type_of b x with Some TTombstone | Some TLock => False | _ => True end ->
             snd (sput s c o) = ELocked).
Proof.
  intros I So Ty As L. destruct (locked_at_bucket _ _ _ _ L) as (b & B & Cg & LL).
  destruct (inv_bucket s c b I B) as [W G].
  assert (OL : object_locked (epoch (sh_meta s)) b x = true) by (rewrite (locked_spec b _ x W); exact LL).
  destruct (ha_tomb_locked (epoch (sh_meta s)) b o x Ty As OL) as (e' & Ne & HA & HL).
  destruct (sput_refused s c o b e' I So B Cg (or_introl Ty) HA Ne) as [P1 P2].
  split; [exact P1|]. intros b0 B0 Pr Tx. rewrite B in B0. inversion B0; subst b0.
  rewrite (P2 Pr). now apply HL.
Qed.

(* C07_lock_after_tombstone_rejected: full strength (no exclusion) since the repair 497eb4c *)
Theorem lock_after_tombstone_rejected s c o x b :
  inv s -> simple_obj o = true -> h_typ (o_hdr o) = TLock -> h_assoc (o_hdr o) = Some x ->
  bucket (sh_meta s) c = Some b -> cgc b = false -> tombstoned b x = true ->
  put_no_effect s c o /\
  (proceeds (epoch (sh_meta s)) b (o_id o) = true ->
   snd (sput s c o) = EAlreadyRemoved \/ snd (sput s c o) = ELockNonRegular).
Proof.
  intros I So Ty As B Cg T. destruct (inv_bucket s c b I B) as [W G].
  destruct (ha_lock_tombstoned (epoch (sh_meta s)) b o x W Ty As T) as (e' & He & HA).
  assert (Ne : e' <> EOk) by (destruct He; subst; discriminate).
  destruct (sput_refused s c o b e' I So B Cg (or_intror Ty) HA Ne) as [P1 P2].
  split; [exact P1|]. intros Pr. rewrite (P2 Pr). exact He.
Qed.

(* C07_lock_not_tombstonable *)
Theorem lock_not_tombstonable s c o x b :
  inv s -> simple_obj o = true -> h_typ (o_hdr o) = TTombstone -> h_assoc (o_hdr o) = Some x ->
  bucket (sh_meta s) c = Some b -> cgc b = false -> type_of b x = Some TLock ->
  put_no_effect s c o /\
  (proceeds (epoch (sh_meta s)) b (o_id o) = true -> snd (sput s c o) = ELockRemoval).
Proof.
  intros I So Ty As B Cg T.
  pose proof (ha_tomb_of_lock (epoch (sh_meta s)) b o x Ty As T) as HA.
  assert (Ne : ELockRemoval <> EOk) by discriminate.
  destruct (sput_refused s c o b ELockRemoval I So B Cg (or_introl Ty) HA Ne) as [P1 P2].
  split; [exact P1|exact P2].
Qed.

(* ---------------------------------------------------------------- status of a locked object *)

Lemma locked_status_direct b x e : object_locked e b x = true -> status_direct b x e = st_available.
Proof.
  intros L. unfold status_direct. rewrite L. destruct (is_expired b x e); auto.
  destruct (in_garbage b x =? st_available) eqn:E; simpl; auto. now apply N.eqb_eq in E.
Qed.

(* C07_never_expired_or_removed: Exists / Get / Shard.Get of a locked object never answer
   "expired" or "already removed" (nor "not found" because of a garbage mark) *)
Theorem never_expired_or_removed s c x :
  inv s -> locked_at (sh_meta s) (epoch (sh_meta s)) c x = true ->
  (view_exists (sh_meta s) false c x = v_ok \/ view_exists (sh_meta s) false c x = v_absent) /\
  (forall raw, view_get (sh_meta s) raw c x = v_ok \/
               (view_get (sh_meta s) raw c x = v_notfound /\ stored_at (sh_meta s) c x = false)) /\
  sh_get s c x <> v_removed /\ sh_get s c x <> v_expired /\ sh_locked s c x = true.
Proof.
  intros I L. destruct (locked_at_bucket _ _ _ _ L) as (b & B & Cg & LL).
  destruct (inv_bucket s c b I B) as [W G].
  assert (OL : object_locked (epoch (sh_meta s)) b x = true) by (rewrite (locked_spec b _ x W); exact LL).
  assert (St : object_status b x (epoch (sh_meta s)) = st_available)
    by (rewrite (ginv_status b x _ G); now apply locked_status_direct).
  assert (VE : view_exists (sh_meta s) false c x = if stored b x then v_ok else v_absent).
  { unfold view_exists. rewrite B, Cg, St. simpl. now rewrite (ginv_parent_info b x G). }
  assert (VG : forall raw, view_get (sh_meta s) raw c x = if stored b x then v_ok else v_notfound).
  { intros raw. unfold view_get. rewrite B, Cg, St. simpl. rewrite (ginv_parent_info b x G). now destruct raw. }
  assert (SA : stored_at (sh_meta s) c x = stored b x).
  { unfold stored_at, entry_at, stored, sm_mem. fold (bucket (sh_meta s) c). now rewrite B. }
  split; [rewrite VE; destruct (stored b x); auto|].
  split; [intros raw; rewrite VG, SA; destruct (stored b x); auto|].
  unfold sh_get, sh_locked, view_locked. rewrite VE, B, Cg, OL.
  destruct (stored b x); simpl; [destruct (blob_has (sh_blob s) c x)|]; repeat split; discriminate.
Qed.

(* ---------------------------------------------------------------- garbage collection keeps a protected object *)

Lemma expired_anti b e e' l : e <= e' -> expired b e' l = false -> expired b e l = false.
Proof.
  unfold expired. intros Le. destruct (sm_get l (objs b)) as [en|]; auto.
  destruct (h_exp (e_hdr en)) as [x0|]; auto. intros H. apply N.ltb_ge in H. apply N.ltb_ge. lia.
Qed.

Lemma live_lock_anti b e e' x : e <= e' -> live_lock b e' x = true -> live_lock b e x = true.
Proof.
  intros Le H. unfold live_lock in *. apply existsb_exists in H as [kv [Hin H]]. apply existsb_exists. exists kv. split; auto.
  apply andb_true_iff in H as [H1 H2]. rewrite H1. simpl. unfold lock_live in *.
  apply andb_true_iff in H2 as [H2 H3]. apply andb_true_iff in H2 as [H2 H4]. rewrite H3, H4.
  apply negb_true_iff in H2. rewrite (expired_anti b e e' (fst kv) Le H2). reflexivity.
Qed.

Lemma view_expired_in m e c x t :
  wf_state m -> In (c, x, t) (view_expired m e) ->
  exists b, bucket m c = Some b /\ cgc b = false /\ live_lock b e x = false /\ expired b e x = true /\
            sm_mem x (objs b) = true.
Proof.
  intros W H. apply (expired_iter_exact m e (c, x, t) W) in H.
  unfold expired_unlocked in H. apply in_flat_map in H as [[c0 b] [Hin H]]. cbn [fst snd] in H.
  apply in_map_iff in H as [[o t'] [E H]]. cbn [fst snd] in E. inversion E; subst c0 o t'.
  exists b. split; [now apply (bucket_in m c b W)|].
  unfold expired_unlocked_in in H. destruct (cgc b); [destruct H|]. split; auto.
  apply in_flat_map in H as [[o' en] [H3 H4]]. cbn [fst snd] in H4.
  destruct (expired b e o') eqn:EX; [|destruct H4]. destruct (live_lock b e o') eqn:LL; [destruct H4|].
  simpl in H4. destruct H4 as [H4|[]]. inversion H4; subst. repeat split; auto.
  assert (Wb : wfc b) by (destruct W as [_ W2]; eapply W2; eauto). destruct Wb as [Wo _].
  unfold sm_mem. now rewrite (sm_get_in _ _ _ Wo H3).
Qed.

Lemma firstn_in {A} n (l : list A) y : In y (firstn n l) -> In y l.
Proof.
  revert l. induction n as [|n IH]; intros l H; simpl in H; [contradiction|].
  destruct l as [|a r]; [contradiction|]. destruct H as [H|H]; [now left|right; auto].
Qed.

Lemma tomb_bins_in l : forall cur c' ids y,
  In (c', ids) (tomb_bins l cur) -> In y ids ->
  (exists t, In (c', y, t) l) \/ (exists ids0, cur = Some (c', ids0) /\ In y ids0).
Proof.
  induction l as [|[[c x] t] r IH]; intros cur c' ids y Hb Hy; simpl in Hb.
  - destruct cur as [[c0 ids0]|]; [|contradiction]. destruct Hb as [E|[]]. inversion E; subst. right. eauto.
  - destruct (is_tomb t).
    + destruct cur as [[c0 ids0]|].
      * destruct (c0 =? c) eqn:Ec.
        -- apply N.eqb_eq in Ec. subst c0. destruct (IH _ _ _ _ Hb Hy) as [[t' H]|[ids1 [E H]]].
           ++ left. exists t'. now right.
           ++ inversion E; subst. apply in_app_or in H as [H|[H|[]]].
              ** right. eauto.
              ** subst. left. exists t. now left.
        -- destruct Hb as [E|Hb].
           ++ inversion E; subst. right. eauto.
           ++ destruct (IH _ _ _ _ Hb Hy) as [[t' H]|[ids1 [E H]]].
              ** left. exists t'. now right.
              ** inversion E; subst. destruct H as [H|[]]. subst. left. exists t. now left.
      * destruct (IH _ _ _ _ Hb Hy) as [[t' H]|[ids1 [E H]]].
        -- left. exists t'. now right.
        -- inversion E; subst. destruct H as [H|[]]. subst. left. exists t. now left.
    + destruct (IH _ _ _ _ Hb Hy) as [[t' H]|H].
      * left. exists t'. now right.
      * now right.
Qed.

Lemma garbage_loop_in bs limit : forall num c' ids,
  In (c', ids) (garbage_loop bs limit num) ->
  exists b', In (c', b') bs /\
             ids = firstn limit (if cgc b' then sm_keys (objs b') else sm_keys (garb b')) /\
             (ids = [] -> cgc b' = true).
Proof.
  induction bs as [|[c0 b0] r IH]; intros num c' ids H; simpl in H; [contradiction|].
  remember (firstn limit (if cgc b0 then sm_keys (objs b0) else sm_keys (garb b0))) as l0 eqn:F.
  destruct l0 as [|i l].
  - destruct (cgc b0) eqn:Cg.
    + destruct H as [E|H].
      * inversion E; subst. exists b0. split; [now left|]. rewrite Cg. split; auto.
      * destruct (IH _ _ _ H) as (b' & H1 & H2). exists b'. split; [now right|exact H2].
    + destruct (IH _ _ _ H) as (b' & H1 & H2). exists b'. split; [now right|exact H2].
  - assert (Hd : (c', ids) = (c0, i :: l) -> exists b', In (c', b') ((c0, b0) :: r) /\
              ids = firstn limit (if cgc b' then sm_keys (objs b') else sm_keys (garb b')) /\ (ids = [] -> cgc b' = true)).
    { intros E. inversion E; subst. exists b0. split; [now left|]. split; [exact F|discriminate]. }
    destruct (Nat.leb limit (num + length (i :: l))).
    + destruct H as [E|[]]. apply Hd. now symmetry.
    + destruct H as [E|H]; [apply Hd; now symmetry|].
      destruct (IH _ _ _ H) as (b' & H1 & H2). exists b'. split; [now right|exact H2].
Qed.

Lemma keys_get {A} (m : smap A) y : sm_wf m = true -> In y (sm_keys m) -> sm_get y m <> None.
Proof.
  intros W H. unfold sm_keys in H. apply in_map_iff in H as [[k v] [E H]]. simpl in E. subst k.
  rewrite (sm_get_in _ _ _ W H). discriminate.
Qed.

Lemma view_garbage_in m limit c' ids :
  wf_state m -> In (c', ids) (view_garbage m limit) ->
  exists b', bucket m c' = Some b' /\
             (cgc b' = false -> ids <> [] /\ forall y, In y ids -> sm_get y (garb b') <> None) /\
             (cgc b' = true -> forall y, In y ids -> sm_get y (objs b') <> None).
Proof.
  intros W H. unfold view_garbage in H. destruct limit as [|n]; [contradiction|].
  destruct (garbage_loop_in _ _ _ _ _ H) as (b' & Hin & E & Hn).
  exists b'. split; [now apply (bucket_in m c' b' W)|].
  assert (Wb : wfc b') by (destruct W as [_ W2]; eapply W2; eauto). destruct Wb as [Wo Wg].
  split; intros Cg; rewrite Cg in E.
  - split; [intros E0; specialize (Hn E0); congruence|].
    intros y Hy. subst ids. apply firstn_in in Hy. now apply keys_get.
  - intros y Hy. subst ids. apply firstn_in in Hy. now apply keys_get.
Qed.

Section Keeps.
Variables (c : cid) (x : oid).

Lemma fold_delete_slot bins : forall s, inv s ->
  (forall c' ids, In (c', ids) bins -> c' <> c \/ ~ In x ids) ->
  slot (fold_left (fun s' bin => delete_objs s' (fst bin) (snd bin)) bins s) c x = slot s c x /\
  inv (fold_left (fun s' bin => delete_objs s' (fst bin) (snd bin)) bins s).
Proof.
  induction bins as [|[c' ids] r IH]; intros s I H; simpl; auto.
  destruct (IH (delete_objs s c' ids) (delete_objs_inv s c' ids I)) as [E I'].
  { intros c2 ids2 Hin. apply H. now right. }
  split; [|exact I']. rewrite E. apply delete_objs_slot; auto. apply H. now left.
Qed.

Lemma expired_one_slot s a : inv s -> a <> (c, x) -> slot (expired_one s a) c x = slot s c x /\ inv (expired_one s a).
Proof.
  intros I Ne. destruct a as [c' y]. unfold expired_one.
  destruct (view_locked (sh_meta s) c' y); auto.
  destruct ((view_exists (sh_meta s) true c' y =? v_ok) || (view_exists (sh_meta s) true c' y =? v_ecparent)); auto.
  split; [|now apply delete_objs_inv]. apply delete_objs_slot; auto.
  destruct (N.eq_dec c' c) as [->|]; auto. right. intros [E|[]]. congruence.
Qed.

Lemma fold_expired_slot l : forall s, inv s -> ~ In (c, x) l ->
  slot (fold_left expired_one l s) c x = slot s c x /\ inv (fold_left expired_one l s).
Proof.
  induction l as [|a r IH]; intros s I H; simpl; auto.
  destruct (expired_one_slot s a I) as [E I']; [intros ->; apply H; now left|].
  destruct (IH (expired_one s a) I') as [E2 I2]; [intros Hin; apply H; now right|].
  split; auto. now rewrite E2.
Qed.

Lemma fold_drop_slot bins : forall s, inv s ->
  (forall c' ids, In (c', ids) bins -> c' = c -> ids <> [] /\ ~ In x ids) ->
  slot (fold_left drop_or_delete bins s) c x = slot s c x /\ inv (fold_left drop_or_delete bins s).
Proof.
  induction bins as [|[c' ids] r IH]; intros s I H; simpl; auto.
  assert (St : slot (drop_or_delete s (c', ids)) c x = slot s c x /\ inv (drop_or_delete s (c', ids))).
  { unfold drop_or_delete. cbn [fst snd]. destruct ids as [|i l].
    - fold (drop_cnr s c'). split; [|now apply drop_cnr_inv]. apply drop_cnr_slot; auto.
      intros ->. destruct (H c [] (or_introl eq_refl) eq_refl) as [Hn _]. now apply Hn.
    - split; [|now apply delete_objs_inv]. apply delete_objs_slot; auto.
      destruct (N.eq_dec c' c) as [->|]; auto. right. now destruct (H c (i :: l) (or_introl eq_refl) eq_refl). }
  destruct St as [E I']. destruct (IH _ I') as [E2 I2]; [intros c2 ids2 Hin; apply H; now right|].
  split; auto. now rewrite E2.
Qed.

Lemma slot_set_done s d : slot (set_done s d) c x = slot s c x.
Proof. reflexivity. Qed.

(* the expired-object collection does not touch an object that is locked at the GC's epoch *)
Lemma collect_expired_slot limit s b :
  inv s -> bucket (sh_meta s) c = Some b -> live_lock b (sh_cur s) x = true ->
  slot (collect_expired limit s) c x = slot s c x /\ inv (collect_expired limit s).
Proof.
  intros I B LL. unfold collect_expired.
  destruct (sh_done s =? sh_cur s); auto. destruct (sh_cur s <? sh_done s); [split; auto|].
  set (batch := firstn limit (view_expired (sh_meta s) (sh_cur s))).
  assert (Hb : forall t, ~ In (c, x, t) batch).
  { intros t Hin. apply firstn_in in Hin. destruct I as [W _].
    destruct (view_expired_in _ _ _ _ _ W Hin) as (b' & B' & _ & L' & _). congruence. }
  set (s1 := match batch with [] => set_done s (sh_cur s) | _ => s end).
  assert (I1 : inv s1 /\ slot s1 c x = slot s c x) by (unfold s1; destruct batch; auto).
  destruct I1 as [I1 E1].
  destruct (fold_delete_slot (tomb_bins batch None) s1 I1) as [E2 I2].
  { intros c' ids Hin. destruct (N.eq_dec c' c) as [->|]; auto. right. intros Hx.
    destruct (tomb_bins_in _ _ _ _ _ Hin Hx) as [[t H]|[ids0 [E _]]]; [now apply (Hb t)|discriminate]. }
  destruct (fold_expired_slot
              (map (fun t : cid * oid * otype => fst t) (filter (fun t : cid * oid * otype => negb (is_tomb (snd t))) batch))
              _ I2) as [E3 I3].
  { intros Hin. apply in_map_iff in Hin as [[[c' y] t] [E Hin]]. simpl in E. inversion E; subst.
    apply filter_In in Hin as [Hin _]. now apply (Hb t). }
  split; auto. now rewrite E3, E2.
Qed.

(* one GC pass *)
Theorem gc_pass_keeps limit s :
  inv s -> protected s c x = true -> unmarked (sh_meta s) c x = true ->
  slot (gc_pass limit s) c x = slot s c x /\ inv (gc_pass limit s).
Proof.
  intros I P U. destruct (locked_at_bucket _ _ _ _ P) as (b & B & Cg & LL).
  assert (L1 : live_lock b (sh_cur s) x = true).
  { apply (live_lock_anti b (sh_cur s) (gc_epoch s) x); auto. unfold gc_epoch. lia. }
  destruct (collect_expired_slot limit s b I B L1) as [E1 I1].
  unfold gc_pass. set (s1 := collect_expired limit s) in *.
  assert (M0 : mark_at (sh_meta s) c x = None /\ cgc_at (sh_meta s) c = Some false).
  { unfold mark_at, cgc_at. rewrite B, Cg. split; auto.
    unfold unmarked in U. fold (bucket (sh_meta s) c) in U. rewrite B in U.
    unfold any_mark, sm_mem in U. destruct (sm_get x (garb b)); [discriminate|reflexivity]. }
  assert (M1 : mark_at (sh_meta s1) c x = None /\ cgc_at (sh_meta s1) c = Some false).
  { unfold slot in E1. inversion E1. destruct M0. split; congruence. }
  destruct M1 as [Mk Cc].
  destruct (fold_drop_slot (view_garbage (sh_meta s1) limit) s1 I1) as [E2 I2].
  { intros c' ids Hin ->. destruct I1 as [W1 _].
    destruct (view_garbage_in _ _ _ _ W1 Hin) as (b1 & B1 & H1 & _).
    unfold mark_at in Mk. unfold cgc_at in Cc. rewrite B1 in Mk, Cc. inversion Cc as [Cg1].
    destruct (H1 Cg1) as [Hn Hg]. split; auto. intros Hx. now apply (Hg x Hx). }
  split; auto. now rewrite E2.
Qed.

End Keeps.

(* epoch changes touch neither metadata entries nor data *)
Definition clock_step (o : sop) : bool := match o with SEpoch _ | SEvent _ | STick _ => true | _ => false end.

Lemma clock_step_slot limit s o c x : clock_step o = true ->
  slot (fst (sstep limit s o)) c x = slot s c x /\ (inv s -> inv (fst (sstep limit s o))).
Proof. destruct o; try discriminate; intros _; split; auto. Qed.

(* C07_gc_keeps: along any sequence of GC passes and epoch changes during which the lock stays
   live (the object is protected before every step) and from a state in which the object carries
   no garbage mark, the object's metadata entry and data stay exactly as they are. *)
Definition gc_only (o : sop) : bool := match o with SPass | SEpoch _ | SEvent _ | STick _ => true | _ => false end.

Fixpoint protected_along (limit : nat) (s : shard) (h : list sop) (c : cid) (x : oid) : Prop :=
  match h with
  | [] => True
  | o :: r => protected s c x = true /\ protected_along limit (fst (sstep limit s o)) r c x
  end.

Theorem gc_keeps limit h : forall s c x,
  inv s -> forallb gc_only h = true -> unmarked (sh_meta s) c x = true -> protected_along limit s h c x ->
  slot (srun_from limit s h) c x = slot s c x /\ inv (srun_from limit s h).
Proof.
  induction h as [|o r IH]; intros s c x I G U P; simpl; auto.
  simpl in G. apply andb_true_iff in G as [Go Gr]. destruct P as [P Pr].
  assert (St : slot (fst (sstep limit s o)) c x = slot s c x /\ inv (fst (sstep limit s o))).
  { destruct o; try discriminate; try (split; [reflexivity|exact I]).
    simpl. now apply gc_pass_keeps. }
  destruct St as [E I'].
  assert (U' : unmarked (sh_meta (fst (sstep limit s o))) c x = true).
  { unfold slot in E. inversion E as [[E1 E2 E3 E4]].
    unfold unmarked in *. unfold mark_at, cgc_at in E2, E3.
    fold (bucket (sh_meta (fst (sstep limit s o))) c). fold (bucket (sh_meta s) c) in U.
    destruct (bucket (sh_meta (fst (sstep limit s o))) c) as [b'|]; auto.
    destruct (bucket (sh_meta s) c) as [b|]; [|discriminate].
    unfold any_mark, sm_mem in *. rewrite E2. exact U. }
  destruct (IH _ c x I' Gr U' Pr) as [E2 I2]. unfold srun_from in *. split; auto. now rewrite E2.
Qed.
