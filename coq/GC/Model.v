(* Shard-level model of the garbage collector (C07, C44).  Definitions only, executable.

   shard = metabase state (Meta/Model.v, imported unchanged) x BLOB storage
           (address -> presence) x the GC's epochs (current = last new-epoch
           event, processed = highest epoch for which the expired-object
           collection found nothing).

   Every function mirrors the Go function named in its comment:
     pkg/local_object_storage/shard/put.go      Shard.Put
     pkg/local_object_storage/shard/delete.go   Shard.deleteObjs
     pkg/local_object_storage/shard/inhume.go   Shard.MarkGarbage, Shard.InhumeContainer
     pkg/local_object_storage/shard/get.go      Shard.Get (result class)
     pkg/local_object_storage/shard/gc.go       removeGarbage, collectExpiredObjects, setEpochEventHandler
     pkg/local_object_storage/engine/inhume.go  processExpiredObjects / processAddrDelete restricted to
                                                 an engine with this one shard
   Not modelled: the write-cache (disabled), modes other than read-write, failing
   component calls, the link-object walk of processAddrDelete for split parents
   (objects with family relations are outside the fragment the theorems cover; see
   [simple_obj]). *)
From Coq Require Import List NArith ZArith Bool.
Import ListNotations.
From NV Require Import Gen.MetaConsts Meta.SMap Meta.Model Meta.Spec.
Local Open Scope N_scope.

(* ---------------------------------------------------------------- BLOB storage *)

Definition addr := (cid * oid)%type.
Definition addr_eqb (a b : addr) : bool := (fst a =? fst b) && (snd a =? snd b).

Definition blob_has (bl : list addr) (c : cid) (x : oid) : bool := existsb (addr_eqb (c, x)) bl.
Definition blob_put (c : cid) (x : oid) (bl : list addr) : list addr :=
  if blob_has bl c x then bl else (c, x) :: bl.
Definition blob_del (c : cid) (x : oid) (bl : list addr) : list addr :=
  filter (fun a => negb (addr_eqb (c, x) a)) bl.

Record shard := mkSh { sh_meta : state; sh_blob : list addr; sh_cur : N; sh_done : N }.
Definition shard0 := mkSh state0 [] 0 0.

Definition set_meta (s : shard) (m : state) := mkSh m (sh_blob s) (sh_cur s) (sh_done s).
Definition set_done (s : shard) (d : N) := mkSh (sh_meta s) (sh_blob s) (sh_cur s) d.

(* ---------------------------------------------------------------- Shard.Put *)

(* BLOB write, metabase put; when the metabase refuses and does not know the
   address (Exists(addr, ignoreExpiration) is not (true, nil)) the data is dropped *)
Definition sput (s : shard) (c : cid) (o : obj) : shard * perr :=
  let m := sh_meta s in
  let bl1 := blob_put c (o_id o) (sh_blob s) in
  let '(b, _, e) := put_top (epoch m) (bucket_or_new m c) o in
  match e with
  | EOk => (mkSh (set_bucket m c b) bl1 (sh_cur s) (sh_done s), EOk)
  | _ =>
      let known := view_exists m true c (o_id o) =? v_ok in
      (mkSh m (if known then bl1 else blob_del c (o_id o) bl1) (sh_cur s) (sh_done s), e)
  end.

(* ---------------------------------------------------------------- Shard.deleteObjs *)

(* metabase Delete (one transaction for the whole list), then BLOB deletes of
   every ID the metabase reports as removed *)
Definition delete_objs (s : shard) (c : cid) (ids : list oid) : shard :=
  match ids with
  | [] => s
  | _ =>
      match bucket (sh_meta s) c with
      | None => s
      | Some b =>
          let '(b', rem, _) := delete_group b ids in
          mkSh (set_bucket (sh_meta s) c b')
               (fold_left (fun bl id => blob_del c id bl) rem (sh_blob s))
               (sh_cur s) (sh_done s)
      end
  end.

(* ---------------------------------------------------------------- expired objects *)

Definition is_tomb (t : otype) : bool := otype_eqb t TTombstone.

(* tombBins of collectExpiredObjects: a tombstone joins the last bin when it is of the
   same container; [cur] is the last (still open) bin *)
Fixpoint tomb_bins (l : list (cid * oid * otype)) (cur : option (cid * list oid)) : list (cid * list oid) :=
  match l with
  | [] => match cur with Some b => [b] | None => [] end
  | (c, x, t) :: r =>
      if is_tomb t then
        match cur with
        | Some (c', ids) => if c' =? c then tomb_bins r (Some (c', ids ++ [x]))
                            else (c', ids) :: tomb_bins r (Some (c, [x]))
        | None => tomb_bins r (Some (c, [x]))
        end
      else tomb_bins r cur
  end.

(* engine.processExpiredObjects for one address, engine with this single shard:
   isLocked (metabase epoch), then processAddrDelete with Shard.Delete *)
Definition expired_one (s : shard) (a : cid * oid) : shard :=
  let '(c, x) := a in
  if view_locked (sh_meta s) c x then s
  else
    let cl := view_exists (sh_meta s) true c x in
    if (cl =? v_ok) || (cl =? v_ecparent) then delete_objs s c [x]
    else s.   (* not found / absent / already removed: nothing to do.  Split parents: not modelled *)

(* Shard.collectExpiredObjects *)
Definition collect_expired (limit : nat) (s : shard) : shard :=
  let e := sh_cur s in
  let d := sh_done s in
  if d =? e then s
  else if e <? d then set_done s e
  else
    let batch := firstn limit (view_expired (sh_meta s) e) in
    let s1 := match batch with [] => set_done s e | _ => s end in
    let s2 := fold_left (fun s' bin => delete_objs s' (fst bin) (snd bin)) (tomb_bins batch None) s1 in
    fold_left expired_one
              (map (fun t : cid * oid * otype => fst t) (filter (fun t : cid * oid * otype => negb (is_tomb (snd t))) batch))
              s2.

(* ---------------------------------------------------------------- Shard.removeGarbage *)

Definition drop_or_delete (s : shard) (bin : cid * list oid) : shard :=
  match snd bin with
  | [] => set_meta s (fst (step (sh_meta s) (ODeleteCnr (fst bin))))
  | ids => delete_objs s (fst bin) ids
  end.

(* one GC pass in read-write mode *)
Definition gc_pass (limit : nat) (s : shard) : shard :=
  let s1 := collect_expired limit s in
  fold_left drop_or_delete (view_garbage (sh_meta s1) limit) s1.

(* ---------------------------------------------------------------- operations *)

Inductive sop :=
| SPut (c : cid) (o : obj)                    (* Shard.Put *)
| SMark (c : cid) (ids : list oid) (m : gmark) (* Shard.MarkGarbage: forced mark *)
| SInhume (c : cid)                            (* Shard.InhumeContainer / DeleteContainer *)
| SEpoch (e : N)                               (* the epoch source of the metabase changes *)
| SEvent (e : N)                               (* new-epoch event reaches the GC *)
| STick (e : N)                                (* both *)
| SPass.                                       (* one GC pass *)

(* result as the harness projects it *)
Definition sstep (limit : nat) (s : shard) (o : sop) : shard * list Z :=
  match o with
  | SPut c ob => let '(s', e) := sput s c ob in (s', [perr_code e])
  | SMark c ids m => (set_meta s (fst (step (sh_meta s) (OMark c ids m))), [0%Z])
  | SInhume c => (set_meta s (fst (step (sh_meta s) (OInhumeCnr c))), [0%Z])
  | SEpoch e => (set_meta s (fst (step (sh_meta s) (OEpoch e))), [])
  | SEvent e => (mkSh (sh_meta s) (sh_blob s) e (sh_done s), [])
  | STick e => (mkSh (fst (step (sh_meta s) (OEpoch e))) (sh_blob s) e (sh_done s), [])
  | SPass => (gc_pass limit s, [])
  end.

Definition srun_from (limit : nat) (s : shard) (h : list sop) : shard :=
  fold_left (fun s o => fst (sstep limit s o)) h s.
Definition srun (limit : nat) (h : list sop) : shard := srun_from limit shard0 h.

Fixpoint gc_iter (limit : nat) (n : nat) (s : shard) : shard :=
  match n with O => s | S n' => gc_iter limit n' (gc_pass limit s) end.

(* ---------------------------------------------------------------- views *)

Definition v_nodata : N := 8.

(* Shard.Get: Exists(addr, false), then the BLOB storage *)
Definition sh_get (s : shard) (c : cid) (x : oid) : N :=
  let cl := view_exists (sh_meta s) false c x in
  if cl =? v_ok then (if blob_has (sh_blob s) c x then v_ok else v_nodata)
  else if cl =? v_absent then v_notfound
  else cl.

(* Shard.IsLocked *)
Definition sh_locked (s : shard) (c : cid) (x : oid) : bool := view_locked (sh_meta s) c x.

(* ---------------------------------------------------------------- the fragment *)

(* objects without family relations (Meta/Spec.simple_obj: no parent, no split / EC fields) *)
Definition simple_op (o : sop) : bool :=
  match o with SPut _ ob => simple_obj ob | _ => true end.
