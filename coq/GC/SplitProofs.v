(* C44, expired split objects: the list collected by collectChildrenWithoutLink covers every stored part
   of the chain (first part included), for every chain length and every stored set.  Proofs for GC/SplitCheck.v. *)
From Coq Require Import List NArith Bool Lia.
Import ListNotations.
From NV Require Import GC.SplitCheck.
Local Open Scope N_scope.

Definition member (si : sinfo) (p : spart) : bool :=
  match si_first si, si_split si with
  | Some f, _ => (sp_id p =? f) || opt_is (sp_first p) f
  | None, Some s => opt_is (sp_split p) s
  | None, None => false
  end.

Lemma raw_with_first_complete : forall f st p, In p st -> opt_is (sp_first p) f = true -> In (sp_id p) (raw_with_first f st).
Proof.
  intros f st p Hin Hf. unfold raw_with_first. apply in_map. apply filter_In. split; assumption.
Qed.

Lemma raw_with_split_complete : forall s st p, In p st -> opt_is (sp_split p) s = true -> In (sp_id p) (raw_with_split s st).
Proof.
  intros s st p Hin Hf. unfold raw_with_split. apply in_map. apply filter_In. split; assumption.
Qed.

Lemma collect_members : forall si st p, In p st -> member si p = true -> In (sp_id p) (collect_without_link si st).
Proof.
  intros si st p Hin Hm. unfold member, collect_without_link in *.
  destruct (si_first si) as [f|].
  - apply in_or_app. apply orb_true_iff in Hm. destruct Hm as [Hm|Hm].
    + right. apply N.eqb_eq in Hm. rewrite Hm. left. reflexivity.
    + left. apply raw_with_first_complete; assumption.
  - destruct (si_split si) as [s|]; [|discriminate]. apply raw_with_split_complete; assumption.
Qed.

(* nothing else is collected: only the first ID and stored objects bound to the chain *)
Lemma collect_only : forall si st x, In x (collect_without_link si st) ->
  si_first si = Some x \/ exists p, In p st /\ sp_id p = x /\ member si p = true.
Proof.
  intros si st x Hx. unfold collect_without_link, member in *.
  destruct (si_first si) as [f|].
  - apply in_app_or in Hx. destruct Hx as [Hx|Hx].
    + right. unfold raw_with_first in Hx. apply in_map_iff in Hx. destruct Hx as [p [Hid Hp]].
      apply filter_In in Hp. destruct Hp as [Hp Hf]. exists p. repeat split; try assumption.
      rewrite Hf. apply orb_true_r.
    + left. destruct Hx as [Hx|[]]. rewrite Hx. reflexivity.
  - destruct (si_split si) as [s|]; [|destruct Hx]. right.
    unfold raw_with_split in Hx. apply in_map_iff in Hx. destruct Hx as [p [Hid Hp]].
    apply filter_In in Hp. destruct Hp as [Hp Hf]. exists p. repeat split; assumption.
Qed.

(* every object of a chain, whatever its length, is bound to the chain's split info: induction on the chain *)
Lemma chain_members : forall v f rest p, In p (chain_of v f rest) -> member (sinfo_of v f) p = true.
Proof.
  intros v f rest. destruct v as [s|]; simpl.
  - induction rest as [|id rest IH]; intros p [Hp|Hp]; subst; simpl in *.
    + unfold member. simpl. apply N.eqb_refl.
    + destruct Hp.
    + unfold member. simpl. apply N.eqb_refl.
    + destruct Hp as [Hp|Hp].
      * subst. unfold member. simpl. apply N.eqb_refl.
      * apply IH. right. assumption.
  - induction rest as [|id rest IH]; intros p [Hp|Hp]; subst; simpl in *.
    + unfold member. simpl. rewrite N.eqb_refl. reflexivity.
    + destruct Hp.
    + unfold member. simpl. rewrite N.eqb_refl. reflexivity.
    + destruct Hp as [Hp|Hp].
      * subst. unfold member. simpl. rewrite N.eqb_refl. apply orb_true_r.
      * apply IH. right. assumption.
Qed.

Lemma mem_id_in : forall x l, In x l -> mem_id x l = true.
Proof.
  intros x l H. unfold mem_id. apply existsb_exists. exists x. split; [assumption|apply N.eqb_refl].
Qed.

(* main statement: for every split version, every chain (first ID f, any number of later objects -- middle parts,
   last part, link) and EVERY stored set st (any subset of the chain on any shards, objects of other chains):
   each stored object of the chain is in the collected list, hence none of them survives the delete *)
Theorem split_collect_all : forall v f rest st,
  (forall p, In p st -> In p (chain_of v f rest) -> In (sp_id p) (collect_children None (sinfo_of v f) st)) /\
  (forall p, In p (split_survivors st (collect_children None (sinfo_of v f) st)) -> ~ In p (chain_of v f rest)).
Proof.
  intros v f rest st.
  assert (H : forall p, In p st -> In p (chain_of v f rest) -> In (sp_id p) (collect_children None (sinfo_of v f) st)).
  { intros p Hst Hch. simpl. apply collect_members; [assumption|]. apply chain_members with (rest := rest). assumption. }
  split; [exact H|].
  intros p Hs Hch. unfold split_survivors in Hs. apply filter_In in Hs. destruct Hs as [Hst Hn].
  rewrite (mem_id_in _ _ (H p Hst Hch)) in Hn. discriminate.
Qed.

(* and nothing outside the chain is collected (controls stay): a collected ID is the first ID or belongs to a
   stored object carrying the chain's split.first / split ID *)
Theorem split_collect_only : forall v f st x,
  In x (collect_children None (sinfo_of v f) st) ->
  x = f \/ exists p, In p st /\ sp_id p = x /\ member (sinfo_of v f) p = true.
Proof.
  intros v f st x Hx. simpl in Hx. apply collect_only in Hx. destruct Hx as [Hx|Hx]; [|right; assumption].
  destruct v; simpl in Hx; [discriminate|]. left. congruence.
Qed.
