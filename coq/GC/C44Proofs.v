(* C44: garbage collection eventually removes everything that should be removed. *)
From Coq Require Import List NArith ZArith Bool Lia.
Import ListNotations.
From NV Require Import Base.U64 Gen.MetaConsts Meta.SMap Meta.SMapProofs Meta.Model Meta.Spec
     Meta.StatusProofs Meta.WfProofs Meta.TypedProofs Meta.ViewProofs GC.Model GC.Spec GC.Lemmas GC.C07Proofs.
Local Open Scope N_scope.

Definition msize (s : shard) : nat := meta_size (sh_meta s).

(* ---------------------------------------------------------------- the measure under updates *)

Lemma sum_put l c b b' : sm_get c l = Some b ->
  (fold_right (fun (cb : cid * cstate) acc => bucket_size (snd cb) + acc) O (sm_put c b' l) + bucket_size b =
   fold_right (fun (cb : cid * cstate) acc => bucket_size (snd cb) + acc) O l + bucket_size b')%nat.
Proof.
  induction l as [|[k v] r IH]; simpl; intros H; [discriminate|].
  destruct (c =? k) eqn:E.
  - inversion H; subst. unfold bucket_size. simpl. lia.
  - destruct (c <? k); [discriminate|]. specialize (IH H). unfold bucket_size in *. simpl in *. lia.
Qed.

Lemma sum_del l c b : sm_get c l = Some b ->
  (fold_right (fun (cb : cid * cstate) acc => bucket_size (snd cb) + acc) O (sm_del c l) + bucket_size b =
   fold_right (fun (cb : cid * cstate) acc => bucket_size (snd cb) + acc) O l)%nat.
Proof.
  induction l as [|[k v] r IH]; simpl; intros H; [discriminate|].
  destruct (c =? k) eqn:E.
  - inversion H; subst. unfold bucket_size. simpl. lia.
  - destruct (c <? k); [discriminate|]. specialize (IH H). unfold bucket_size in *. simpl in *. lia.
Qed.

Lemma meta_size_set m c b b' : bucket m c = Some b ->
  (meta_size (set_bucket m c b') + bucket_size b = meta_size m + bucket_size b')%nat.
Proof. intros B. unfold meta_size, set_bucket. simpl. now apply sum_put. Qed.

Lemma meta_size_drop m c b : bucket m c = Some b ->
  (meta_size (fst (step m (ODeleteCnr c))) + bucket_size b = meta_size m)%nat.
Proof. intros B. unfold meta_size. simpl. now apply sum_del. Qed.

Lemma delete_objs_size s c ids :
  inv s ->
  (msize (delete_objs s c ids) <= msize s)%nat /\
  (forall b y, bucket (sh_meta s) c = Some b -> In y ids ->
               (sm_get y (objs b) <> None \/ sm_get y (garb b) <> None) ->
               (msize (delete_objs s c ids) < msize s)%nat).
Proof.
  intros I. destruct ids as [|i r].
  { split; [reflexivity|]. intros b y _ []. }
  destruct (bucket (sh_meta s) c) as [b|] eqn:B.
  2:{ rewrite delete_objs_none by auto. split; [reflexivity|]. intros b y E. discriminate. }
  destruct (delete_objs_spec s c (i :: r) b I B) as (b' & E & O & Gb & Cg & W' & G'); [discriminate|].
  destruct (inv_bucket s c b I B) as [[Wo Wg] _].
  pose proof (meta_size_set (sh_meta s) c b b' B) as Hs.
  assert (L1 : (length (objs b') <= length (objs b))%nat) by (rewrite O; apply dels_length_le).
  assert (L2 : (length (garb b') <= length (garb b))%nat) by (rewrite Gb; apply dels_length_le).
  unfold msize. rewrite E. cbn [sh_meta]. unfold bucket_size in Hs. split; [lia|].
  intros b0 y E0 Hin Hy. inversion E0; subst b0. destruct Hy as [Hy|Hy].
  - destruct (sm_get y (objs b)) as [v|] eqn:Gy; [|congruence].
    pose proof (dels_length_lt (i :: r) y (objs b) v Wo Hin Gy). rewrite <- O in H. lia.
  - destruct (sm_get y (garb b)) as [v|] eqn:Gy; [|congruence].
    pose proof (dels_length_lt (i :: r) y (garb b) v Wg Hin Gy). rewrite <- Gb in H. lia.
Qed.

Lemma fold_mono {A} (f : shard -> A -> shard) l :
  (forall s a, inv s -> inv (f s a) /\ (msize (f s a) <= msize s)%nat) ->
  forall s, inv s -> inv (fold_left f l s) /\ (msize (fold_left f l s) <= msize s)%nat.
Proof.
  intros H. induction l as [|a r IH]; intros s I; simpl; auto.
  destruct (H s a I) as [I1 L1]. destruct (IH _ I1) as [I2 L2]. split; auto. lia.
Qed.

Lemma expired_one_mono s a : inv s -> inv (expired_one s a) /\ (msize (expired_one s a) <= msize s)%nat.
Proof.
  intros I. destruct a as [c' y]. unfold expired_one.
  destruct (view_locked (sh_meta s) c' y); auto.
  destruct ((view_exists (sh_meta s) true c' y =? v_ok) || (view_exists (sh_meta s) true c' y =? v_ecparent)); auto.
  split; [now apply delete_objs_inv|now apply delete_objs_size].
Qed.

Lemma drop_or_delete_mono s bin : inv s -> inv (drop_or_delete s bin) /\ (msize (drop_or_delete s bin) <= msize s)%nat.
Proof.
  intros I. destruct bin as [c' ids]. unfold drop_or_delete. cbn [fst snd]. destruct ids as [|i l].
  - fold (drop_cnr s c'). split; [now apply drop_cnr_inv|].
    unfold msize, drop_cnr, set_meta. cbn [sh_meta].
    destruct (bucket (sh_meta s) c') as [b|] eqn:B.
    + pose proof (meta_size_drop _ _ _ B). lia.
    + unfold meta_size. simpl. unfold bucket in B. now rewrite (sm_del_none c' _ B).
  - split; [now apply delete_objs_inv|now apply delete_objs_size].
Qed.

Lemma collect_expired_mono limit s : inv s ->
  inv (collect_expired limit s) /\ (msize (collect_expired limit s) <= msize s)%nat.
Proof.
  intros I. unfold collect_expired.
  destruct (sh_done s =? sh_cur s); auto. destruct (sh_cur s <? sh_done s); [split; auto|].
  set (batch := firstn limit (view_expired (sh_meta s) (sh_cur s))).
  set (s1 := match batch with [] => set_done s (sh_cur s) | _ => s end).
  assert (I1 : inv s1 /\ msize s1 = msize s) by (unfold s1; destruct batch; auto). destruct I1 as [I1 E1].
  destruct (fold_mono (fun s' bin => delete_objs s' (fst bin) (snd bin)) (tomb_bins batch None)
              (fun s0 a I0 => conj (delete_objs_inv s0 (fst a) (snd a) I0) (proj1 (delete_objs_size s0 (fst a) (snd a) I0))) s1 I1) as [I2 L2].
  destruct (fold_mono expired_one
              (map (fun t : cid * oid * otype => fst t) (filter (fun t : cid * oid * otype => negb (is_tomb (snd t))) batch))
              expired_one_mono _ I2) as [I3 L3].
  split; auto. lia.
Qed.

(* ---------------------------------------------------------------- garbage lists *)

Lemma firstn_nil {A} n (l : list A) : (0 < n)%nat -> firstn n l = [] -> l = [].
Proof. destruct n; [lia|]. destruct l; simpl; auto. discriminate. Qed.

Lemma garbage_loop_nil bs limit : (0 < limit)%nat -> forall num,
  garbage_loop bs limit num = [] -> forallb (fun cb : cid * cstate => quiet_bucket (snd cb)) bs = true.
Proof.
  intros L. induction bs as [|[c0 b0] r IH]; intros num H; simpl in *; auto.
  remember (firstn limit (if cgc b0 then sm_keys (objs b0) else sm_keys (garb b0))) as l0 eqn:F.
  destruct l0 as [|i l].
  - destruct (cgc b0) eqn:Cg; [discriminate|].
    symmetry in F. apply (firstn_nil limit _ L) in F. unfold sm_keys in F. apply map_eq_nil in F.
    unfold quiet_bucket. rewrite Cg, F. simpl. eapply IH; eauto.
  - destruct (Nat.leb limit (num + length (i :: l))); discriminate.
Qed.

Lemma view_garbage_nil m limit : (0 < limit)%nat -> view_garbage m limit = [] -> garbage_free m = true.
Proof.
  intros L H. unfold view_garbage in H. destruct limit as [|n]; [lia|]. unfold garbage_free.
  eapply (garbage_loop_nil _ (S n)); eauto.
Qed.

(* one GC pass either removes something or finds the garbage lists empty *)
Theorem pass_progress limit s :
  inv s -> (0 < limit)%nat ->
  inv (gc_pass limit s) /\ (msize (gc_pass limit s) <= msize s)%nat /\
  ((msize (gc_pass limit s) < msize s)%nat \/ garbage_free (sh_meta (gc_pass limit s)) = true).
Proof.
  intros I L. destruct (collect_expired_mono limit s I) as [I1 L1].
  unfold gc_pass. set (s1 := collect_expired limit s) in *.
  destruct (view_garbage (sh_meta s1) limit) as [|[c' ids] rest] eqn:VG.
  - simpl. split; auto. split; auto. right. now apply (view_garbage_nil _ limit).
  - simpl. destruct (drop_or_delete_mono s1 (c', ids) I1) as [I2 L2].
    destruct (fold_mono drop_or_delete rest drop_or_delete_mono _ I2) as [I3 L3].
    split; auto. split; [lia|]. left.
    assert (Hlt : (msize (drop_or_delete s1 (c', ids)) < msize s1)%nat); [|lia].
    destruct I1 as [W1 G1].
    destruct (view_garbage_in (sh_meta s1) limit c' ids W1) as (b' & B' & Hf & Ht); [rewrite VG; now left|].
    unfold drop_or_delete. cbn [fst snd]. destruct ids as [|y l].
    + unfold msize, set_meta. cbn [sh_meta]. pose proof (meta_size_drop _ _ _ B'). unfold bucket_size in H. lia.
    + apply (proj2 (delete_objs_size s1 c' (y :: l) (conj W1 G1)) b' y B' (or_introl eq_refl)).
      destruct (cgc b') eqn:Cg.
      * left. apply (Ht eq_refl). now left.
      * right. apply (proj2 (Hf eq_refl)). now left.
Qed.

(* C44 (garbage part): after finitely many passes no removed container and no garbage key is left,
   whatever the batch size (>= 1) and whatever the two clocks say *)
Theorem garbage_eventually limit : (0 < limit)%nat -> forall k s,
  inv s -> (msize s <= k)%nat ->
  exists n, (n <= S k)%nat /\ inv (gc_iter limit n s) /\ garbage_free (sh_meta (gc_iter limit n s)) = true /\
            (msize (gc_iter limit n s) <= msize s)%nat.
Proof.
  intros L. induction k as [|k IH]; intros s I Hk.
  - destruct (pass_progress limit s I L) as (I1 & L1 & [Hlt|Hg]); [lia|].
    exists 1%nat. simpl. split; [lia|]. split; [exact I1|]. split; [exact Hg|exact L1].
  - destruct (pass_progress limit s I L) as (I1 & L1 & [Hlt|Hg]).
    + destruct (IH (gc_pass limit s) I1) as (n & Hn & I2 & G2 & L2); [lia|].
      exists (S n). simpl. split; [lia|]. split; [exact I2|]. split; [exact G2|lia].
    + exists 1%nat. simpl. split; [lia|]. split; [exact I1|]. split; [exact Hg|exact L1].
Qed.
