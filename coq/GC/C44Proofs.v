(* C44: garbage collection eventually removes everything that should be removed. *)
From Coq Require Import List NArith ZArith Bool Lia.
Import ListNotations.
From NV Require Import Base.U64 Gen.MetaConsts Meta.SMap Meta.SMapProofs Meta.Model Meta.Spec
     Meta.StatusProofs Meta.WfProofs Meta.TypedProofs Meta.ViewProofs GC.Model GC.Spec GC.Lemmas GC.C07Proofs.
Local Open Scope N_scope.

Definition msize (s : shard) : nat := meta_size (sh_meta s).

(* ---------------------------------------------------------------- the measure under updates *)

Lemma sum_put l c b b' : sm_get c l = Some b ->
  (fold_right (fun (cb : cid * cstate) acc => bucket_size (snd cb) + acc) O (sm_put c b' l) + bucket_size b =
   fold_right (fun (cb : cid * cstate) acc => bucket_size (snd cb) + acc) O l + bucket_size b')%nat.
Proof.
  induction l as [|[k v] r IH]; simpl; intros H; [discriminate|].
  destruct (c =? k) eqn:E.
  - inversion H; subst. unfold bucket_size. simpl. lia.
  - destruct (c <? k); [discriminate|]. specialize (IH H). unfold bucket_size in *. simpl in *. lia.
Qed.

Lemma sum_del l c b : sm_get c l = Some b ->
  (fold_right (fun (cb : cid * cstate) acc => bucket_size (snd cb) + acc) O (sm_del c l) + bucket_size b =
   fold_right (fun (cb : cid * cstate) acc => bucket_size (snd cb) + acc) O l)%nat.
Proof.
  induction l as [|[k v] r IH]; simpl; intros H; [discriminate|].
  destruct (c =? k) eqn:E.
  - inversion H; subst. unfold bucket_size. simpl. lia.
  - destruct (c <? k); [discriminate|]. specialize (IH H). unfold bucket_size in *. simpl in *. lia.
Qed.

Lemma meta_size_set m c b b' : bucket m c = Some b ->
  (meta_size (set_bucket m c b') + bucket_size b = meta_size m + bucket_size b')%nat.
Proof. intros B. unfold meta_size, set_bucket. simpl. now apply sum_put. Qed.

Lemma meta_size_drop m c b : bucket m c = Some b ->
  (meta_size (fst (step m (ODeleteCnr c))) + bucket_size b = meta_size m)%nat.
Proof. intros B. unfold meta_size. simpl. now apply sum_del. Qed.

Lemma delete_objs_size s c ids :
  inv s ->
  (msize (delete_objs s c ids) <= msize s)%nat /\
  (forall b y, bucket (sh_meta s) c = Some b -> In y ids ->
               (sm_get y (objs b) <> None \/ sm_get y (garb b) <> None) ->
               (msize (delete_objs s c ids) < msize s)%nat).
Proof.
  intros I. destruct ids as [|i r].
  { split; [reflexivity|]. intros b y _ []. }
  destruct (bucket (sh_meta s) c) as [b|] eqn:B.
  2:{ rewrite delete_objs_none by auto. split; [reflexivity|]. intros b y E. discriminate. }
  destruct (delete_objs_spec s c (i :: r) b I B) as (b' & E & O & Gb & Cg & W' & G'); [discriminate|].
  destruct (inv_bucket s c b I B) as [[Wo Wg] _].
  pose proof (meta_size_set (sh_meta s) c b b' B) as Hs.
  assert (L1 : (length (objs b') <= length (objs b))%nat) by (rewrite O; apply dels_length_le).
  assert (L2 : (length (garb b') <= length (garb b))%nat) by (rewrite Gb; apply dels_length_le).
  unfold msize. rewrite E. cbn [sh_meta]. unfold bucket_size in Hs. split; [lia|].
  intros b0 y E0 Hin Hy. inversion E0; subst b0. destruct Hy as [Hy|Hy].
  - destruct (sm_get y (objs b)) as [v|] eqn:Gy; [|congruence].
    pose proof (dels_length_lt (i :: r) y (objs b) v Wo Hin Gy). rewrite <- O in H. lia.
  - destruct (sm_get y (garb b)) as [v|] eqn:Gy; [|congruence].
    pose proof (dels_length_lt (i :: r) y (garb b) v Wg Hin Gy). rewrite <- Gb in H. lia.
Qed.

Lemma fold_mono {A} (f : shard -> A -> shard) l :
  (forall s a, inv s -> inv (f s a) /\ (msize (f s a) <= msize s)%nat) ->
  forall s, inv s -> inv (fold_left f l s) /\ (msize (fold_left f l s) <= msize s)%nat.
Proof.
  intros H. induction l as [|a r IH]; intros s I; simpl; auto.
  destruct (H s a I) as [I1 L1]. destruct (IH _ I1) as [I2 L2]. split; auto. lia.
Qed.

Lemma expired_one_mono s a : inv s -> inv (expired_one s a) /\ (msize (expired_one s a) <= msize s)%nat.
Proof.
  intros I. destruct a as [c' y]. unfold expired_one.
  destruct (view_locked (sh_meta s) c' y); auto.
  destruct ((view_exists (sh_meta s) true c' y =? v_ok) || (view_exists (sh_meta s) true c' y =? v_ecparent)); auto.
  split; [now apply delete_objs_inv|now apply delete_objs_size].
Qed.

Lemma drop_or_delete_mono s bin : inv s -> inv (drop_or_delete s bin) /\ (msize (drop_or_delete s bin) <= msize s)%nat.
Proof.
  intros I. destruct bin as [c' ids]. unfold drop_or_delete. cbn [fst snd]. destruct ids as [|i l].
  - fold (drop_cnr s c'). split; [now apply drop_cnr_inv|].
    unfold msize, drop_cnr, set_meta. cbn [sh_meta].
    destruct (bucket (sh_meta s) c') as [b|] eqn:B.
    + pose proof (meta_size_drop _ _ _ B). lia.
    + unfold meta_size. simpl. unfold bucket in B. now rewrite (sm_del_none c' _ B).
  - split; [now apply delete_objs_inv|now apply delete_objs_size].
Qed.

Lemma collect_expired_mono limit s : inv s ->
  inv (collect_expired limit s) /\ (msize (collect_expired limit s) <= msize s)%nat.
Proof.
  intros I. unfold collect_expired.
  destruct (sh_done s =? sh_cur s); auto. destruct (sh_cur s <? sh_done s); [split; auto|].
  set (batch := firstn limit (view_expired (sh_meta s) (sh_cur s))).
  set (s1 := match batch with [] => set_done s (sh_cur s) | _ => s end).
  assert (I1 : inv s1 /\ msize s1 = msize s) by (unfold s1; destruct batch; auto). destruct I1 as [I1 E1].
  destruct (fold_mono (fun s' bin => delete_objs s' (fst bin) (snd bin)) (tomb_bins batch None)
              (fun s0 a I0 => conj (delete_objs_inv s0 (fst a) (snd a) I0) (proj1 (delete_objs_size s0 (fst a) (snd a) I0))) s1 I1) as [I2 L2].
  destruct (fold_mono expired_one
              (map (fun t : cid * oid * otype => fst t) (filter (fun t : cid * oid * otype => negb (is_tomb (snd t))) batch))
              expired_one_mono _ I2) as [I3 L3].
  split; auto. lia.
Qed.

(* ---------------------------------------------------------------- garbage lists *)

Lemma firstn_nil {A} n (l : list A) : (0 < n)%nat -> firstn n l = [] -> l = [].
Proof. destruct n; [lia|]. destruct l; simpl; auto. discriminate. Qed.

Lemma garbage_loop_nil bs limit : (0 < limit)%nat -> forall num,
  garbage_loop bs limit num = [] -> forallb (fun cb : cid * cstate => quiet_bucket (snd cb)) bs = true.
Proof.
  intros L. induction bs as [|[c0 b0] r IH]; intros num H; simpl in *; auto.
  remember (firstn limit (if cgc b0 then sm_keys (objs b0) else sm_keys (garb b0))) as l0 eqn:F.
  destruct l0 as [|i l].
  - destruct (cgc b0) eqn:Cg; [discriminate|].
    symmetry in F. apply (firstn_nil limit _ L) in F. unfold sm_keys in F. apply map_eq_nil in F.
    unfold quiet_bucket. rewrite Cg, F. simpl. eapply IH; eauto.
  - destruct (Nat.leb limit (num + length (i :: l))); discriminate.
Qed.

Lemma view_garbage_nil m limit : (0 < limit)%nat -> view_garbage m limit = [] -> garbage_free m = true.
Proof.
  intros L H. unfold view_garbage in H. destruct limit as [|n]; [lia|]. unfold garbage_free.
  eapply (garbage_loop_nil _ (S n)); eauto.
Qed.

(* one GC pass either removes something or finds the garbage lists empty *)
Theorem pass_progress limit s :
  inv s -> (0 < limit)%nat ->
  inv (gc_pass limit s) /\ (msize (gc_pass limit s) <= msize s)%nat /\
  ((msize (gc_pass limit s) < msize s)%nat \/ garbage_free (sh_meta (gc_pass limit s)) = true).
Proof.
  intros I L. destruct (collect_expired_mono limit s I) as [I1 L1].
  unfold gc_pass. set (s1 := collect_expired limit s) in *.
  destruct (view_garbage (sh_meta s1) limit) as [|[c' ids] rest] eqn:VG.
  - simpl. split; auto. split; auto. right. now apply (view_garbage_nil _ limit).
  - simpl. destruct (drop_or_delete_mono s1 (c', ids) I1) as [I2 L2].
    destruct (fold_mono drop_or_delete rest drop_or_delete_mono _ I2) as [I3 L3].
    split; auto. split; [lia|]. left.
    assert (Hlt : (msize (drop_or_delete s1 (c', ids)) < msize s1)%nat); [|lia].
    destruct I1 as [W1 G1].
    destruct (view_garbage_in (sh_meta s1) limit c' ids W1) as (b' & B' & Hf & Ht); [rewrite VG; now left|].
    unfold drop_or_delete. cbn [fst snd]. destruct ids as [|y l].
    + unfold msize, set_meta. cbn [sh_meta]. pose proof (meta_size_drop _ _ _ B'). unfold bucket_size in H. lia.
    + apply (proj2 (delete_objs_size s1 c' (y :: l) (conj W1 G1)) b' y B' (or_introl eq_refl)).
      destruct (cgc b') eqn:Cg.
      * left. apply (Ht eq_refl). now left.
      * right. apply (proj2 (Hf eq_refl)). now left.
Qed.

(* C44 (garbage part): after finitely many passes no removed container and no garbage key is left,
   whatever the batch size (>= 1) and whatever the two clocks say *)
Theorem garbage_eventually limit : (0 < limit)%nat -> forall k s,
  inv s -> (msize s <= k)%nat ->
  exists n, (n <= S k)%nat /\ inv (gc_iter limit n s) /\ garbage_free (sh_meta (gc_iter limit n s)) = true /\
            (msize (gc_iter limit n s) <= msize s)%nat.
Proof.
  intros L. induction k as [|k IH]; intros s I Hk.
  - destruct (pass_progress limit s I L) as (I1 & L1 & [Hlt|Hg]); [lia|].
    exists 1%nat. simpl. split; [lia|]. split; [exact I1|]. split; [exact Hg|exact L1].
  - destruct (pass_progress limit s I L) as (I1 & L1 & [Hlt|Hg]).
    + destruct (IH (gc_pass limit s) I1) as (n & Hn & I2 & G2 & L2); [lia|].
      exists (S n). simpl. split; [lia|]. split; [exact I2|]. split; [exact G2|lia].
    + exists 1%nat. simpl. split; [lia|]. split; [exact I1|]. split; [exact Hg|exact L1].
Qed.

(* ================================================================ the expired half *)

(* invariants carried through a pass *)
Lemma fold_mono2 {A} (P : shard -> Prop) (f : shard -> A -> shard) l :
  (forall s a, inv s -> P s -> inv (f s a) /\ P (f s a) /\ (msize (f s a) <= msize s)%nat) ->
  forall s, inv s -> P s -> inv (fold_left f l s) /\ P (fold_left f l s) /\ (msize (fold_left f l s) <= msize s)%nat.
Proof.
  intros H. induction l as [|a r IH]; intros s I Ps; simpl; auto.
  destruct (H s a I Ps) as (I1 & P1 & L1). destruct (IH _ I1 P1) as (I2 & P2 & L2). split; [exact I2|]. split; [exact P2|lia].
Qed.

Section PassInv.
Variable P : shard -> Prop.
Hypothesis Pdel : forall s c ids, inv s -> P s -> P (delete_objs s c ids).
Hypothesis Pdrop : forall s c, inv s -> P s -> P (drop_cnr s c).
Hypothesis Pdone : forall s, P s -> P (set_done s (sh_cur s)).

Lemma P_expired_one s a : inv s -> P s -> inv (expired_one s a) /\ P (expired_one s a) /\ (msize (expired_one s a) <= msize s)%nat.
Proof.
  intros I Ps. destruct (expired_one_mono s a I) as [I1 L1]. split; [exact I1|]. split; [|exact L1].
  destruct a as [c' y]. unfold expired_one.
  destruct (view_locked (sh_meta s) c' y); auto.
  destruct ((view_exists (sh_meta s) true c' y =? v_ok) || (view_exists (sh_meta s) true c' y =? v_ecparent)); auto.
Qed.

Lemma P_delete_bin s (bin : cid * list oid) : inv s -> P s ->
  inv (delete_objs s (fst bin) (snd bin)) /\ P (delete_objs s (fst bin) (snd bin)) /\
  (msize (delete_objs s (fst bin) (snd bin)) <= msize s)%nat.
Proof. intros I Ps. split; [now apply delete_objs_inv|]. split; [now apply Pdel|now apply delete_objs_size]. Qed.

Lemma P_drop_or_delete s bin : inv s -> P s ->
  inv (drop_or_delete s bin) /\ P (drop_or_delete s bin) /\ (msize (drop_or_delete s bin) <= msize s)%nat.
Proof.
  intros I Ps. destruct (drop_or_delete_mono s bin I) as [I1 L1]. split; [exact I1|]. split; [|exact L1].
  destruct bin as [c' ids]. unfold drop_or_delete. cbn [fst snd]. destruct ids; [apply (Pdrop s c' I Ps)|now apply Pdel].
Qed.

Lemma P_collect limit s : inv s -> P s -> P (collect_expired limit s).
Proof.
  intros I Ps. unfold collect_expired.
  destruct (sh_done s =? sh_cur s); auto. destruct (sh_cur s <? sh_done s); [now apply Pdone|].
  set (batch := firstn limit (view_expired (sh_meta s) (sh_cur s))).
  set (s1 := match batch with [] => set_done s (sh_cur s) | _ => s end).
  assert (I1 : inv s1 /\ P s1) by (unfold s1; destruct batch; split; auto). destruct I1 as [I1 P1].
  destruct (fold_mono2 P (fun s' bin => delete_objs s' (fst bin) (snd bin)) (tomb_bins batch None) P_delete_bin s1 I1 P1) as (I2 & P2 & _).
  now destruct (fold_mono2 P expired_one
              (map (fun t : cid * oid * otype => fst t) (filter (fun t : cid * oid * otype => negb (is_tomb (snd t))) batch))
              P_expired_one _ I2 P2) as (_ & P3 & _).
Qed.

Lemma P_pass limit s : inv s -> P s -> P (gc_pass limit s).
Proof.
  intros I Ps. destruct (collect_expired_mono limit s I) as [I1 _]. pose proof (P_collect limit s I Ps) as P1.
  unfold gc_pass. now destruct (fold_mono2 P drop_or_delete (view_garbage (sh_meta (collect_expired limit s)) limit)
                                 P_drop_or_delete _ I1 P1) as (_ & P2 & _).
Qed.
End PassInv.

(* a stored tombstoned object carries a garbage key (what an accepted tombstone leaves behind) *)
Definition ts_inv (s : shard) : Prop :=
  forall c b x, bucket (sh_meta s) c = Some b -> tombstoned b x = true -> sm_get x (objs b) <> None -> sm_get x (garb b) <> None.

Lemma tombstoned_sub b b' x : (forall kv, In kv (objs b') -> In kv (objs b)) -> tombstoned b' x = true -> tombstoned b x = true.
Proof.
  intros H T. unfold tombstoned in *. apply existsb_exists in T as [kv [Hin Hk]]. apply existsb_exists. exists kv. split; auto.
Qed.

Lemma bucket_after_delete s c ids c' b1 :
  inv s -> bucket (sh_meta (delete_objs s c ids)) c' = Some b1 ->
  exists b, bucket (sh_meta s) c' = Some b /\
            (forall kv, In kv (objs b1) -> In kv (objs b)) /\
            (forall x, sm_get x (objs b1) <> None -> sm_get x (objs b) <> None /\ sm_get x (garb b1) = sm_get x (garb b)) /\
            cgc b1 = cgc b /\ (garb b = [] -> garb b1 = []).
Proof.
  intros I B1. destruct ids as [|i r].
  { exists b1. repeat split; auto. }
  destruct (bucket (sh_meta s) c) as [b|] eqn:B.
  2:{ rewrite delete_objs_none in B1 by auto. exists b1. repeat split; auto. }
  destruct (delete_objs_spec s c (i :: r) b I B) as (b' & E & O & Gb & Cg & W' & G'); [discriminate|].
  destruct (inv_bucket s c b I B) as [[Wo Wg] _].
  rewrite E in B1. cbn [sh_meta] in B1. destruct (N.eq_dec c' c) as [->|Ne].
  - rewrite bucket_set_eq in B1. inversion B1; subst b1. exists b. split; auto.
    split; [intros kv Hin; rewrite O in Hin; now apply dels_in in Hin|].
    split; [|split; [exact Cg|intros Eg; rewrite Gb, Eg; clear; induction (i :: r); simpl; auto]].
    intros x Hx. rewrite O in Hx.
    assert (Ni : ~ In x (i :: r)) by (intros Hin; apply Hx; now apply dels_get_in).
    rewrite dels_get_notin in Hx by auto. split; auto. rewrite Gb. now apply dels_get_notin.
  - rewrite bucket_set_ne in B1 by auto. exists b1. repeat split; auto.
Qed.

Lemma ts_inv_delete s c ids : inv s -> ts_inv s -> ts_inv (delete_objs s c ids).
Proof.
  intros I T c' b1 x B1 Tx Sx. destruct (bucket_after_delete s c ids c' b1 I B1) as (b & B & Hsub & Hget & _).
  destruct (Hget x Sx) as [Sb Eg]. rewrite Eg. apply (T c' b x B); auto. now apply (tombstoned_sub b b1 x Hsub).
Qed.

Lemma bucket_after_drop s c c' b : inv s -> bucket (sh_meta (drop_cnr s c)) c' = Some b -> bucket (sh_meta s) c' = Some b.
Proof.
  intros [W _] B. unfold drop_cnr, set_meta in B. cbn [sh_meta] in B. destruct (N.eq_dec c' c) as [->|Ne].
  - rewrite bucket_drop_eq in B by auto. discriminate.
  - now rewrite bucket_drop_ne in B by auto.
Qed.

Lemma ts_inv_pass limit s : inv s -> ts_inv s -> ts_inv (gc_pass limit s).
Proof.
  apply (P_pass ts_inv).
  - exact ts_inv_delete.
  - intros s0 c I T c' b x B. apply (T c' b x). now apply (bucket_after_drop s0 c).
  - intros s0 T. exact T.
Qed.

(* clocks: a pass changes neither the epoch source nor the current epoch; the processed epoch stays or becomes the current one *)
Definition clocks (e cu d : N) (s : shard) : Prop :=
  epoch (sh_meta s) = e /\ sh_cur s = cu /\ (sh_done s = d \/ sh_done s = cu).

Lemma clocks_pass limit s e cu d : inv s -> clocks e cu d s -> clocks e cu d (gc_pass limit s).
Proof.
  apply (P_pass (clocks e cu d)).
  - intros s0 c ids _ (H1 & H2 & H3). destruct (delete_objs_clocks s0 c ids) as (E1 & E2 & E3).
    unfold clocks. rewrite E1, E2, E3. auto.
  - intros s0 c _ H. exact H.
  - intros s0 (H1 & H2 & H3). unfold clocks. simpl. auto.
Qed.

(* garbage-free states stay garbage-free *)
Lemma garbage_free_bucket m c b : wf_state m -> garbage_free m = true -> bucket m c = Some b -> cgc b = false /\ garb b = [].
Proof.
  intros W G B. apply (bucket_in m c b W) in B. unfold garbage_free in G. rewrite forallb_forall in G.
  specialize (G (c, b) B). unfold quiet_bucket in G. cbn [snd] in G. apply andb_true_iff in G as [G1 G2].
  split; [now destruct (cgc b)|]. now destruct (garb b).
Qed.

Lemma garbage_free_intro m : wf_state m -> (forall c b, bucket m c = Some b -> cgc b = false /\ garb b = []) -> garbage_free m = true.
Proof.
  intros W H. unfold garbage_free. apply forallb_forall. intros [c b] Hin. apply (bucket_in m c b W) in Hin.
  destruct (H c b Hin) as [H1 H2]. unfold quiet_bucket. cbn [snd]. now rewrite H1, H2.
Qed.

Definition gfree (s : shard) : Prop := garbage_free (sh_meta s) = true.

Lemma gfree_delete s c ids : inv s -> gfree s -> gfree (delete_objs s c ids).
Proof.
  intros I G. pose proof (delete_objs_inv s c ids I) as [W' _]. apply garbage_free_intro; auto.
  intros c' b1 B1. destruct (bucket_after_delete s c ids c' b1 I B1) as (b & B & _ & _ & Cg & Hg).
  destruct I as [W _]. destruct (garbage_free_bucket _ _ _ W G B) as [H1 H2]. split; [congruence|auto].
Qed.

Lemma gfree_pass limit s : inv s -> gfree s -> gfree (gc_pass limit s).
Proof.
  apply (P_pass gfree).
  - exact gfree_delete.
  - intros s0 c I G. pose proof (drop_cnr_inv s0 c I) as [W' _]. apply garbage_free_intro; auto.
    intros c' b B. apply (bucket_after_drop s0 c c' b I) in B. destruct I as [W _]. now apply (garbage_free_bucket _ _ _ W G B).
  - intros s0 G. exact G.
Qed.

Lemma garbage_loop_quiet bs limit : forall num,
  forallb (fun cb : cid * cstate => quiet_bucket (snd cb)) bs = true -> garbage_loop bs limit num = [].
Proof.
  induction bs as [|[c0 b0] r IH]; intros num H; simpl in *; auto.
  apply andb_true_iff in H as [H1 H2]. unfold quiet_bucket in H1. apply andb_true_iff in H1 as [Hc Hg].
  destruct (cgc b0); [discriminate|]. destruct (garb b0); [|discriminate]. simpl. rewrite Coq.Lists.List.firstn_nil. auto.
Qed.

Lemma view_garbage_gfree m limit : garbage_free m = true -> view_garbage m limit = [].
Proof. intros G. unfold view_garbage. destruct limit; auto. now apply garbage_loop_quiet. Qed.

(* no stored object is tombstoned: what ts_inv means once the garbage lists are empty *)
Definition no_ts (s : shard) : Prop :=
  forall c b x, bucket (sh_meta s) c = Some b -> sm_get x (objs b) <> None -> tombstoned b x = false.

Lemma no_ts_of s : inv s -> ts_inv s -> gfree s -> no_ts s.
Proof.
  intros [W _] T G c b x B Sx. destruct (garbage_free_bucket _ _ _ W G B) as [_ Hg].
  destruct (tombstoned b x) eqn:Tx; auto. exfalso. apply (T c b x B Tx Sx). now rewrite Hg.
Qed.

(* ---------------------------------------------------------------- progress of the expired-object collection *)

Definition in_sync (s : shard) : Prop := epoch (sh_meta s) = sh_cur s.

Lemma tomb_bins_nil l : forall cur, tomb_bins l cur = [] -> cur = None /\ forall c x t, In (c, x, t) l -> is_tomb t = false.
Proof.
  induction l as [|[[c0 x0] t0] r IH]; intros cur H; simpl in H.
  - destruct cur; [discriminate|]. split; auto. intros c x t [].
  - destruct (is_tomb t0) eqn:Tt.
    + destruct cur as [[c' ids]|].
      * destruct (c' =? c0); [apply IH in H as [H _]; discriminate|discriminate].
      * apply IH in H as [H _]. discriminate.
    + destruct (IH _ H) as [H1 H2]. split; auto. intros c x t [E|Hin]; [inversion E; subst; auto|eauto].
Qed.

Lemma tomb_bins_nonempty l : forall cur c1 ids1,
  In (c1, ids1) (tomb_bins l cur) -> (forall c0 ids0, cur = Some (c0, ids0) -> ids0 <> []) -> ids1 <> [].
Proof.
  induction l as [|[[c0 x0] t0] r IH]; intros cur c1 ids1 H Hc; simpl in H.
  - destruct cur as [[c' ids]|]; [|contradiction]. destruct H as [E|[]]. inversion E; subst. eapply Hc; eauto.
  - destruct (is_tomb t0).
    + destruct cur as [[c' ids]|].
      * destruct (c' =? c0).
        -- eapply IH; eauto. intros c2 ids2 E. inversion E; subst. intros E2. now apply app_eq_nil in E2 as [_ E2].
        -- destruct H as [E|H]; [inversion E; subst; eapply Hc; eauto|].
           eapply IH; eauto. intros c2 ids2 E. inversion E; subst. discriminate.
      * eapply IH; eauto. intros c2 ids2 E. inversion E; subst. discriminate.
    + eapply IH; eauto.
Qed.

(* the engine's callback deletes an expired unlocked object of a garbage-free, synchronised shard *)
Lemma expired_one_deletes s c x t :
  inv s -> gfree s -> no_ts s -> in_sync s -> In (c, x, t) (view_expired (sh_meta s) (sh_cur s)) ->
  (msize (expired_one s (c, x)) < msize s)%nat.
Proof.
  intros I G NT Sy Hin. pose proof I as [W Gi].
  destruct (view_expired_in _ _ _ _ _ W Hin) as (b & B & Cg & LL & EX & St).
  destruct (inv_bucket s c b I B) as [Wb Gb]. destruct (garbage_free_bucket _ _ _ W G B) as [_ Hg].
  assert (Sx : sm_get x (objs b) <> None) by (unfold sm_mem in St; destruct (sm_get x (objs b)); [discriminate|discriminate]).
  unfold expired_one.
  assert (VL : view_locked (sh_meta s) c x = false).
  { unfold view_locked. rewrite B, Cg, (locked_spec b _ x Wb). unfold in_sync in Sy. now rewrite Sy. }
  rewrite VL.
  assert (VE : view_exists (sh_meta s) true c x = v_ok).
  { unfold view_exists. rewrite B, Cg, (ginv_status b x 0 Gb).
    assert (SD : status_direct b x 0 = st_available).
    { unfold status_direct. rewrite (is_expired_spec b x 0), (expired_zero b x), (in_garbage_spec b x Wb), (NT c b x B Sx).
      unfold marked. rewrite Hg. reflexivity. }
    rewrite SD. simpl. rewrite (ginv_parent_info b x Gb). simpl. unfold stored. now rewrite St. }
  rewrite VE. simpl.
  apply (proj2 (delete_objs_size s c [x] I) b x B (or_introl eq_refl)). now left.
Qed.

(* one pass of a garbage-free synchronised shard whose current epoch is not processed yet *)
Lemma expired_progress limit s e d :
  inv s -> (0 < limit)%nat -> gfree s -> ts_inv s -> epoch (sh_meta s) = e -> sh_cur s = e -> sh_done s = d -> d < e ->
  let s' := gc_pass limit s in
  ((msize s' < msize s)%nat /\ sh_done s' = d) \/
  (view_expired (sh_meta s) e = [] /\ sh_meta s' = sh_meta s /\ sh_blob s' = sh_blob s /\ sh_done s' = e).
Proof.
  intros I L G T Ee Ec Ed Lt. pose proof (no_ts_of s I T G) as NT.
  assert (Sy : in_sync s) by (unfold in_sync; congruence).
  (* the garbage phase has nothing to do *)
  assert (G1 : gfree (collect_expired limit s)) by (apply (P_collect gfree); auto using gfree_delete).
  cbv zeta. unfold gc_pass. rewrite (view_garbage_gfree _ limit G1). simpl.
  unfold collect_expired. rewrite Ec, Ed.
  replace (d =? e) with false by (symmetry; apply N.eqb_neq; lia).
  replace (e <? d) with false by (symmetry; apply N.ltb_ge; lia).
  rewrite <- Ec.
  destruct (view_expired (sh_meta s) (sh_cur s)) as [|a rest] eqn:VE.
  - right. rewrite Coq.Lists.List.firstn_nil. simpl. rewrite Ec. auto.
  - left. destruct limit as [|n]; [lia|]. cbn [firstn].
    set (batch := a :: firstn n rest).
    assert (Hb : forall y, In y batch -> In y (view_expired (sh_meta s) (sh_cur s))).
    { intros y [E|Hy]; rewrite VE; [now left|right; now apply firstn_in in Hy]. }
    set (others := map (fun t : cid * oid * otype => fst t) (filter (fun t : cid * oid * otype => negb (is_tomb (snd t))) batch)).
    destruct (tomb_bins batch None) as [|[c1 ids1] rest1] eqn:TB.
    + (* no tombstone in the batch: the first callback deletes *)
      simpl. destruct (tomb_bins_nil _ _ TB) as [_ Hnt]. destruct a as [[c x] t].
      assert (Ht : is_tomb t = false) by (apply (Hnt c x t); now left).
      unfold others, batch. cbn [filter snd]. rewrite Ht. cbn [negb map fst fold_left].
      pose proof (expired_one_deletes s c x t I G NT Sy (Hb _ (or_introl eq_refl))) as Hlt.
      destruct (expired_one_mono s (c, x) I) as [I1 _].
      destruct (fold_mono expired_one (map (fun t0 : cid * oid * otype => fst t0)
                   (filter (fun t0 : cid * oid * otype => negb (is_tomb (snd t0))) (firstn n rest))) expired_one_mono _ I1) as [_ L2].
      assert (Dn : forall l s0, sh_done (fold_left expired_one l s0) = sh_done s0).
      { induction l as [|[c' y] l' IHl]; intros s0; simpl; auto. rewrite IHl. unfold expired_one.
        destruct (view_locked (sh_meta s0) c' y); auto.
        destruct ((view_exists (sh_meta s0) true c' y =? v_ok) || (view_exists (sh_meta s0) true c' y =? v_ecparent)); auto.
        now destruct (delete_objs_clocks s0 c' [y]) as (_ & _ & E3). }
      split; [lia|]. rewrite Dn.
      unfold expired_one. destruct (view_locked (sh_meta s) c x); auto.
      destruct ((view_exists (sh_meta s) true c x =? v_ok) || (view_exists (sh_meta s) true c x =? v_ecparent)); auto.
      destruct (delete_objs_clocks s c [x]) as (_ & _ & E3). congruence.
    + (* the first tombstone bin deletes *)
      cbn [fold_left fst snd].
      assert (Hne : ids1 <> []).
      { apply (tomb_bins_nonempty batch None c1 ids1); [rewrite TB; now left|intros c0 ids0 E; discriminate]. }
      destruct ids1 as [|y ids1']; [congruence|].
      destruct (tomb_bins_in batch None c1 (y :: ids1') y) as [[t Hy]|[ids0 [E _]]]; [rewrite TB; now left|now left| |discriminate].
      pose proof I as [W _].
      destruct (view_expired_in _ _ _ _ _ W (Hb _ Hy)) as (b & B & _ & _ & _ & St).
      assert (Hlt : (msize (delete_objs s c1 (y :: ids1')) < msize s)%nat).
      { apply (proj2 (delete_objs_size s c1 (y :: ids1') I) b y B (or_introl eq_refl)). left.
        unfold sm_mem in St. destruct (sm_get y (objs b)); [discriminate|discriminate]. }
      pose proof (delete_objs_inv s c1 (y :: ids1') I) as I1.
      destruct (fold_mono (fun s' bin => delete_objs s' (fst bin) (snd bin)) rest1
                  (fun s0 a0 I0 => conj (delete_objs_inv s0 (fst a0) (snd a0) I0) (proj1 (delete_objs_size s0 (fst a0) (snd a0) I0))) _ I1) as [I2 L2].
      destruct (fold_mono expired_one others expired_one_mono _ I2) as [_ L3].
      split; [lia|].
      assert (Dn1 : forall l s0, sh_done (fold_left expired_one l s0) = sh_done s0).
      { induction l as [|[c' y0] l' IHl]; intros s0; simpl; auto. rewrite IHl. unfold expired_one.
        destruct (view_locked (sh_meta s0) c' y0); auto.
        destruct ((view_exists (sh_meta s0) true c' y0 =? v_ok) || (view_exists (sh_meta s0) true c' y0 =? v_ecparent)); auto.
        now destruct (delete_objs_clocks s0 c' [y0]) as (_ & _ & E3). }
      assert (Dn2 : forall l s0, sh_done (fold_left (fun s' (bin : cid * list oid) => delete_objs s' (fst bin) (snd bin)) l s0) = sh_done s0).
      { induction l as [|bin l' IHl]; intros s0; simpl; auto. rewrite IHl.
        now destruct (delete_objs_clocks s0 (fst bin) (snd bin)) as (_ & _ & E3). }
      rewrite Dn1, Dn2. destruct (delete_objs_clocks s c1 (y :: ids1')) as (_ & _ & E3). congruence.
Qed.

Theorem expired_eventually limit : (0 < limit)%nat -> forall k s e d,
  inv s -> gfree s -> ts_inv s -> epoch (sh_meta s) = e -> sh_cur s = e -> sh_done s = d -> d < e -> (msize s <= k)%nat ->
  exists n, inv (gc_iter limit n s) /\ gfree (gc_iter limit n s) /\ ts_inv (gc_iter limit n s) /\
            epoch (sh_meta (gc_iter limit n s)) = e /\ sh_cur (gc_iter limit n s) = e /\ sh_done (gc_iter limit n s) = e /\
            view_expired (sh_meta (gc_iter limit n s)) e = [].
Proof.
  intros L. induction k as [|k IH]; intros s e d I G T Ee Ec Ed Lt Hk.
  - destruct (expired_progress limit s e d I L G T Ee Ec Ed Lt) as [[Hlt _]|(V & M & B & D)]; [lia|].
    exists 1%nat. simpl. destruct (pass_progress limit s I L) as (I1 & _ & _).
    destruct (clocks_pass limit s e e d I (conj Ee (conj Ec (or_introl Ed)))) as (C1 & C2 & _).
    split; [exact I1|]. split; [now apply gfree_pass|]. split; [now apply ts_inv_pass|].
    split; [exact C1|]. split; [exact C2|]. split; [exact D|]. now rewrite M.
  - destruct (pass_progress limit s I L) as (I1 & _ & _).
    destruct (clocks_pass limit s e e d I (conj Ee (conj Ec (or_introl Ed)))) as (C1 & C2 & _).
    pose proof (gfree_pass limit s I G) as G1. pose proof (ts_inv_pass limit s I T) as T1.
    destruct (expired_progress limit s e d I L G T Ee Ec Ed Lt) as [[Hlt Hd]|(V & M & B & D)].
    + destruct (IH (gc_pass limit s) e d I1 G1 T1 C1 C2 Hd Lt) as (n & H); [lia|]. exists (S n). exact H.
    + exists 1%nat. simpl. split; [exact I1|]. split; [exact G1|]. split; [exact T1|].
      split; [exact C1|]. split; [exact C2|]. split; [exact D|]. now rewrite M.
Qed.

Lemma no_expired_left s e : inv s -> view_expired (sh_meta s) e = [] ->
  forall c b x, bucket (sh_meta s) c = Some b -> cgc b = false -> sm_get x (objs b) <> None ->
  expired b e x && negb (live_lock b e x) = false.
Proof.
  intros [W _] V c b x B Cg Sx. destruct (expired b e x && negb (live_lock b e x)) eqn:E; auto. exfalso.
  destruct (sm_get x (objs b)) as [en|] eqn:Gx; [|congruence].
  assert (Hin : In (c, x, h_typ (e_hdr en)) (view_expired (sh_meta s) e)); [|rewrite V in Hin; destruct Hin].
  apply (expired_iter_exact (sh_meta s) e _ W). unfold expired_unlocked. apply in_flat_map.
  exists (c, b). split; [now apply (bucket_in _ _ _ W)|]. cbn [fst snd]. apply in_map_iff.
  exists (x, h_typ (e_hdr en)). split; auto. unfold expired_unlocked_in. rewrite Cg. apply in_flat_map.
  exists (x, en). split; [now apply sm_get_some_in|]. cbn [fst snd]. rewrite E. now left.
Qed.

Lemma iter_pres (P : shard -> Prop) limit : (0 < limit)%nat ->
  (forall s, inv s -> P s -> P (gc_pass limit s)) -> forall n s, inv s -> P s -> P (gc_iter limit n s) /\ inv (gc_iter limit n s).
Proof.
  intros L H. induction n as [|n IH]; intros s I Ps; simpl; auto.
  destruct (pass_progress limit s I L) as (I1 & _ & _). apply IH; auto.
Qed.

(* C44 (composition): drain the garbage lists (finitely many passes), let the epoch advance once, drain the
   expired objects (finitely many passes): the shard then holds nothing that should go at the new epoch *)
Theorem eventually_clean limit : (0 < limit)%nat -> forall s e',
  inv s -> ts_inv s -> sh_cur s < e' -> sh_done s < e' ->
  exists n1 n2,
    let s3 := gc_iter limit n2 (fst (sstep limit (gc_iter limit n1 s) (STick e'))) in
    inv s3 /\ garbage_free (sh_meta s3) = true /\ sh_done s3 = e' /\ sh_cur s3 = e' /\ epoch (sh_meta s3) = e' /\
    forall c b x, bucket (sh_meta s3) c = Some b -> sm_get x (objs b) <> None -> should_go_in b e' x = false.
Proof.
  intros L s e' I T Lc Ld.
  destruct (garbage_eventually limit L (msize s) s I (le_n _)) as (n1 & _ & I1 & G1 & _).
  destruct (iter_pres ts_inv limit L (ts_inv_pass limit) n1 s I T) as [T1 _].
  destruct (iter_pres (clocks (epoch (sh_meta s)) (sh_cur s) (sh_done s)) limit L
              (fun s0 I0 C0 => clocks_pass limit s0 _ _ _ I0 C0) n1 s I (conj eq_refl (conj eq_refl (or_introl eq_refl)))) as [(_ & C2 & C3) _].
  set (s1 := gc_iter limit n1 s) in *.
  set (s2 := fst (sstep limit s1 (STick e'))).
  assert (I2 : inv s2).
  { destruct I1 as [W1 Gi1]. split; [apply (wf_step (sh_meta s1) (OEpoch e') W1)|exact Gi1]. }
  assert (G2 : gfree s2) by exact G1.
  assert (T2 : ts_inv s2) by exact T1.
  assert (D2 : sh_done s2 < e') by (unfold s2; simpl; destruct C3 as [C3|C3]; rewrite C3; lia).
  destruct (expired_eventually limit L (msize s2) s2 e' (sh_done s2) I2 G2 T2 eq_refl eq_refl eq_refl D2 (le_n _))
    as (n2 & I3 & G3 & T3 & E3 & Cu3 & Dn3 & V3).
  exists n1, n2. cbv zeta. fold s2. set (s3 := gc_iter limit n2 s2) in *.
  split; [exact I3|]. split; [exact G3|]. split; [exact Dn3|]. split; [exact Cu3|]. split; [exact E3|].
  intros c b x B Sx. pose proof I3 as [W3 _]. destruct (garbage_free_bucket _ _ _ W3 G3 B) as [Cg Hg].
  unfold should_go_in. rewrite Cg, (no_ts_of s3 I3 T3 G3 c b x B Sx), (no_expired_left s3 e' I3 V3 c b x B Cg Sx).
  unfold any_mark, sm_mem. now rewrite Hg.
Qed.
