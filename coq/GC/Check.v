(* Executable comparison for the correspondence checks of C07 / C44.

   A case = batch size + list of (operation, observed result, digest of the
   observation made after it).  Observation = dumped metabase buckets (enc_state
   of Meta/Check.v), the GC's epochs and, for every universe address, the
   Shard.Get class, Shard.IsLocked and the presence in the BLOB storage.
   [model_mismatches] replays the operations on the model; [ref_mismatches]
   evaluates the right-hand sides of the C07 / C44 theorems (GC/Spec.v) on the
   replayed states, which are the implementation's states wherever the digests
   agree.  Mismatch code = (history * 1000 + step) * 100 + section. *)
From Coq Require Import List NArith ZArith Bool.
Import ListNotations.
From NV Require Import Gen.MetaConsts Meta.SMap Meta.Model Meta.Spec Meta.Check GC.Model GC.Spec.
Local Open Scope N_scope.

(* universe of harness/cmd/gc/main.go *)
Definition g_cnrs : list cid := [1; 2].
Definition g_oids : list oid := [1; 2; 3; 4; 5; 6; 7; 8].
Definition g_addrs : list (cid * oid) := flat_map (fun c => map (fun o => (c, o)) g_oids) g_cnrs.

Definition obs_enc (s : shard) : list N :=
  enc_state (sh_meta s) ++ [sh_cur s; sh_done s] ++
  map (fun a => sh_get s (fst a) (snd a)) g_addrs ++
  map (fun a => b2n (sh_locked s (fst a) (snd a))) g_addrs ++
  map (fun a => b2n (blob_has (sh_blob s) (fst a) (snd a))) g_addrs.

(* 61-bit multiplicative digest; masking instead of a modulo (N.modulo is slow under vm_compute) *)
Definition ghash_mask : N := 2305843009213693951.  (* 2^61 - 1 *)
Definition ghash (l : list N) : N :=
  fold_left (fun acc x => N.land (acc * 1000003 + x + 1) ghash_mask) l 7.

Record gstep := mkGStep { gs_op : sop; gs_res : list Z; gs_obs : N }.
Record ghist := mkGHist { gh_lim : nat; gh_drain : nat; gh_steps : list gstep }.

Definition sec_gres := 20%nat.
Definition sec_gdigest := 30%nat.

Fixpoint model_ghist (lim : nat) (h k : nat) (s : shard) (l : list gstep) : list N :=
  match l with
  | [] => []
  | st :: r =>
      let '(s', res) := sstep lim s (gs_op st) in
      (if list_eqb Z.eqb res (gs_res st) then [] else [code h k sec_gres]) ++
      (if ghash (obs_enc s') =? gs_obs st then [] else [code h k sec_gdigest]) ++
      model_ghist lim h (S k) s' r
  end.

Definition model_mismatches (cases : list ghist) : list N :=
  mism_from (fun i h => model_ghist (gh_lim h) i 0 shard0 (gh_steps h)) 0 cases.

(* ---------------------------------------------------------------- reference, C07 *)

Definition is_ok (res : list Z) : bool := match res with [0%Z] => true | _ => false end.
Definition res_is (n : Z) (res : list Z) : bool := match res with [x] => Z.eqb x n | _ => false end.

Definition meta_same (s s' : shard) : bool := list_eqb N.eqb (enc_state (sh_meta s)) (enc_state (sh_meta s')).
(* data of every address other than the refused object's own one (put_no_effect of GC/C07Proofs.v: Shard.Put
   drops the data it has just written unless Exists(addr) answers (true, nil) -- which it does not for an
   ID that is stored but garbage-marked) *)
Definition known_data_same (own : cid * oid) (s s' : shard) : bool :=
  forallb (fun a => addr_eqb a own ||
                    Bool.eqb (blob_has (sh_blob s) (fst a) (snd a)) (blob_has (sh_blob s') (fst a) (snd a))) g_addrs.

Definition cgc_of (m : state) (c : cid) : bool := match sm_get c (cnrs m) with Some b => cgc b | None => false end.

(* the put proceeds to the association checks: its own ID is not stored, carries no removal mark *)
Definition fresh_id (m : state) (c : cid) (x : oid) : bool :=
  negb (stored_at m c x) && unmarked m c x && negb (tombstoned_at m c x).

Definition c07_never (s' : shard) : bool :=
  forallb (fun a => negb (locked_at (sh_meta s') (epoch (sh_meta s')) (fst a) (snd a)) ||
                    negb ((sh_get s' (fst a) (snd a) =? v_removed) || (sh_get s' (fst a) (snd a) =? v_expired))) g_addrs.

Definition c07_tombstone (s : shard) (o : sop) (res : list Z) (s' : shard) : bool :=
  match is_assoc_put TTombstone o with
  | Some (c, t, x) =>
      if locked_at (sh_meta s) (epoch (sh_meta s)) c x then
        (negb (is_ok res) || stored_at (sh_meta s) c t) && meta_same s s' && known_data_same (c, t) s s' &&
        (if fresh_id (sh_meta s) c t &&
            match type_at (sh_meta s) c x with Some TTombstone | Some TLock => false | _ => true end
         then res_is 3 res else true)
      else true
  | None => true
  end.

Definition is_gc_step (o : sop) : bool :=
  match o with SPass | SEpoch _ | SEvent _ | STick _ => true | _ => false end.

Definition c07_keeps (s : shard) (o : sop) (s' : shard) : bool :=
  if is_gc_step o then
    forallb (fun a => negb (protected s (fst a) (snd a) && protected s' (fst a) (snd a) && unmarked (sh_meta s) (fst a) (snd a))
                      || kept s s' (fst a) (snd a)) g_addrs
  else true.

Definition c07_lock_after_tomb (s : shard) (o : sop) (res : list Z) (s' : shard) : bool :=
  match is_assoc_put TLock o with
  | Some (c, l, x) =>
      if tombstoned_at (sh_meta s) c x && negb (cgc_of (sh_meta s) c) then
        (negb (is_ok res) || stored_at (sh_meta s) c l) && meta_same s s' && known_data_same (c, l) s s' &&
        (if fresh_id (sh_meta s) c l then res_is 1 res || res_is 4 res else true)
      else true
  | None => true
  end.

Definition c07_lock_not_tombstonable (s : shard) (o : sop) (res : list Z) (s' : shard) : bool :=
  match is_assoc_put TTombstone o with
  | Some (c, t, x) =>
      match type_at (sh_meta s) c x, cgc_of (sh_meta s) c with
      | Some TLock, false => (negb (is_ok res) || stored_at (sh_meta s) c t) && meta_same s s' && known_data_same (c, t) s s' &&
                             (if fresh_id (sh_meta s) c t then res_is 5 res else true)
      | _, _ => true
      end
  | None => true
  end.

Definition c07_step (s : shard) (o : sop) (res : list Z) (s' : shard) : list nat :=
  (if c07_never s' then [] else [51%nat]) ++
  (if c07_tombstone s o res s' then [] else [52%nat]) ++
  (if c07_keeps s o s' then [] else [53%nat]) ++
  (if c07_lock_after_tomb s o res s' then [] else [54%nat]) ++
  (if c07_lock_not_tombstonable s o res s' then [] else [55%nat]).

(* ---------------------------------------------------------------- reference, C44 *)

(* after the drain phase: everything that should have gone at the start of the
   drain is gone and the final state is clean *)
Definition c44_final (sd sf : shard) : list nat :=
  (if clean_at sf (epoch (sh_meta sf)) then [] else [60%nat]) ++
  (if forallb (fun a => negb (should_go (sh_meta sd) (epoch (sh_meta sd)) (fst a) (snd a)) || gone sf (fst a) (snd a)) g_addrs
   then [] else [61%nat]).

(* the premises of C44_eventually_partial that are not proved for reachable states, checked on every replayed state:
   a stored tombstoned object carries a garbage key; no data without metadata *)
Definition ts_inv_b (m : state) : bool :=
  forallb (fun cb : cid * cstate =>
             forallb (fun kv : oid * entry => negb (tombstoned (snd cb) (fst kv)) || sm_mem (fst kv) (garb (snd cb))) (objs (snd cb)))
          (cnrs m).
Definition blob_sub_b (s : shard) : bool := forallb (fun a : addr => stored_at (sh_meta s) (fst a) (snd a)) (sh_blob s).
Definition c44_step (s' : shard) : list nat :=
  (if ts_inv_b (sh_meta s') then [] else [62%nat]) ++ (if blob_sub_b s' then [] else [63%nat]).

Fixpoint ref_ghist (lim : nat) (drain : nat) (h k : nat) (s : shard) (sd : option shard) (l : list gstep) : list N :=
  match l with
  | [] => match sd with
          | Some d => map (code h k) (c44_final d s)
          | None => []
          end
  | st :: r =>
      let sd' := match sd with Some d => Some d | None => if Nat.eqb k drain then Some s else None end in
      let '(s', _) := sstep lim s (gs_op st) in
      map (code h k) (c07_step s (gs_op st) (gs_res st) s') ++ map (code h k) (c44_step s') ++
      ref_ghist lim drain h (S k) s' sd' r
  end.

Definition simple_case (h : ghist) : bool := forallb (fun st => simple_op (gs_op st)) (gh_steps h).

(* cases outside the modelled fragment (objects with parents) are replayed on the
   model but the reference has no opinion on them; code 99 marks them *)
Definition ref_mismatches (cases : list ghist) : list N :=
  mism_from (fun i h => if simple_case h then ref_ghist (gh_lim h) (gh_drain h) i 0 shard0 None (gh_steps h)
                        else [code i 0 99%nat]) 0 cases.

(* final state of a case as numbers, for diagnosis: clean?, residue addresses (stored or blob) *)
Definition residue (s : shard) : list N :=
  flat_map (fun a => if stored_at (sh_meta s) (fst a) (snd a) || blob_has (sh_blob s) (fst a) (snd a)
                     then [fst a * 100 + snd a] else []) g_addrs.
