(* Reference side of C07 / C44: what the property texts say, in terms of the
   declarative rules of Meta/Spec.v (live_lock, tombstoned, marked, any_mark,
   expired).  Executable booleans so that they can be evaluated on the states
   of the correspondence runs.  Definitions only. *)
From Coq Require Import List NArith ZArith Bool.
Import ListNotations.
From NV Require Import Gen.MetaConsts Meta.SMap Meta.Model Meta.Spec GC.Model.
Local Open Scope N_scope.

(* ---------------------------------------------------------------- C07 *)

(* the shard holds an unexpired lock for (c, x) at epoch e and the lock is not
   itself removed (tombstoned, garbage-marked, or in a removed container) *)
Definition locked_at (m : state) (e : N) (c : cid) (x : oid) : bool :=
  match sm_get c (cnrs m) with
  | Some b => negb (cgc b) && live_lock b e x
  | None => false
  end.

(* the two clocks of a shard: the epoch source of the metabase (Put, Get,
   IsLocked, engine lock check) and the last new-epoch event (expired-object
   collection).  "Unexpired" for the GC means unexpired for both. *)
Definition gc_epoch (s : shard) : N := N.max (epoch (sh_meta s)) (sh_cur s).
Definition protected (s : shard) (c : cid) (x : oid) : bool := locked_at (sh_meta s) (gc_epoch s) c x.

(* no garbage mark of any kind on (c, x): neither forced (operator, policer) nor
   left behind by an accepted tombstone *)
Definition unmarked (m : state) (c : cid) (x : oid) : bool :=
  match sm_get c (cnrs m) with
  | Some b => negb (any_mark b x)
  | None => true
  end.

Definition entry_at (m : state) (c : cid) (x : oid) : option entry :=
  match sm_get c (cnrs m) with
  | Some b => sm_get x (objs b)
  | None => None
  end.
Definition stored_at (m : state) (c : cid) (x : oid) : bool :=
  match entry_at m c x with Some _ => true | None => false end.
Definition tombstoned_at (m : state) (c : cid) (x : oid) : bool :=
  match sm_get c (cnrs m) with Some b => tombstoned b x | None => false end.
Definition type_at (m : state) (c : cid) (x : oid) : option otype :=
  match entry_at m c x with Some e => Some (h_typ (e_hdr e)) | None => None end.

(* what "object (c, x) is kept" means across a step *)
Definition hdr_eqb (a b : hdr) : bool :=
  otype_eqb (h_typ a) (h_typ b) && (h_size a =? h_size b) && opt_eqb (h_exp a) (h_exp b) &&
  opt_eqb (h_assoc a) (h_assoc b) && opt_eqb (h_parent a) (h_parent b) && opt_eqb (h_first a) (h_first b) &&
  opt_eqb (h_split a) (h_split b) && opt_eqb (h_ecr a) (h_ecr b) && opt_eqb (h_eci a) (h_eci b).
Definition entry_eqb (a b : option entry) : bool :=
  match a, b with
  | Some x, Some y => hdr_eqb (e_hdr x) (e_hdr y) && Bool.eqb (e_phy x) (e_phy y) && Bool.eqb (e_root x) (e_root y)
  | None, None => true
  | _, _ => false
  end.
Definition kept (s s' : shard) (c : cid) (x : oid) : bool :=
  entry_eqb (entry_at (sh_meta s) c x) (entry_at (sh_meta s') c x) &&
  Bool.eqb (blob_has (sh_blob s) c x) (blob_has (sh_blob s') c x).

(* a put of a tombstone / lock object *)
Definition is_assoc_put (t : otype) (o : sop) : option (cid * oid * oid) :=
  match o with
  | SPut c ob => if otype_eqb (h_typ (o_hdr ob)) t
                 then match h_assoc (o_hdr ob) with Some x => Some (c, o_id ob, x) | None => None end
                 else None
  | _ => None
  end.

(* ---------------------------------------------------------------- C44 *)

(* what should be removed from a bucket at epoch e *)
Definition should_go_in (b : cstate) (e : N) (x : oid) : bool :=
  cgc b || tombstoned b x || any_mark b x || (expired b e x && negb (live_lock b e x)).
Definition should_go (m : state) (e : N) (c : cid) (x : oid) : bool :=
  match sm_get c (cnrs m) with
  | Some b => sm_mem x (objs b) && should_go_in b e x
  | None => false
  end.

Definition gone (s : shard) (c : cid) (x : oid) : bool :=
  negb (stored_at (sh_meta s) c x) && negb (blob_has (sh_blob s) c x).

(* nothing left to do at epoch e: no removed container, no garbage key, no stored
   object that should go (in particular no expired unlocked tombstone / lock),
   no data without metadata *)
Definition clean_bucket (b : cstate) (e : N) : bool :=
  negb (cgc b) && match garb b with [] => true | _ => false end &&
  forallb (fun kv : oid * entry => negb (should_go_in b e (fst kv))) (objs b).
Definition clean_at (s : shard) (e : N) : bool :=
  forallb (fun cb : cid * cstate => clean_bucket (snd cb) e) (cnrs (sh_meta s)) &&
  forallb (fun a : addr => stored_at (sh_meta s) (fst a) (snd a)) (sh_blob s).

(* the GC has nothing pending: garbage lists empty and the expired-object
   collection of the current epoch done *)
Definition quiet_bucket (b : cstate) : bool := negb (cgc b) && match garb b with [] => true | _ => false end.
Definition garbage_free (m : state) : bool := forallb (fun cb : cid * cstate => quiet_bucket (snd cb)) (cnrs m).
Definition quiet (s : shard) : bool := garbage_free (sh_meta s) && (sh_done s =? sh_cur s).

(* the measure that every GC pass with something to do decreases *)
Definition bucket_size (b : cstate) : nat := S (length (objs b) + length (garb b)).
Definition meta_size (m : state) : nat := fold_right (fun cb acc => (bucket_size (snd cb) + acc)%nat) O (cnrs m).
Definition gc_pending (s : shard) : nat := if sh_done s =? sh_cur s then O else 1%nat.
Definition gc_measure (s : shard) : nat := (2 * meta_size (sh_meta s) + gc_pending s)%nat.
