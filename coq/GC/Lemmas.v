(* Shared lemmas of the shard-level GC proofs (C07, C44): buckets of the fragment
   without family relations, what a metabase delete does to them, extensional
   description of Shard.deleteObjs. *)
From Coq Require Import List NArith ZArith Bool Lia.
Import ListNotations.
From NV Require Import Base.U64 Gen.MetaConsts Meta.SMap Meta.SMapProofs Meta.Model Meta.Spec
     Meta.StatusProofs Meta.WfProofs Meta.TypedProofs GC.Model GC.Spec.
Local Open Scope N_scope.

(* ---------------------------------------------------------------- sorted maps *)

Lemma sm_get_below {A} lo k (m : smap A) :
  sm_sorted_from (Some lo) m = true -> k <= lo -> sm_get k m = None.
Proof.
  destruct m as [|[k' v'] r]; simpl; intros H L; auto.
  apply andb_true_iff in H as [H _]. apply N.ltb_lt in H.
  replace (k =? k') with false by (symmetry; apply N.eqb_neq; lia).
  replace (k <? k') with true by (symmetry; apply N.ltb_lt; lia). reflexivity.
Qed.

Lemma sm_get_del_ne_from {A} k k2 (m : smap A) : forall lo,
  sm_sorted_from lo m = true -> k2 <> k -> sm_get k2 (sm_del k m) = sm_get k2 m.
Proof.
  induction m as [|[k' v'] r IH]; intros lo H Ne; simpl; auto.
  pose proof (sorted_tail _ _ _ _ H) as Ht.
  destruct (k =? k') eqn:E.
  - apply N.eqb_eq in E; subst k'.
    replace (k2 =? k) with false by (symmetry; now apply N.eqb_neq).
    destruct (k2 <? k) eqn:L; auto. apply N.ltb_lt in L.
    apply (sm_get_below k k2 r Ht). lia.
  - destruct (k <? k'); simpl; auto.
    destruct (k2 =? k'); auto. destruct (k2 <? k'); auto. eapply IH; eauto.
Qed.

Lemma sm_get_del_ne {A} k k2 (m : smap A) : sm_wf m = true -> k2 <> k -> sm_get k2 (sm_del k m) = sm_get k2 m.
Proof. intros W. apply (sm_get_del_ne_from k k2 m None W). Qed.

Lemma sm_get_del_eq_from {A} k (m : smap A) : forall lo,
  sm_sorted_from lo m = true -> sm_get k (sm_del k m) = None.
Proof.
  induction m as [|[k' v'] r IH]; intros lo H; simpl; auto.
  pose proof (sorted_tail _ _ _ _ H) as Ht.
  destruct (k =? k') eqn:E.
  - apply N.eqb_eq in E; subst k'. apply (sm_get_below k k r Ht). lia.
  - destruct (k <? k') eqn:L; simpl; rewrite E, L; auto. eapply IH; eauto.
Qed.

Lemma sm_get_del_eq {A} k (m : smap A) : sm_wf m = true -> sm_get k (sm_del k m) = None.
Proof. intros W. apply (sm_get_del_eq_from k m None W). Qed.

Lemma sm_del_length_le {A} k (m : smap A) : (length (sm_del k m) <= length m)%nat.
Proof.
  induction m as [|[k' v'] r IH]; simpl; auto.
  destruct (k =? k'); simpl; [lia|]. destruct (k <? k'); simpl; lia.
Qed.

Lemma sm_del_length_lt {A} k (m : smap A) v : sm_get k m = Some v -> (S (length (sm_del k m)) = length m)%nat.
Proof.
  induction m as [|[k' v'] r IH]; simpl; intros H; [discriminate|].
  destruct (k =? k'); simpl; auto. destruct (k <? k'); [discriminate|]. simpl. now rewrite IH.
Qed.

(* successive deletions *)
Definition dels {A} (ids : list N) (m : smap A) : smap A := fold_left (fun m x => sm_del x m) ids m.

Lemma dels_cons {A} i ids (m : smap A) : dels (i :: ids) m = dels ids (sm_del i m).
Proof. reflexivity. Qed.

Lemma dels_wf {A} ids : forall (m : smap A), sm_wf m = true -> sm_wf (dels ids m) = true.
Proof. induction ids as [|i r IH]; simpl; intros m W; auto. apply IH. now apply sm_wf_del. Qed.

Lemma dels_get_notin {A} ids k : forall (m : smap A), sm_wf m = true -> ~ In k ids -> sm_get k (dels ids m) = sm_get k m.
Proof.
  induction ids as [|i r IH]; simpl; intros m W Ni; auto.
  rewrite IH; [|now apply sm_wf_del|tauto]. apply sm_get_del_ne; auto.
Qed.

Lemma dels_get_none {A} ids k : forall (m : smap A), sm_wf m = true -> sm_get k m = None -> sm_get k (dels ids m) = None.
Proof.
  induction ids as [|i r IH]; simpl; intros m W H; auto. apply IH; [now apply sm_wf_del|].
  destruct (N.eq_dec k i) as [->|Ne]; [now apply sm_get_del_eq|]. rewrite sm_get_del_ne; auto.
Qed.

Lemma dels_get_in {A} ids k : forall (m : smap A), sm_wf m = true -> In k ids -> sm_get k (dels ids m) = None.
Proof.
  induction ids as [|i r IH]; simpl; intros m W Hin; [contradiction|destruct Hin as [E|Hin]].
  - subst. apply dels_get_none; [now apply sm_wf_del|now apply sm_get_del_eq].
  - apply IH; auto. now apply sm_wf_del.
Qed.

Lemma dels_length_le {A} ids : forall (m : smap A), (length (dels ids m) <= length m)%nat.
Proof.
  induction ids as [|i r IH]; simpl; intros m; auto.
  etransitivity; [apply IH|apply sm_del_length_le].
Qed.

Lemma dels_length_lt {A} ids k : forall (m : smap A) v, sm_wf m = true -> In k ids -> sm_get k m = Some v ->
  (length (dels ids m) < length m)%nat.
Proof.
  induction ids as [|i r IH]; simpl; intros m v W Hin G; [contradiction|destruct Hin as [E|Hin]].
  - subst. pose proof (sm_del_length_lt k m v G). pose proof (dels_length_le r (sm_del k m)). lia.
  - destruct (N.eq_dec k i) as [->|Ne].
    + pose proof (sm_del_length_lt i m v G). pose proof (dels_length_le r (sm_del i m)). lia.
    + assert (G' : sm_get k (sm_del i m) = Some v) by (rewrite sm_get_del_ne; auto).
      pose proof (IH (sm_del i m) v (sm_wf_del _ _ W) Hin G'). pose proof (sm_del_length_le i m). lia.
Qed.

Lemma dels_in {A} ids : forall (m : smap A) x, In x (dels ids m) -> In x m.
Proof.
  induction ids as [|i r IH]; simpl; intros m x H; auto. apply IH in H. now apply sm_del_in in H.
Qed.

Global Arguments dels : simpl never.

(* ---------------------------------------------------------------- buckets without family relations *)

(* every stored header is physical and simple (weaker than TypedProofs.SInv: nothing about the root flag) *)
Definition GInv (b : cstate) : Prop :=
  forall k e, In (k, e) (objs b) -> e_phy e = true /\ simple_hdr (e_hdr e) = true.

Lemma ginv_children b x : GInv b -> children_of b x = [].
Proof.
  intros S. unfold children_of.
  assert (H : forall l, (forall k e, In (k, e) l -> h_parent (e_hdr e) = None) ->
                        filter (fun kv : oid * entry => opt_eqb (h_parent (e_hdr (snd kv))) (Some x)) l = []).
  { induction l as [|[k e] r IH]; intros Hl; simpl; auto.
    rewrite (Hl k e (or_introl eq_refl)). simpl. apply IH. intros k' e' Hin. eapply Hl; right; eauto. }
  apply H. intros k e Hin. destruct (S k e Hin) as (_ & Hs). now destruct (simple_fields _ Hs).
Qed.

Lemma ginv_parent_info b x : GInv b -> parent_info b x = PNone.
Proof. intros S. unfold parent_info. now rewrite (ginv_children b x S). Qed.

Lemma ginv_collect b x f : GInv b -> collect_children f b x = [].
Proof. intros S. destruct f; simpl; auto. now rewrite (ginv_parent_info b x S). Qed.

Lemma ginv_find_parent b id : GInv b -> find_parent b id = None.
Proof.
  intros S. unfold find_parent. destruct (get_entry b id) as [e|] eqn:E; auto.
  unfold get_entry in E. apply sm_get_some_in in E. destruct (S id e E) as (_ & Hs).
  destruct (simple_fields _ Hs) as (H1 & H2 & H3 & _). now rewrite H1, H2, H3.
Qed.

Lemma ginv_status b id cur : GInv b -> object_status b id cur = status_direct b id cur.
Proof.
  intros S. unfold object_status. generalize max_nesting. intros n.
  destruct n; simpl; rewrite (ginv_find_parent b id S);
    destruct ((status_direct b id cur =? st_available) || (status_direct b id cur =? st_gc_marked)); reflexivity.
Qed.

Lemma flat_map_nil {A B} (f : A -> list B) l : (forall x, f x = []) -> flat_map f l = [].
Proof. intros H. induction l; simpl; auto. now rewrite H, IHl. Qed.

Lemma ginv_supplement b ids : GInv b -> supplement b ids = ids.
Proof.
  intros S. unfold supplement. rewrite flat_map_nil; [apply app_nil_r|].
  intros p. now rewrite (ginv_children b p S).
Qed.

Lemma ginv_sub b b' : GInv b -> (forall x, In x (objs b') -> In x (objs b)) -> GInv b'.
Proof. intros S H k e Hin. apply (S k e). now apply H. Qed.

(* deleteMetadata on such a bucket: the ID and its garbage key go, nothing else *)
Lemma dm_g f b id : GInv b ->
  let r := fst (delete_metadata (S f) b id false) in
  objs r = sm_del id (objs b) /\ garb r = sm_del id (garb b) /\ cgc r = cgc b.
Proof.
  intros S. simpl. unfold get_entry. destruct (sm_get id (objs b)) as [e|] eqn:G.
  - destruct (S id e (sm_get_some_in _ _ _ G)) as (Hp & Hs).
    rewrite Hp. simpl. destruct (simple_fields _ Hs) as (F1 & _). rewrite F1. simpl. auto.
  - rewrite (sm_del_none id (objs b) G).
    unfold sm_mem. destruct (sm_get id (garb b)) eqn:Gg; simpl; auto.
    rewrite (sm_del_none id (garb b) Gg). auto.
Qed.

Local Opaque delete_metadata.

Lemma dloop_g ids : forall b d, wfc b -> GInv b ->
  objs (fst (delete_loop b ids d)) = dels ids (objs b) /\ garb (fst (delete_loop b ids d)) = dels ids (garb b) /\
  cgc (fst (delete_loop b ids d)) = cgc b.
Proof.
  induction ids as [|id r IH]; intros b d W Sv; simpl; auto.
  unfold dm_fuel.
  pose proof (dm_g (S (length (objs b))) b id Sv) as H.
  pose proof (wfc_delete_metadata (S (S (length (objs b)))) b id false W) as W'.
  destruct (delete_metadata (S (S (length (objs b)))) b id false) as [b' d'] eqn:E. simpl in H, W'.
  destruct H as (H1 & H2 & H3).
  assert (S' : GInv b') by (apply (ginv_sub b b' Sv); intros x Hx; rewrite H1 in Hx; now apply sm_del_in in Hx).
  destruct (IH b' (diff_add d d') W' S') as (I1 & I2 & I3).
  rewrite I1, I2, I3, H1, H2, H3. auto.
Qed.

Lemma dgroup_g b ids : wfc b -> GInv b ->
  objs (fst (fst (delete_group b ids))) = dels ids (objs b) /\ garb (fst (fst (delete_group b ids))) = dels ids (garb b) /\
  cgc (fst (fst (delete_group b ids))) = cgc b /\ snd (fst (delete_group b ids)) = ids.
Proof.
  intros W S. unfold delete_group. rewrite (ginv_supplement b ids S).
  pose proof (dloop_g ids b diff0 W S) as H.
  destruct (delete_loop b ids diff0) as [c' d]. simpl in *. tauto.
Qed.

(* ---------------------------------------------------------------- states *)

Definition ginv_m (m : state) : Prop := forall c b, In (c, b) (cnrs m) -> GInv b.
Definition inv (s : shard) : Prop := wf_state (sh_meta s) /\ ginv_m (sh_meta s).

Lemma bucket_in m c b : wf_state m -> (bucket m c = Some b <-> In (c, b) (cnrs m)).
Proof. intros [W _]. unfold bucket. now apply sm_get_iff. Qed.

Lemma bucket_set_eq m c b : bucket (set_bucket m c b) c = Some b.
Proof. unfold bucket, set_bucket. simpl. apply sm_get_put_eq. Qed.

Lemma bucket_set_ne m c c' b : c' <> c -> bucket (set_bucket m c b) c' = bucket m c'.
Proof. intros Ne. unfold bucket, set_bucket. simpl. now apply sm_get_put_ne. Qed.

Lemma ginv_set_bucket m c b : ginv_m m -> GInv b -> ginv_m (set_bucket m c b).
Proof.
  intros G Gb c' b' Hin. unfold set_bucket in Hin. simpl in Hin. apply sm_put_in in Hin as [E|Hin].
  - inversion E; subst; auto.
  - eapply G; eauto.
Qed.

Lemma inv_bucket s c b : inv s -> bucket (sh_meta s) c = Some b -> wfc b /\ GInv b.
Proof.
  intros [W G] B. split; [eapply wf_bucket; eauto|]. eapply G. apply (bucket_in _ _ _ W). exact B.
Qed.

(* ---------------------------------------------------------------- BLOB storage *)

Lemma addr_eqb_eq a b : addr_eqb a b = true <-> a = b.
Proof.
  destruct a as [c x], b as [c' x']. unfold addr_eqb. simpl. rewrite andb_true_iff, !N.eqb_eq.
  split; [intros [-> ->]; reflexivity|intros E; inversion E; auto].
Qed.

Lemma blob_has_del bl c x c' y :
  blob_has (blob_del c x bl) c' y = blob_has bl c' y && negb (addr_eqb (c, x) (c', y)).
Proof.
  unfold blob_has, blob_del. induction bl as [|a r IH]; simpl; auto.
  destruct (addr_eqb (c, x) a) eqn:E1; simpl.
  - apply addr_eqb_eq in E1. subst a. rewrite IH.
    destruct (addr_eqb (c', y) (c, x)) eqn:E2; simpl; auto.
    apply addr_eqb_eq in E2. inversion E2; subst.
    replace (addr_eqb (c, x) (c, x)) with true by (symmetry; now apply addr_eqb_eq). simpl. now rewrite andb_false_r.
  - rewrite IH. destruct (addr_eqb (c', y) a) eqn:E2; simpl; auto.
    apply addr_eqb_eq in E2. subst a.
    replace (addr_eqb (c, x) (c', y)) with false. reflexivity.
Qed.

Lemma blob_has_dels ids c c' y : forall bl,
  blob_has (fold_left (fun bl id => blob_del c id bl) ids bl) c' y =
  blob_has bl c' y && negb ((c =? c') && existsb (N.eqb y) ids).
Proof.
  induction ids as [|i r IH]; intros bl; simpl.
  - now rewrite andb_false_r, andb_true_r.
  - rewrite IH, blob_has_del. unfold addr_eqb. simpl.
    destruct (blob_has bl c' y); simpl; auto.
    destruct (c =? c'); simpl; auto. rewrite (N.eqb_sym y i). destruct (i =? y); simpl; auto.
Qed.

Lemma blob_has_put bl c x c' y :
  blob_has (blob_put c x bl) c' y = blob_has bl c' y || addr_eqb (c', y) (c, x).
Proof.
  unfold blob_put. destruct (blob_has bl c x) eqn:H.
  - destruct (addr_eqb (c', y) (c, x)) eqn:E; [|now rewrite orb_false_r].
    apply addr_eqb_eq in E. inversion E; subst. now rewrite H.
  - unfold blob_has. simpl. apply orb_comm.
Qed.

Lemma existsb_eqb_in y ids : existsb (N.eqb y) ids = true <-> In y ids.
Proof.
  rewrite existsb_exists. split.
  - intros (z & Hin & E). apply N.eqb_eq in E. now subst.
  - intros H. exists y. split; auto. apply N.eqb_refl.
Qed.

(* ---------------------------------------------------------------- Shard.deleteObjs, extensionally *)

Lemma delete_objs_spec s c ids b :
  inv s -> bucket (sh_meta s) c = Some b -> ids <> [] ->
  exists b', delete_objs s c ids =
             mkSh (set_bucket (sh_meta s) c b') (fold_left (fun bl id => blob_del c id bl) ids (sh_blob s)) (sh_cur s) (sh_done s)
    /\ objs b' = dels ids (objs b) /\ garb b' = dels ids (garb b) /\ cgc b' = cgc b /\ wfc b' /\ GInv b'.
Proof.
  intros I B Ne. destruct (inv_bucket s c b I B) as [W G].
  unfold delete_objs. destruct ids as [|i r]; [congruence|]. rewrite B.
  pose proof (dgroup_g b (i :: r) W G) as H. pose proof (wfc_delete_group b (i :: r) W) as W'.
  destruct (delete_group b (i :: r)) as [[b' rem] d]. simpl in H, W'. destruct H as (H1 & H2 & H3 & H4). subst rem.
  exists b'. split; [reflexivity|]. split; [exact H1|]. split; [exact H2|]. split; [exact H3|]. split; [exact W'|].
  apply (ginv_sub b b' G). intros x Hx. rewrite H1 in Hx. now apply (dels_in (i :: r)) in Hx.
Qed.

Lemma delete_objs_none s c ids : bucket (sh_meta s) c = None -> delete_objs s c ids = s.
Proof. intros B. unfold delete_objs. rewrite B. now destruct ids. Qed.

Lemma delete_objs_inv s c ids : inv s -> inv (delete_objs s c ids).
Proof.
  intros I. destruct ids as [|i r]; [exact I|].
  destruct (bucket (sh_meta s) c) as [b|] eqn:B; [|now rewrite delete_objs_none].
  destruct (delete_objs_spec s c (i :: r) b I B) as (b' & E & _ & _ & _ & W' & G'); [discriminate|].
  rewrite E. destruct I as [W G]. split; simpl.
  - now apply wf_set_bucket.
  - now apply ginv_set_bucket.
Qed.

Lemma delete_objs_clocks s c ids :
  epoch (sh_meta (delete_objs s c ids)) = epoch (sh_meta s) /\
  sh_cur (delete_objs s c ids) = sh_cur s /\ sh_done (delete_objs s c ids) = sh_done s.
Proof.
  unfold delete_objs. destruct ids as [|i r]; auto. destruct (bucket (sh_meta s) c); auto.
  destruct (delete_group c0 (i :: r)) as [[b' rem] d]. simpl. auto.
Qed.

(* what one address looks like *)
Definition mark_at (m : state) (c : cid) (x : oid) : option gmark :=
  match bucket m c with Some b => sm_get x (garb b) | None => None end.
Definition cgc_at (m : state) (c : cid) : option bool :=
  match bucket m c with Some b => Some (cgc b) | None => None end.
Definition slot (s : shard) (c : cid) (x : oid) :=
  (entry_at (sh_meta s) c x, mark_at (sh_meta s) c x, cgc_at (sh_meta s) c, blob_has (sh_blob s) c x).

Lemma delete_objs_slot s c' ids c x :
  inv s -> (c' <> c \/ ~ In x ids) -> slot (delete_objs s c' ids) c x = slot s c x.
Proof.
  intros I Hn. destruct ids as [|i r]; [reflexivity|].
  destruct (bucket (sh_meta s) c') as [b|] eqn:B; [|now rewrite delete_objs_none].
  destruct (delete_objs_spec s c' (i :: r) b I B) as (b' & E & O & Gb & Cg & W' & G'); [discriminate|].
  destruct (inv_bucket s c' b I B) as [[Wo Wg] _].
  rewrite E. unfold slot, entry_at, mark_at, cgc_at. cbn [sh_meta sh_blob].
  fold (bucket (set_bucket (sh_meta s) c' b') c). fold (bucket (sh_meta s) c).
  rewrite blob_has_dels.
  destruct (N.eq_dec c c') as [->|Nc].
  - destruct Hn as [Hn|Hn]; [congruence|].
    rewrite bucket_set_eq, B, O, Gb, Cg, N.eqb_refl.
    rewrite !dels_get_notin by auto.
    assert (Ex : existsb (N.eqb x) (i :: r) = false).
    { apply not_true_is_false. intros H. apply existsb_eqb_in in H. contradiction. }
    rewrite Ex. simpl. now rewrite andb_true_r.
  - rewrite bucket_set_ne by auto.
    replace (c' =? c) with false by (symmetry; apply N.eqb_neq; congruence). simpl. now rewrite andb_true_r.
Qed.

(* the deleted addresses are gone *)
Lemma delete_objs_gone s c ids x b :
  inv s -> bucket (sh_meta s) c = Some b -> In x ids ->
  entry_at (sh_meta (delete_objs s c ids)) c x = None /\ mark_at (sh_meta (delete_objs s c ids)) c x = None /\
  blob_has (sh_blob (delete_objs s c ids)) c x = false.
Proof.
  intros I B Hin. destruct (delete_objs_spec s c ids b I B) as (b' & E & O & Gb & Cg & W' & G').
  { intros ->. contradiction. }
  destruct (inv_bucket s c b I B) as [[Wo Wg] _].
  rewrite E. unfold entry_at, mark_at. cbn [sh_meta sh_blob].
  fold (bucket (set_bucket (sh_meta s) c b') c). rewrite bucket_set_eq, O, Gb, blob_has_dels, N.eqb_refl.
  rewrite !dels_get_in by auto. repeat split; auto.
  replace (existsb (N.eqb x) ids) with true by (symmetry; now apply existsb_eqb_in). simpl. apply andb_false_r.
Qed.

(* removal of an (empty, removed) container *)
Definition drop_cnr (s : shard) (c : cid) : shard := set_meta s (fst (step (sh_meta s) (ODeleteCnr c))).

Lemma drop_cnr_inv s c : inv s -> inv (drop_cnr s c).
Proof.
  intros [W G]. split; unfold drop_cnr; simpl.
  - apply (wf_step (sh_meta s) (ODeleteCnr c) W).
  - intros c' b' Hin. apply sm_del_in in Hin. eapply G; eauto.
Qed.

Lemma bucket_drop_ne m c c' : wf_state m -> c' <> c -> bucket (fst (step m (ODeleteCnr c))) c' = bucket m c'.
Proof. intros [W _] Ne. unfold bucket. simpl. now apply sm_get_del_ne. Qed.

Lemma bucket_drop_eq m c : wf_state m -> bucket (fst (step m (ODeleteCnr c))) c = None.
Proof. intros [W _]. unfold bucket. simpl. now apply sm_get_del_eq. Qed.

Lemma drop_cnr_slot s c' c x : inv s -> c' <> c -> slot (drop_cnr s c') c x = slot s c x.
Proof.
  intros [W _] Ne. unfold slot, entry_at, mark_at, cgc_at, drop_cnr, set_meta. cbn [sh_meta sh_blob].
  fold (bucket (fst (step (sh_meta s) (ODeleteCnr c'))) c). fold (bucket (sh_meta s) c).
  rewrite bucket_drop_ne by auto. reflexivity.
Qed.
