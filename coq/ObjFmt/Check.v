(* C24 — executable comparison used by the correspondence check. The abstract crypto of the
   model is instantiated with a toy that is faithful to the facts the harness established
   with the real primitives:
     H         = table (input -> real SHA-256) given per case, identity elsewhere (ID tokens);
     streaming = accumulate, then H;
     signature = key ++ message  (the harness writes that value iff the real signature verifies);
     key_ok    = not the garbage token; user_of = identity on tokens; token validity = tag. *)
From Coq Require Import List NArith ZArith Bool Arith.
Import ListNotations.
From NV Require Import Gen.ObjFmtConsts ObjFmt.Model ObjFmt.Spec.
Local Open Scope N_scope.

Definition H_of (tbl : list (bytes * bytes)) (b : bytes) : bytes :=
  match find (fun p => bytes_eqb (fst p) b) tbl with Some (_, d) => d | None => b end.
Definition t_sig_ok (scheme : N) (key sg msg : bytes) : bool := (scheme <? 3) && bytes_eqb sg (key ++ msg).
Definition t_key_ok (k : bytes) : bool := negb (bytes_eqb k [250]).
Definition t_user_of (k : bytes) : bytes := k.
Definition t_tok1_ok (t : tok1) : bool := t1_tag t =? 1.
Definition t_tok2_ok (t : tok2) : bool := t2_tag t =? 1.
Definition t_n3_ok (_ : bytes) (_ : N) (_ _ _ : bytes) : bool := false.

Definition m_run_put tbl :=
  run_put (H_of tbl) bytes [] (fun h p => h ++ p) (H_of tbl) t_sig_ok t_key_ok t_user_of t_tok1_ok t_tok2_ok t_n3_ok.
Definition m_run_repl tbl :=
  run_repl (H_of tbl) t_sig_ok t_key_ok t_user_of t_tok1_ok t_tok2_ok t_n3_ok.
Definition m_run_slice tbl :=
  run_slice (H_of tbl) t_sig_ok t_key_ok t_user_of t_tok1_ok t_tok2_ok t_n3_ok.
Definition m_stored_okb tbl :=
  stored_okb (H_of tbl) t_sig_ok t_key_ok t_user_of t_tok1_ok t_tok2_ok t_n3_ok.

(* observed outcome code: 0 init error, 1 chunk error (with index), 2 close error, 3 ok *)
Definition out_code (o : outcome) : N * nat :=
  match o with OInitErr => (0, 0%nat) | OChunkErr i => (1, i) | OCloseErr => (2, 0%nat) | OOk => (3, 0%nat) end.

Fixpoint lbytes_eqb (a b : list bytes) : bool :=
  match a, b with
  | [], [] => true
  | x :: a', y :: b' => bytes_eqb x y && lbytes_eqb a' b'
  | _, _ => false
  end.

Inductive case :=
| CPut (e : env) (o : obj) (chunks : list bytes) (tbl : list (bytes * bytes)) (fail : bool)
       (code : N) (idx : nat) (stored : list bytes) (same_hdr : bool)
| CRepl (e : env) (o : obj) (tbl : list (bytes * bytes)) (fail : bool)
        (ok : bool) (stored : list bytes) (same_hdr : bool)
| CSlice (e : env) (o : obj) (chunks : list bytes) (fails : list nat)
         (code : N) (idx : nat) (stored : list bytes) (self_ok : list bool) (root_ok : bool).

Definition fails_of (l : list nat) (k : nat) : bool := existsb (Nat.eqb k) l.

Definition model_ok (c : case) : bool :=
  match c with
  | CPut e o chunks tbl fail code idx stored same =>
    let '(out, st) := m_run_put tbl e o chunks fail in
    let '(mc, mi) := out_code out in
    (mc =? code) && Nat.eqb mi idx &&
    match st with
    | None => is_nil stored
    | Some (_, pl) => lbytes_eqb stored [pl] && same
    end
  | CRepl e o tbl fail ok stored same =>
    match m_run_repl tbl e o fail with
    | None => negb ok && is_nil stored
    | Some (_, pl) => ok && lbytes_eqb stored [pl] && same
    end
  | CSlice e o chunks fails code idx stored _ _ =>
    let '(out, children) := m_run_slice [] e o chunks (fails_of fails) in
    let '(mc, mi) := out_code out in
    (mc =? code) && Nat.eqb mi idx && lbytes_eqb stored children
  end.

(* reference = the property itself, evaluated on what the node stored *)
Definition ref_ok (c : case) : bool :=
  match c with
  | CPut e o chunks tbl _ code _ stored same =>
    match stored with
    | [] => true
    | [pl] =>
      (* premise of the theorems: the header object handed to Init carries no payload
         (the gRPC handler builds it from the init message, which has none) *)
      if negb (is_nil (o_payload o)) then true else
      same && m_stored_okb tbl e false o pl && bytes_eqb pl (concat chunks)
    | _ => false
    end
  | CRepl e o tbl _ ok stored same =>
    match stored with
    | [] => true
    | [pl] => same && m_stored_okb tbl e true o pl && bytes_eqb pl (o_payload o)
    | _ => false
    end
  | CSlice e o chunks _ code _ stored self_ok root_ok =>
    forallb (fun b => b) self_ok &&
    (if code =? 3 then bytes_eqb (concat stored) (concat chunks) && root_ok
                       && forallb (fun ch => blen ch <=? e_max e) stored
     else true)
  end.

Fixpoint idx_where (i : nat) (f : case -> bool) (cs : list case) : list nat :=
  match cs with
  | [] => []
  | c :: r => if f c then idx_where (S i) f r else i :: idx_where (S i) f r
  end.
Definition model_mismatches := idx_where 0 model_ok.
Definition ref_mismatches := idx_where 0 ref_ok.

(* version predicates against the table dumped from pkg/core/version *)
Definition ver_row_ok (r : N * N * bool * bool * bool) : bool :=
  let '(mj, mn, vn, sh, om) := r in
  Bool.eqb (valid_new_object (Some (mj, mn))) vn && Bool.eqb (sys_in_header (Some (mj, mn))) sh
  && Bool.eqb (owner_match_req (Some (mj, mn))) om.
Definition ver_mismatches (rows : list (N * N * bool * bool * bool)) (nilrow : bool * bool * bool) : list nat :=
  (if let '(vn, sh, om) := nilrow in
      Bool.eqb (valid_new_object None) vn && Bool.eqb (sys_in_header None) sh && Bool.eqb (owner_match_req None) om
   then [] else [0%nat]) ++
  map S ((fix go (i : nat) (l : list (N * N * bool * bool * bool)) : list nat :=
            match l with [] => [] | r :: t => if ver_row_ok r then go (S i) t else i :: go (S i) t end) 0%nat rows).
