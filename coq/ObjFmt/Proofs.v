(* C24 — proofs about the admission pipeline model (ObjFmt/Model.v) against ObjFmt/Spec.v. *)
From Coq Require Import List NArith ZArith Bool Arith Lia.
Import ListNotations.
From NV Require Import Gen.ObjFmtConsts ObjFmt.Model ObjFmt.Spec.
Local Open Scope N_scope.

(* ---- basic reflection ---------------------------------------------------------- *)
Lemma bytes_eqb_eq : forall a b, bytes_eqb a b = true <-> a = b.
Proof.
  induction a as [|x a IH]; destruct b as [|y b]; cbn; split; intro Hh; try reflexivity; try discriminate.
  - apply andb_true_iff in Hh. destruct Hh as [H1 H2]. apply N.eqb_eq in H1. apply IH in H2. congruence.
  - inversion Hh; subst. apply andb_true_iff. split; [apply N.eqb_refl | apply IH; reflexivity].
Qed.

Lemma bytes_eqb_refl : forall a, bytes_eqb a a = true.
Proof. intro a. apply bytes_eqb_eq. reflexivity. Qed.

Lemma mem_key_in : forall k l, mem_key k l = true <-> In k l.
Proof.
  induction l as [|s l IH]; cbn; split; intro Hh; try discriminate; try contradiction.
  - apply orb_true_iff in Hh. destruct Hh as [Hh|Hh]; [left; apply bytes_eqb_eq; exact Hh | right; apply IH; exact Hh].
  - apply orb_true_iff. destruct Hh as [Hh|Hh]; [left; apply bytes_eqb_eq; exact Hh | right; apply IH; exact Hh].
Qed.

Lemma has_zero_false : forall b, has_zero b = false -> ~ In 0 b.
Proof.
  unfold has_zero. induction b as [|x b IH]; cbn; intros Hh Hin; [exact Hin|].
  apply orb_false_iff in Hh. destruct Hh as [H1 H2]. destruct Hin as [Hin|Hin].
  - subst x. cbn in H1. discriminate.
  - exact (IH H2 Hin).
Qed.

Lemma is_nil_false : forall A (l : list A), is_nil l = false -> l <> [].
Proof. intros A [|x l] Hh; [discriminate | discriminate]. Qed.
Lemma is_nil_true : forall A (l : list A), is_nil l = true -> l = [].
Proof. intros A [|x l] Hh; [reflexivity | discriminate]. Qed.

(* ---- attributes ------------------------------------------------------------------ *)
Lemma check_attrs_from_sound : forall attrs seen,
  check_attrs_from seen attrs = true ->
  NoDup (map fst attrs) /\ (forall k, In k (map fst attrs) -> ~ In k seen) /\ Forall attr_ok attrs.
Proof.
  induction attrs as [|[k v] attrs IH]; intros seen Hc; cbn in *.
  - repeat split; [constructor | intros k [] | constructor].
  - destruct (mem_key k seen) eqn:Em; [discriminate|].
    destruct (is_nil v) eqn:En; [discriminate|].
    destruct (has_zero k) eqn:Ek; [discriminate|].
    destruct (has_zero v) eqn:Ev; [discriminate|].
    destruct (IH _ Hc) as [Hnd [Hns Hall]].
    repeat split.
    + constructor; [|exact Hnd]. intro Hin. apply (Hns k Hin). left. reflexivity.
    + intros k' [Hk'|Hk'] Hin.
      * subst k'. apply mem_key_in in Hin. congruence.
      * apply (Hns k' Hk'). right. exact Hin.
    + constructor; [|exact Hall]. unfold attr_ok. cbn.
      repeat split; [apply is_nil_false; exact En | apply has_zero_false; exact Ek | apply has_zero_false; exact Ev].
Qed.

Lemma check_attrs_sound : forall attrs, check_attrs attrs = true -> attrs_ok attrs.
Proof. intros attrs Hc. destruct (check_attrs_from_sound _ _ Hc) as [H1 [_ H3]]. split; assumption. Qed.

Lemma check_expiration_sound : forall e attrs req,
  check_expiration e attrs req = true -> expiration_ok e attrs req.
Proof.
  unfold check_expiration, expiration_ok. intros e attrs req Hc.
  destruct (get_attr expiration_key attrs) as [v|].
  - destruct (parse_uint64 v) as [ex|]; [|discriminate]. exists ex. split; [reflexivity|].
    destruct (ex <? e_epoch e) eqn:El.
    + right. apply N.eqb_eq. exact Hc.
    + left. apply N.ltb_ge. exact El.
  - destruct req; [discriminate | reflexivity].
Qed.

(* ---- EC ----------------------------------------------------------------------------- *)
Lemma existsb_negb_false_forall : forall (A : Type) (f : A -> bool) l,
  existsb (fun a => negb (f a)) l = false -> Forall (fun a => f a = true) l.
Proof.
  induction l as [|x l IH]; cbn; intro Hh; [constructor|].
  apply orb_false_iff in Hh. destruct Hh as [H1 H2]. constructor; [|apply IH; exact H2].
  destruct (f x); [reflexivity | discriminate].
Qed.

Lemma find_none_forall : forall (A : Type) (f : A -> bool) l,
  find f l = None -> Forall (fun a => f a = false) l.
Proof.
  induction l as [|x l IH]; cbn; intro Hh; [constructor|].
  destruct (f x) eqn:Ef; [discriminate|]. constructor; [exact Ef | apply IH; exact Hh].
Qed.

Lemma scan_uniform : forall attrs r, ec_attr_scan attrs false = Some r -> ec_uniform attrs.
Proof.
  intros [|[first fv] rest] r Hs; unfold ec_attr_scan in Hs.
  - left. constructor.
  - destruct (is_ec_key first) eqn:Ef.
    + cbn [negb andb] in Hs. destruct (existsb (fun a => negb (is_ec_key (fst a))) rest) eqn:Ee; [discriminate|].
      left. constructor; [exact Ef|]. apply (existsb_negb_false_forall _ (fun a => is_ec_key (fst a))). exact Ee.
    + destruct (find (fun a => is_ec_key (fst a)) rest) as [[k v]|] eqn:Efi; [cbn [negb] in Hs; discriminate|].
      right. constructor; [exact Ef|]. apply (find_none_forall _ (fun a => is_ec_key (fst a))). exact Efi.
Qed.

Lemma scan_none_no_ec : forall attrs, ec_attr_scan attrs false = Some None ->
  existsb (fun a => is_ec_key (fst a)) attrs = false.
Proof.
  intros [|[first fv] rest] Hs; unfold ec_attr_scan in Hs; [reflexivity|].
  destruct (is_ec_key first) eqn:Ef.
  - cbn [negb andb] in Hs. destruct (existsb (fun a => negb (is_ec_key (fst a))) rest); discriminate.
  - destruct (find (fun a => is_ec_key (fst a)) rest) as [[k v]|] eqn:Efi; [cbn [negb] in Hs; discriminate|].
    cbn [existsb fst]. rewrite Ef. cbn [orb]. apply find_none_forall in Efi.
    induction Efi as [|x l Hx _ IH]; cbn [existsb]; [reflexivity|]. rewrite Hx. exact IH.
Qed.

Lemma scan_some_has_ec : forall attrs k, ec_attr_scan attrs false = Some (Some k) ->
  existsb (fun a => is_ec_key (fst a)) attrs = true.
Proof.
  intros [|[first fv] rest] k Hs; unfold ec_attr_scan in Hs; [discriminate|].
  destruct (is_ec_key first) eqn:Ef.
  - cbn [existsb fst]. rewrite Ef. reflexivity.
  - destruct (find (fun a => is_ec_key (fst a)) rest) as [[k' v]|]; cbn [negb] in Hs; discriminate.
Qed.

Lemma ver_eqb_eq : forall a b, ver_eqb a b = true -> a = b.
Proof.
  intros [[a1 a2]|] [[b1 b2]|] Hh; cbn in Hh; try discriminate; try reflexivity.
  apply andb_true_iff in Hh. destruct Hh as [H1 H2]. apply N.eqb_eq in H1, H2. congruence.
Qed.

Lemma check_ec_part_sound : forall o rules, check_ec_part o rules = true -> ec_part_ok rules o.
Proof.
  unfold check_ec_part, ec_part_ok. intros o rules Hc.
  destruct (o_sig o) eqn:Es; [discriminate|]. destruct (o_tok1 o) eqn:Et; [discriminate|].
  cbn in Hc. split; [reflexivity|]. split; [reflexivity|].
  destruct (o_parent o) as [parent|]; [|discriminate].
  destruct (ver_eqb (o_ver parent) (o_ver o)) eqn:Ev; [|discriminate].
  destruct (o_cnr parent =? o_cnr o) eqn:Ec; [|discriminate].
  destruct (bytes_eqb (o_owner parent) (o_owner o)) eqn:Eo; [|discriminate].
  destruct (o_epoch parent =? o_epoch o) eqn:Ee; [|discriminate].
  cbn in Hc.
  destruct (required_part_info (o_attrs o)) as [[ri pi]|]; [|discriminate].
  destruct (nth_error rules (N.to_nat ri)) as [[d p]|] eqn:En; [|discriminate].
  destruct (d + p <=? pi) eqn:El; [discriminate|].
  destruct ((o_size parent + d - 1) / d =? o_size o) eqn:Esz; [|discriminate].
  cbn in Hc. unfold check_ec_parent in Hc.
  destruct (parent_hash_attr (o_attrs parent)) as [[hashes|]|] eqn:Eph; try discriminate.
  destruct hashes as [|h0 hs]; [discriminate|].
  destruct (o_cs o) as [[csty csv]|]; [|discriminate].
  destruct (blen (h0 :: hs) <? rules_offset rules ri pi + sum_len - 1); [discriminate|].
  exists parent, ri, pi, d, p, (h0 :: hs), csty, csv.
  repeat split; try reflexivity; try assumption;
    first [ apply ver_eqb_eq; exact Ev | apply N.eqb_eq; exact Ec | apply bytes_eqb_eq; exact Eo
          | apply N.eqb_eq; exact Ee | apply N.leb_gt; exact El | apply N.eqb_eq; exact Esz
          | apply bytes_eqb_eq; exact Hc ].
Qed.

(* the EC verdict of checkEC on a complete top-level object is the declarative one *)
Lemma check_ec_top : forall e o b,
  check_ec o (e_rules e) false false = Some b ->
  b = is_ec_obj e o /\ ec_uniform (o_attrs o) /\
  (b = true -> ec_part_ok (e_rules e) o) /\
  (is_nil (e_rules e) = true -> has_ec_attr o = false).
Proof.
  unfold check_ec, is_ec_obj, has_ec_attr. intros e o b Hc.
  destruct (ec_attr_scan (o_attrs o) false) as [eca|] eqn:Es; [|discriminate].
  pose proof (scan_uniform _ _ Es) as Hu.
  destruct (is_nil (e_rules e)) eqn:Er.
  - destruct eca as [k|]; cbv beta iota delta [is_some] in Hc; [discriminate|]. inversion Hc; subst b.
    cbn [negb andb].
    split; [reflexivity|]. split; [exact Hu|]. split; [discriminate|]. intros _. apply scan_none_no_ec. exact Es.
  - cbn [negb andb].
    destruct (o_type o) eqn:Et; cbn [otype_eqb andb]; cbv beta iota in Hc; try discriminate.
    + destruct eca as [k|]; cbv beta iota delta [is_some negb] in Hc; [|discriminate].
      destruct (check_ec_part o (e_rules e)) eqn:Ep; cbv beta iota in Hc; [|discriminate].
      inversion Hc; subst b. rewrite (scan_some_has_ec _ _ Es).
      split; [reflexivity|]. split; [exact Hu|]. split; [intros _; apply check_ec_part_sound; exact Ep | discriminate].
    + destruct eca; cbv beta iota delta [is_some] in Hc; [discriminate|]. inversion Hc.
      split; [reflexivity|]. split; [exact Hu|]. split; discriminate.
    + destruct eca; cbv beta iota delta [is_some] in Hc; [discriminate|]. inversion Hc.
      split; [reflexivity|]. split; [exact Hu|]. split; discriminate.
    + destruct eca; cbv beta iota delta [is_some] in Hc; [discriminate|]. inversion Hc.
      split; [reflexivity|]. split; [exact Hu|]. split; discriminate.
Qed.

(* ---- validate --------------------------------------------------------------------------- *)
Section Crypto.
  Variable H : bytes -> bytes.
  Variable hstate : Type.
  Variable h0 : hstate.
  Variable upd : hstate -> bytes -> hstate.
  Variable fin : hstate -> bytes.
  Variable sig_ok : N -> bytes -> bytes -> bytes -> bool.
  Variable key_ok : bytes -> bool.
  Variable user_of : bytes -> bytes.
  Variable tok1_ok : tok1 -> bool.
  Variable tok2_ok : tok2 -> bool.
  Variable n3_ok : bytes -> N -> bytes -> bytes -> bytes -> bool.
  Hypothesis Hstream : forall chunks, fin (fold_left upd chunks h0) = H (concat chunks).

  Notation validate := (validate H sig_ok key_ok user_of tok1_ok tok2_ok n3_ok).
  Notation authenticate := (authenticate sig_ok key_ok user_of tok1_ok tok2_ok n3_ok).
  Notation auth_ok := (auth_ok sig_ok key_ok user_of tok1_ok tok2_ok n3_ok).
  Notation stored_ok := (stored_ok H sig_ok key_ok user_of tok1_ok tok2_ok n3_ok).
  Notation ec_parent_auth := (ec_parent_auth H sig_ok key_ok user_of tok1_ok tok2_ok n3_ok).
  Notation run_put := (run_put H hstate h0 upd fin sig_ok key_ok user_of tok1_ok tok2_ok n3_ok).
  Notation run_repl := (run_repl H sig_ok key_ok user_of tok1_ok tok2_ok n3_ok).
  Notation write_header := (write_header H hstate h0 sig_ok key_ok user_of tok1_ok tok2_ok n3_ok).
  Notation write_chunks := (write_chunks hstate upd).
  Notation write_chunk := (write_chunk hstate upd).
  Notation close_target := (close_target hstate fin).
  Notation ts_next := (ts_next hstate).
  Notation ts_written := (ts_written hstate).
  Notation ts_h := (ts_h hstate).

  Lemma validate_eq : forall e unp allow nest o,
    validate e unp allow nest o =
    (if negb allow && negb (valid_new_object (o_ver o)) then false else
     match type_stage o unp with
     | None => false
     | Some exp_req =>
       if max_header_len <? o_hdrlen o then false else
       if negb unp && negb (is_some (o_id o)) then false else
       if o_cnr o =? 0 then false else
       if is_nil (o_owner o) then false else
       if negb (e_cnr_found e) then false else
       match check_ec o (e_rules e) unp (Nat.ltb 0 nest) with
       | None => false
       | Some is_ec =>
         if is_some (o_tok1 o) && is_some (o_tok2 o) then false else
         if negb (split_stage o is_ec) then false else
         if negb (check_attrs (o_attrs o)) then false else
         if negb (check_expiration e (o_attrs o) exp_req) then false else
         if negb unp && negb (id_ok H o) then false else
         if negb unp && negb is_ec && negb (authenticate o) then false else
         match o_parent o with
         | None => true
         | Some p =>
           if Nat.eqb nest max_nesting then false else
           validate e (negb (o_first_set o || o_split_id o || is_ec)) allow (S nest) p
         end
       end
     end).
  Proof. intros e unp allow nest o. destruct o. reflexivity. Qed.

  Lemma type_stage_spec : forall o unp r, type_stage o unp = Some r ->
    o_type o <> TStorageGroup /\ r = sys_type o /\ (sys_type o = true -> o_payload o = [] /\ o_assoc_zero o = false).
  Proof.
    unfold type_stage, sys_type. intros o unp r Ht.
    destruct (o_type o) eqn:Et; cbn in *; try discriminate;
      try (inversion Ht; subst r; repeat split; try discriminate; intro Hf; discriminate).
    - destruct (negb unp && negb (sys_in_header (o_ver o))); [discriminate|].
      destruct (is_nil (o_payload o)) eqn:En; cbn in Ht; [|discriminate].
      destruct (o_assoc_zero o) eqn:Ea; [discriminate|]. inversion Ht; subst r.
      repeat split; try discriminate. apply is_nil_true. exact En.
    - destruct (negb unp && negb (sys_in_header (o_ver o))); [discriminate|].
      destruct (is_nil (o_payload o)) eqn:En; cbn in Ht; [|discriminate].
      destruct (o_assoc_zero o) eqn:Ea; [discriminate|]. inversion Ht; subst r.
      repeat split; try discriminate. apply is_nil_true. exact En.
  Qed.

  (* everything one level of validate establishes *)
  Lemma validate_level : forall e unp allow nest o,
    validate e unp allow nest o = true ->
    header_ok e allow o /\
    exists is_ec, check_ec o (e_rules e) unp (Nat.ltb 0 nest) = Some is_ec /\
      (unp = false -> id_ok H o = true /\ (is_ec = false -> authenticate o = true)) /\
      match o_parent o with
      | None => True
      | Some p => Nat.eqb nest max_nesting = false /\
                  validate e (negb (o_first_set o || o_split_id o || is_ec)) allow (S nest) p = true
      end.
  Proof.
    intros e unp allow nest o Hv. rewrite validate_eq in Hv.
    destruct (negb allow && negb (valid_new_object (o_ver o))) eqn:Eal; [discriminate|].
    destruct (type_stage o unp) as [exp_req|] eqn:Ets; [|discriminate].
    destruct (max_header_len <? o_hdrlen o) eqn:Ehl; [discriminate|].
    destruct (negb unp && negb (is_some (o_id o))) eqn:Eid0; [discriminate|].
    destruct (o_cnr o =? 0) eqn:Ecn; [discriminate|].
    destruct (is_nil (o_owner o)) eqn:Eow; [discriminate|].
    destruct (negb (e_cnr_found e)); [discriminate|].
    destruct (check_ec o (e_rules e) unp (Nat.ltb 0 nest)) as [is_ec|] eqn:Eec; [|discriminate].
    destruct (is_some (o_tok1 o) && is_some (o_tok2 o)) eqn:Etk; [discriminate|].
    destruct (negb (split_stage o is_ec)); [discriminate|].
    destruct (check_attrs (o_attrs o)) eqn:Eat; [|discriminate].
    destruct (check_expiration e (o_attrs o) exp_req) eqn:Eex; [|discriminate].
    cbn [negb] in Hv.
    destruct (negb unp && negb (id_ok H o)) eqn:Eid; [discriminate|].
    destruct (negb unp && negb is_ec && negb (authenticate o)) eqn:Eau; [discriminate|].
    destruct (type_stage_spec _ _ _ Ets) as [Hsg [Hreq Hsys]]. subst exp_req.
    split.
    - unfold header_ok. repeat split.
      + destruct allow; [left; reflexivity|]. right. cbn in Eal. destruct (valid_new_object (o_ver o)); [reflexivity|discriminate].
      + exact Hsg.
      + apply Hsys. assumption.
      + apply Hsys. assumption.
      + apply N.ltb_ge. exact Ehl.
      + apply N.eqb_neq. exact Ecn.
      + apply is_nil_false. exact Eow.
      + intros [H1 H2]. destruct (o_tok1 o); [|congruence]. destruct (o_tok2 o); [|congruence]. discriminate.
      + apply check_attrs_sound. exact Eat.
      + apply check_attrs_sound. exact Eat.
      + apply check_expiration_sound. exact Eex.
    - exists is_ec. split; [reflexivity|]. split.
      + intro Hu. subst unp. cbn in Eid, Eau. split.
        * destruct (id_ok H o); [reflexivity|discriminate].
        * intro Hie. subst is_ec. cbn in Eau. destruct (authenticate o); [reflexivity|discriminate].
      + destruct (o_parent o) as [p|]; [|exact I].
        destruct (Nat.eqb nest max_nesting); [discriminate|]. split; [reflexivity|exact Hv].
  Qed.

  Lemma chain_ok_eq : forall e a o,
    chain_ok e a o = (header_ok e a o /\ match o_parent o with None => True | Some p => chain_ok e a p end).
  Proof. intros e a o. destruct o. reflexivity. Qed.
  Lemma depth_eq : forall o, depth o = match o_parent o with None => 0%nat | Some p => S (depth p) end.
  Proof. intro o. destruct o. reflexivity. Qed.

  (* the whole parent chain, and its depth *)
  Lemma validate_chain : forall n e unp allow nest o,
    (depth o <= n)%nat -> (nest <= max_nesting)%nat ->
    validate e unp allow nest o = true ->
    chain_ok e allow o /\ (nest + depth o <= max_nesting)%nat.
  Proof.
    induction n as [|n IH]; intros e unp allow nest o Hd Hn Hv;
      destruct (validate_level _ _ _ _ _ Hv) as [Hh [is_ec [_ [_ Hp]]]];
      rewrite chain_ok_eq; rewrite depth_eq in *; destruct (o_parent o) as [p|].
    - lia.
    - split; [split; [exact Hh|exact I] | lia].
    - destruct Hp as [Hne Hvp]. apply Nat.eqb_neq in Hne.
      assert (Hd' : (depth p <= n)%nat) by lia.
      assert (Hn' : (S nest <= max_nesting)%nat) by lia.
      destruct (IH _ _ _ _ _ Hd' Hn' Hvp) as [Hc Hdep].
      split; [split; [exact Hh|exact Hc] | lia].
    - split; [split; [exact Hh|exact I] | lia].
  Qed.

  (* ---- authentication ----------------------------------------------------------------- *)
  Lemma tok1_check_sound : forall o s, tok1_check tok1_ok o s = true ->
    match o_tok1 o with
    | None => True
    | Some t => t1_authkey t = s_key s /\ tok1_ok t = true /\ (t1_issuer t = o_owner o \/ legacy o)
    end.
  Proof.
    unfold tok1_check, legacy. intros o s Hc. destruct (o_tok1 o) as [t|]; [|exact I].
    apply andb_true_iff in Hc. destruct Hc as [Hc H3]. apply andb_true_iff in Hc. destruct Hc as [H1 H2].
    repeat split; [apply bytes_eqb_eq; exact H1 | exact H2 |].
    destruct (bytes_eqb (t1_issuer t) (o_owner o)) eqn:Ei.
    - left. apply bytes_eqb_eq. exact Ei.
    - right. cbn in H3. destruct (owner_match_req (o_ver o)); [discriminate|reflexivity].
  Qed.

  Lemma tok2_check_sound : forall o s ecdsa, tok2_check user_of tok2_ok o s ecdsa = true ->
    match o_tok2 o with
    | None => True
    | Some t => tok2_ok t = true /\ t2_issuer t = o_owner o /\
                (ecdsa = true -> In (user_of (s_key s)) (t2_subjects t))
    end.
  Proof.
    unfold tok2_check. intros o s ecdsa Hc. destruct (o_tok2 o) as [t|]; [|exact I].
    apply andb_true_iff in Hc. destruct Hc as [Hc H3]. apply andb_true_iff in Hc. destruct Hc as [H1 H2].
    repeat split; [exact H2 | apply bytes_eqb_eq; exact H3 |].
    intro He. subst ecdsa. apply mem_key_in. exact H1.
  Qed.

  Lemma authenticate_sound : forall o, authenticate o = true -> auth_ok o.
  Proof.
    unfold Model.authenticate, Spec.auth_ok. intros o Ha.
    destruct (o_sig o) as [s|]; [|discriminate]. exists s. split; [reflexivity|].
    destruct (max_script_len <? s_keylen s); [discriminate|].
    destruct (max_script_len <? s_vallen s); [discriminate|].
    cbv zeta in Ha.
    destruct (s_scheme s <? 3) eqn:Ee; cbn [negb andb] in Ha.
    - destruct (key_ok (s_key s)) eqn:Ek; cbn [negb] in Ha; [|discriminate].
      destruct (tok1_check tok1_ok o s) eqn:E1; cbn [negb] in Ha; [|discriminate].
      destruct (tok2_check user_of tok2_ok o s true) eqn:E2; cbn [negb] in Ha; [|discriminate].
      destruct (sig_ok (s_scheme s) (s_key s) (s_val s) (id_bytes o)) eqn:Es; cbn [negb] in Ha; [|discriminate].
      split; [apply tok1_check_sound; exact E1|].
      split.
      { pose proof (tok2_check_sound _ _ _ E2) as Ht. destruct (o_tok2 o); [|exact I].
        destruct Ht as [A [B C]]. repeat split; try assumption. intros _. apply C. reflexivity. }
      left. apply N.ltb_lt in Ee. repeat split; try assumption.
      intros Hn1 Hn2. rewrite Hn1, Hn2 in Ha. cbn in Ha.
      destruct (bytes_eqb (user_of (s_key s)) (o_owner o)) eqn:Eu.
      + left. apply bytes_eqb_eq. exact Eu.
      + right. unfold legacy. cbn in Ha. destruct (owner_match_req (o_ver o)); [discriminate|reflexivity].
    - destruct (s_scheme s =? 3) eqn:E3; cbn [negb] in Ha; [|discriminate].
      destruct (o_tok1 o) eqn:Et1; cbn [is_some] in Ha; [discriminate|].
      destruct (tok1_check tok1_ok o s) eqn:E1; cbn [negb] in Ha; [|discriminate].
      destruct (tok2_check user_of tok2_ok o s false) eqn:E2; cbn [negb] in Ha; [|discriminate].
      split; [exact I|].
      split.
      { pose proof (tok2_check_sound _ _ _ E2) as Ht. destruct (o_tok2 o); [|exact I].
        destruct Ht as [A [B C]]. repeat split; try assumption. apply N.eqb_eq in E3. intro Hlt. lia. }
      right. apply N.eqb_eq in E3. repeat split; assumption.
  Qed.

  Lemma id_ok_spec0 : forall o, id_ok H o = true -> o_id o = Some (H (o_hdrbin o)).
  Proof.
    unfold id_ok. intros o Hi. destruct (o_id o) as [i|]; [|discriminate].
    apply bytes_eqb_eq in Hi. congruence.
  Qed.

  (* ---- top-level validation of a complete object --------------------------------------- *)
  Lemma validate_top : forall e allow o,
    validate e false allow 0 o = true ->
    id_ok H o = true /\ (is_ec_obj e o = true -> ec_parent_auth e o) /\
    format_ok e allow o /\ (is_ec_obj e o = false -> auth_ok o).
  Proof.
    intros e allow o Hv.
    destruct (validate_level _ _ _ _ _ Hv) as [_ [is_ec [Hec [Hid Hpar]]]].
    destruct (Hid eq_refl) as [Hi Hau].
    destruct (validate_chain (depth o) _ _ _ _ _ (Nat.le_refl _) (Nat.le_0_l _) Hv) as [Hc Hd].
    cbn [Nat.ltb Nat.leb] in Hec.
    destruct (check_ec_top _ _ _ Hec) as [Hb [Hu [Hpart Hnil]]].
    split; [exact Hi|]. split; [|split].
    - (* the parent of an EC part is validated as a prepared object: ID and authentication *)
      intro Hie. rewrite Hie in Hb. subst is_ec.
      destruct (Hpart eq_refl) as [_ [_ [parent [ri [pi [d [p0 [hashes [csty [csv [Hop _]]]]]]]]]]].
      unfold Spec.ec_parent_auth.
      rewrite Hop in Hpar. destruct Hpar as [_ Hvp].
      rewrite Bool.orb_true_r in Hvp. cbn [negb] in Hvp.
      destruct (validate_level _ _ _ _ _ Hvp) as [_ [pec [Hpec [Hpid _]]]].
      destruct (Hpid eq_refl) as [Hpi Hpau].
      exists parent. split; [exact Hop|]. split; [apply id_ok_spec0; exact Hpi|].
      intro Hf. cbn [Nat.ltb Nat.leb] in Hpec. rewrite Hf in Hpec. inversion Hpec; subst pec.
      apply authenticate_sound. apply Hpau. reflexivity.
    - unfold format_ok. split; [exact Hc|]. split; [exact Hd|]. split; [exact Hu|]. split; [|exact Hnil].
      intro Hie. apply Hpart. congruence.
    - intro Hne. apply authenticate_sound. apply Hau. congruence.
  Qed.

  Lemma id_ok_spec : forall o, id_ok H o = true -> o_id o = Some (H (o_hdrbin o)).
  Proof.
    unfold id_ok. intros o Hi. destruct (o_id o) as [i|]; [|discriminate].
    apply bytes_eqb_eq in Hi. congruence.
  Qed.

  (* ---- the validating target ------------------------------------------------------------ *)
  (* acceptance of a chunk only depends on the running total *)
  Definition fits (e : env) (ecp : bool) (o : obj) (total : N) : bool :=
    (total <=? o_size o) && quota_ok e ecp false total.

  Lemma write_chunk_spec : forall e ecp o st p,
    write_chunk e ecp o st p =
    if fits e ecp o (ts_written st + blen p)
    then Some (mkts hstate (ts_written st + blen p) (upd (ts_h st) p) (ts_next st ++ p)) else None.
  Proof.
    intros. unfold Model.write_chunk, fits. cbn [Model.ts_written].
    destruct (o_size o <? ts_written st + blen p) eqn:E1.
    - apply N.ltb_lt in E1. destruct (ts_written st + blen p <=? o_size o) eqn:E2; [apply N.leb_le in E2; lia|reflexivity].
    - apply N.ltb_ge in E1. destruct (ts_written st + blen p <=? o_size o) eqn:E2; [|apply N.leb_gt in E2; lia].
      cbn [andb]. destruct (quota_ok e ecp false (ts_written st + blen p)); reflexivity.
  Qed.

  Lemma write_chunks_inv : forall e ecp o cs st i st',
    write_chunks e ecp o st i cs = inr st' ->
    ts_next st' = ts_next st ++ concat cs /\
    ts_written st' = ts_written st + blen (concat cs) /\
    ts_h st' = fold_left upd cs (ts_h st).
  Proof.
    induction cs as [|p r IH]; intros st i st' Hw; cbn [Model.write_chunks] in Hw.
    - inversion Hw; subst st'. cbn [concat fold_left]. rewrite app_nil_r. unfold blen. cbn [length N.of_nat].
      repeat split. lia.
    - rewrite write_chunk_spec in Hw.
      destruct (fits e ecp o (ts_written st + blen p)); [|discriminate].
      destruct (IH _ _ _ Hw) as [H1 [H2 H3]]. cbn [Model.ts_next Model.ts_written Model.ts_h] in *.
      cbn [concat fold_left]. rewrite H1, H2, H3. rewrite <- app_assoc. unfold blen. rewrite app_length.
      repeat split. lia.
  Qed.

  Definition hdr_state (o : obj) : tstate hstate := mkts hstate (blen (o_payload o)) h0 [].

  Lemma write_header_some : forall e ecp o st, write_header e ecp o = Some st ->
    st = hdr_state o /\ validate e false false 0 o = true /\ (exists v, o_cs o = Some (cs_sha256, v)) /\
    o_size o <= e_max e.
  Proof.
    unfold Model.write_header, hdr_state. intros e ecp o st Hw.
    destruct (o_size o <? blen (o_payload o)); [discriminate|].
    destruct (e_max e <? o_size o) eqn:Em; [discriminate|].
    destruct (o_cs o) as [[ty v]|]; [|discriminate].
    destruct (ty =? cs_sha256) eqn:Et; cbn [negb] in Hw; [|discriminate].
    destruct (validate e false false 0 o) eqn:Ev; cbn [negb] in Hw; [|discriminate].
    destruct (quota_ok e ecp false (o_size o)); cbn [negb] in Hw; [|discriminate].
    inversion Hw. apply N.eqb_eq in Et. subst ty. repeat split; [exists v; reflexivity | apply N.ltb_ge; exact Em].
  Qed.

  (* ValidateContent accepted => the declarative content rules hold *)
  Lemma validate_content_spec : forall e o pl, validate_content e o pl = true -> content_ok e o pl.
  Proof.
    unfold validate_content, content_ok. intros e o pl Hc.
    destruct (o_type o); try exact I.
    - destruct (sys_in_header (o_ver o)); cbn [negb] in Hc; [|discriminate].
      destruct pl; cbn in Hc; [|discriminate]. repeat split; exact Hc.
    - destruct (sys_in_header (o_ver o)); cbn [negb] in Hc; [|discriminate].
      destruct pl; cbn in Hc; [|discriminate]. repeat split.
    - destruct pl; cbn [is_nil] in Hc; [discriminate|].
      destruct (o_first_set o); cbn [negb] in Hc; [|discriminate].
      destruct (o_cnr o =? 0) eqn:Ec; [discriminate|].
      destruct (o_link_parses o); cbn [negb] in Hc; [|discriminate].
      repeat split; try exact Hc; [discriminate | apply N.eqb_neq; exact Ec].
  Qed.

  (* C24, PUT path: whatever the pipeline stores is the submitted object with the streamed
     payload, and it is self-consistent, well-formed and authenticated *)
  Theorem put_stored_valid : forall e o chunks fail o' pl,
    o_payload o = [] ->
    run_put e o chunks fail = (OOk, Some (o', pl)) ->
    o' = o /\ pl = concat chunks /\ stored_ok e false o pl.
  Proof.
    unfold Model.run_put. intros e o chunks fail o' pl Hnp Hr.
    destruct (init_target e o) as [|ecp|]; try discriminate.
    destruct (write_header e ecp o) as [st|] eqn:Eh; [|discriminate].
    destruct (write_chunks e ecp o st 0 chunks) as [i|st'] eqn:Ew; [discriminate|].
    destruct (close_target e o st' fail) as [[o2 p2]|] eqn:Ec; [|discriminate].
    inversion Hr; subst o2 p2. clear Hr.
    destruct (write_header_some _ _ _ _ Eh) as [Hst [Hv [[v Hcs] _]]]. subst st.
    destruct (write_chunks_inv _ _ _ _ _ _ _ Ew) as [Hn [Hw Hh]].
    unfold hdr_state in *. cbn [Model.ts_next Model.ts_written Model.ts_h] in *. rewrite Hnp in Hw. cbn in Hw.
    unfold Model.close_target in Ec.
    destruct (o_size o =? ts_written st') eqn:Esz; cbn [negb] in Ec; [|discriminate].
    destruct (bytes_eqb (fin (ts_h st')) (cs_value o)) eqn:Ecs; cbn [negb] in Ec; [|discriminate].
    unfold dist_close in Ec.
    destruct (validate_content e o (ts_next st')) eqn:Evc; cbn [negb] in Ec; [|discriminate].
    destruct fail; [discriminate|]. inversion Ec; subst o' pl. clear Ec.
    cbn in Hn. split; [reflexivity|]. split; [exact Hn|].
    destruct (validate_top _ _ _ Hv) as [Hid [Hpa [Hf Ha]]].
    unfold Spec.stored_ok. rewrite Hn.
    split; [apply id_ok_spec; exact Hid|].
    split; [apply N.eqb_eq in Esz; rewrite Esz, Hw; reflexivity|].
    split.
    - exists cs_sha256. apply bytes_eqb_eq in Ecs. rewrite Hh, Hstream in Ecs.
      unfold cs_value in Ecs. rewrite Hcs in Ecs. rewrite Hcs. congruence.
    - split; [apply validate_content_spec; rewrite <- Hn; exact Evc|]. split; [exact Hpa|]. split; assumption.
  Qed.

  (* C24, replicate path *)
  Theorem repl_stored_valid : forall e o fail o' pl,
    run_repl e o fail = Some (o', pl) ->
    o' = o /\ pl = o_payload o /\ stored_ok e true o pl.
  Proof.
    unfold Model.run_repl. intros e o fail o' pl Hr.
    destruct (o_cnr o =? 0); [discriminate|].
    destruct (o_cs o) as [[ty csv]|] eqn:Hcs; [|discriminate].
    destruct (ty =? cs_sha256); cbn [negb] in Hr; [|discriminate].
    destruct (e_max e =? 0); [discriminate|].
    destruct (o_size o =? blen (o_payload o)) eqn:Esz; cbn [negb] in Hr; [|discriminate].
    destruct (e_max e <? o_size o); [discriminate|].
    destruct (validate e false true 0 o) eqn:Hv; cbn [negb] in Hr; [|discriminate].
    destruct (validate_content e o (o_payload o)) eqn:Evc; cbn [negb] in Hr; [|discriminate].
    destruct (bytes_eqb (H (o_payload o)) csv) eqn:Ecs; cbn [negb] in Hr; [|discriminate].
    destruct fail; [discriminate|]. inversion Hr; subst o' pl.
    split; [reflexivity|]. split; [reflexivity|].
    destruct (validate_top _ _ _ Hv) as [Hid [Hpa [Hf Ha]]].
    unfold Spec.stored_ok. split; [apply id_ok_spec; exact Hid|].
    split; [apply N.eqb_eq; exact Esz|].
    split; [exists ty; apply bytes_eqb_eq in Ecs; congruence|].
    split; [apply validate_content_spec; exact Evc|].
    split; [exact Hpa|].
    split; assumption.
  Qed.

  (* client PUT: the version gate makes the owner exemption unreachable *)
  Theorem put_strict_auth : forall e o chunks fail o' pl,
    o_payload o = [] ->
    run_put e o chunks fail = (OOk, Some (o', pl)) ->
    is_ec_obj e o = false ->
    auth_ok o /\ ~ legacy o.
  Proof.
    intros e o chunks fail o' pl Hnp Hr Hne.
    destruct (put_stored_valid _ _ _ _ _ _ Hnp Hr) as [_ [_ [_ [_ [_ [_ [_ [Hf Ha]]]]]]]].
    split; [apply Ha; exact Hne|].
    destruct Hf as [Hc _]. rewrite chain_ok_eq in Hc. destruct Hc as [[[Hl|Hl] _] _]; [discriminate|].
    unfold legacy, valid_new_object in *. congruence.
  Qed.

  (* ---- chunking ------------------------------------------------------------------------ *)
  Lemma quota_mono : forall e ecp a b, a <= b -> quota_ok e ecp false b = true -> quota_ok e ecp false a = true.
  Proof.
    unfold quota_ok. intros e ecp a b Hab Hq. destruct (e_quota e) as [hard|]; [|reflexivity].
    apply N.leb_le in Hq. apply N.leb_le. destruct ecp; [lia|].
    rewrite N.add_0_r in *. nia.
  Qed.

  Lemma blen_app : forall a b, blen (a ++ b) = blen a + blen b.
  Proof. intros. unfold blen. rewrite app_length. lia. Qed.
  Lemma blen_nil : blen [] = 0.
  Proof. reflexivity. Qed.

  Lemma write_chunks_ok_iff : forall e ecp o cs st i,
    (exists st', write_chunks e ecp o st i cs = inr st') <->
    (forall pre p post, cs = pre ++ p :: post ->
       fits e ecp o (ts_written st + blen (concat pre) + blen p) = true).
  Proof.
    induction cs as [|p r IH]; intros st i; cbn [Model.write_chunks].
    - split; [intros _ pre p post Hh; destruct pre; discriminate | intros _; eexists; reflexivity].
    - rewrite write_chunk_spec. split.
      + intros [st' Hw].
        destruct (fits e ecp o (ts_written st + blen p)) eqn:Ef; [|discriminate].
        intros pre q post Hh. destruct pre as [|x pre]; cbn [app] in Hh; inversion Hh; subst.
        * cbn [concat]. rewrite blen_nil, N.add_0_r. exact Ef.
        * pose proof (proj1 (IH _ (S i)) (ex_intro _ st' Hw) pre q post eq_refl) as Hf.
          cbn [Model.ts_written] in Hf. cbn [concat]. rewrite blen_app, N.add_assoc. exact Hf.
      + intros Hall.
        pose proof (Hall [] p r eq_refl) as H0. cbn [concat] in H0. rewrite blen_nil, N.add_0_r in H0.
        rewrite H0. apply (IH _ (S i)).
        intros pre q post Hh. cbn [Model.ts_written].
        pose proof (Hall (p :: pre) q post) as Hf. cbn [app concat] in Hf. rewrite Hh in Hf. specialize (Hf eq_refl).
        rewrite blen_app, N.add_assoc in Hf. exact Hf.
  Qed.

  Lemma concat_split_len : forall cs pre p post, cs = pre ++ p :: post ->
    blen (concat pre) + blen p <= blen (concat cs).
  Proof.
    intros cs pre p post Hh. subst cs. rewrite concat_app. cbn [concat]. rewrite !blen_app. lia.
  Qed.

  (* all chunks are accepted iff the total fits (size and quota): nothing else matters *)
  Lemma write_chunks_total : forall e ecp o cs st,
    quota_ok e ecp false (ts_written st) = true ->
    ((exists st', write_chunks e ecp o st 0 cs = inr st') <->
     fits e ecp o (ts_written st + blen (concat cs)) = true \/ (cs = [] )) .
  Proof.
    intros e ecp o cs st Hq0. rewrite (write_chunks_ok_iff e ecp o cs st 0). split.
    - intro Hall. destruct cs as [|c cs']; [right; reflexivity|]. left.
      destruct (exists_last (l := c :: cs') ltac:(discriminate)) as [pre [p Hh]].
      pose proof (Hall pre p [] Hh) as Hf. rewrite Hh. rewrite concat_app. cbn [concat]. rewrite app_nil_r.
      rewrite blen_app. rewrite N.add_assoc. exact Hf.
    - intros [Hf|Hnil] pre p post Hh.
      + unfold fits in *. apply andb_true_iff in Hf. destruct Hf as [Ha Hb]. apply N.leb_le in Ha.
        pose proof (concat_split_len _ _ _ _ Hh) as Hl.
        apply andb_true_iff. split; [apply N.leb_le; lia|].
        apply (quota_mono e ecp _ (ts_written st + blen (concat cs))); [lia | exact Hb].
      + subst cs. destruct pre; discriminate.
  Qed.

  Lemma fold_upd_concat : forall c1 c2, concat c1 = concat c2 ->
    fin (fold_left upd c1 h0) = fin (fold_left upd c2 h0).
  Proof. intros c1 c2 Hc. rewrite !Hstream. congruence. Qed.

  Definition put_result_of (r : outcome * option (obj * bytes)) : option (obj * bytes) := snd r.

  (* C24: two chunkings of the same payload get the same verdict and store the same thing *)
  Theorem chunking_irrelevant : forall e o c1 c2 fail,
    o_payload o = [] ->
    concat c1 = concat c2 ->
    accepted (run_put e o c1 fail) = accepted (run_put e o c2 fail) /\
    snd (run_put e o c1 fail) = snd (run_put e o c2 fail).
  Proof.
    intros e o c1 c2 fail Hnp Hcc. unfold Model.run_put, accepted.
    destruct (init_target e o) as [|ecp|]; try (split; reflexivity).
    destruct (write_header e ecp o) as [st|] eqn:Eh; [|split; reflexivity].
    destruct (write_header_some _ _ _ _ Eh) as [Hst [Hv [[v Hcs] Hmx]]]. subst st.
    assert (Hq0 : quota_ok e ecp false (ts_written (hdr_state o)) = true).
    { unfold hdr_state. cbn. rewrite Hnp. unfold quota_ok. destruct (e_quota e); [|reflexivity].
      destruct ecp; cbn; apply N.leb_le; lia. }
    pose proof (write_chunks_total e ecp o c1 _ Hq0) as T1.
    pose proof (write_chunks_total e ecp o c2 _ Hq0) as T2.
    destruct (write_chunks e ecp o (hdr_state o) 0 c1) as [i1|s1] eqn:E1;
      destruct (write_chunks e ecp o (hdr_state o) 0 c2) as [i2|s2] eqn:E2; cbn [fst snd].
    - split; reflexivity.
    - (* c2 accepted, c1 not: impossible *)
      exfalso.
      assert (Hz : fits e ecp o (ts_written (hdr_state o) + 0) = true).
      { unfold fits. rewrite N.add_0_r. apply andb_true_iff. split; [|exact Hq0].
        unfold hdr_state. cbn [Model.ts_written]. rewrite Hnp. apply N.leb_le. cbn. lia. }
      destruct (proj1 T2 (ex_intro _ s2 eq_refl)) as [Hf|Hn].
      + rewrite <- Hcc in Hf. destruct (proj2 T1 (or_introl Hf)) as [x Hx]. discriminate.
      + subst c2. cbn [concat] in Hcc. rewrite Hcc in T1. rewrite blen_nil in T1.
        destruct (proj2 T1 (or_introl Hz)) as [x Hx]. discriminate.
    - exfalso.
      assert (Hz : fits e ecp o (ts_written (hdr_state o) + 0) = true).
      { unfold fits. rewrite N.add_0_r. apply andb_true_iff. split; [|exact Hq0].
        unfold hdr_state. cbn [Model.ts_written]. rewrite Hnp. apply N.leb_le. cbn. lia. }
      destruct (proj1 T1 (ex_intro _ s1 eq_refl)) as [Hf|Hn].
      + rewrite Hcc in Hf. destruct (proj2 T2 (or_introl Hf)) as [x Hx]. discriminate.
      + subst c1. cbn [concat] in Hcc. rewrite <- Hcc in T2. rewrite blen_nil in T2.
        destruct (proj2 T2 (or_introl Hz)) as [x Hx]. discriminate.
    - destruct (write_chunks_inv _ _ _ _ _ _ _ E1) as [A1 [B1 C1]].
      destruct (write_chunks_inv _ _ _ _ _ _ _ E2) as [A2 [B2 C2]].
      assert (Hsame : close_target e o s1 fail = close_target e o s2 fail).
      { unfold Model.close_target. rewrite B1, B2, C1, C2, A1, A2, Hcc.
        unfold hdr_state. cbn [Model.ts_h]. rewrite (fold_upd_concat c1 c2 Hcc). reflexivity. }
      rewrite Hsame. destruct (close_target e o s2 fail); split; reflexivity.
  Qed.

  (* C24: the first chunk that makes the stream longer than declared is the one refused
     (or an earlier one, if the quota runs out first); nothing is stored *)
  Theorem overflow_rejected : forall e o ecp st pre p post fail,
    init_target e o = KUntrusted ecp ->
    write_header e ecp o = Some st ->
    ts_written st + blen (concat pre) <= o_size o ->
    o_size o < ts_written st + blen (concat pre) + blen p ->
    exists j, (j <= length pre)%nat /\
      run_put e o (pre ++ p :: post) fail = (OChunkErr j, None) /\
      (e_quota e = None -> j = length pre).
  Proof.
    intros e o ecp st pre p post fail Hi Hh Hle Hlt. unfold Model.run_put. rewrite Hi, Hh.
    clear Hi Hh.
    assert (G : forall pre st i, ts_written st + blen (concat pre) <= o_size o ->
               o_size o < ts_written st + blen (concat pre) + blen p ->
               exists j, (i <= j <= i + length pre)%nat /\
                 write_chunks e ecp o st i (pre ++ p :: post) = inl j /\
                 (e_quota e = None -> j = (i + length pre)%nat)).
    { clear Hle Hlt. intro pre0. induction pre0 as [|x pre0 IH]; intros st0 i Hle Hlt; cbn [app Model.write_chunks]; rewrite write_chunk_spec.
      - cbn [concat] in Hle, Hlt. rewrite blen_nil, N.add_0_r in Hle, Hlt.
        assert (Ef : fits e ecp o (ts_written st0 + blen p) = false).
        { unfold fits. destruct (ts_written st0 + blen p <=? o_size o) eqn:E; [apply N.leb_le in E; lia|reflexivity]. }
        rewrite Ef. exists i. cbn [length]. split; [lia|]. split; [reflexivity|]. intros _. lia.
      - cbn [concat] in Hle, Hlt. rewrite blen_app in Hle, Hlt.
        destruct (fits e ecp o (ts_written st0 + blen x)) eqn:Ef.
        + destruct (IH (mkts hstate (ts_written st0 + blen x) (upd (ts_h st0) x) (ts_next st0 ++ x)) (S i)) as [j [Hj [Hw Hq]]];
            cbn [Model.ts_written]; try lia.
          exists j. cbn [length]. split; [lia|]. split; [exact Hw|]. intro Hn. rewrite (Hq Hn). lia.
        + exists i. cbn [length]. split; [lia|]. split; [reflexivity|].
          intro Hn. exfalso. unfold fits, quota_ok in Ef. rewrite Hn in Ef. rewrite andb_true_r in Ef.
          apply N.leb_gt in Ef. lia. }
    destruct (G pre st 0%nat Hle Hlt) as [j [Hj [Hw Hq]]]. exists j. rewrite Hw.
    split; [lia|]. split; [reflexivity|exact Hq].
  Qed.

  (* a stream shorter than declared is refused at Close; nothing is stored *)
  Theorem short_rejected : forall e o chunks fail,
    o_payload o = [] ->
    blen (concat chunks) < o_size o ->
    snd (run_put e o chunks fail) = None /\ accepted (run_put e o chunks fail) = false.
  Proof.
    intros e o chunks fail Hnp Hlt. unfold Model.run_put, accepted.
    destruct (init_target e o) as [|ecp|]; try (split; reflexivity).
    destruct (write_header e ecp o) as [st|] eqn:Eh; [|split; reflexivity].
    destruct (write_header_some _ _ _ _ Eh) as [Hst _]. subst st.
    destruct (write_chunks e ecp o (hdr_state o) 0 chunks) as [i|st'] eqn:Ew; [split; reflexivity|].
    destruct (write_chunks_inv _ _ _ _ _ _ _ Ew) as [_ [Hw _]].
    unfold hdr_state in Hw. cbn in Hw. rewrite Hnp in Hw. cbn in Hw.
    unfold Model.close_target.
    destruct (o_size o =? ts_written st') eqn:E; [apply N.eqb_eq in E; lia|].
    cbn. split; reflexivity.
  Qed.

End Crypto.
