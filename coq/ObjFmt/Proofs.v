(* C24 — proofs about the admission pipeline model (ObjFmt/Model.v) against ObjFmt/Spec.v. *)
From Coq Require Import List NArith ZArith Bool Arith Lia.
Import ListNotations.
From NV Require Import Gen.ObjFmtConsts ObjFmt.Model ObjFmt.Spec.
Local Open Scope N_scope.

(* ---- basic reflection ---------------------------------------------------------- *)
Lemma bytes_eqb_eq : forall a b, bytes_eqb a b = true <-> a = b.
Proof.
  induction a as [|x a IH]; destruct b as [|y b]; cbn; split; intro Hh; try reflexivity; try discriminate.
  - apply andb_true_iff in Hh. destruct Hh as [H1 H2]. apply N.eqb_eq in H1. apply IH in H2. congruence.
  - inversion Hh; subst. apply andb_true_iff. split; [apply N.eqb_refl | apply IH; reflexivity].
Qed.

Lemma bytes_eqb_refl : forall a, bytes_eqb a a = true.
Proof. intro a. apply bytes_eqb_eq. reflexivity. Qed.

Lemma mem_key_in : forall k l, mem_key k l = true <-> In k l.
Proof.
  induction l as [|s l IH]; cbn; split; intro Hh; try discriminate; try contradiction.
  - apply orb_true_iff in Hh. destruct Hh as [Hh|Hh]; [left; apply bytes_eqb_eq; exact Hh | right; apply IH; exact Hh].
  - apply orb_true_iff. destruct Hh as [Hh|Hh]; [left; apply bytes_eqb_eq; exact Hh | right; apply IH; exact Hh].
Qed.

Lemma has_zero_false : forall b, has_zero b = false -> ~ In 0 b.
Proof.
  unfold has_zero. induction b as [|x b IH]; cbn; intros Hh Hin; [exact Hin|].
  apply orb_false_iff in Hh. destruct Hh as [H1 H2]. destruct Hin as [Hin|Hin].
  - subst x. cbn in H1. discriminate.
  - exact (IH H2 Hin).
Qed.

Lemma is_nil_false : forall A (l : list A), is_nil l = false -> l <> [].
Proof. intros A [|x l] Hh; [discriminate | discriminate]. Qed.
Lemma is_nil_true : forall A (l : list A), is_nil l = true -> l = [].
Proof. intros A [|x l] Hh; [reflexivity | discriminate]. Qed.

(* ---- attributes ------------------------------------------------------------------ *)
Lemma check_attrs_from_sound : forall attrs seen,
  check_attrs_from seen attrs = true ->
  NoDup (map fst attrs) /\ (forall k, In k (map fst attrs) -> ~ In k seen) /\ Forall attr_ok attrs.
Proof.
  induction attrs as [|[k v] attrs IH]; intros seen Hc; cbn in *.
  - repeat split; [constructor | intros k [] | constructor].
  - destruct (mem_key k seen) eqn:Em; [discriminate|].
    destruct (is_nil v) eqn:En; [discriminate|].
    destruct (has_zero k) eqn:Ek; [discriminate|].
    destruct (has_zero v) eqn:Ev; [discriminate|].
    destruct (IH _ Hc) as [Hnd [Hns Hall]].
    repeat split.
    + constructor; [|exact Hnd]. intro Hin. apply (Hns k Hin). left. reflexivity.
    + intros k' [Hk'|Hk'] Hin.
      * subst k'. apply mem_key_in in Hin. congruence.
      * apply (Hns k' Hk'). right. exact Hin.
    + constructor; [|exact Hall]. unfold attr_ok. cbn.
      repeat split; [apply is_nil_false; exact En | apply has_zero_false; exact Ek | apply has_zero_false; exact Ev].
Qed.

Lemma check_attrs_sound : forall attrs, check_attrs attrs = true -> attrs_ok attrs.
Proof. intros attrs Hc. destruct (check_attrs_from_sound _ _ Hc) as [H1 [_ H3]]. split; assumption. Qed.

Lemma check_expiration_sound : forall e attrs req,
  check_expiration e attrs req = true -> expiration_ok e attrs req.
Proof.
  unfold check_expiration, expiration_ok. intros e attrs req Hc.
  destruct (get_attr expiration_key attrs) as [v|].
  - destruct (parse_uint64 v) as [ex|]; [|discriminate]. exists ex. split; [reflexivity|].
    destruct (ex <? e_epoch e) eqn:El.
    + right. apply N.eqb_eq. exact Hc.
    + left. apply N.ltb_ge. exact El.
  - destruct req; [discriminate | reflexivity].
Qed.

(* ---- EC ----------------------------------------------------------------------------- *)
Lemma existsb_negb_false_forall : forall (A : Type) (f : A -> bool) l,
  existsb (fun a => negb (f a)) l = false -> Forall (fun a => f a = true) l.
Proof.
  induction l as [|x l IH]; cbn; intro Hh; [constructor|].
  apply orb_false_iff in Hh. destruct Hh as [H1 H2]. constructor; [|apply IH; exact H2].
  destruct (f x); [reflexivity | discriminate].
Qed.

Lemma find_none_forall : forall (A : Type) (f : A -> bool) l,
  find f l = None -> Forall (fun a => f a = false) l.
Proof.
  induction l as [|x l IH]; cbn; intro Hh; [constructor|].
  destruct (f x) eqn:Ef; [discriminate|]. constructor; [exact Ef | apply IH; exact Hh].
Qed.

Lemma scan_uniform : forall attrs r, ec_attr_scan attrs false = Some r -> ec_uniform attrs.
Proof.
  intros [|[first fv] rest] r Hs; cbn in Hs.
  - left. constructor.
  - destruct (is_ec_key first) eqn:Ef.
    + cbn in Hs. destruct (existsb (fun a => negb (is_ec_key (fst a))) rest) eqn:Ee; [discriminate|].
      left. constructor; [exact Ef|]. apply (existsb_negb_false_forall _ (fun a => is_ec_key (fst a))). exact Ee.
    + destruct (find (fun a => is_ec_key (fst a)) rest) as [[k v]|] eqn:Efi; [cbn in Hs; discriminate|].
      right. constructor; [exact Ef|]. apply (find_none_forall _ (fun a => is_ec_key (fst a))). exact Efi.
Qed.

Lemma scan_none_no_ec : forall attrs, ec_attr_scan attrs false = Some None ->
  existsb (fun a => is_ec_key (fst a)) attrs = false.
Proof.
  intros [|[first fv] rest] Hs; cbn in Hs; [reflexivity|].
  destruct (is_ec_key first) eqn:Ef.
  - cbn in Hs. destruct (existsb (fun a => negb (is_ec_key (fst a))) rest); discriminate.
  - destruct (find (fun a => is_ec_key (fst a)) rest) as [[k v]|] eqn:Efi; [cbn in Hs; discriminate|].
    cbn. rewrite Ef. cbn. apply find_none_forall in Efi.
    induction Efi as [|x l Hx _ IH]; cbn; [reflexivity|]. rewrite Hx. exact IH.
Qed.

Lemma scan_some_has_ec : forall attrs k, ec_attr_scan attrs false = Some (Some k) ->
  existsb (fun a => is_ec_key (fst a)) attrs = true.
Proof.
  intros [|[first fv] rest] k Hs; cbn in Hs; [discriminate|].
  destruct (is_ec_key first) eqn:Ef.
  - cbn. rewrite Ef. reflexivity.
  - destruct (find (fun a => is_ec_key (fst a)) rest) as [[k' v]|]; cbn in Hs; discriminate.
Qed.

Lemma ver_eqb_eq : forall a b, ver_eqb a b = true -> a = b.
Proof.
  intros [[a1 a2]|] [[b1 b2]|] Hh; cbn in Hh; try discriminate; try reflexivity.
  apply andb_true_iff in Hh. destruct Hh as [H1 H2]. apply N.eqb_eq in H1, H2. congruence.
Qed.

Lemma check_ec_part_sound : forall o rules, check_ec_part o rules = true -> ec_part_ok rules o.
Proof.
  unfold check_ec_part, ec_part_ok. intros o rules Hc.
  destruct (o_sig o) eqn:Es; [discriminate|]. destruct (o_tok1 o) eqn:Et; [discriminate|].
  cbn in Hc. split; [reflexivity|]. split; [reflexivity|].
  destruct (o_parent o) as [parent|]; [|discriminate].
  destruct (ver_eqb (o_ver parent) (o_ver o)) eqn:Ev; [|discriminate].
  destruct (o_cnr parent =? o_cnr o) eqn:Ec; [|discriminate].
  destruct (bytes_eqb (o_owner parent) (o_owner o)) eqn:Eo; [|discriminate].
  destruct (o_epoch parent =? o_epoch o) eqn:Ee; [|discriminate].
  cbn in Hc.
  destruct (required_part_info (o_attrs o)) as [[ri pi]|]; [|discriminate].
  destruct (nth_error rules (N.to_nat ri)) as [[d p]|] eqn:En; [|discriminate].
  destruct (d + p <=? pi) eqn:El; [discriminate|].
  destruct ((o_size parent + d - 1) / d =? o_size o) eqn:Esz; [|discriminate].
  cbn in Hc. unfold check_ec_parent in Hc.
  destruct (parent_hash_attr (o_attrs parent)) as [[hashes|]|]; try discriminate.
  destruct hashes as [|h0 hs]; [discriminate|].
  destruct (o_cs o) as [[csty csv]|]; [|discriminate].
  destruct (blen (h0 :: hs) <? rules_offset rules ri pi + sum_len - 1); [discriminate|].
  exists parent, ri, pi, d, p, (h0 :: hs), csty, csv.
  repeat split; try reflexivity.
  - apply ver_eqb_eq. exact Ev.
  - apply N.eqb_eq. exact Ec.
  - apply bytes_eqb_eq. exact Eo.
  - apply N.eqb_eq. exact Ee.
  - apply N.leb_gt. exact El.
  - apply N.eqb_eq. exact Esz.
  - apply bytes_eqb_eq. exact Hc.
Qed.

(* the EC verdict of checkEC on a complete top-level object is the declarative one *)
Lemma check_ec_top : forall e o b,
  check_ec o (e_rules e) false false = Some b ->
  b = is_ec_obj e o /\ ec_uniform (o_attrs o) /\
  (b = true -> ec_part_ok (e_rules e) o) /\
  (is_nil (e_rules e) = true -> has_ec_attr o = false).
Proof.
  unfold check_ec, is_ec_obj, has_ec_attr. intros e o b Hc.
  destruct (ec_attr_scan (o_attrs o) false) as [eca|] eqn:Es; [|discriminate].
  pose proof (scan_uniform _ _ Es) as Hu.
  destruct (is_nil (e_rules e)) eqn:Er.
  - destruct eca as [k|]; cbn in Hc; [discriminate|]. inversion Hc; subst b. cbn.
    repeat split; try exact Hu; try discriminate. intros _. apply scan_none_no_ec. exact Es.
  - cbn. destruct (o_type o) eqn:Et; cbn in *; try discriminate.
    + (* regular *)
      destruct eca as [k|]; cbn in Hc; [|discriminate].
      destruct (check_ec_part o (e_rules e)) eqn:Ep; cbn in Hc; [|discriminate].
      inversion Hc; subst b. rewrite (scan_some_has_ec _ _ Es).
      repeat split; try exact Hu; try discriminate. intros _. apply check_ec_part_sound. exact Ep.
    + destruct eca; cbn in Hc; [discriminate|]. inversion Hc. repeat split; try exact Hu; discriminate.
    + destruct eca; cbn in Hc; [discriminate|]. inversion Hc. repeat split; try exact Hu; discriminate.
    + destruct eca; cbn in Hc; [discriminate|]. inversion Hc. repeat split; try exact Hu; discriminate.
Qed.

(* ---- validate --------------------------------------------------------------------------- *)
Section Crypto.
  Variable H : bytes -> bytes.
  Variable hstate : Type.
  Variable h0 : hstate.
  Variable upd : hstate -> bytes -> hstate.
  Variable fin : hstate -> bytes.
  Variable sig_ok : N -> bytes -> bytes -> bytes -> bool.
  Variable key_ok : bytes -> bool.
  Variable user_of : bytes -> bytes.
  Variable tok1_ok : tok1 -> bool.
  Variable tok2_ok : tok2 -> bool.
  Variable n3_ok : bytes -> N -> bytes -> bytes -> bytes -> bool.
  Hypothesis Hstream : forall chunks, fin (fold_left upd chunks h0) = H (concat chunks).

  Notation validate := (validate H sig_ok key_ok user_of tok1_ok tok2_ok n3_ok).
  Notation authenticate := (authenticate sig_ok key_ok user_of tok1_ok tok2_ok n3_ok).
  Notation auth_ok := (auth_ok sig_ok key_ok user_of tok1_ok tok2_ok n3_ok).
  Notation stored_ok := (stored_ok H sig_ok key_ok user_of tok1_ok tok2_ok n3_ok).
  Notation run_put := (run_put H hstate h0 upd fin sig_ok key_ok user_of tok1_ok tok2_ok n3_ok).
  Notation run_repl := (run_repl H sig_ok key_ok user_of tok1_ok tok2_ok n3_ok).
  Notation write_header := (write_header H hstate h0 sig_ok key_ok user_of tok1_ok tok2_ok n3_ok).
  Notation write_chunks := (write_chunks hstate upd).
  Notation write_chunk := (write_chunk hstate upd).
  Notation close_target := (close_target hstate fin).

  Lemma validate_eq : forall e unp allow nest o,
    validate e unp allow nest o =
    (if negb allow && negb (valid_new_object (o_ver o)) then false else
     match type_stage o unp with
     | None => false
     | Some exp_req =>
       if max_header_len <? o_hdrlen o then false else
       if negb unp && negb (is_some (o_id o)) then false else
       if o_cnr o =? 0 then false else
       if is_nil (o_owner o) then false else
       if negb (e_cnr_found e) then false else
       match check_ec o (e_rules e) unp (Nat.ltb 0 nest) with
       | None => false
       | Some is_ec =>
         if is_some (o_tok1 o) && is_some (o_tok2 o) then false else
         if negb (split_stage o is_ec) then false else
         if negb (check_attrs (o_attrs o)) then false else
         if negb (check_expiration e (o_attrs o) exp_req) then false else
         if negb unp && negb (id_ok H o) then false else
         if negb unp && negb is_ec && negb (authenticate o) then false else
         match o_parent o with
         | None => true
         | Some p =>
           if Nat.eqb nest max_nesting then false else
           validate e (negb (o_first_set o || o_split_id o || is_ec)) allow (S nest) p
         end
       end
     end).
  Proof. intros e unp allow nest o. destruct o. reflexivity. Qed.

  Lemma type_stage_spec : forall o unp r, type_stage o unp = Some r ->
    o_type o <> TStorageGroup /\ r = sys_type o /\ (sys_type o = true -> o_payload o = [] /\ o_assoc_zero o = false).
  Proof.
    unfold type_stage, sys_type. intros o unp r Ht.
    destruct (o_type o) eqn:Et; cbn in *; try discriminate;
      try (inversion Ht; subst r; repeat split; try discriminate; intro Hf; discriminate).
    - destruct (negb unp && negb (sys_in_header (o_ver o))); [discriminate|].
      destruct (is_nil (o_payload o)) eqn:En; cbn in Ht; [|discriminate].
      destruct (o_assoc_zero o) eqn:Ea; [discriminate|]. inversion Ht; subst r.
      repeat split; try discriminate. apply is_nil_true. exact En.
    - destruct (negb unp && negb (sys_in_header (o_ver o))); [discriminate|].
      destruct (is_nil (o_payload o)) eqn:En; cbn in Ht; [|discriminate].
      destruct (o_assoc_zero o) eqn:Ea; [discriminate|]. inversion Ht; subst r.
      repeat split; try discriminate. apply is_nil_true. exact En.
  Qed.

  (* everything one level of validate establishes *)
  Lemma validate_level : forall e unp allow nest o,
    validate e unp allow nest o = true ->
    header_ok e allow o /\
    exists is_ec, check_ec o (e_rules e) unp (Nat.ltb 0 nest) = Some is_ec /\
      (unp = false -> id_ok H o = true /\ (is_ec = false -> authenticate o = true)) /\
      match o_parent o with
      | None => True
      | Some p => Nat.eqb nest max_nesting = false /\
                  validate e (negb (o_first_set o || o_split_id o || is_ec)) allow (S nest) p = true
      end.
  Proof.
    intros e unp allow nest o Hv. rewrite validate_eq in Hv.
    destruct (negb allow && negb (valid_new_object (o_ver o))) eqn:Eal; [discriminate|].
    destruct (type_stage o unp) as [exp_req|] eqn:Ets; [|discriminate].
    destruct (max_header_len <? o_hdrlen o) eqn:Ehl; [discriminate|].
    destruct (negb unp && negb (is_some (o_id o))) eqn:Eid0; [discriminate|].
    destruct (o_cnr o =? 0) eqn:Ecn; [discriminate|].
    destruct (is_nil (o_owner o)) eqn:Eow; [discriminate|].
    destruct (negb (e_cnr_found e)); [discriminate|].
    destruct (check_ec o (e_rules e) unp (Nat.ltb 0 nest)) as [is_ec|] eqn:Eec; [|discriminate].
    destruct (is_some (o_tok1 o) && is_some (o_tok2 o)) eqn:Etk; [discriminate|].
    destruct (negb (split_stage o is_ec)); [discriminate|].
    destruct (check_attrs (o_attrs o)) eqn:Eat; [|discriminate].
    destruct (check_expiration e (o_attrs o) exp_req) eqn:Eex; [|discriminate].
    cbn [negb] in Hv.
    destruct (negb unp && negb (id_ok H o)) eqn:Eid; [discriminate|].
    destruct (negb unp && negb is_ec && negb (authenticate o)) eqn:Eau; [discriminate|].
    destruct (type_stage_spec _ _ _ Ets) as [Hsg [Hreq Hsys]]. subst exp_req.
    split.
    - unfold header_ok. repeat split.
      + destruct allow; [left; reflexivity|]. right. cbn in Eal. destruct (valid_new_object (o_ver o)); [reflexivity|discriminate].
      + exact Hsg.
      + apply Hsys. assumption.
      + apply Hsys. assumption.
      + apply N.ltb_ge. exact Ehl.
      + apply N.eqb_neq. exact Ecn.
      + apply is_nil_false. exact Eow.
      + intros [H1 H2]. destruct (o_tok1 o); [|congruence]. destruct (o_tok2 o); [|congruence]. discriminate.
      + apply check_attrs_sound. exact Eat.
      + apply check_attrs_sound. exact Eat.
      + apply check_expiration_sound. exact Eex.
    - exists is_ec. split; [reflexivity|]. split.
      + intro Hu. subst unp. cbn in Eid, Eau. split.
        * destruct (id_ok H o); [reflexivity|discriminate].
        * intro Hie. subst is_ec. cbn in Eau. destruct (authenticate o); [reflexivity|discriminate].
      + destruct (o_parent o) as [p|]; [|exact I].
        destruct (Nat.eqb nest max_nesting); [discriminate|]. split; [reflexivity|exact Hv].
  Qed.

  (* the whole parent chain, and its depth *)
  Lemma validate_chain : forall n e unp allow nest o,
    (depth o <= n)%nat ->
    validate e unp allow nest o = true ->
    chain_ok e allow o /\ (nest + depth o <= max_nesting)%nat.
  Proof.
    induction n as [|n IH]; intros e unp allow nest o Hd Hv;
      destruct (validate_level _ _ _ _ _ Hv) as [Hh [is_ec [_ [_ Hp]]]].
    - destruct o; cbn in *. destruct o_parent0 as [p|]; cbn in *; [lia|].
      split; [split; [exact Hh|exact I]|].
      assert (Hle : (nest <= max_nesting)%nat).
      { clear -Hv. unfold max_nesting. (* nest is bounded only through parents; a leaf can sit at any level reached *)
        destruct (Nat.leb nest 2) eqn:E; [apply Nat.leb_le; exact E|]. apply Nat.leb_gt in E. Fail lia. Abort.
