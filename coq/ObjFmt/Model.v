(* C24 — model of the object admission pipeline of a storage node. Definitions only.

   Transcribed in source order from
     pkg/core/object/fmt.go        FormatValidator.validate / ValidateContent / checkAttributes / checkExpiration
     pkg/core/object/ec.go         checkEC / checkECPart / checkECParent
     internal/crypto/object.go     AuthenticateObject
     pkg/core/version              ValidNewObject / SysObjTargetShouldBeInHeader / OwnerSignatureMatchRequired
     pkg/services/object/put/streamer.go   preparePrm / initTarget (choice of the target)
     pkg/services/object/put/validation.go validatingTarget.WriteHeader / Write / Close / checkQuotaLimits
     pkg/services/object/put/distributed.go distributedTarget.Write / Close (content validation, local store)
     pkg/services/object/put/local.go      ValidateAndStoreObjectLocally (callee of Server.Replicate)
     pkg/services/object/put/slice.go + SDK slicer PayloadWriter.Write/Close (payload arithmetic only)

   Cryptography is abstract: Section variables H (hash), (h0, upd, fin) (streaming hash),
   sig_ok, key_ok, user_of, tok1_ok, tok2_ok, n3_ok. *)
From Coq Require Import List NArith ZArith Bool Arith.
Import ListNotations.
From NV Require Import Gen.ObjFmtConsts.
Local Open Scope N_scope.

Definition bytes := list N.

Fixpoint bytes_eqb (a b : bytes) : bool :=
  match a, b with
  | [], [] => true
  | x :: a', y :: b' => N.eqb x y && bytes_eqb a' b'
  | _, _ => false
  end.

Fixpoint has_prefix (p s : bytes) : bool :=
  match p, s with
  | [], _ => true
  | x :: p', y :: s' => N.eqb x y && has_prefix p' s'
  | _ :: _, [] => false
  end.

Definition blen (b : bytes) : N := N.of_nat (length b).
Definition is_nil {A} (l : list A) : bool := match l with [] => true | _ => false end.
Definition is_some {A} (o : option A) : bool := match o with Some _ => true | None => false end.

Inductive otype := TRegular | TTombstone | TStorageGroup | TLock | TLink | TOther.
Definition otype_eqb (a b : otype) : bool :=
  match a, b with
  | TRegular, TRegular | TTombstone, TTombstone | TStorageGroup, TStorageGroup
  | TLock, TLock | TLink, TLink | TOther, TOther => true
  | _, _ => false
  end.

Record sigrec := mksig {
  s_scheme : N;          (* 0,1,2 = the three ECDSA schemes, 3 = N3, others unsupported *)
  s_key : bytes;         (* verification script / public key *)
  s_keylen : N;          (* its binary length *)
  s_val : bytes;         (* invocation script / signature *)
  s_vallen : N;
}.

Record tok1 := mktok1 {  (* session token V1 attached to the object *)
  t1_authkey : bytes;
  t1_issuer : bytes;
  t1_tag : N;            (* opaque body; tok1_ok decides it *)
}.

Record tok2 := mktok2 {  (* session token V2 *)
  t2_subjects : list bytes;  (* users the token is issued to *)
  t2_issuer : bytes;         (* original issuer *)
  t2_tag : N;
}.

Definition version := option (N * N).   (* None = unset *)

Inductive obj := mkobj {
  o_ver : version;
  o_type : otype;
  o_hdrlen : N;                 (* marshalled header size *)
  o_id : option bytes;          (* None = zero ID *)
  o_hdrbin : bytes;             (* binary header: what the ID is the hash of *)
  o_cnr : N;                    (* 0 = zero container ID *)
  o_owner : bytes;              (* [] = zero owner *)
  o_epoch : N;                  (* creation epoch *)
  o_attrs : list (bytes * bytes);
  o_size : N;                   (* declared payload length *)
  o_cs : option (N * bytes);    (* payload checksum: type, value *)
  o_payload : bytes;            (* payload carried by the object message itself *)
  o_sig : option sigrec;
  o_tok1 : option tok1;
  o_tok2 : option tok2;
  o_assoc_zero : bool;          (* AssociatedObject().IsZero() *)
  o_has_split : bool;           (* HasParent(): any split field present *)
  o_split_id : bool;            (* SplitID() != nil *)
  o_first_set : bool;           (* FirstID() set *)
  o_prev_zero : bool;           (* GetPreviousID().IsZero() *)
  o_link_parses : bool;         (* ReadLink succeeds on the payload *)
  o_parent : option obj;
}.

Record env := mkenv {
  e_epoch : N;
  e_max : N;                    (* MaxObjectSize *)
  e_rules : list (N * N);       (* EC rules (data, parity) of the container policy *)
  e_rep_rules : N;              (* number of REP rules *)
  e_rep_sum : N;                (* sum of REP numbers (quota prediction) *)
  e_cnr_found : bool;
  e_lock : N;                   (* IsLocked: 0 no, 1 yes, 2 error *)
  e_split_ok : bool;            (* SplitVerifier verdict *)
  e_tomb_ok : bool;             (* TombVerifier verdict *)
  e_quota : option N;           (* hard quota left; None = quota source fails (accept) *)
  e_node_user : bytes;          (* user of the node's own key (trusted path) *)
}.

(* ---- versions -------------------------------------------------------------- *)

Definition ver_valid (v : N * N) : bool :=
  let '(mj, mn) := v in (2 <? mj) || ((mj =? 2) && (7 <=? mn)).

Definition sys_in_header (v : version) : bool :=
  match v with
  | None => false
  | Some (mj, mn) => if ver_valid (mj, mn) then (2 <? mj) || ((mj =? 2) && (17 <? mn)) else false
  end.

Definition owner_match_req (v : version) : bool :=
  match v with
  | None => true
  | Some (mj, mn) => if ver_valid (mj, mn) then (2 <? mj) || ((mj =? 2) && (18 <=? mn)) else true
  end.

Definition valid_new_object := owner_match_req.

Definition ver_eqb (a b : version) : bool :=
  match a, b with
  | None, None => true
  | Some (a1, a2), Some (b1, b2) => (a1 =? b1) && (a2 =? b2)
  | _, _ => false
  end.

(* ---- number parsing (strconv.ParseUint(s,10,64) and strconv.Atoi) -------------- *)

Definition is_digit (b : N) : bool := (48 <=? b) && (b <=? 57).

Fixpoint parse_digits (acc : N) (s : bytes) : option N :=
  match s with
  | [] => Some acc
  | b :: r => if is_digit b then parse_digits (acc * 10 + (b - 48)) r else None
  end.

Definition parse_uint64 (s : bytes) : option N :=
  match s with
  | [] => None
  | _ => match parse_digits 0 s with
         | Some n => if n <? 2 ^ 64 then Some n else None
         | None => None
         end
  end.

Definition parse_nat_nonempty (s : bytes) : option N :=
  match s with [] => None | _ => parse_digits 0 s end.

(* strconv.Atoi on a 64-bit platform *)
Definition parse_int (s : bytes) : option Z :=
  match s with
  | [] => None
  | 43 :: r => match parse_nat_nonempty r with
               | Some n => if n <? 2 ^ 63 then Some (Z.of_N n) else None
               | None => None end
  | 45 :: r => match parse_nat_nonempty r with
               | Some n => if n <=? 2 ^ 63 then Some (- Z.of_N n)%Z else None
               | None => None end
  | _ => match parse_nat_nonempty s with
         | Some n => if n <? 2 ^ 63 then Some (Z.of_N n) else None
         | None => None end
  end.

Fixpoint get_attr (k : bytes) (attrs : list (bytes * bytes)) : option bytes :=
  match attrs with
  | [] => None
  | (k', v) :: r => if bytes_eqb k' k then Some v else get_attr k r
  end.

(* internal/object GetIndexAttribute: None = error, Some None = absent (-1), Some (Some i) *)
Definition index_attr (k : bytes) (attrs : list (bytes * bytes)) : option (option N) :=
  match get_attr k attrs with
  | None => Some None
  | Some [] => Some None
  | Some v => match parse_int v with
              | None => None
              | Some z => if (z <? 0)%Z then None else Some (Some (Z.to_N z))
              end
  end.

(* internal/ec getPartInfo(obj, require=true): None = error *)
Definition required_part_info (attrs : list (bytes * bytes)) : option (N * N) :=
  match index_attr ec_rule_idx_key attrs with
  | None => None
  | Some ri =>
    match index_attr ec_part_idx_key attrs with
    | None => None
    | Some pi =>
      match ri, pi with
      | None, _ => None          (* part set without rule, or both missing while required *)
      | Some _, None => None
      | Some r, Some p => Some (r, p)
      end
    end
  end.

(* GetPartInfo (require=false): None = error, Some None = not an EC part *)
Definition part_info (attrs : list (bytes * bytes)) : option (option (N * N)) :=
  match index_attr ec_rule_idx_key attrs with
  | None => None
  | Some ri =>
    match index_attr ec_part_idx_key attrs with
    | None => None
    | Some pi =>
      match ri, pi with
      | None, Some _ => None
      | None, None => Some None
      | Some _, None => None
      | Some r, Some p => Some (Some (r, p))
      end
    end
  end.

(* ---- lower-case hex (encoding/hex) ------------------------------------------ *)

Definition hex_digit (n : N) : N := if n <? 10 then 48 + n else 87 + n.
Fixpoint hex (b : bytes) : bytes :=
  match b with
  | [] => []
  | x :: r => hex_digit (x / 16) :: hex_digit (x mod 16) :: hex r
  end.

Definition sum_len : N := 65.   (* sha256.Size*2 + 1 in checkECParent *)

(* ---- attributes --------------------------------------------------------------- *)

Definition is_ec_key (k : bytes) : bool := has_prefix ec_prefix k.
Definition has_zero (b : bytes) : bool := existsb (N.eqb 0) b.
Fixpoint mem_key (k : bytes) (seen : list bytes) : bool :=
  match seen with [] => false | s :: r => bytes_eqb s k || mem_key k r end.

(* checkAttributes: running set of keys *)
Fixpoint check_attrs_from (seen : list bytes) (attrs : list (bytes * bytes)) : bool :=
  match attrs with
  | [] => true
  | (k, v) :: r =>
    if mem_key k seen then false else
    if is_nil v then false else
    if has_zero k then false else
    if has_zero v then false else
    check_attrs_from (k :: seen) r
  end.
Definition check_attrs := check_attrs_from [].

Definition check_expiration (e : env) (attrs : list (bytes * bytes)) (required : bool) : bool :=
  match get_attr expiration_key attrs with
  | None => negb required
  | Some v =>
    match parse_uint64 v with
    | None => false
    | Some exp => if exp <? e_epoch e then N.eqb (e_lock e) 1 else true
    end
  end.

(* ---- EC rules (ec.go) ------------------------------------------------------------ *)

Definition id_bytes (o : obj) : bytes := match o_id o with Some i => i | None => [] end.

Fixpoint rules_offset (rules : list (N * N)) (ri pi : N) : N :=
  match rules with
  | [] => 0
  | (d, p) :: r => if ri =? 0 then sum_len * pi else sum_len * (d + p) + rules_offset r (ri - 1) pi
  end.

Definition sub_bytes (s : bytes) (off len : N) : bytes := firstn (N.to_nat len) (skipn (N.to_nat off) s).

(* first attribute with the EC prefix: Some value if it is the hashes attribute, error otherwise *)
Fixpoint parent_hash_attr (attrs : list (bytes * bytes)) : option (option bytes) :=
  match attrs with
  | [] => Some None
  | (k, v) :: r => if is_ec_key k then (if bytes_eqb k ec_hashes_key then Some (Some v) else None)
                   else parent_hash_attr r
  end.

Definition check_ec_parent (parent part : obj) (rules : list (N * N)) (ri pi : N) : bool :=
  match parent_hash_attr (o_attrs parent) with
  | None => false
  | Some None => false
  | Some (Some []) => false
  | Some (Some hashes) =>
    match o_cs part with
    | None => false
    | Some (_, csv) =>
      let off := rules_offset rules ri pi in
      if blen hashes <? off + sum_len - 1 then false else
      bytes_eqb (hex csv) (sub_bytes hashes off (sum_len - 1))
    end
  end.

Definition check_ec_part (part : obj) (rules : list (N * N)) : bool :=
  if is_some (o_sig part) then false else
  if is_some (o_tok1 part) then false else
  match o_parent part with
  | None => false
  | Some parent =>
    if negb (ver_eqb (o_ver parent) (o_ver part)) then false else
    if negb (o_cnr parent =? o_cnr part) then false else
    if negb (bytes_eqb (o_owner parent) (o_owner part)) then false else
    if negb (o_epoch parent =? o_epoch part) then false else
    match required_part_info (o_attrs part) with
    | None => false
    | Some (ri, pi) =>
      match nth_error rules (N.to_nat ri) with
      | None => false
      | Some (d, p) =>
        if d + p <=? pi then false else
        if negb ((o_size parent + d - 1) / d =? o_size part) then false else
        check_ec_parent parent part rules ri pi
      end
    end
  end.

(* attribute scan of checkEC: None = error, Some k = the EC attribute found (or none) *)
Definition ec_attr_scan (attrs : list (bytes * bytes)) (is_parent : bool) : option (option bytes) :=
  match attrs with
  | [] => Some None
  | (first, _) :: rest =>
    if is_ec_key first then
      if negb is_parent && existsb (fun a => negb (is_ec_key (fst a))) rest then None
      else Some (Some first)
    else
      match find (fun a => is_ec_key (fst a)) rest with
      | Some (k, _) => if negb is_parent then None else Some (Some k)
      | None => Some None
      end
  end.

(* checkEC: None = error, Some b = (isEC = b) *)
Definition check_ec (o : obj) (rules : list (N * N)) (blank is_parent : bool) : option bool :=
  match ec_attr_scan (o_attrs o) is_parent with
  | None => None
  | Some eca =>
    if is_nil rules then (if is_some eca then None else Some false) else
    match o_type o with
    | TTombstone | TLock | TLink => if is_some eca then None else Some false
    | TRegular =>
      if is_parent then Some false else
      if blank then (if is_some eca then None else Some false) else
      if negb (is_some eca) then None else
      if negb (check_ec_part o rules) then None else Some true
    | _ => None
    end
  end.

(* ---- the rest of validate ------------------------------------------------------- *)

(* type switch: None = reject, Some b = expiration required *)
Definition type_stage (o : obj) (unprepared : bool) : option bool :=
  match o_type o with
  | TStorageGroup => None
  | TLock | TTombstone =>
    if negb unprepared && negb (sys_in_header (o_ver o)) then None else
    if negb (is_nil (o_payload o)) then None else
    if o_assoc_zero o then None else Some true
  | _ => Some false
  end.

Definition split_stage (o : obj) (is_ec : bool) : bool :=
  if negb is_ec && o_has_split o then
    if o_split_id o then negb (o_first_set o)
    else if o_first_set o then
      let par_sig := match o_parent o with Some p => is_some (o_sig p) | None => false end in
      if otype_eqb (o_type o) TLink && negb par_sig then false else
      if negb (otype_eqb (o_type o) TLink) && o_prev_zero o then false else true
    else true
  else true.

Section Crypto.
  Variable H : bytes -> bytes.
  Variable hstate : Type.
  Variable h0 : hstate.
  Variable upd : hstate -> bytes -> hstate.
  Variable fin : hstate -> bytes.
  Variable sig_ok : N -> bytes -> bytes -> bytes -> bool.   (* scheme, key, signature, message *)
  Variable key_ok : bytes -> bool.                          (* the key decodes *)
  Variable user_of : bytes -> bytes.                        (* account of a public key *)
  Variable tok1_ok : tok1 -> bool.                          (* AuthenticateToken *)
  Variable tok2_ok : tok2 -> bool.                          (* AuthenticateTokenV2 *)
  Variable n3_ok : bytes -> N -> bytes -> bytes -> bytes -> bool. (* owner, epoch, invocation, verification, id *)

  Definition id_ok (o : obj) : bool :=
    match o_id o with Some i => bytes_eqb i (H (o_hdrbin o)) | None => false end.

  (* AuthenticateObject: the session V1 block *)
  Definition tok1_check (o : obj) (s : sigrec) : bool :=
    match o_tok1 o with
    | None => true
    | Some t => bytes_eqb (t1_authkey t) (s_key s) && tok1_ok t
                && negb (negb (bytes_eqb (t1_issuer t) (o_owner o)) && owner_match_req (o_ver o))
    end.
  (* the session V2 block *)
  Definition tok2_check (o : obj) (s : sigrec) (ecdsa : bool) : bool :=
    match o_tok2 o with
    | None => true
    | Some t => (if ecdsa then mem_key (user_of (s_key s)) (t2_subjects t) else true)
                && tok2_ok t && bytes_eqb (t2_issuer t) (o_owner o)
    end.

  (* AuthenticateObject *)
  Definition authenticate (o : obj) : bool :=
    match o_sig o with
    | None => false
    | Some s =>
      if max_script_len <? s_keylen s then false else
      if max_script_len <? s_vallen s then false else
      let ecdsa := s_scheme s <? 3 in
      if negb ecdsa && negb (s_scheme s =? 3) then false else
      if ecdsa && negb (key_ok (s_key s)) then false else
      if negb ecdsa && is_some (o_tok1 o) then false else
      if negb (tok1_check o s) then false else
      if negb (tok2_check o s ecdsa) then false else
      if ecdsa then
        if negb (sig_ok (s_scheme s) (s_key s) (s_val s) (id_bytes o)) then false else
        if negb (is_some (o_tok1 o)) && negb (is_some (o_tok2 o))
           && negb (bytes_eqb (user_of (s_key s)) (o_owner o)) && owner_match_req (o_ver o) then false
        else true
      else n3_ok (o_owner o) (o_epoch o) (s_val s) (s_key s) (id_bytes o)
    end.

  (* FormatValidator.validate *)
  Fixpoint validate (e : env) (unprepared allow_all : bool) (nest : nat) (o : obj) {struct o} : bool :=
    if negb allow_all && negb (valid_new_object (o_ver o)) then false else
    match type_stage o unprepared with
    | None => false
    | Some exp_req =>
      if max_header_len <? o_hdrlen o then false else
      if negb unprepared && negb (is_some (o_id o)) then false else
      if o_cnr o =? 0 then false else
      if is_nil (o_owner o) then false else
      if negb (e_cnr_found e) then false else
      match check_ec o (e_rules e) unprepared (Nat.ltb 0 nest) with
      | None => false
      | Some is_ec =>
        if is_some (o_tok1 o) && is_some (o_tok2 o) then false else
        if negb (split_stage o is_ec) then false else
        if negb (check_attrs (o_attrs o)) then false else
        if negb (check_expiration e (o_attrs o) exp_req) then false else
        if negb unprepared && negb (id_ok o) then false else
        if negb unprepared && negb is_ec && negb (authenticate o) then false else
        match o_parent o with
        | None => true
        | Some p =>
          if Nat.eqb nest max_nesting then false else
          validate e (negb (o_first_set o || o_split_id o || is_ec)) allow_all (S nest) p
        end
      end
    end.

  (* FormatValidator.ValidateContent on the finished object (payload pl) *)
  Definition validate_content (e : env) (o : obj) (pl : bytes) : bool :=
    match o_type o with
    | TLink =>
      if is_nil pl then false else
      if negb (o_first_set o) then false else
      if o_cnr o =? 0 then false else
      if negb (o_link_parses o) then false else e_split_ok e
    | TTombstone | TLock =>
      if negb (sys_in_header (o_ver o)) then false else
      if negb (is_nil pl) then false else
      match o_type o with TTombstone => e_tomb_ok e | _ => true end
    | _ => true
    end.

  (* ---- quota (checkQuotaLimits) ---------------------------------------------- *)
  Definition ec_quota (rules : list (N * N)) (written : N) : N :=
    fold_left (fun acc r => let '(d, p) := r in acc + (d + p) * ((written + d - 1) / d)) rules 0.

  Definition quota_ok (e : env) (is_ec_part unprepared : bool) (written : N) : bool :=
    match e_quota e with
    | None => true
    | Some hard =>
      let needed := if is_ec_part then written
                    else written * e_rep_sum e + (if unprepared then ec_quota (e_rules e) written else 0) in
      needed <=? hard
    end.

  (* ---- Streamer.Init: preparePrm + choice of the target ------------------------ *)
  Inductive target_kind := KReject | KUntrusted (ec_part : bool) | KTrusted.

  Definition init_target (e : env) (o : obj) : target_kind :=
    if o_cnr o =? 0 then KReject else
    if negb (e_cnr_found e) then KReject else
    let typed := negb (is_nil (e_rules e)) && negb (otype_eqb (o_type o) TTombstone)
                 && negb (otype_eqb (o_type o) TLock) && negb (otype_eqb (o_type o) TLink) in
    let pi := if typed then part_info (o_attrs o) else Some None in
    match pi with
    | None => KReject
    | Some None =>
      if typed && (e_rep_rules e =? 0) && is_some (o_sig o) then KReject else
      if e_max e =? 0 then KReject else
      if is_some (o_sig o) then KUntrusted false else KTrusted
    | Some (Some (ri, _)) =>
      if N.of_nat (length (e_rules e)) <=? ri then KReject else
      if is_some (o_sig o) then KReject else
      if e_max e =? 0 then KReject else KUntrusted true
    end.

  (* ---- outcome of one PUT stream ---------------------------------------------- *)
  Inductive outcome := OInitErr | OChunkErr (i : nat) | OCloseErr | OOk.

  (* local storage: the k-th Put call fails when fails k = true *)
  Definition store_result := option (obj * bytes).

  (* distributedTarget.Close for a complete object: content validation, then the store *)
  Definition dist_close (e : env) (o : obj) (pl : bytes) (store_fails : bool) : option (obj * bytes) :=
    if negb (validate_content e o pl) then None else
    if store_fails then None else Some (o, pl).

  Record tstate := mkts {
    ts_written : N;
    ts_h : hstate;
    ts_next : bytes;      (* payload handed to the next target so far *)
  }.

  (* validatingTarget.WriteHeader, untrusted object *)
  Definition write_header (e : env) (ecp : bool) (o : obj) : option tstate :=
    let chunk := blen (o_payload o) in
    if o_size o <? chunk then None else
    if e_max e <? o_size o then None else
    match o_cs o with
    | None => None
    | Some (ty, _) =>
      if negb (ty =? cs_sha256) then None else
      if negb (validate e false false 0 o) then None else
      if negb (quota_ok e ecp false (o_size o)) then None else
      Some (mkts chunk h0 [])
    end.

  (* validatingTarget.Write: inl = error, inr = new state *)
  Definition write_chunk (e : env) (ecp : bool) (o : obj) (st : tstate) (p : bytes) : option tstate :=
    if o_size o <? ts_written st + blen p then None else
    let st' := mkts (ts_written st + blen p) (upd (ts_h st) p) (ts_next st ++ p) in
    if negb (quota_ok e ecp false (ts_written st')) then None else Some st'.

  Fixpoint write_chunks (e : env) (ecp : bool) (o : obj) (st : tstate) (i : nat) (cs : list bytes)
    : nat + tstate :=
    match cs with
    | [] => inr st
    | p :: r => match write_chunk e ecp o st p with
                | None => inl i
                | Some st' => write_chunks e ecp o st' (S i) r
                end
    end.

  Definition cs_value (o : obj) : bytes := match o_cs o with Some (_, v) => v | None => [] end.

  (* validatingTarget.Close *)
  Definition close_target (e : env) (o : obj) (st : tstate) (store_fails : bool) : option (obj * bytes) :=
    if negb (o_size o =? ts_written st) then None else
    if negb (bytes_eqb (fin (ts_h st)) (cs_value o)) then None else
    dist_close e o (ts_next st) store_fails.

  (* the untrusted PUT: Init, SendChunk*, Close; stops at the first error *)
  Definition run_put (e : env) (o : obj) (chunks : list bytes) (store_fails : bool)
    : outcome * option (obj * bytes) :=
    match init_target e o with
    | KUntrusted ecp =>
      match write_header e ecp o with
      | None => (OInitErr, None)
      | Some st =>
        match write_chunks e ecp o st 0 chunks with
        | inl i => (OChunkErr i, None)
        | inr st' =>
          match close_target e o st' store_fails with
          | None => (OCloseErr, None)
          | Some s => (OOk, Some s)
          end
        end
      end
    | _ => (OInitErr, None)
    end.

  Definition accepted (r : outcome * option (obj * bytes)) : bool :=
    match fst r with OOk => true | _ => false end.

  (* ---- ValidateAndStoreObjectLocally (Server.Replicate) ----------------------------- *)
  Definition run_repl (e : env) (o : obj) (store_fails : bool) : option (obj * bytes) :=
    if o_cnr o =? 0 then None else
    match o_cs o with
    | None => None
    | Some (ty, csv) =>
      if negb (ty =? cs_sha256) then None else
      if e_max e =? 0 then None else
      if negb (o_size o =? blen (o_payload o)) then None else
      if e_max e <? o_size o then None else
      if negb (validate e false true 0 o) then None else
      if negb (validate_content e o (o_payload o)) then None else
      if negb (bytes_eqb (H (o_payload o)) csv) then None else
      if store_fails then None else Some (o, o_payload o)
    end.

  (* ---- trusted PUT: the node slices the stream itself ------------------------------ *)
  (* SDK slicer PayloadWriter, payload arithmetic only: buf = bytes buffered for the current
     child, emitted children in order, total = bytes accepted so far. put_no counts Put calls
     of the local storage; fails says which of them fail. *)
  Record sstate := mkss {
    ss_buf : bytes;
    ss_out : list bytes;       (* payloads of the children stored so far *)
    ss_split : bool;
    ss_total : N;
    ss_puts : nat;
  }.

  (* PayloadWriter.Write; fuel bounds the tail call (at most one re-entry per emitted child).
     Result: state reached, and whether the call succeeded. *)
  Fixpoint slicer_write (fuel : nat) (limit : N) (fixed : option N) (fails : nat -> bool)
           (st : sstate) (chunk : bytes) : sstate * bool :=
    match fuel with
    | O => (st, false)
    | S fuel' =>
      if is_nil chunk then (st, true) else
      if (match fixed with Some sz => sz <? ss_total st + blen chunk | None => false end) then (st, false) else
      if blen (ss_buf st) + blen chunk <=? limit then
        (mkss (ss_buf st ++ chunk) (ss_out st) (ss_split st) (ss_total st + blen chunk) (ss_puts st), true)
      else
        let n := N.to_nat (limit - blen (ss_buf st)) in
        let child := ss_buf st ++ firstn n chunk in
        if fails (ss_puts st) then (mkss (ss_buf st) (ss_out st) true (ss_total st) (S (ss_puts st)), false) else
        slicer_write fuel' limit fixed fails
          (mkss [] (ss_out st ++ [child]) true (ss_total st + N.of_nat n) (S (ss_puts st)))
          (skipn n chunk)
    end.

  Definition slicer_fuel (chunk : bytes) : nat := S (S (length chunk)).

  (* SendChunk*: validatingTarget.Write (unprepared) = slicer write, then the quota check *)
  Fixpoint slicer_writes (e : env) (limit : N) (fixed : option N) (fails : nat -> bool)
           (st : sstate) (i : nat) (cs : list bytes) : sstate * option nat :=
    match cs with
    | [] => (st, None)
    | p :: r =>
      match slicer_write (slicer_fuel p) limit fixed fails st p with
      | (st', false) => (st', Some i)
      | (st', true) =>
        if negb (quota_ok e false true (ss_total st')) then (st', Some i)
        else slicer_writes e limit fixed fails st' (S i) r
      end
    end.

  (* PayloadWriter.Close: the last child (and the link object of a split chain).
     Result: payloads of all stored children, success *)
  Definition slicer_close (e : env) (fixed : option N) (fails : nat -> bool) (st : sstate)
    : list bytes * bool :=
    if (match fixed with Some sz => ss_total st <? sz | None => false end) then (ss_out st, false) else
    if fails (ss_puts st) then (ss_out st, false) else
    let out := ss_out st ++ [ss_buf st] in
    if ss_split st then
      (if negb (e_split_ok e) then (out, false) else if fails (S (ss_puts st)) then (out, false) else (out, true))
    else (out, true).

  (* trusted path without a request session: the object must belong to the node's own key *)
  Definition trusted_ok (e : env) (o : obj) : bool :=
    negb (is_nil (o_owner o)) && bytes_eqb (o_owner o) (e_node_user e).

  Definition slice_fixed (o : obj) : option N :=
    if (o_size o =? 0) || (o_size o =? 2 ^ 64 - 1) then None else Some (o_size o).
  Definition slice_limit (e : env) (o : obj) : N :=
    match slice_fixed o with Some sz => N.min sz (e_max e) | None => e_max e end.

  (* outcome and the payloads of the stored children (REGULAR objects, in store order) *)
  Definition run_slice (e : env) (o : obj) (chunks : list bytes) (fails : nat -> bool)
    : outcome * list bytes :=
    match init_target e o with
    | KTrusted =>
      if negb (trusted_ok e o) then (OInitErr, []) else
      if negb (validate e true false 0 o) then (OInitErr, []) else
      if negb (quota_ok e false true (o_size o)) then (OInitErr, []) else
      match slicer_writes e (slice_limit e o) (slice_fixed o) fails (mkss [] [] false 0 0) 0 chunks with
      | (st, Some i) => (OChunkErr i, ss_out st)
      | (st, None) =>
        match slicer_close e (slice_fixed o) fails st with
        | (out, false) => (OCloseErr, out)
        | (out, true) => (OOk, out)
        end
      end
    | _ => (OInitErr, [])
    end.

End Crypto.
