(* C24 — the executable reference evaluated by the check (Spec.stored_okb) against the Prop of
   the theorems (Spec.stored_ok).
     stored_okb_sound : stored_okb = true -> stored_ok       (whatever the check accepts satisfies
                        the right-hand side of the theorems: no violation of stored_ok can pass)
   Component equivalences (both directions): nodupb/NoDup, attrs_okb/attrs_ok, the attribute loop
   check_attrs = attrs_okb, check_expiration/expiration_ok, header_okb/header_ok, chain_okb/chain_ok,
   ec_uniformb/ec_uniform, validate_content/content_ok, id_ok.
   The converse stored_ok -> stored_okb = true does NOT hold: the executable form is strictly
   stronger in three places (it shares them with the admission model): authenticate also bounds the
   script lengths, check_ec_part also requires a non-empty, long enough hash attribute, and the
   parent header of an EC part must classify (check_ec <> None). *)
From Coq Require Import List NArith ZArith Bool Arith Lia.
Import ListNotations.
From NV Require Import Gen.ObjFmtConsts ObjFmt.Model ObjFmt.Spec ObjFmt.Proofs.
Local Open Scope N_scope.

(* ---- attributes *)
Lemma nodupb_spec l : nodupb l = true <-> NoDup l.
Proof.
  induction l as [|x r IH]; simpl.
  - split; [constructor|auto].
  - rewrite andb_true_iff, negb_true_iff, IH. split.
    + intros [Hm Hn]. constructor; auto. intros Hin. apply mem_key_in in Hin. congruence.
    + intros Hn. inversion Hn; subst. split; auto.
      destruct (mem_key x r) eqn:E; auto. apply mem_key_in in E. contradiction.
Qed.

Lemma has_zero_spec b : has_zero b = false <-> ~ In 0 b.
Proof.
  split; [apply has_zero_false|]. intros Hn. unfold has_zero.
  destruct (existsb (N.eqb 0) b) eqn:E; auto. apply existsb_exists in E as [x [Hin Hx]].
  apply N.eqb_eq in Hx. subst. contradiction.
Qed.

Lemma is_nil_spec {A} (l : list A) : is_nil l = false <-> l <> [].
Proof. destruct l; simpl; split; intros; congruence. Qed.

Lemma attr_okb_spec a : attr_okb a = true <-> attr_ok a.
Proof.
  unfold attr_okb, attr_ok. rewrite !andb_true_iff, !negb_true_iff, is_nil_spec, !has_zero_spec. tauto.
Qed.

Lemma attrs_okb_spec attrs : attrs_okb attrs = true <-> attrs_ok attrs.
Proof.
  unfold attrs_okb, attrs_ok. rewrite andb_true_iff, nodupb_spec, forallb_forall, Forall_forall.
  split; intros [A B]; split; auto; intros x Hx; apply attr_okb_spec; auto.
Qed.

(* the running-set loop of checkAttributes accepts exactly the declarative attribute lists *)
Lemma check_attrs_from_complete : forall attrs seen,
  NoDup (map fst attrs) -> (forall k, In k (map fst attrs) -> ~ In k seen) -> Forall attr_ok attrs ->
  check_attrs_from seen attrs = true.
Proof.
  induction attrs as [|[k v] r IH]; intros seen Hn Hs Hf; [reflexivity|].
  cbn in *. inversion Hn as [|x l Hk Hr]; subst. inversion Hf as [|y m Ha Hf']; subst.
  destruct Ha as [A1 [A2 A3]]. cbn in A1, A2, A3.
  destruct (mem_key k seen) eqn:Em.
  { apply mem_key_in in Em. exfalso. apply (Hs k); auto. }
  rewrite (proj2 (is_nil_spec v) A1), (proj2 (has_zero_spec k) A2), (proj2 (has_zero_spec v) A3).
  apply IH; auto. intros k' Hk' [E|Hin]; [subst; contradiction|]. apply (Hs k'); auto.
Qed.

Lemma check_attrs_spec attrs : check_attrs attrs = true <-> attrs_ok attrs.
Proof.
  split; [apply check_attrs_sound|]. intros [A B]. apply check_attrs_from_complete; auto.
Qed.

Lemma check_attrs_eq_okb attrs : check_attrs attrs = attrs_okb attrs.
Proof. apply eq_true_iff_eq. rewrite check_attrs_spec, attrs_okb_spec. reflexivity. Qed.

(* ---- expiration *)
Lemma check_expiration_spec e attrs req : check_expiration e attrs req = true <-> expiration_ok e attrs req.
Proof.
  split; [apply check_expiration_sound|].
  unfold check_expiration, expiration_ok. destruct (get_attr expiration_key attrs) as [v|].
  - intros [ex [Hp Hc]]. rewrite Hp. destruct (ex <? e_epoch e) eqn:El; auto.
    apply N.ltb_lt in El. destruct Hc as [Hc|Hc]; [lia|]. now apply N.eqb_eq.
  - intros ->. reflexivity.
Qed.

(* ---- one header, the chain *)
Lemma otype_eqb_eq a b : otype_eqb a b = true <-> a = b.
Proof. destruct a, b; simpl; split; intros; congruence. Qed.

Lemma is_some_spec {A} (o : option A) : is_some o = true <-> o <> None.
Proof. destruct o; simpl; split; intros; congruence. Qed.

Lemma header_okb_spec e a o : header_okb e a o = true <-> header_ok e a o.
Proof.
  unfold header_okb, header_ok.
  rewrite !andb_true_iff, orb_true_iff, !negb_true_iff, N.leb_le, attrs_okb_spec, check_expiration_spec.
  assert (T : otype_eqb (o_type o) TStorageGroup = false <-> o_type o <> TStorageGroup).
  { rewrite <- otype_eqb_eq. destruct (otype_eqb (o_type o) TStorageGroup); split; congruence. }
  assert (S : (if sys_type o then is_nil (o_payload o) && negb (o_assoc_zero o) else true) = true <->
              (sys_type o = true -> o_payload o = [] /\ o_assoc_zero o = false)).
  { destruct (sys_type o).
    - rewrite andb_true_iff, negb_true_iff. split.
      + intros [A B] _. split; auto. now apply is_nil_true.
      + intros Hh. destruct (Hh eq_refl) as [A B]. rewrite A. auto.
    - split; auto. intros _ Hh. discriminate. }
  assert (C : (o_cnr o =? 0) = false <-> o_cnr o <> 0) by apply N.eqb_neq.
  assert (O : is_nil (o_owner o) = false <-> o_owner o <> []) by apply is_nil_spec.
  assert (K : (is_some (o_tok1 o) && is_some (o_tok2 o)) = false <-> ~ (o_tok1 o <> None /\ o_tok2 o <> None)).
  { rewrite <- !is_some_spec. destruct (is_some (o_tok1 o)), (is_some (o_tok2 o)); simpl; split; intros Hh;
      try reflexivity; try discriminate; try (intros [X Y]; discriminate).
    exfalso. apply Hh. auto. }
  rewrite T, S, C, O, K. tauto.
Qed.

Lemma chain_okb_spec e a : forall o, chain_okb e a o = true <-> chain_ok e a o.
Proof.
  fix IH 1. intros o. destruct o as [ver ty cnr id hdrbin hdrlen owner epoch attrs size cs payload sg t1 t2 f1 f2 f3 f4 f5 f6 parent].
  cbn [chain_okb chain_ok o_parent]. rewrite andb_true_iff, header_okb_spec.
  destruct parent as [p|].
  - rewrite (IH p). reflexivity.
  - tauto.
Qed.

Lemma ec_uniformb_spec attrs : ec_uniformb attrs = true <-> ec_uniform attrs.
Proof.
  unfold ec_uniformb, ec_uniform. rewrite orb_true_iff, !forallb_forall, !Forall_forall.
  split; (intros [Hh|Hh]; [left|right]); intros x Hx; specialize (Hh x Hx).
  - auto.
  - now apply negb_true_iff in Hh.
  - auto.
  - now apply negb_true_iff.
Qed.

Lemma format_okb_sound e a o : format_okb e a o = true -> format_ok e a o.
Proof.
  unfold format_okb, format_ok. rewrite !andb_true_iff. intros [[[[A B] C] D] E].
  split; [now apply chain_okb_spec|]. split; [now apply Nat.leb_le|]. split; [now apply ec_uniformb_spec|]. split.
  - intros Hh. rewrite Hh in D. now apply check_ec_part_sound.
  - intros Hh. rewrite Hh in E. now apply negb_true_iff in E.
Qed.

Lemma validate_content_complete e o pl : content_ok e o pl -> validate_content e o pl = true.
Proof.
  unfold validate_content, content_ok. destruct (o_type o); auto.
  - intros [A [B C]]. rewrite A, B, C. reflexivity.
  - intros [A B]. rewrite A, B. reflexivity.
  - intros [A [B [C [D E]]]]. rewrite (proj2 (is_nil_spec pl) A), B, D, E.
    rewrite (proj2 (N.eqb_neq _ _) C). reflexivity.
Qed.

Section Crypto.
  Variable H : bytes -> bytes.
  Variable sig_ok : N -> bytes -> bytes -> bytes -> bool.
  Variable key_ok : bytes -> bool.
  Variable user_of : bytes -> bytes.
  Variable tok1_ok : tok1 -> bool.
  Variable tok2_ok : tok2 -> bool.
  Variable n3_ok : bytes -> N -> bytes -> bytes -> bytes -> bool.

  Notation authenticate := (authenticate sig_ok key_ok user_of tok1_ok tok2_ok n3_ok).
  Notation auth_ok := (auth_ok sig_ok key_ok user_of tok1_ok tok2_ok n3_ok).
  Notation stored_ok := (stored_ok H sig_ok key_ok user_of tok1_ok tok2_ok n3_ok).
  Notation stored_okb := (stored_okb H sig_ok key_ok user_of tok1_ok tok2_ok n3_ok).

  Lemma id_ok_iff o : id_ok H o = true <-> o_id o = Some (H (o_hdrbin o)).
  Proof.
    split; [apply id_ok_spec0|]. unfold id_ok. intros ->. apply bytes_eqb_refl.
  Qed.

  (* whatever the executable reference accepts satisfies the Prop of the theorems *)
  Theorem stored_okb_sound e a o pl : stored_okb e a o pl = true -> stored_ok e a o pl.
  Proof.
    unfold Spec.stored_okb, Spec.stored_ok. rewrite !andb_true_iff.
    intros [[[[[[A B] C] D] E] F] G].
    split; [now apply id_ok_iff|]. split; [now apply N.eqb_eq|]. split.
    { destruct (o_cs o) as [[ty v]|]; [|discriminate]. exists ty. apply bytes_eqb_eq in C. now subst. }
    split; [now apply validate_content_spec|]. split.
    { intros He. rewrite He in E. unfold ec_parent_auth.
      destruct (o_parent o) as [p|]; [|discriminate]. apply andb_true_iff in E as [E1 E2].
      exists p. split; auto. split; [now apply id_ok_iff|].
      intros Hc. rewrite Hc in E2. now apply authenticate_sound. }
    split; [now apply format_okb_sound|].
    intros He. rewrite He in G. now apply authenticate_sound.
  Qed.
  (* ---- the converse, where it holds.  authenticate also bounds the two script lengths
     (MaxVerificationScriptLength), which auth_ok does not mention *)
  Definition script_len_ok (o : obj) : Prop :=
    match o_sig o with
    | Some s => s_keylen s <= max_script_len /\ s_vallen s <= max_script_len
    | None => True
    end.

  Lemma authenticate_complete o : auth_ok o -> script_len_ok o -> authenticate o = true.
  Proof.
    intros [s [Hs [T1 [T2 D]]]] L. unfold script_len_ok in L. unfold Model.authenticate. rewrite Hs in *.
    destruct L as [L1 L2]. rewrite (proj2 (N.ltb_ge _ _) L1), (proj2 (N.ltb_ge _ _) L2). cbv zeta.
    assert (C1 : tok1_check tok1_ok o s = true).
    { unfold tok1_check. destruct (o_tok1 o) as [t|]; auto. destruct T1 as [A [B C]].
      rewrite A, bytes_eqb_refl, B. cbn [andb]. destruct C as [C|C].
      - rewrite C, bytes_eqb_refl. reflexivity.
      - unfold legacy in C. rewrite C. now rewrite andb_false_r. }
    assert (C2 : tok2_check user_of tok2_ok o s (s_scheme s <? 3) = true).
    { unfold tok2_check. destruct (o_tok2 o) as [t|]; auto. destruct T2 as [A [B C]].
      rewrite A, B, bytes_eqb_refl. rewrite !andb_true_r.
      destruct (s_scheme s <? 3) eqn:E; auto. apply mem_key_in. apply C. now apply N.ltb_lt. }
    rewrite C1, C2. cbn [negb].
    destruct D as [[S3 [K [SG OW]]] | [S3 [TN N3]]].
    - rewrite (proj2 (N.ltb_lt _ _) S3). cbn [negb andb]. rewrite K, SG. cbn [negb andb].
      destruct (o_tok1 o) as [t1|]; [reflexivity|]. destruct (o_tok2 o) as [t2|]; [reflexivity|].
      cbn [is_some negb andb]. destruct (OW eq_refl eq_refl) as [E|E].
      + rewrite E, bytes_eqb_refl. reflexivity.
      + unfold legacy in E. rewrite E. now rewrite andb_false_r.
    - rewrite S3, TN. cbn. exact N3.
  Qed.

  (* completeness up to the three places where the executable form is stronger (stated as
     premises): script lengths of the authenticating signature, the hash-attribute length checks
     of check_ec_part, and the EC classification of the parent header of an EC part *)
  Theorem stored_okb_complete_partial e a o pl :
    stored_ok e a o pl ->
    (is_ec_obj e o = false -> script_len_ok o) ->
    (is_ec_obj e o = true ->
       check_ec_part o (e_rules e) = true /\
       forall p, o_parent o = Some p ->
                 check_ec p (e_rules e) false true <> None /\
                 (check_ec p (e_rules e) false true = Some false -> script_len_ok p)) ->
    stored_okb e a o pl = true.
  Proof.
    unfold Spec.stored_ok, Spec.stored_okb. intros [A [B [[ty C] [D [E [F G]]]]]] L1 L2.
    destruct F as [F1 [F2 [F3 [F4 F5]]]].
    rewrite (proj2 (id_ok_iff o) A), B, N.eqb_refl, C, bytes_eqb_refl, (validate_content_complete _ _ _ D).
    cbn [andb].
    assert (FB : format_okb e a o = true).
    { unfold format_okb. rewrite (proj2 (chain_okb_spec e a o) F1), (proj2 (Nat.leb_le _ _) F2),
        (proj2 (ec_uniformb_spec _) F3). cbn [andb].
      destruct (is_ec_obj e o) eqn:He.
      - rewrite (proj1 (L2 eq_refl)). cbn [andb]. destruct (is_nil (e_rules e)) eqn:Hr; auto.
        unfold is_ec_obj in He. rewrite Hr in He. discriminate.
      - cbn [andb]. destruct (is_nil (e_rules e)) eqn:Hr; auto. now rewrite (F5 eq_refl). }
    rewrite FB. destruct (is_ec_obj e o) eqn:He.
    - destruct (E eq_refl) as [p [Hp [Hid Ha]]]. rewrite Hp, (proj2 (id_ok_iff p) Hid). cbn [andb].
      destruct (L2 eq_refl) as [_ L]. destruct (L p Hp) as [Hn Hl].
      destruct (check_ec p (e_rules e) false true) as [[|]|] eqn:Hc.
      + reflexivity.
      + rewrite authenticate_complete; auto.
      + exfalso. now apply Hn.
    - cbn [andb]. apply authenticate_complete; auto.
  Qed.
End Crypto.
