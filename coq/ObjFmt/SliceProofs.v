(* C24 — node-side slicing (trusted PUT): the payloads of the stored children concatenate to
   the streamed payload, for any chunking, size limit and declared size; a failing store of
   a child never goes unnoticed. Payload arithmetic of the SDK slicer only (see Model.v). *)
From Coq Require Import List NArith ZArith Bool Arith Lia.
Import ListNotations.
From NV Require Import Gen.ObjFmtConsts ObjFmt.Model ObjFmt.Spec ObjFmt.Proofs.
Local Open Scope N_scope.

Definition sl_data (st : sstate) : bytes := concat (ss_out st) ++ ss_buf st.

Definition sl_inv (limit : N) (fails : nat -> bool) (st : sstate) : Prop :=
  blen (ss_buf st) <= limit /\
  Forall (fun c => blen c <= limit) (ss_out st) /\
  ss_puts st = length (ss_out st) /\
  (forall k, (k < ss_puts st)%nat -> fails k = false).

Lemma blen_app' : forall a b, blen (a ++ b) = blen a + blen b.
Proof. intros. unfold blen. rewrite app_length. lia. Qed.

Lemma firstn_blen : forall n (l : bytes), blen (firstn n l) <= N.of_nat n.
Proof. intros. unfold blen. rewrite firstn_length. lia. Qed.

Lemma slicer_write_ok : forall fuel limit fixed fails st chunk st',
  slicer_write fuel limit fixed fails st chunk = (st', true) ->
  sl_inv limit fails st ->
  sl_inv limit fails st' /\ sl_data st' = sl_data st ++ chunk.
Proof.
  induction fuel as [|fuel IH]; intros limit fixed fails st chunk st' Hw Hinv; cbn [slicer_write] in Hw.
  - discriminate.
  - destruct (is_nil chunk) eqn:En.
    + apply is_nil_true in En. subst chunk. inversion Hw; subst st'. rewrite app_nil_r. split; [exact Hinv|reflexivity].
    + destruct (match fixed with Some sz => sz <? ss_total st + blen chunk | None => false end); [discriminate|].
      destruct Hinv as [Hb [Hall [Hp Hf]]].
      destruct (blen (ss_buf st) + blen chunk <=? limit) eqn:El.
      * inversion Hw; subst st'. clear Hw. apply N.leb_le in El. unfold sl_inv, sl_data. cbn [ss_buf ss_out ss_puts].
        split; [|rewrite app_assoc; reflexivity].
        split; [rewrite blen_app'; exact El|]. split; [exact Hall|]. split; assumption.
      * destruct (fails (ss_puts st)) eqn:Efl; [discriminate|].
        apply N.leb_gt in El.
        set (n := N.to_nat (limit - blen (ss_buf st))) in *.
        set (child := ss_buf st ++ firstn n chunk) in *.
        assert (Hinv1 : sl_inv limit fails (mkss [] (ss_out st ++ [child]) true (ss_total st + N.of_nat n) (S (ss_puts st)))).
        { unfold sl_inv. cbn [ss_buf ss_out ss_puts]. split; [unfold blen; cbn; lia|].
          split.
          - apply Forall_app. split; [exact Hall|]. constructor; [|constructor].
            unfold child. rewrite blen_app'. pose proof (firstn_blen n chunk) as Hfn. unfold n in Hfn at 2.
            rewrite N2Nat.id in Hfn. lia.
          - split; [rewrite app_length; cbn; lia|].
            intros k Hk. destruct (Nat.eq_dec k (ss_puts st)) as [->|Hne]; [exact Efl|]. apply Hf. lia. }
        destruct (IH _ _ _ _ _ _ Hw Hinv1) as [Hinv' Hd]. split; [exact Hinv'|].
        rewrite Hd. unfold sl_data. cbn [ss_buf ss_out]. rewrite concat_app. cbn [concat]. rewrite !app_nil_r.
        unfold child. rewrite <- !app_assoc. rewrite firstn_skipn. reflexivity.
Qed.

Lemma slicer_writes_ok : forall e limit fixed fails cs st i st',
  slicer_writes e limit fixed fails st i cs = (st', None) ->
  sl_inv limit fails st ->
  sl_inv limit fails st' /\ sl_data st' = sl_data st ++ concat cs.
Proof.
  induction cs as [|p r IH]; intros st i st' Hw Hinv; cbn [slicer_writes] in Hw.
  - inversion Hw; subst st'. cbn [concat]. rewrite app_nil_r. split; [exact Hinv|reflexivity].
  - destruct (slicer_write (slicer_fuel p) limit fixed fails st p) as [st1 ok] eqn:E1.
    destruct ok; [|discriminate].
    destruct (negb (quota_ok e false true (ss_total st1))); [discriminate|].
    destruct (slicer_write_ok _ _ _ _ _ _ _ E1 Hinv) as [Hinv1 Hd1].
    destruct (IH _ _ _ Hw Hinv1) as [Hinv' Hd]. split; [exact Hinv'|].
    rewrite Hd, Hd1. cbn [concat]. rewrite app_assoc. reflexivity.
Qed.

Section Crypto.
  Variable H : bytes -> bytes.
  Variable sig_ok : N -> bytes -> bytes -> bytes -> bool.
  Variable key_ok : bytes -> bool.
  Variable user_of : bytes -> bytes.
  Variable tok1_ok : tok1 -> bool.
  Variable tok2_ok : tok2 -> bool.
  Variable n3_ok : bytes -> N -> bytes -> bytes -> bytes -> bool.
  Notation run_slice := (run_slice H sig_ok key_ok user_of tok1_ok tok2_ok n3_ok).

  (* success of a sliced PUT: the children reassemble to the stream, each within the limit,
     and every local store that was attempted succeeded *)
  Theorem slices_reassemble : forall e o chunks fails out,
    run_slice e o chunks fails = (OOk, out) ->
    concat out = concat chunks /\
    Forall (fun c => blen c <= slice_limit e o) out /\
    (forall k, (k < length out)%nat -> fails k = false).
  Proof.
    unfold Model.run_slice. intros e o chunks fails out Hr.
    destruct (init_target e o); try discriminate.
    destruct (negb (trusted_ok e o)); [discriminate|].
    destruct (negb (Model.validate H sig_ok key_ok user_of tok1_ok tok2_ok n3_ok e true false 0 o)); [discriminate|].
    destruct (negb (quota_ok e false true (o_size o))); [discriminate|].
    destruct (slicer_writes e (slice_limit e o) (slice_fixed o) fails (mkss [] [] false 0 0) 0 chunks) as [st oi] eqn:Ew.
    destruct oi as [i|]; [discriminate|].
    assert (Hinv0 : sl_inv (slice_limit e o) fails (mkss [] [] false 0 0)).
    { unfold sl_inv. cbn [ss_buf ss_out ss_puts length]. split; [unfold blen; cbn; lia|]. split; [constructor|]. split; [reflexivity|]. intros k Hk. lia. }
    destruct (slicer_writes_ok _ _ _ _ _ _ _ _ Ew Hinv0) as [[Hb [Hall [Hp Hf]]] Hd].
    unfold sl_data in Hd. cbn [ss_out ss_buf concat app] in Hd.
    unfold slicer_close in Hr.
    destruct (match slice_fixed o with Some sz => ss_total st <? sz | None => false end); [discriminate|].
    destruct (fails (ss_puts st)) eqn:Efl; [discriminate|].
    assert (Hout : out = ss_out st ++ [ss_buf st]).
    { destruct (ss_split st).
      - destruct (negb (e_split_ok e)); [discriminate|]. destruct (fails (S (ss_puts st))); [discriminate|].
        inversion Hr. reflexivity.
      - inversion Hr. reflexivity. }
    subst out. split; [rewrite concat_app; cbn [concat]; rewrite app_nil_r; exact Hd|].
    split.
    - apply Forall_app. split; [exact Hall|]. constructor; [exact Hb|constructor].
    - intros k Hk. rewrite app_length in Hk. cbn in Hk.
      destruct (Nat.eq_dec k (ss_puts st)) as [->|Hne]; [exact Efl|]. apply Hf. lia.
  Qed.
End Crypto.
