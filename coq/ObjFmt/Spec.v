(* C24 — what "self-consistent, authenticated, well-formed" means (the right-hand sides of the
   theorems). Definitions only. Props are the statements; the *b functions are their executable
   forms (reflection lemmas in Proofs.v) which the check evaluates on what the node stored. *)
From Coq Require Import List NArith ZArith Bool Arith.
Import ListNotations.
From NV Require Import Gen.ObjFmtConsts ObjFmt.Model.
Local Open Scope N_scope.

(* ---- attributes ------------------------------------------------------------------ *)
Definition attr_ok (a : bytes * bytes) : Prop := snd a <> [] /\ ~ In 0 (fst a) /\ ~ In 0 (snd a).
Definition attrs_ok (attrs : list (bytes * bytes)) : Prop :=
  NoDup (map fst attrs) /\ Forall attr_ok attrs.

Fixpoint nodupb (l : list bytes) : bool :=
  match l with [] => true | x :: r => negb (mem_key x r) && nodupb r end.
Definition attr_okb (a : bytes * bytes) : bool :=
  negb (is_nil (snd a)) && negb (has_zero (fst a)) && negb (has_zero (snd a)).
Definition attrs_okb (attrs : list (bytes * bytes)) : bool :=
  nodupb (map fst attrs) && forallb attr_okb attrs.

(* expiration: absent unless required; a decimal uint64; not in the past unless locked *)
Definition expiration_ok (e : env) (attrs : list (bytes * bytes)) (required : bool) : Prop :=
  match get_attr expiration_key attrs with
  | None => required = false
  | Some v => exists exp, parse_uint64 v = Some exp /\ (e_epoch e <= exp \/ e_lock e = 1)
  end.

(* EC attributes are never mixed with other attributes *)
Definition ec_uniform (attrs : list (bytes * bytes)) : Prop :=
  Forall (fun a => is_ec_key (fst a) = true) attrs \/ Forall (fun a => is_ec_key (fst a) = false) attrs.
Definition ec_uniformb (attrs : list (bytes * bytes)) : bool :=
  forallb (fun a => is_ec_key (fst a)) attrs || forallb (fun a => negb (is_ec_key (fst a))) attrs.

Definition has_ec_attr (o : obj) : bool := existsb (fun a => is_ec_key (fst a)) (o_attrs o).

(* an EC part agrees with the policy and with its parent header *)
Definition ec_part_ok (rules : list (N * N)) (o : obj) : Prop :=
  o_sig o = None /\ o_tok1 o = None /\
  exists parent ri pi d p hashes csty csv,
    o_parent o = Some parent /\
    o_ver parent = o_ver o /\ o_cnr parent = o_cnr o /\ o_owner parent = o_owner o /\ o_epoch parent = o_epoch o /\
    required_part_info (o_attrs o) = Some (ri, pi) /\
    nth_error rules (N.to_nat ri) = Some (d, p) /\ pi < d + p /\
    (o_size parent + d - 1) / d = o_size o /\
    parent_hash_attr (o_attrs parent) = Some (Some hashes) /\
    o_cs o = Some (csty, csv) /\
    hex csv = sub_bytes hashes (rules_offset rules ri pi) (sum_len - 1).

(* is the (top-level, complete) object an EC part in this container? *)
Definition is_ec_obj (e : env) (o : obj) : bool :=
  negb (is_nil (e_rules e)) && otype_eqb (o_type o) TRegular && has_ec_attr o.

(* ---- format of one header, and of the chain of parent headers -------------------------- *)
Definition sys_type (o : obj) : bool := otype_eqb (o_type o) TLock || otype_eqb (o_type o) TTombstone.

Definition header_ok (e : env) (allow_all : bool) (o : obj) : Prop :=
  (allow_all = true \/ valid_new_object (o_ver o) = true) /\
  o_type o <> TStorageGroup /\
  (sys_type o = true -> o_payload o = [] /\ o_assoc_zero o = false) /\
  o_hdrlen o <= max_header_len /\
  o_cnr o <> 0 /\ o_owner o <> [] /\
  ~ (o_tok1 o <> None /\ o_tok2 o <> None) /\
  attrs_ok (o_attrs o) /\
  expiration_ok e (o_attrs o) (sys_type o).

Definition header_okb (e : env) (allow_all : bool) (o : obj) : bool :=
  (allow_all || valid_new_object (o_ver o)) &&
  negb (otype_eqb (o_type o) TStorageGroup) &&
  (if sys_type o then is_nil (o_payload o) && negb (o_assoc_zero o) else true) &&
  (o_hdrlen o <=? max_header_len) &&
  negb (o_cnr o =? 0) && negb (is_nil (o_owner o)) &&
  negb (is_some (o_tok1 o) && is_some (o_tok2 o)) &&
  attrs_okb (o_attrs o) &&
  check_expiration e (o_attrs o) (sys_type o).

(* every header of the parent chain is well-formed; the chain is at most max_nesting deep *)
Fixpoint chain_ok (e : env) (allow_all : bool) (o : obj) : Prop :=
  header_ok e allow_all o /\
  match o_parent o with None => True | Some p => chain_ok e allow_all p end.
Fixpoint chain_okb (e : env) (allow_all : bool) (o : obj) : bool :=
  header_okb e allow_all o &&
  match o_parent o with None => true | Some p => chain_okb e allow_all p end.

Fixpoint depth (o : obj) : nat :=
  match o_parent o with None => 0%nat | Some p => S (depth p) end.

Definition format_ok (e : env) (allow_all : bool) (o : obj) : Prop :=
  chain_ok e allow_all o /\ (depth o <= max_nesting)%nat /\ ec_uniform (o_attrs o) /\
  (is_ec_obj e o = true -> ec_part_ok (e_rules e) o) /\
  (is_nil (e_rules e) = true -> has_ec_attr o = false).

Definition format_okb (e : env) (allow_all : bool) (o : obj) : bool :=
  chain_okb e allow_all o && Nat.leb (depth o) max_nesting && ec_uniformb (o_attrs o) &&
  (if is_ec_obj e o then check_ec_part o (e_rules e) else true) &&
  (if is_nil (e_rules e) then negb (has_ec_attr o) else true).

Section Crypto.
  Variable H : bytes -> bytes.
  Variable sig_ok : N -> bytes -> bytes -> bytes -> bool.
  Variable key_ok : bytes -> bool.
  Variable user_of : bytes -> bytes.
  Variable tok1_ok : tok1 -> bool.
  Variable tok2_ok : tok2 -> bool.
  Variable n3_ok : bytes -> N -> bytes -> bytes -> bytes -> bool.

  (* legacy objects (before 2.18) may carry an owner that is not the signer: documented
     exemption of the implementation, only reachable through replication (allow_all) *)
  Definition legacy (o : obj) : Prop := owner_match_req (o_ver o) = false.

  (* the signature over the object ID authenticates the owner or the session *)
  Definition auth_ok (o : obj) : Prop :=
    exists s, o_sig o = Some s /\
      (match o_tok1 o with
       | None => True
       | Some t => t1_authkey t = s_key s /\ tok1_ok t = true /\ (t1_issuer t = o_owner o \/ legacy o)
       end) /\
      (match o_tok2 o with
       | None => True
       | Some t => tok2_ok t = true /\ t2_issuer t = o_owner o /\
                   (s_scheme s < 3 -> In (user_of (s_key s)) (t2_subjects t))
       end) /\
      ((s_scheme s < 3 /\ key_ok (s_key s) = true /\
        sig_ok (s_scheme s) (s_key s) (s_val s) (id_bytes o) = true /\
        (o_tok1 o = None -> o_tok2 o = None -> user_of (s_key s) = o_owner o \/ legacy o))
       \/
       (s_scheme s = 3 /\ o_tok1 o = None /\
        n3_ok (o_owner o) (o_epoch o) (s_val s) (s_key s) (id_bytes o) = true)).

  (* format of the content of system objects (FormatValidator.ValidateContent), whatever the
     payload length: a LINK object carries a non-empty payload that parses as a link, names
     its first child and its container and passes the split-chain verifier; TOMBSTONE and LOCK
     objects are 2.18+ ones (target in the header) without payload, and a tombstone passes
     the tombstone verifier *)
  Definition content_ok (e : env) (o : obj) (pl : bytes) : Prop :=
    match o_type o with
    | TLink => pl <> [] /\ o_first_set o = true /\ o_cnr o <> 0 /\ o_link_parses o = true /\ e_split_ok e = true
    | TTombstone => sys_in_header (o_ver o) = true /\ pl = [] /\ e_tomb_ok e = true
    | TLock => sys_in_header (o_ver o) = true /\ pl = []
    | _ => True
    end.

  (* EC parts are unsigned by design: the parent header they carry is their authentication.
     Its ID is the hash of the parent header and its signature authenticates the owner or the
     session (unless the parent header itself consists of EC attributes only, which the
     implementation classifies as EC and does not authenticate: visible as the premise) *)
  Definition ec_parent_auth (e : env) (o : obj) : Prop :=
    exists p, o_parent o = Some p /\ o_id p = Some (H (o_hdrbin p)) /\
              (check_ec p (e_rules e) false true = Some false -> auth_ok p).

  (* what the property asks of a stored object with payload pl *)
  Definition stored_ok (e : env) (allow_all : bool) (o : obj) (pl : bytes) : Prop :=
    o_id o = Some (H (o_hdrbin o)) /\
    o_size o = blen pl /\
    (exists ty, o_cs o = Some (ty, H pl)) /\
    content_ok e o pl /\
    (is_ec_obj e o = true -> ec_parent_auth e o) /\
    format_ok e allow_all o /\
    (is_ec_obj e o = false -> auth_ok o).

  (* executable form used by the check on the implementation's output *)
  Definition stored_okb (e : env) (allow_all : bool) (o : obj) (pl : bytes) : bool :=
    id_ok H o && (o_size o =? blen pl) &&
    (match o_cs o with Some (_, v) => bytes_eqb v (H pl) | None => false end) &&
    validate_content e o pl &&
    (if is_ec_obj e o then
       match o_parent o with
       | Some p => id_ok H p &&
                   match check_ec p (e_rules e) false true with
                   | Some false => authenticate sig_ok key_ok user_of tok1_ok tok2_ok n3_ok p
                   | Some true => true
                   | None => false
                   end
       | None => false
       end
     else true) &&
    format_okb e allow_all o &&
    (if is_ec_obj e o then true else authenticate sig_ok key_ok user_of tok1_ok tok2_ok n3_ok o).
End Crypto.
