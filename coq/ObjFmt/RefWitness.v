(* C24 — the converse stored_ok -> stored_okb = true fails: a REGULAR object whose signature
   carries an over-long key length satisfies every clause of stored_ok (auth_ok does not mention
   the script lengths) while authenticate, and with it stored_okb, refuses it.  (The admission
   model refuses such an object as well: put_stored_valid goes through authenticate.) *)
From Coq Require Import List NArith ZArith Bool Arith Lia.
Import ListNotations.
From NV Require Import Gen.ObjFmtConsts ObjFmt.Model ObjFmt.Spec ObjFmt.Proofs ObjFmt.Check ObjFmt.RefProofs.
Local Open Scope N_scope.

Definition refw_env : env := mkenv 10 64 [] 1 1 true 0 true true (Some 100) [1].
Definition refw_obj : obj :=
  mkobj (Some (2, 18)) TRegular 100 (Some [255;254;0]) [255;254;0] 1 [1] 5 [([97], [98])] 3
        (Some (1, [1;2;3])) [] (Some (mksig 1 [1] (max_script_len + 1) [1;255;254;0] 64)) None None
        true false false false true false None.

Lemma ref_converse_witness :
  stored_ok (H_of []) t_sig_ok t_key_ok t_user_of t_tok1_ok t_tok2_ok t_n3_ok refw_env false refw_obj [1;2;3] /\
  m_stored_okb [] refw_env false refw_obj [1;2;3] = false.
Proof.
  split; [|vm_compute; reflexivity].
  unfold stored_ok. split; [vm_compute; reflexivity|]. split; [vm_compute; reflexivity|].
  split; [exists 1; vm_compute; reflexivity|]. split; [exact I|].
  split; [intros Hc; vm_compute in Hc; discriminate|].
  split; [apply format_okb_sound; vm_compute; reflexivity|].
  intros _. unfold auth_ok. eexists. split; [reflexivity|]. split; [exact I|]. split; [exact I|].
  left. split; [vm_compute; reflexivity|]. split; [vm_compute; reflexivity|]. split; [vm_compute; reflexivity|].
  intros _ _. left. vm_compute. reflexivity.
Qed.
