(* C20 — engine reads find every stored object despite shard order, modes and failures.
   Only statements, `exact`, examples and Print Assumptions live here.

   Full statement (false for the real engine, see C20_get_iff_refuted and
   C20_removed_reappears_refuted; the failing input classes are recorded in
   known_findings.txt):
     forall t st e a ord b, Permutation ord (seq 0 (length st)) -> coherent st a = true ->
       (fst (engine_get t e a ord st) = GFound b <->
        stored_readable st a b = true /\ removedb st e a = false).
   Proved: the same statement for every state that is `consistent` for a (boolean predicate of
   Engine/Spec.v excluding exactly the recorded classes), and the "never hides" half without
   any restriction. *)
From Coq Require Import List NArith Bool Arith Permutation.
Import ListNotations.
From NV Require Import Engine.Model Engine.Spec Engine.Check Engine.GetProofs Engine.GetWitness.
Local Open Scope N_scope.

(* engine_get a = Found b  <->  (some readable shard holds a = b) /\ a not removed,
   for every shard list, visiting order, threshold, epoch, in consistent states *)
Theorem C20_get_iff_partial : forall t st e a ord b,
  Permutation ord (seq 0 (length st)) -> consistent st e a = true ->
  (fst (engine_get t e a ord st) = GFound b <->
   stored_readable st a b = true /\ removedb st e a = false).
Proof. exact get_iff_partial. Qed.

(* the same for Head *)
Theorem C20_head_iff_partial : forall t st e a ord b,
  Permutation ord (seq 0 (length st)) -> consistent st e a = true ->
  (fst (engine_head t e a ord st) = GFound b <->
   stored_readable st a b = true /\ removedb st e a = false).
Proof. exact head_iff_partial. Qed.

(* an error / fault / mode of any shard never hides a readable copy of a non-removed object:
   no consistency premise *)
Theorem C20_error_does_not_hide : forall t st e a ord b,
  Permutation ord (seq 0 (length st)) -> coherent st a = true ->
  removedb st e a = false -> stored_readable st a b = true ->
  fst (engine_get t e a ord st) = GFound b.
Proof. exact error_does_not_hide. Qed.

(* a removed object is not returned -- in consistent states *)
Theorem C20_removed_stays_removed_partial : forall t st e a ord b,
  Permutation ord (seq 0 (length st)) -> consistent st e a = true ->
  removedb st e a = true -> fst (engine_get t e a ord st) <> GFound b.
Proof. exact removed_stays_removed_partial. Qed.

(* the unrestricted statement fails on a reachable state: the tombstone missed the shard
   holding the object; the answer depends on the visiting order *)
Theorem C20_get_iff_refuted :
  exists u n ops a b ord ord',
    let en := run_ops u (init_engine n 0) ops in
    Permutation ord (seq 0 (length (shards en))) /\ coherent (shards en) a = true /\
    removedb (shards en) (epoch en) a = true /\
    fst (engine_get 0 (epoch en) a ord (shards en)) = GFound b /\
    fst (engine_get 0 (epoch en) a ord' (shards en)) = GRemoved.
Proof. exists uni, 2%nat, ops_k0, 0, 1, [1;0]%nat, [0;1]%nat. exact k0_witness. Qed.

(* a degraded mode makes a removed object reappear: before the mode change the read answers
   "already removed", after it the object is returned *)
Theorem C20_removed_reappears_refuted :
  exists u n ops a b ord,
    let en := run_ops u (init_engine n 0) ops in
    Permutation ord (seq 0 (length (shards en))) /\ coherent (shards en) a = true /\
    removedb (shards en) (epoch en) a = true /\
    fst (engine_get 0 (epoch en) a ord (shards en)) = GFound b /\
    fst (engine_get 0 0 a ord (shards (run_ops u (init_engine n 0) (firstn 2 ops)))) = GRemoved.
Proof. exists uni, 1%nat, ops_k1, 0, 1, [0]%nat. exact k1_witness. Qed.

(* non-vacuity: a reachable consistent state with three shards (one degraded and failing, one
   read-only), one removed object and one readable object *)
Example C20_example :
  consistent (shards en_ok) 0 0 = true /\ consistent (shards en_ok) 0 2 = true /\
  removedb (shards en_ok) 0 0 = true /\
  fst (engine_get 2 0 0 [0;1;2]%nat (shards en_ok)) = GRemoved /\
  stored_readable (shards en_ok) 2 3 = true /\
  fst (engine_get 2 0 2 [0;1;2]%nat (shards en_ok)) = GFound 3.
Proof. exact ok_example. Qed.

Print Assumptions C20_get_iff_partial.
Print Assumptions C20_head_iff_partial.
Print Assumptions C20_error_does_not_hide.
Print Assumptions C20_removed_stays_removed_partial.
Print Assumptions C20_get_iff_refuted.
Print Assumptions C20_removed_reappears_refuted.
