(* C03 — shard search returns exactly the matching available objects, ordered,
   paged.  Only statements, `exact`, examples and Print Assumptions.

   Full-strength statement (NOT proved, refuted below):
     forall objs q cursor count, valid_query q ->
       pages of (search objs q, following the cursor) glued together
       = ref_search objs q      (filter by availability and all filters,
                                 sort by (primary attribute, ID), attributes)
   What is proved: the refutation witness; the ID-ordered listing part
   (C03_idlist_page_partial); integer index entries = in-range decimals.
   Early-termination soundness of the primary-attribute scans (EQ / PREFIX /
   numeric) and the equivalence of the handler's per-object predicate with
   `sat_all` are covered by the correspondence check only. *)
From Coq Require Import List NArith ZArith Bool Arith.
Import ListNotations.
From NV Require Import Gen.S256Consts Gen.SearchConsts S256.S256 Search.Search Search.SearchProofs.
Local Open Scope N_scope.

(* the full statement fails: two filters on the primary attribute, [N<=20, N>=10]
   over N in {5,12,15,30}: the faithful model (and the code) return nothing,
   the reference is [12; 15]; the other filter order is right *)
Theorem C03_page_refuted : exists cd objs fs attrs count,
  search cd objs fs attrs None count = R_Page [] None /\
  ref_search cd objs fs attrs <> [].
Proof.
  exists id_codecs, wobjs, [f_le20; f_ge10], [key_N], 10%nat.
  destruct refuted_witness as (H1 & H2 & _). split; [exact H1|]. rewrite H2. discriminate.
Qed.

(* ID-ordered listing with filters (no requested attributes): for ANY list of
   index entries and any filters, the scan never stops early; the page is the
   first `count` entries that pass the handler's per-object check and are
   available, `more` is exact, and the cursor is the key of the last item *)
Theorem C03_idlist_page_partial : forall cd ofs count ip l,
  Forall (eclean cd ofs) l ->
  let ms := List.filter (ematch cd ofs) l in
  let st := scan cd ofs [] count true ip h0 l in
  rev (h_items st) = map id_item (firstn count ms) /\
  h_more st = Nat.ltb count (length ms) /\
  h_err st = false /\
  (h_more st = true -> h_last st = last (map e_tail (firstn count ms)) []).
Proof. exact idlist_page. Qed.

(* "a value counts as an integer only if it is an optionally signed decimal
   number" (in range): entries of the integer index *)
Theorem C03_int_iff_decimal : forall attr o e,
  In e (obj_entries K_INT attr o) <->
  exists k v z, In (k, v) (o_attrs o) /\ bytes_eqb k attr = true /\ spec_read v = Some z /\
                e = Entry (encode z ++ o_id o) (encode z) o.
Proof. exact int_entries_iff. Qed.

(* non-vacuity: the witness objects, the good filter order, a listing query *)
Example C03_example_good_order :
  search id_codecs wobjs [f_ge10; f_le20] [key_N] None 10
  = R_Page [Item (mk_oid 2) [[49; 50]]; Item (mk_oid 3) [[49; 53]]] None.
Proof. exact (proj2 (proj2 refuted_witness)). Qed.
Example C03_example_listing :
  search id_codecs wobjs [f_ge10] [] None 2
  = R_Page [Item (mk_oid 2) []; Item (mk_oid 3) []] (Some (mk_oid 3)) /\
  search id_codecs wobjs [f_ge10] [] (Some (mk_oid 3)) 2 = R_Page [Item (mk_oid 4) []] None.
Proof. vm_compute. split; reflexivity. Qed.

Print Assumptions C03_page_refuted.
Print Assumptions C03_idlist_page_partial.
Print Assumptions C03_int_iff_decimal.
