(* C03 — shard search returns exactly the matching available objects, ordered,
   paged.  Only statements, `exact`, examples and Print Assumptions.

   Full-strength statement (NOT proved, refuted below):
     forall objs q cursor count, valid_query q ->
       pages of (search objs q, following the cursor) glued together
       = ref_search objs q      (filter by availability and all filters,
                                 sort by (primary attribute, ID), attributes)
   What is proved: the refutation witness; the ID-ordered listing part: one page
   (C03_idlist_page_partial) and the chain of pages obtained by following the
   cursor (C03_idlist_chain_partial); integer index entries = in-range decimals.
   Early-termination soundness of the primary-attribute scans (EQ / PREFIX /
   numeric) and the equivalence of the handler's per-object predicate with
   `sat_all` are covered by the correspondence check only. *)
From Coq Require Import List NArith ZArith Bool Arith.
Import ListNotations.
From NV Require Import Gen.S256Consts Gen.SearchConsts S256.S256 Search.Search Search.SearchProofs Search.ChainProofs Search.SatProofs.
Local Open Scope N_scope.

(* the full statement fails: two filters on the primary attribute, [N<=20, N>=10]
   over N in {5,12,15,30}: the faithful model (and the code) return nothing,
   the reference is [12; 15]; the other filter order is right *)
Theorem C03_page_refuted : exists cd objs fs attrs count,
  search cd objs fs attrs None count = R_Page [] None /\
  ref_search cd objs fs attrs <> [].
Proof.
  exists id_codecs, wobjs, [f_le20; f_ge10], [key_N], 10%nat.
  destruct refuted_witness as (H1 & H2 & _). split; [exact H1|]. rewrite H2. discriminate.
Qed.

(* ID-ordered listing with filters (no requested attributes): for ANY list of
   index entries and any filters, the scan never stops early; the page is the
   first `count` entries that pass the handler's per-object check and are
   available, `more` is exact, and the cursor is the key of the last item *)
Theorem C03_idlist_page_partial : forall cd ofs count ip l,
  Forall (eclean cd ofs) l ->
  let ms := List.filter (ematch cd ofs) l in
  let st := scan cd ofs [] count true ip h0 l in
  rev (h_items st) = map id_item (firstn count ms) /\
  h_more st = Nat.ltb count (length ms) /\
  h_err st = false /\
  (h_more st = true -> h_last st = last (map e_tail (firstn count ms)) []).
Proof. exact idlist_page. Qed.

(* the chain for ID-ordered listing: searchTx called again and again with the
   cursor it returned (Seek(cursor), skip the key equal to it, run the handler)
   over ANY strictly increasing key list, with any positive page size:
   the pages glued together are exactly the entries passing the handler's
   per-object check that are available, in key order, each once; every page but
   the last is full; the chain stops (the last page carries no cursor).
   Partial: the per-object check is the handler's (`ematch`), not yet `sat_all`;
   the cursor check of PreprocessSearchQuery (length = 32) is not part of it;
   one page size for the whole chain. *)
Theorem C03_idlist_chain_partial : forall cd ofs count ip fuel l,
  tsorted l -> Forall (eclean cd ofs) l -> (0 < count)%nat ->
  (length (List.filter (ematch cd ofs) l) < fuel)%nat ->
  let ps := pages cd ofs count ip fuel l in
  concat ps = map id_item (List.filter (ematch cd ofs) l) /\
  ps <> [] /\
  Forall (fun p => length p = count) (removelast ps) /\
  (length (last ps []) <= count)%nat.
Proof. exact idlist_chain. Qed.

(* the handler's per-object check in ID-iteration mode is the reference predicate:
   available and every filter satisfied (`sat_all`, each filter evaluated directly
   on the attribute values).  Partial: queries without numeric matchers
   (`wrap fs` is what PreprocessSearchQuery passes on for them) and without
   NOT_PRESENT on a header field (those are answered "unreachable"). *)
Theorem C03_handler_is_sat_partial : forall cd fs e,
  forallb plain_filter fs = true -> existsb blind_filter fs = false ->
  ematch cd (wrap fs) e = o_avail (e_obj e) && sat_all cd fs (e_obj e).
Proof. exact ematch_sat_plain. Qed.

(* both together: for string-matcher queries listed in ID order, the pages obtained by
   following the cursor are exactly the available entries satisfying all filters *)
Theorem C03_listing_chain_sat_partial : forall cd fs count ip fuel l,
  forallb plain_filter fs = true -> existsb blind_filter fs = false ->
  tsorted l -> Forall (eclean cd (wrap fs)) l -> (0 < count)%nat ->
  (length l < fuel)%nat ->
  let ps := pages cd (wrap fs) count ip fuel l in
  concat ps = map id_item (List.filter (fun e => o_avail (e_obj e) && sat_all cd fs (e_obj e)) l) /\
  ps <> [] /\ Forall (fun p => length p = count) (removelast ps) /\ (length (last ps []) <= count)%nat.
Proof. exact listing_chain_sat. Qed.

(* "a value counts as an integer only if it is an optionally signed decimal
   number" (in range): entries of the integer index *)
Theorem C03_int_iff_decimal : forall attr o e,
  In e (obj_entries K_INT attr o) <->
  exists k v z, In (k, v) (o_attrs o) /\ bytes_eqb k attr = true /\ spec_read v = Some z /\
                e = Entry (encode z ++ o_id o) (encode z) o.
Proof. exact int_entries_iff. Qed.

(* non-vacuity: the witness objects, the good filter order, a listing query *)
Example C03_example_good_order :
  search id_codecs wobjs [f_ge10; f_le20] [key_N] None 10
  = R_Page [Item (mk_oid 2) [[49; 50]]; Item (mk_oid 3) [[49; 53]]] None.
Proof. exact (proj2 (proj2 refuted_witness)). Qed.
Example C03_example_listing :
  search id_codecs wobjs [f_ge10] [] None 2
  = R_Page [Item (mk_oid 2) []; Item (mk_oid 3) []] (Some (mk_oid 3)) /\
  search id_codecs wobjs [f_ge10] [] (Some (mk_oid 3)) 2 = R_Page [Item (mk_oid 4) []] None.
Proof. vm_compute. split; reflexivity. Qed.

(* non-vacuity of the chain: the witness objects, filter N >= 10, page size 1: three pages of one item *)
Example C03_example_chain :
  let l := index_of K_ID [] wobjs in
  let ofs := [OFilter f_ge10 false []] in
  tsorted l /\ Forall (eclean id_codecs ofs) l /\
  pages id_codecs ofs 1 true 5 l = [[Item (mk_oid 2) []]; [Item (mk_oid 3) []]; [Item (mk_oid 4) []]].
Proof.
  cbn zeta. split; [|split].
  - vm_compute. repeat split; repeat constructor.
  - repeat constructor; vm_compute; discriminate.
  - vm_compute. reflexivity.
Qed.

(* non-vacuity of the predicate theorem: a string query over the witness objects *)
Example C03_example_sat :
  let fs := [Filter key_N M_PREFIX [49]; Filter key_phy M_UNSPEC []] in
  forallb plain_filter fs = true /\ existsb blind_filter fs = false /\
  map (fun o => sat_all id_codecs fs o) wobjs = [false; true; true; false].
Proof. vm_compute. repeat split. Qed.

Print Assumptions C03_page_refuted.
Print Assumptions C03_idlist_page_partial.
Print Assumptions C03_idlist_chain_partial.
Print Assumptions C03_handler_is_sat_partial.
Print Assumptions C03_listing_chain_sat_partial.
Print Assumptions C03_int_iff_decimal.
