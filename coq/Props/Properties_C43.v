(* C43 -- shard behaviour always matches its reported mode.
   Only statements, `exact`, examples and Print Assumptions live here.

   Model: Shard/Mode43.v (reported mode, modes of write-cache / BLOB storage / metabase, contents;
   set_mode with a fault oracle, handle_mb_failure, operations as functions of the COMPONENT
   modes, background flush as an environment step).  `after wc h` is the state of a fresh shard
   (with / without write-cache) after the history h; `ref_res m wc x` is what the mode table of
   docs/shard-modes.md (Shard/ROMode.v guard, C14) answers for operation x in mode m.

   FULL STATEMENT of the property (clause 1):
     forall wc h x, is_op x = true ->
       snd (fst (do_step (after wc h) x)) = ref_res (rep (after wc h)) wc x
   It is FALSE for the faithful model (C43_consistent_refuted): after a mode switch that failed at
   a later component the earlier components stay switched while the shard reports the old mode
   (docs/shard-modes.md documents this).  Proved instead (C43_consistent_partial): the statement for
   every history outside the class `last_switch_failed wc h = true` (known finding
   failed-switch-partial-transition).  What is missing for the full statement: a rollback (or a
   reported mode that reflects the failure) in Shard.setMode.
   Clause 2 (return to read-write restores full service, objects intact) holds at full strength
   for the repaired code: C43_back_to_rw, C43_contents_intact, C43_failed_switch_recoverable. *)
From Coq Require Import List NArith Bool.
Import ListNotations.
From NV Require Import Gen.ShardModeConsts Shard.Mode43 Shard.Mode43Proofs.

Theorem C43_consistent_partial : forall wc h x,
  last_switch_failed wc h = false -> is_op x = true ->
  snd (fst (do_step (after wc h) x)) = ref_res (rep (after wc h)) wc x.
Proof. exact consistent_partial. Qed.

Theorem C43_consistent_refuted :
  exists wc h x, is_op x = true /\ last_switch_failed wc h = true
    /\ ref_res (rep (after wc h)) wc x = Done
    /\ snd (fst (do_step (after wc h) x)) <> ref_res (rep (after wc h)) wc x.
Proof. exact consistent_refuted. Qed.

(* a switch that succeeds -- whatever happened before, failed switches included -- leaves all
   components in the reported mode, so every operation answers as that mode allows *)
Theorem C43_switch_success_consistent : forall wc h m f s',
  set_mode m f (after wc h) = (s', true) ->
  rep s' = m /\ consistent s' = true /\ forall x, is_op x = true -> snd (fst (do_step s' x)) = ref_res m wc x.
Proof. exact switch_success_consistent. Qed.

Theorem C43_back_to_rw : forall wc h f s',
  set_mode RW f (after wc h) = (s', true) ->
  rep s' = RW /\ mbm s' = (RW, Some false) /\ blob_ro s' = false /\ (wc = true -> wcm s' = (RW, false))
  /\ (forall x, is_op x = true ->
        snd (fst (do_step s' x)) = (if negb wc then match x with SFlush => ErrNoWC | _ => Done end else Done))
  /\ (forall id, mem id (in_meta (after wc h)) = true -> held id (after wc h) = true -> do_get id s' = (Done, true)).
Proof. exact back_to_rw. Qed.

Theorem C43_contents_intact : forall wc h,
  (forall m f, let s := after wc h in let s' := fst (set_mode m f s) in
     in_meta s' = in_meta s /\ forall id, held id s = true -> held id s' = true)
  /\ (forall f1 f2, let s := after wc h in let s' := fst (handle_mb_failure f1 f2 s) in
     in_meta s' = in_meta s /\ forall id, held id s = true -> held id s' = true).
Proof. exact contents_intact. Qed.

Theorem C43_reported_mode : forall wc h m f,
  rep (fst (set_mode m f (after wc h))) = if snd (set_mode m f (after wc h)) then m else rep (after wc h).
Proof. exact reported_mode. Qed.

Theorem C43_no_crash : forall wc h x, snd (fst (do_step (after wc h) x)) <> Panic.
Proof. exact no_crash. Qed.

Theorem C43_failed_switch_recoverable : forall wc h m,
  nometa m = false -> snd (set_mode m FNone (after wc h)) = true.
Proof. exact failed_switch_recoverable. Qed.

(* ---- non-vacuity *)
(* a history with failed switches whose LAST switch succeeded: premise of the partial theorem holds,
   objects are spread over write-cache, storage and metabase, the shard is in degraded-read-only *)
Example C43_example_partial :
  let h := [SPut 0; SPut 1; SSet RO FMbOpen; SGet 0; SSet RW FNone; SFlush; SPut 2; SSet DGRO FBlobInit; SSet DGRO FNone] in
  last_switch_failed true h = false
  /\ rep (after true h) = DGRO /\ in_meta (after true h) = [2; 1; 0]
  /\ snd (fst (do_step (after true h) (SPut 3))) = ErrRO
  /\ snd (fst (do_step (after true h) (SGet 0))) = Done
  /\ snd (fst (do_step (after true h) SList)) = ErrDG.
Proof. vm_compute. repeat split; reflexivity. Qed.

(* the refuting history really is in the excluded class, and the recorded probe sequence on the
   repaired model: get fails (no crash), SetMode(read-write) then restores service *)
Example C43_example_refuted :
  last_switch_failed false [SPut 0; SSet RO FMbOpen] = true
  /\ snd (fst (do_step (after false [SPut 0; SSet RO FMbOpen]) (SGet 0))) = Other
  /\ blob_ro (after false [SPut 0; SSet RO FMbOpen]) = true
  /\ rep (after false [SPut 0; SSet RO FMbOpen]) = RW
  /\ snd (fst (do_step (after false [SPut 0; SSet RO FMbOpen; SSet RW FNone]) (SPut 1))) = Done
  /\ do_get 0 (after false [SPut 0; SSet RO FMbOpen; SSet RW FNone]) = (Done, true).
Proof. vm_compute. repeat split; reflexivity. Qed.

(* premises of C43_back_to_rw / C43_switch_success_consistent are satisfiable after failed switches *)
Example C43_example_back :
  let h := [SPut 0; SSet DGRO FBlobOpen; SHmf FMbOpen FMbOpen; SSet RO FBlobClose] in
  let s' := fst (set_mode RW FNone (after true h)) in
  last_switch_failed true h = true
  /\ set_mode RW FNone (after true h) = (s', true) /\ in_wc s' = [] /\ in_blob s' = [0] /\ in_meta s' = [0].
Proof. vm_compute. repeat split; reflexivity. Qed.

Print Assumptions C43_consistent_partial.
Print Assumptions C43_consistent_refuted.
Print Assumptions C43_switch_success_consistent.
Print Assumptions C43_back_to_rw.
Print Assumptions C43_contents_intact.
Print Assumptions C43_reported_mode.
Print Assumptions C43_no_crash.
Print Assumptions C43_failed_switch_recoverable.
