(* C09 - a removed object never becomes readable again without a new upload.
   Only statements, `exact`, and Print Assumptions live here. *)
From Coq Require Import List Arith Bool.
Import ListNotations.
From NV Require Import Crash.Model Crash.Inter Crash.Resurrect.

(* Full statement (NOT provable, see the four *_refuted theorems): for every universe c,
   every history hs1 ++ hs2 of puts, deletes, marks, GC passes, epochs, flushes, restarts,
   resyncs (any enumeration order, real epoch or epoch 0) and operations cut by a process
   death after any number of atomic steps,
       reported_removed c (hrun c hs1) a = true -> no_put a hs2 = true ->
       readable c (hrun c (hs1 ++ hs2)) a = false.

   Proved part: once NOTHING of the object is left on the node (no metabase entry, no
   blob, no cache file) it stays unreadable until it is put anew - over all such
   histories.  What is missing is exactly the states in which some component still
   holds the object (not yet collected, or left over by an interrupted deletion). *)
Theorem C09_no_resurrection_partial : forall c hs1 hs2 a,
  gone (hrun c hs1) a = true -> no_put a hs2 = true ->
  readable c (hrun c (hs1 ++ hs2)) a = false.
Proof. exact gone_stays_gone. Qed.

(* the process dies between the metabase delete and the blob delete; the tombstone
   expires and is collected; a resync re-indexes the left-over blob *)
Theorem C09_orphan_blob_resync_refuted : exists c hs1 hs2 a,
  reported_removed c (hrun c hs1) a = true /\ no_put a hs2 = true
  /\ readable c (hrun c (hs1 ++ hs2)) a = true.
Proof. exists w1_cfg, w1_before, w1_after, 0. exact orphan_blob_resync_refuted. Qed.

(* resync with an epoch source returning 0 (the only production caller, neofs-lancet):
   an expired lock counts as live, the tombstone is skipped, its target is available *)
Theorem C09_resync_epoch0_refuted : exists c hs1 hs2 a,
  reported_removed c (hrun c hs1) a = true /\ no_put a hs2 = true
  /\ readable c (hrun c (hs1 ++ hs2)) a = true.
Proof. exists w2_cfg, w2_before, w2_after, 0. exact resync_epoch0_refuted. Qed.

(* a LOCK stored for a dropped object (forced garbage mark) overrides the mark and revives it *)
Theorem C09_lock_revives_removed_refuted : exists c hs1 hs2 a,
  reported_removed c (hrun c hs1) a = true /\ no_put a hs2 = true
  /\ readable c (hrun c (hs1 ++ hs2)) a = true.
Proof. exists w3_cfg, w3_before, w3_after, 0. exact lock_on_dropped_refuted. Qed.

(* flush-versus-delete schedule: the flusher's blob write lands after a complete
   deletion; the orphan is indexed by the next resync (interleaving machine) *)
Theorem C09_flush_delete_race_refuted :
  let s := pst (prun w4_cfg w4_events) in readable w4_cfg s 0 = true.
Proof. exact flush_delete_race_refuted. Qed.

(* non-vacuity of the proved part: a stored object is tombstoned, collected completely
   (gone), then the tombstone expires, is collected, and two resyncs run: still gone *)
Example C09_example :
  let c := w1_cfg in
  let hs1 := [HOp (OPut 0 false); HOp (OPut 1 false); HOp OGc] in
  let hs2 := [HOp (OEpoch 3); HOp OGc; HOp (OResync [0; 1] false); HCut OGc 1; HOp (OResync [1; 0] true)] in
  readable c (hrun c [HOp (OPut 0 false)]) 0 = true /\
  gone (hrun c hs1) 0 = true /\ no_put 0 hs2 = true /\ readable c (hrun c (hs1 ++ hs2)) 0 = false.
Proof. vm_compute. auto. Qed.

Print Assumptions C09_no_resurrection_partial.
Print Assumptions C09_orphan_blob_resync_refuted.
Print Assumptions C09_resync_epoch0_refuted.
Print Assumptions C09_lock_revives_removed_refuted.
Print Assumptions C09_flush_delete_race_refuted.
