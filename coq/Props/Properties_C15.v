(* C15 - after a crash, every object the metadata reports as available is readable
   in full from the blob storage or the write-cache.
   Only statements, `exact`, and Print Assumptions live here. *)
From Coq Require Import List Arith Bool.
Import ListNotations.
From NV Require Import Crash.Model Crash.Check Crash.Proofs Crash.Inter.

(* For every universe of objects c (with or without write-cache), every history
   ops of shard operations and every number n of atomic steps (component steps and
   operation starts) after which the process stops: after the restart, every address
   the metabase reports as available - and that does not carry the forced garbage
   mark, see below - has its data in the blob storage or in the write-cache.
   `clean_run` excludes one situation (Model.bad_rb): the rollback of a refused put
   of an address that is tombstoned WITHOUT the mark a tombstone sets (reachable only
   by re-indexing a tombstoned object under a lock; lemma C15_bad_rollback_is_tombstoned). *)
Theorem C15_available_readable : forall c ops n a,
  clean_run c ops n = true ->
  let s := reopen (run_n c ops n) in
  available c s a = true -> mk s a <> 1 -> blob s a = true \/ wc s a = true.
Proof. exact crash_available_readable. Qed.

(* without the side condition on the mark, for objects no lock keeps available *)
Theorem C15_unlocked_available_readable : forall c ops n a,
  clean_run c ops n = true ->
  let s := reopen (run_n c ops n) in
  available c s a = true -> locked c s (ep s) a = false -> blob s a = true \/ wc s a = true.
Proof. exact crash_unlocked_available_readable. Qed.

Theorem C15_bad_rollback_is_tombstoned : forall c s a,
  bad_rb c s a = true -> tombstoned c s a = true /\ ent s a = true /\ mk s a <> 1.
Proof. exact bad_rb_tombstoned. Qed.

(* the model state each observed crash point is compared with is run_n c ops n for some n *)
Theorem C15_checked_point_is_a_crash_point : forall fuel c p ops m,
  seek fuel c p (start ops) = Some m -> exists n, m = run_n c ops n.
Proof. exact seek_is_run_n. Qed.

(* Concurrent operations = interleavings of the atomic steps of several operations in
   flight.  Full statement (all interleavings) is refuted; proved for the interleavings
   in which an operation that destroys data of an address never overlaps another
   operation on that address. *)
Theorem C15_interleaved_partial : forall c evs a,
  compat_run c evs = true -> clean_events c evs = true ->
  let s := pst (prun c evs) in
  available c s a = true -> mk s a <> 1 -> blob s a = true \/ wc s a = true.
Proof. exact inter_available_readable. Qed.

Theorem C15_interleaved_refuted : exists c evs a,
  clean_events c evs = true /\
  let s := pst (prun c evs) in
  available c s a = true /\ mk s a <> 1 /\ blob s a = false /\ wc s a = false.
Proof. exact inter_refuted. Qed.

(* non-vacuity: a history with a put through the write-cache, a flush and a restart
   in the middle of the flush; the object is available and its data is in both places *)
Example C15_example :
  let c := {| objs := [{| okind := KReg; otgt := 0; oexp := 0 |}]; wcen := true |} in
  let ops := [OPut 0 false; OFlush 0] in
  clean_run c ops 6 = true /\
  let s := reopen (run_n c ops 6) in
  available c s 0 = true /\ mk s 0 <> 1 /\ blob s 0 = true /\ wc s 0 = true.
Proof. vm_compute. repeat split; auto; discriminate. Qed.

Print Assumptions C15_available_readable.
Print Assumptions C15_unlocked_available_readable.
Print Assumptions C15_checked_point_is_a_crash_point.
Print Assumptions C15_interleaved_partial.
Print Assumptions C15_interleaved_refuted.
