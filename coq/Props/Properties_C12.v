(* C12 — a crash during a blob write never exposes partial or wrong object bytes.
   Only statements, `exact`, examples and Print Assumptions live here. *)
From Coq Require Import List NArith Arith Bool.
Import ListNotations.
From NV Require Import Gen.FSTreeConsts FSTree.Wire FSTree.Combined FSTree.CombinedProofs FSTree.FS FSTree.FSProofs FSTree.FSExample.

(* Crash = any prefix of the syscall trace of the interrupted operation, the interrupted write
   torn at any byte (process-crash model: completed calls persist).  From every state a history
   can reach (Inv), for every operation (Put through any writer, PutBatch of any size, Delete,
   timer), every crash point k and every torn length:
   - the state found after the restart satisfies the link discipline, hence (C12_reads_after_crash,
     C12_iterate_after_crash) every address reads not-found or exactly its object and iteration
     lists exactly the readable addresses -- a temporary name never shows up;
   - everything that was readable before the operation (all acknowledged writes) is still readable
     with identical bytes, unless the operation is the Delete of that address. *)
Theorem C12_prefix_safe :
  forall (dec : bytes -> option bytes) (nm : naming) (c : cfg) (content : nat -> bytes),
  (forall a, parse nm (str nm a) = Some a) ->
  (forall n, has_hash n = true -> parse nm n = None) ->
  (forall a, length (oidb nm a) = oid_size) ->
  (forall a b, oidb nm a = oidb nm b -> a = b) ->
  forall w M o k torn, Inv dec nm c content w M -> op_ok dec content o ->
  let s' := crash (fst (fst (op_trace dec nm c w o))) k torn (fsys w) in
  linked_ok dec nm c content s' /\
  forall b, exists_ nm c (fsys w) b = true -> (forall a, o = ODelete a -> a <> b) ->
            exists_ nm c s' b = true /\ get_bytes dec nm c s' b = GOk (content b).
Proof. exact crash_safe. Qed.

Theorem C12_reads_after_crash :
  forall dec nm c content,
  (forall a, parse nm (str nm a) = Some a) -> (forall n, has_hash n = true -> parse nm n = None) ->
  (forall a b, oidb nm a = oidb nm b -> a = b) ->
  forall s a, linked_ok dec nm c content s ->
  let v := if exists_ nm c s a then GOk (content a) else GNotFound in
  get_bytes dec nm c s a = v /\ get_stream dec nm c s a = v /\
  forall cap, 2 * npfbl <= cap -> read_obj dec nm c s a cap = v.
Proof. exact reads_ok. Qed.

Theorem C12_iterate_after_crash :
  forall dec nm c content,
  (forall a, parse nm (str nm a) = Some a) -> (forall n, has_hash n = true -> parse nm n = None) ->
  (forall a b, oidb nm a = oidb nm b -> a = b) ->
  forall s, linked_ok dec nm c content s ->
  exists r, iterate dec nm c s = Some r /\ NoDup (map fst r) /\
            forall a x, In (a, x) r <-> (x = content a /\ exists_ nm c s a = true).
Proof. exact iterate_ok. Qed.

(* the discipline itself: every safe call keeps the invariant, so does any crashed prefix *)
Theorem C12_any_safe_trace : forall dec nm c content s t k torn,
  linked_ok dec nm c content s -> safe_trace dec nm c content s t -> linked_ok dec nm c content (crash t k torn s).
Proof. exact crash_ok. Qed.

(* CleanUpTmp after the restart keeps the invariant *)
Theorem C12_cleanup : forall dec nm c content s, linked_ok dec nm c content s -> linked_ok dec nm c content (cleanup s).
Proof. exact cleanup_ok. Qed.

(* non-vacuity: a batch of three objects on top of two stored ones, interrupted inside the writev
   of the second record (7 bytes of it written): the first member is readable, the second and
   third are not, the earlier objects are untouched; the generic writer interrupted before the
   rename leaves a temporary name that iteration does not list *)
Example C12_example :
  let w0 := fst (run ex_dec ex_nm (ex_cfg false) init_w [OPut 0 (ex_content 0); OPut 1 (ex_content 1); OSync]) in
  let t := fst (fst (op_trace ex_dec ex_nm (ex_cfg false) w0 (OBatch [(2, ex_content 2); (3, ex_content 3); (5, ex_content 5)]))) in
  let s' := crash t 3 7 (fsys w0) in
  map (get_bytes ex_dec ex_nm (ex_cfg false) s') [0; 1; 2; 3; 5] =
    [GOk (ex_content 0); GOk (ex_content 1); GOk (ex_content 2); GNotFound; GNotFound] /\
  length (nth 1 (inodes s') []) = combined_data_off + 5 + 7 /\
  let g0 := fst (run ex_dec ex_nm (ex_cfg true) init_w [OPut 0 (ex_content 0)]) in
  let tg := fst (fst (op_trace ex_dec ex_nm (ex_cfg true) g0 (OPut 1 (ex_content 1)))) in
  let sg := crash tg 3 0 (fsys g0) in
  length (links sg) = 2 /\ iterate ex_dec ex_nm (ex_cfg true) sg = Some [(0, ex_content 0)] /\
  get_bytes ex_dec ex_nm (ex_cfg true) sg 1 = GNotFound.
Proof. vm_compute. repeat split; reflexivity. Qed.

Print Assumptions C12_prefix_safe.
Print Assumptions C12_reads_after_crash.
Print Assumptions C12_any_safe_trace.
