(* C42 — upgrading an older metadata database preserves every object's status.

   Full statement: for every database in a supported older format, after the upgrade (interrupted
   after any batch and re-run any number of times) statuses, attributes, search results are what
   they were and the counters equal a recount.
   Proved here on the key-level model Resync/Upgrade.v: preservation of everything the current code
   reads from a bucket after ANY number of transactions (C42_preserves), batches never un-convert
   (C42_batch_idempotent), a scan below the limit leaves no base58 value (C42_scan_complete), and
   an interrupted upgrade followed by a re-run that finishes each phase within one transaction
   yields exactly the version 11 form of the original database (C42_resumable_partial).  Missing
   for the full statement: completion of a re-run that itself needs several transactions (tied by
   the per-transaction entry counts of a 2900-object database on every run, not proved). *)
From Coq Require Import List NArith Bool Arith Lia.
Import ListNotations.
From NV Require Import Gen.ResyncConsts Resync.Upgrade Resync.UpgradeProofs.

(* the migrations this tree knows (regenerated from the compiled code) are the ones modelled *)
Theorem C42_supported_versions : migration_versions = [9; 10]%N /\ current_meta_version = 11%N.
Proof. split; reflexivity. Qed.

Theorem C42_batch_preserves : forall f, f = mig_assoc \/ f = drop_homo ->
  forall b after rem, abs_bucket (snd (f b after rem)) = abs_bucket b.
Proof. exact batch_preserves. Qed.

Theorem C42_tx_preserves : forall lim bs from,
  map abs_bucket (fst (tx mig_assoc lim bs from)) = map abs_bucket bs /\
  map abs_bucket (fst (tx drop_homo lim bs from)) = map abs_bucket bs.
Proof.
  intros lim bs from. split.
  - apply (tx_same mig_assoc mig_assoc_preserves lim bs from).
  - apply (tx_same drop_homo drop_homo_preserves lim bs from).
Qed.

(* interruption after any number n of transactions, any batch limit *)
Theorem C42_preserves : forall lim n bs,
  map abs_bucket (fst (migrate10 lim n bs)) = map abs_bucket bs.
Proof. intros lim n bs. apply (migrate10_same lim n bs). Qed.

Theorem C42_batch_idempotent : forall b a r a' r',
  map conv (cb_assoc (snd (mig_assoc (snd (mig_assoc b a r)) a' r'))) = map conv (cb_assoc b).
Proof. exact batch_idempotent. Qed.

Theorem C42_scan_complete : forall b rem sc a' b',
  mig_assoc b None rem = (sc, a', b') -> (sc < rem)%nat ->
  a' = None /\ cb_assoc b' = map conv (cb_assoc b) /\ cb_homo b' = cb_homo b /\ cb_rest b' = cb_rest b.
Proof. exact scan_complete. Qed.

Theorem C42_bucket_resumable : forall b a r rem sc a' b',
  mig_assoc (snd (mig_assoc b a r)) None rem = (sc, a', b') -> (sc < rem)%nat ->
  cb_assoc b' = map conv (cb_assoc b).
Proof.
  intros b a r rem sc a' b' E H. destruct (scan_complete _ _ _ _ _ E H) as (_ & A & _).
  rewrite A. apply (mig_assoc_preserves b a r).
Qed.

Theorem C42_resumable_partial : forall lim n bs bsA bs2,
  tx drop_homo lim (fst (migrate10 lim n bs)) None = (bsA, None) ->
  tx mig_assoc lim bsA None = (bs2, None) ->
  bs2 = map v11_bucket bs.
Proof. exact resumable_one_tx. Qed.

(* ---- non-vacuity: two buckets, limit 3: the run needs several transactions, is interrupted after
   three of them, and the re-run (limit large enough) restores the version 11 form *)
Definition ex_bs : list cbucket :=
  [mkCB [(1, 1); (2, 2)]%N [mkA (VB58 7) 1; mkA (VRaw 8) 2; mkA (VB58 9) 3; mkA (VB58 7) 4]%N [100; 101]%N;
   mkCB [(5, 5)]%N [mkA (VB58 1) 6; mkA (VB58 2) 7]%N [102]%N].
Example C42_nonvacuous :
  snd (migrate10 3 3 ex_bs) = false /\ snd (migrate10 3 10 ex_bs) = true /\
  fst (migrate10 3 10 ex_bs) = map v11_bucket ex_bs /\
  fst (migrate10 3 3 ex_bs) <> map v11_bucket ex_bs /\
  (let s := fst (migrate10 3 3 ex_bs) in
   exists bsA bs2, tx drop_homo 100 s None = (bsA, None) /\ tx mig_assoc 100 bsA None = (bs2, None) /\ bs2 = map v11_bucket ex_bs).
Proof.
  vm_compute. repeat split; try reflexivity; try discriminate.
  eexists _, _. repeat split; reflexivity.
Qed.

Print Assumptions C42_supported_versions.
Print Assumptions C42_batch_preserves.
Print Assumptions C42_tx_preserves.
Print Assumptions C42_preserves.
Print Assumptions C42_batch_idempotent.
Print Assumptions C42_scan_complete.
Print Assumptions C42_bucket_resumable.
Print Assumptions C42_resumable_partial.
