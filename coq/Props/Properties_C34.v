(* C34 — the inner ring co-signs only notary transactions whose calls it fully validated. *)
From Coq Require Import List Bool Arith NArith String.
Import ListNotations.
From NV Require Import Gen.IRProcConsts34 IRProc.C34Model IRProc.C34Proofs.
Open Scope string_scope.

(* sign e q = true  <->  the modelled pipeline (preparator, dispatch, parser, handler) reaches
   NotarySignAndInvokeTX with the request's main transaction.
   structure_ok: required signers, witnesses, attribute and unexpired fallback (IRProc/C34Model.v);
   expected c: the call's (contract, method) pair was registered by a processor;
   validated c: the handler's validation accepted content of the kind that method expects. *)
Theorem C34_sign_implies : forall e q,
  sign e q = true ->
  e_alphabet e = true /\ structure_ok e q /\ q_calls q <> [] /\ forall c, In c (q_calls q) -> expected c /\ validated c.
Proof. exact sign_implies. Qed.

(* the executable reference used to judge the implementation's signatures *)
Theorem C34_reference_sound : forall e q,
  (sign e q = true -> may_sign e q = true)
  /\ (may_sign e q = true -> e_alphabet e = true /\ structure_ok e q /\ q_calls q <> [] /\ forall c, In c (q_calls q) -> expected c /\ validated c).
Proof. intros e q. split; [apply sign_ref|apply may_sign_sound]. Qed.

Theorem C34_prepared_implies_structure : forall e q, prepare_class e q = 0 -> structure_ok e q.
Proof. exact prepared_implies_structure. Qed.

(* the repaired hole: a second call is only ever the same contract's putEACL after createV2 *)
Theorem C34_second_call_is_put_eacl : forall e q c0 c1,
  sign e q = true -> q_calls q = [c0; c1] ->
  k_method c0 = create_v2_method /\ k_contract c1 = k_contract c0 /\ k_method c1 = put_eacl_method.
Proof. exact second_call_is_put_eacl. Qed.

(* non-vacuity *)
Definition ex_env := mkenv true 100%N 4.
Definition ex_req (calls : list call) := mkreq false 4 false 4 true 1 true 5 true true true true 3 1 101%N true calls.
Example C34_nonvacuous :
  sign ex_env (ex_req [mkcall 0 "remove" ct_remove true]) = true
  /\ sign ex_env (ex_req [mkcall 0 "createV2" ct_create_v2 true; mkcall 0 "putEACL" ct_eacl_new true]) = true
  /\ sign ex_env (ex_req [mkcall 1 "addNode" ct_add_node true]) = true
  (* the same eACL arguments addressed to another contract / method *)
  /\ sign ex_env (ex_req [mkcall 0 "createV2" ct_create_v2 true; mkcall 2 "putEACL" ct_eacl_new true]) = false
  /\ sign ex_env (ex_req [mkcall 0 "createV2" ct_create_v2 true; mkcall 0 "setEACL" ct_eacl_new true]) = false
  (* two valid single calls in one script *)
  /\ sign ex_env (ex_req [mkcall 0 "remove" ct_remove true; mkcall 0 "remove" ct_remove true]) = false
  (* fallback valid at the current height *)
  /\ sign (mkenv true 101%N 4) (ex_req [mkcall 0 "remove" ct_remove true]) = false
  /\ prepare_class (mkenv true 101%N 4) (ex_req [mkcall 0 "remove" ct_remove true]) = 13.
Proof. vm_compute. repeat split. Qed.

Print Assumptions C34_sign_implies.
Print Assumptions C34_reference_sound.
Print Assumptions C34_prepared_implies_structure.
Print Assumptions C34_second_call_is_put_eacl.
