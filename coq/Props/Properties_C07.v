(* C07 -- a live lock protects its object from tombstones, expiry and garbage collection
   (shard level; objects without family relations).  Statements only; proofs in GC/C07Proofs.v.

   [inv s]           : the metabase part is well-formed and every stored header is a physical object
                       without parent / split / EC fields (GC/Lemmas.v)
   [locked_at m e c x]: container c is not removed and some LOCK object associated with x is stored,
                       not expired at e, not tombstoned and not garbage-marked (Meta/Spec.live_lock)
   [protected s c x] : locked_at for the later of the shard's two clocks (epoch source of the
                       metabase, last new-epoch event of the GC)
   [put_no_effect]   : metadata, GC epochs and the data of every other address are unchanged; success
                       is reported only for an ID that is already stored (repeated put)
   [proceeds]        : the put's own ID is not itself removed / expired / already stored, i.e. the
                       association checks are reached
   [slot s c x]      : (metadata entry, garbage mark, container mark, data presence) of (c, x).

   Cross-reference: the known finding of C01 (key tombstone-and-live-lock) is the reachability of a
   state in which an object is tombstoned AND live-locked (a lock revived after the tombstone was
   accepted while the lock was garbage-marked, or the epoch moving backwards).  None of the theorems
   below excludes that class: they are stated for every well-formed state, and in such a state the lock
   still wins (C07_never_expired_or_removed) -- which is exactly what C01 records as a deviation from
   its own text.  What must be excluded here is only what the property text itself excludes: a forced
   mark on the object (premise [unmarked]; a tombstone accepted earlier leaves such a mark too) and a
   lock that stops being live (premise [protected_along]).  C07_lock_after_tombstone_rejected is full
   strength since the repair 497eb4c (before it, a lock for an expired or live-locked tombstoned object
   was accepted). *)
From Coq Require Import List NArith ZArith Bool.
Import ListNotations.
From NV Require Import Meta.SMap Meta.Model Meta.Spec Meta.WfProofs GC.Model GC.Spec GC.Lemmas GC.C07Proofs.
Local Open Scope N_scope.

Theorem C07_tombstone_rejected : forall s c o x,
  inv s -> simple_obj o = true -> h_typ (o_hdr o) = TTombstone -> h_assoc (o_hdr o) = Some x ->
  locked_at (sh_meta s) (epoch (sh_meta s)) c x = true ->
  put_no_effect s c o /\
  (forall b, bucket (sh_meta s) c = Some b -> proceeds (epoch (sh_meta s)) b (o_id o) = true ->
             match type_of b x with Some TTombstone | Some TLock => False | _ => True end ->
             snd (sput s c o) = ELocked).
Proof. exact tombstone_rejected. Qed.

Theorem C07_never_expired_or_removed : forall s c x,
  inv s -> locked_at (sh_meta s) (epoch (sh_meta s)) c x = true ->
  (view_exists (sh_meta s) false c x = v_ok \/ view_exists (sh_meta s) false c x = v_absent) /\
  (forall raw, view_get (sh_meta s) raw c x = v_ok \/
               (view_get (sh_meta s) raw c x = v_notfound /\ stored_at (sh_meta s) c x = false)) /\
  sh_get s c x <> v_removed /\ sh_get s c x <> v_expired /\ sh_locked s c x = true.
Proof. exact never_expired_or_removed. Qed.

Theorem C07_gc_pass_keeps : forall c x limit s,
  inv s -> protected s c x = true -> unmarked (sh_meta s) c x = true ->
  slot (gc_pass limit s) c x = slot s c x /\ inv (gc_pass limit s).
Proof. exact gc_pass_keeps. Qed.

Theorem C07_gc_keeps : forall limit h s c x,
  inv s -> forallb gc_only h = true -> unmarked (sh_meta s) c x = true -> protected_along limit s h c x ->
  slot (srun_from limit s h) c x = slot s c x /\ inv (srun_from limit s h).
Proof. exact gc_keeps. Qed.

Theorem C07_lock_after_tombstone_rejected : forall s c o x b,
  inv s -> simple_obj o = true -> h_typ (o_hdr o) = TLock -> h_assoc (o_hdr o) = Some x ->
  bucket (sh_meta s) c = Some b -> cgc b = false -> tombstoned b x = true ->
  put_no_effect s c o /\
  (proceeds (epoch (sh_meta s)) b (o_id o) = true ->
   snd (sput s c o) = EAlreadyRemoved \/ snd (sput s c o) = ELockNonRegular).
Proof. exact lock_after_tombstone_rejected. Qed.

Theorem C07_lock_not_tombstonable : forall s c o x b,
  inv s -> simple_obj o = true -> h_typ (o_hdr o) = TTombstone -> h_assoc (o_hdr o) = Some x ->
  bucket (sh_meta s) c = Some b -> cgc b = false -> type_of b x = Some TLock ->
  put_no_effect s c o /\
  (proceeds (epoch (sh_meta s)) b (o_id o) = true -> snd (sput s c o) = ELockRemoval).
Proof. exact lock_not_tombstonable. Qed.

(* ---- non-vacuity: a reachable state with a live lock, an expired locked object and garbage around it *)
Definition ex_reg (id : oid) (exp : option N) := Obj id (mkHdr TRegular 5 exp None None None None None None) None.
Definition ex_lock (id x : oid) (exp : option N) := Obj id (mkHdr TLock 0 exp (Some x) None None None None None) None.
Definition ex_tomb (id x : oid) := Obj id (mkHdr TTombstone 0 None (Some x) None None None None None) None.

(* X=1 expires after epoch 2, lock 2 -> 1 lives until epoch 6; Y=3 is tombstoned by 4; epoch 4 *)
Definition ex_hist : list sop :=
  [SPut 1 (ex_reg 1 (Some 2)); SPut 1 (ex_lock 2 1 (Some 6)); SPut 1 (ex_reg 3 None); SPut 1 (ex_tomb 4 3); STick 4].
Definition ex_state : shard := srun 1 ex_hist.

Example C07_nonvacuous_locked :
  locked_at (sh_meta ex_state) (epoch (sh_meta ex_state)) 1 1 = true /\
  protected ex_state 1 1 = true /\ unmarked (sh_meta ex_state) 1 1 = true /\
  expired (bucket_or_new (sh_meta ex_state) 1) (epoch (sh_meta ex_state)) 1 = true.
Proof. vm_compute. auto. Qed.

(* the tombstone for the locked object is refused with "locked"; the lock for the tombstoned one with
   "already removed"; a tombstone for the lock object with "lock removal" *)
Example C07_nonvacuous_results :
  snd (sput ex_state 1 (ex_tomb 7 1)) = ELocked /\
  snd (sput ex_state 1 (ex_lock 7 3 None)) = EAlreadyRemoved /\
  snd (sput ex_state 1 (ex_tomb 7 2)) = ELockRemoval.
Proof. vm_compute. auto. Qed.

(* three passes and an epoch change with batch size 1: the locked expired object stays, the tombstoned
   one and (once it expires at epoch 7) nothing of the lock's target is touched before *)
Example C07_nonvacuous_gc :
  let s' := srun_from 1 ex_state [SPass; SPass; STick 5; SPass; SPass] in
  slot s' 1 1 = slot ex_state 1 1 /\ stored_at (sh_meta s') 1 3 = false /\ blob_has (sh_blob s') 1 3 = false /\
  protected_along 1 ex_state [SPass; SPass; STick 5; SPass; SPass] 1 1.
Proof. vm_compute. repeat split; auto. Qed.

(* after the lock has expired (epoch 7) the object is collected: the premise "the lock stays live" matters *)
Example C07_premise_matters :
  let s' := srun_from 1 ex_state [STick 7; SPass; SPass; SPass] in
  stored_at (sh_meta s') 1 1 = false /\ blob_has (sh_blob s') 1 1 = false.
Proof. vm_compute. auto. Qed.

Example C07_inv_example : inv ex_state.
Proof.
  split; [apply (wf_fold (map (fun o => match o with
                      | SPut c ob => OPut c ob | STick e => OEpoch e | _ => OEpoch 0 end) ex_hist) state0 wf_state0)|].
  intros c b Hin k e He. vm_compute in Hin.
  destruct Hin as [E|[]]. inversion E; subst. vm_compute in He.
  repeat (destruct He as [He|He]; [inversion He; subst; split; reflexivity|]). destruct He.
Qed.

Print Assumptions C07_tombstone_rejected.
Print Assumptions C07_gc_keeps.
