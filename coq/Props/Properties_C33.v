(* C33 -- request signature chains are accepted only if every layer verifies. *)
From Coq Require Import NArith List Bool.
From NV Require Import Gen.AuthReqConsts Auth.ReqSig Auth.ReqSigProofs.
Import ListNotations.
Open Scope N_scope.

(* FULL STATEMENT (does not hold on this code base, see C33_all_layers_refuted):
     forall r ls, r_vh r = Some ls -> accept_ctx r = true -> needs_signature r = true ->
       every layer of ls carries valid signatures over body / its meta header / the previous layer.
   The SDK compiled into the node stops looking below the outer verification layer for requests of
   API version >= 2.25 (needsOriginSig): only the outer layer's body and meta signatures are
   verified there. *)

Theorem C33_all_layers_refuted :
  exists r ls l, r_vh r = Some ls /\ accept_ctx r = true /\ needs_signature r = true /\ In l ls
                 /\ meta_ok l = false /\ body_ok l = false /\ origin_ok l = false.
Proof. exact all_layers_refuted. Qed.

(* what holds: outside the class "API >= 2.25 request with more than one verification layer" an
   accepted request that needed signatures has every layer verified: legacy chain = equal numbers
   of meta and verification layers, every layer with valid meta and origin signatures, the body
   signature exactly in the innermost layer; current single layer = valid meta and body signatures *)
Theorem C33_accept_implies_all_layers_partial : forall r,
  accept_ctx r = true -> needs_signature r = true -> unverified_origin_layers r = false ->
  exists ls, r_vh r = Some ls /\
    ((check_origin r = true /\ r_nmeta r = N.of_nat (length ls) /\ chain_valid ls)
     \/ (check_origin r = false /\ exists l, ls = [l] /\ has_meta l = true /\ meta_ok l = true
                                             /\ has_body l = true /\ body_ok l = true)).
Proof. exact accept_implies_all_layers_partial. Qed.

(* inside the class the outer layer is still fully verified *)
Theorem C33_accept_current_version : forall r ls,
  r_vh r = Some ls -> check_origin r = false -> verify r = true ->
  exists l rest, ls = l :: rest /\ has_meta l = true /\ meta_ok l = true /\ has_body l = true /\ body_ok l = true.
Proof. exact accept_current_version. Qed.

Theorem C33_verify_exact : forall r,
  verify r = true <->
  exists ls, r_vh r = Some ls /\
    ((check_origin r = true /\ r_nmeta r = N.of_nat (length ls) /\ chain_valid ls)
     \/ (check_origin r = false /\ exists l rest, ls = l :: rest /\ has_meta l = true /\ meta_ok l = true
                                                  /\ has_body l = true /\ body_ok l = true)).
Proof. exact verify_exact. Qed.

(* the only exemption: no verification header, TTL = 1, authenticated peer connection *)
Theorem C33_exemption_exact : forall r,
  exempt r = true <-> (r_vh r = None /\ r_has_meta r = true /\ r_ttl r = 1 /\ r_trusted r = true).
Proof. exact exemption_exact. Qed.

Theorem C33_not_exempt_needs_valid : forall r, accept_ctx r = true -> exempt r = false -> verify r = true.
Proof. exact not_exempt_needs_valid. Qed.

(* mutations, under the hypothesis that a signature verifies for at most one message *)
Theorem C33_body_change_rejected :
  forall (msg sigv : Type) (verify_sig : sigv -> msg -> bool),
    (forall s m m', verify_sig s m = true -> verify_sig s m' = true -> m = m') ->
    forall (enc_vh : list (wlayer sigv) -> msg) (nil_meta : msg) (w : wreq msg sigv) (b' : msg),
      waccept msg sigv verify_sig enc_vh nil_meta w = true ->
      needs_signature (to_req msg sigv verify_sig enc_vh nil_meta w) = true -> b' <> w_bodymsg msg sigv w ->
      (forall ls l, w_layers msg sigv w = Some ls -> In l ls ->
         osig msg sigv verify_sig (w_body sigv l) (w_bodymsg msg sigv w) = false -> osig msg sigv verify_sig (w_body sigv l) b' = false) ->
      waccept msg sigv verify_sig enc_vh nil_meta
        (mkwreq msg sigv b' (w_metas msg sigv w) (w_layers msg sigv w) (w_has_meta msg sigv w) (w_version msg sigv w) (w_ttl msg sigv w) (w_trusted msg sigv w)) = false.
Proof. intros msg sigv verify_sig Hb enc_vh nil_meta. exact (body_change_rejected msg sigv verify_sig Hb enc_vh nil_meta). Qed.

Theorem C33_meta_change_rejected :
  forall (msg sigv : Type) (verify_sig : sigv -> msg -> bool),
    (forall s m m', verify_sig s m = true -> verify_sig s m' = true -> m = m') ->
    forall (enc_vh : list (wlayer sigv) -> msg) (nil_meta : msg) (w : wreq msg sigv) (m0 : msg) (mrest : list msg) (m0' : msg),
      waccept msg sigv verify_sig enc_vh nil_meta w = true ->
      needs_signature (to_req msg sigv verify_sig enc_vh nil_meta w) = true -> w_metas msg sigv w = m0 :: mrest -> m0' <> m0 ->
      (forall ls l rest, w_layers msg sigv w = Some ls -> ls = l :: rest -> osig msg sigv verify_sig (w_meta sigv l) m0 = true) ->
      waccept msg sigv verify_sig enc_vh nil_meta
        (mkwreq msg sigv (w_bodymsg msg sigv w) (m0' :: mrest) (w_layers msg sigv w) (w_has_meta msg sigv w) (w_version msg sigv w) (w_ttl msg sigv w) (w_trusted msg sigv w)) = false.
Proof. intros msg sigv verify_sig Hb enc_vh nil_meta. exact (meta_change_rejected msg sigv verify_sig Hb enc_vh nil_meta). Qed.

Theorem C33_drop_outer_layer_rejected :
  forall (msg sigv : Type) (verify_sig : sigv -> msg -> bool)
         (enc_vh : list (wlayer sigv) -> msg) (nil_meta : msg) (w : wreq msg sigv) l rest,
    needs_signature (to_req msg sigv verify_sig enc_vh nil_meta w) = true ->
    check_origin (to_req msg sigv verify_sig enc_vh nil_meta w) = true ->
    w_layers msg sigv w = Some (l :: rest) -> waccept msg sigv verify_sig enc_vh nil_meta w = true ->
    waccept msg sigv verify_sig enc_vh nil_meta
      (mkwreq msg sigv (w_bodymsg msg sigv w) (w_metas msg sigv w) (Some rest) (w_has_meta msg sigv w) (w_version msg sigv w) (w_ttl msg sigv w) (w_trusted msg sigv w)) = false.
Proof. intros msg sigv verify_sig enc_vh nil_meta. exact (drop_outer_layer_rejected msg sigv verify_sig enc_vh nil_meta). Qed.

Theorem C33_swap_body_meta_rejected :
  forall (msg sigv : Type) (verify_sig : sigv -> msg -> bool),
    (forall s m m', verify_sig s m = true -> verify_sig s m' = true -> m = m') ->
    forall (enc_vh : list (wlayer sigv) -> msg) (nil_meta : msg) (w : wreq msg sigv) l rest m0 mrest,
      needs_signature (to_req msg sigv verify_sig enc_vh nil_meta w) = true ->
      w_layers msg sigv w = Some (l :: rest) -> w_metas msg sigv w = m0 :: mrest ->
      osig msg sigv verify_sig (w_meta sigv l) m0 = true -> m0 <> w_bodymsg msg sigv w ->
      waccept msg sigv verify_sig enc_vh nil_meta
        (mkwreq msg sigv (w_bodymsg msg sigv w) (w_metas msg sigv w)
                (Some (mkwlayer sigv (w_meta sigv l) (w_body sigv l) (w_origin sigv l) :: rest))
                (w_has_meta msg sigv w) (w_version msg sigv w) (w_ttl msg sigv w) (w_trusted msg sigv w)) = true ->
      rest <> [] /\ check_origin (to_req msg sigv verify_sig enc_vh nil_meta w) = true.
Proof. intros msg sigv verify_sig Hb enc_vh nil_meta. exact (swap_body_meta_rejected msg sigv verify_sig Hb enc_vh nil_meta). Qed.

(* non-vacuity *)
Definition okl_inner := mklayer true true true true true true.
Definition okl_outer := mklayer false false true true true true.
Example C33_nonvacuous :
  accept_ctx (mkreq (Some [okl_outer; okl_inner]) true 2 (Some (2, 24)) 1 false) = true
  /\ accept_ctx (mkreq (Some [okl_outer; okl_inner]) true 3 (Some (2, 24)) 1 false) = false      (* layer count *)
  /\ accept_ctx (mkreq (Some [okl_inner]) true 1 (Some (ver_major, ver_minor_no_origin)) 2 false) = true
  /\ accept_ctx (mkreq None true 1 (Some (2, 25)) 1 true) = true                                   (* exemption *)
  /\ accept_ctx (mkreq None true 1 (Some (2, 25)) 2 true) = false
  /\ accept_ctx (mkreq None true 1 (Some (2, 25)) 1 false) = false
  /\ accept_plain (mkreq None true 1 (Some (2, 25)) 1 true) = false.
Proof. vm_compute. repeat split. Qed.

Print Assumptions C33_all_layers_refuted.
Print Assumptions C33_accept_implies_all_layers_partial.
Print Assumptions C33_exemption_exact.
Print Assumptions C33_body_change_rejected.
Print Assumptions C33_meta_change_rejected.
Print Assumptions C33_drop_outer_layer_rejected.
Print Assumptions C33_swap_body_meta_rejected.
