(* C06 — cursor listing yields each available physical object exactly once.
   Only statements, `exact`, non-vacuity examples and Print Assumptions live here.

   run h            : state of the metabase model after the history h (Meta/Model.v)
   view_list s n c  : DB.ListWithCursor(n, c) on the model: (items, returned cursor)
   pages_from       : the client loop (each call continues from the returned cursor; None = ErrEndOfListing)
   listed s         : reference (Meta/Spec.v): physical objects that are not tombstoned, carry no default
                      garbage mark and whose container is not removed, in (container, object) order
   listed_after s c : the listed objects after cursor c (ListModel.after = the order the code resumes in)
   oids_pos s       : no stored object has the all-zero ID (the Go code reads a zero ID as "no offset";
                      object IDs are SHA-256 hashes) — an explicit premise, see notes/C06.md

   Engine level (StorageEngine.ListWithCursor / mergeListResults: ListModel.engine_list,
   merge_list_results, engine_pages_from; reference ListModel.eng_listed), proved in Meta/ListEngine.v:
     C06_engine_page      : one engine call = the first n entries of eng_listed after the cursor
     C06_engine_chain     : any page sizes >= 1 from any cursor: the concatenated pages are eng_listed in order
                            (a prefix while the sizes do not exhaust it), then ErrEndOfListing
     C06_engine_reference : eng_listed is strictly sorted by address (no duplicates), holds an address iff some
                            shard lists it, and its ShardIDs are exactly the shards listing it
   shards = any list of (shard ID, run h_i); premise oids_pos for every shard as at shard level.
   The model of the engine itself is tied to the real engine differentially on every run. *)
From Coq Require Import List NArith ZArith Bool Sorted.
Import ListNotations.
From NV Require Import Gen.MetaConsts Meta.SMap Meta.Model Meta.Spec Meta.StatusProofs Meta.WfProofs
     Meta.ListModel Meta.ListProofs Meta.ListProofs2 Meta.ListProofs3 Meta.ListEngine.
Local Open Scope N_scope.

(* listing from an arbitrary cursor = the first n listed objects after it *)
Theorem C06_any_cursor : forall h n cur,
  let s := run h in oids_pos s ->
  fst (view_list s n cur) = firstn n (listed_after s cur).
Proof. intros h n cur s P. apply c06_any_cursor; auto. apply wf_run. Qed.

(* the returned cursor resumes exactly after the returned items *)
Theorem C06_next_cursor : forall h n cur,
  let s := run h in oids_pos s -> (1 <= n)%nat ->
  listed_after s (snd (view_list s n cur)) = skipn n (listed_after s cur).
Proof. intros h n cur s P Hn. apply c06_next_cursor; auto. apply wf_run. Qed.

(* any sequence of page sizes >= 1 from the nil cursor: the concatenated pages are the listed
   objects in order (a prefix while the sizes do not exhaust them), then end-of-listing *)
Theorem C06_shard_chain : forall h sizes,
  let s := run h in oids_pos s -> Forall (fun n => (1 <= n)%nat) sizes ->
  concat (fst (pages_from s sizes nil_cursor)) = firstn (list_sum sizes) (listed s) /\
  match snd (pages_from s sizes nil_cursor) with
  | Some cur' => (length (listed s) <= list_sum sizes)%nat -> forall n, fst (view_list s n cur') = []
  | None => concat (fst (pages_from s sizes nil_cursor)) = listed s
  end.
Proof.
  intros h sizes s P F.
  pose proof (c06_shard_chain s sizes nil_cursor (wf_run h) P F) as [H1 H2].
  rewrite listed_after_nil in *. split; auto.
  destruct (snd (pages_from s sizes nil_cursor)); auto. now destruct H2.
Qed.

(* the same from an arbitrary start cursor *)
Theorem C06_shard_chain_from : forall h sizes cur,
  let s := run h in oids_pos s -> Forall (fun n => (1 <= n)%nat) sizes ->
  concat (fst (pages_from s sizes cur)) = firstn (list_sum sizes) (listed_after s cur).
Proof. intros h sizes cur s P F. now apply (c06_shard_chain s sizes cur (wf_run h) P F). Qed.

(* the listed objects are strictly ordered by address: every address at most once *)
Theorem C06_no_duplicates : forall h, NoDup (map item_addr (listed (run h))).
Proof. intros h. apply listed_nodup. apply wf_run. Qed.

(* nothing removed is ever listed *)
Theorem C06_never_lists_removed : forall h n cur c o t,
  let s := run h in oids_pos s ->
  In (c, o, t) (fst (view_list s n cur)) ->
  exists b e, In (c, b) (cnrs s) /\ cgc b = false /\ In (o, e) (objs b) /\ e_phy e = true /\
              tombstoned b o = false /\ marked b o = false /\ t = h_typ (e_hdr e).
Proof.
  intros h n cur c o t s P H. apply listed_char. eapply c06_never_lists_removed; eauto. apply wf_run.
Qed.

(* non-vacuity: two containers, a tombstoned object, a garbage-marked one, a removed container;
   page sizes 1 and 2 from the nil cursor list exactly the remaining objects and then end *)
Definition hx (t : otype) (a : option oid) : hdr := mkHdr t 1 None a None None None None None.
Definition h_ex : list op :=
  [ OPut 1 (Obj 1 (hx TRegular None) None); OPut 1 (Obj 2 (hx TRegular None) None);
    OPut 1 (Obj 3 (hx TTombstone (Some 1)) None); OPut 2 (Obj 1 (hx TRegular None) None);
    OPut 2 (Obj 4 (hx TRegular None) None); OMark 2 [4] MDefault;
    OPut 3 (Obj 5 (hx TRegular None) None); OInhumeCnr 3 ].
Example C06_example :
  listed (run h_ex) = [(1, 2, TRegular); (1, 3, TTombstone); (2, 1, TRegular)] /\
  pages_from (run h_ex) [1; 2; 1]%nat nil_cursor = ([[(1, 2, TRegular)]; [(1, 3, TTombstone); (2, 1, TRegular)]], None).
Proof. vm_compute. split; reflexivity. Qed.

(* ---------------------------------------------------------------- engine level *)

(* one call of StorageEngine.ListWithCursor = the first n entries of the reference after the cursor *)
Theorem C06_engine_page : forall hs n cur,
  let shards := shards_of hs in
  Forall (fun sh : shard => oids_pos (snd sh)) shards ->
  fst (engine_list shards n cur) = firstn n (eng_listed shards cur).
Proof. intros hs n cur shards P. apply engine_page. now apply shards_of_ok. Qed.

(* the client loop over the engine: any sequence of page sizes >= 1 from any cursor (in particular the
   nil cursor) yields the reference in order, each entry once, then end-of-listing *)
Theorem C06_engine_chain : forall hs sizes cur,
  let shards := shards_of hs in
  Forall (fun sh : shard => oids_pos (snd sh)) shards -> Forall (fun n => (1 <= n)%nat) sizes ->
  concat (fst (engine_pages_from shards sizes cur)) = firstn (list_sum sizes) (eng_listed shards cur) /\
  match snd (engine_pages_from shards sizes cur) with
  | Some cur' => (length (eng_listed shards cur) <= list_sum sizes)%nat ->
                 forall n, engine_list shards n cur' = ([], None)
  | None => concat (fst (engine_pages_from shards sizes cur)) = eng_listed shards cur
  end.
Proof.
  intros hs sizes cur shards P F.
  pose proof (c06_engine_chain shards sizes cur (shards_of_ok hs P) F) as [H1 H2].
  split; auto. destruct (snd (engine_pages_from shards sizes cur)); auto. now destruct H2.
Qed.

(* what the reference is: strictly sorted by address (so every address at most once), an address is
   present iff at least one shard lists it after the cursor, and the ShardIDs of an entry are exactly
   the IDs of the shards that list its address (in shard order) *)
Theorem C06_engine_reference : forall hs cur,
  let shards := shards_of hs in
  StronglySorted addr_lt (map eitem_addr (eng_listed shards cur)) /\
  (forall a, In a (map eitem_addr (eng_listed shards cur)) <->
             exists sh, In sh shards /\ In a (map item_addr (listed_after (snd sh) cur))) /\
  (forall e, In e (eng_listed shards cur) ->
             snd e = map fst (filter (fun sh : shard => existsb (fun it => addr_eqb (item_addr it) (eitem_addr e))
                                                               (listed_after (snd sh) cur)) shards)).
Proof. intros hs cur shards. apply c06_engine_reference. Qed.

(* non-vacuity: two shards with overlapping content (object 1/2 on both), premises hold, page sizes
   2, 1, 4 from the nil cursor list the union once with the exact holders, then end-of-listing *)
Definition h_ex2 : list op :=
  [ OPut 1 (Obj 2 (hx TRegular None) None); OPut 1 (Obj 1 (hx TRegular None) None);
    OPut 2 (Obj 4 (hx TRegular None) None); OPut 3 (Obj 5 (hx TRegular None) None) ].
Definition shs_ex : list shard := shards_of [(7, h_ex); (9, h_ex2)].
Example C06_engine_example :
  Forall (fun sh : shard => oids_pos (snd sh)) shs_ex /\
  eng_listed shs_ex nil_cursor =
    [(1, 1, TRegular, [9]); (1, 2, TRegular, [7; 9]); (1, 3, TTombstone, [7]); (2, 1, TRegular, [7]);
     (2, 4, TRegular, [9]); (3, 5, TRegular, [9])] /\
  engine_pages_from shs_ex [2; 1; 4]%nat nil_cursor =
    ([[(1, 1, TRegular, [9]); (1, 2, TRegular, [7; 9])]; [(1, 3, TTombstone, [7])];
      [(2, 1, TRegular, [7]); (2, 4, TRegular, [9]); (3, 5, TRegular, [9])]], Some (3, 5)) /\
  engine_list shs_ex 3 (3, 5) = ([], None).
Proof.
  split; [|vm_compute; repeat split; reflexivity].
  repeat constructor; apply oids_posb_ok; vm_compute; reflexivity.
Qed.

Print Assumptions C06_any_cursor.
Print Assumptions C06_shard_chain.
Print Assumptions C06_never_lists_removed.
Print Assumptions C06_engine_page.
Print Assumptions C06_engine_chain.
Print Assumptions C06_engine_reference.
