(* C39 — converting GAS amounts between precisions never creates value or wraps.
   Only statements, `exact`, and Print Assumptions live here.

   p = balance-contract precision, source precision = fixed8_precision (8, from the source).
   to_balance = ToBalancePrecision, to_fixed8 = ToFixed8, round_trip = ToFixed8 o ToBalancePrecision,
   all including the silent wrap of big.Int.Int64(). *)
From Coq Require Import ZArith Bool.
From NV Require Import Gen.IRingPrecisionConsts IRing.Precision IRing.PrecisionProofs.
Local Open Scope Z_scope.

(* never more than the original: every non-negative int64 amount, every precision,
   even when the intermediate product wraps *)
Theorem C39_no_creation : forall p n, 0 <= n < two63 -> round_trip p n <= n.
Proof. exact no_creation_nonneg. Qed.

(* ... and for every int64 amount (negative too) as long as no multiplication step leaves int64 *)
Theorem C39_no_creation_no_overflow : forall p n,
  in_i64 n = true -> balance_overflows p n = false -> fixed8_overflows p (to_balance p n) = false ->
  round_trip p n <= n.
Proof. exact no_creation_no_overflow. Qed.

(* exact when the target precision is at least the source precision (product must fit) *)
Theorem C39_exact : forall p n,
  fixed8_precision <= p -> in_i64 (n * factor p) = true -> round_trip p n = n.
Proof. exact exact_when_increasing. Qed.

(* FULL statement of the last clause of the property (does not hold):
     forall p n, 0 <= p <= 18 -> 0 <= n < 2^53 ->
       to_balance p n = to_balance_exact p n /\ 0 <= to_balance p n
   refuted by p = 12 (the production precision), n = 2^53-1: n * 10^4 > 2^63. *)
Theorem C39_in_range_safe_refuted :
  exists p n, 0 <= p <= max_precision /\ 0 <= n < two53 /\
              to_balance p n < 0 /\ to_balance p n <> to_balance_exact p n.
Proof. exact in_range_safe_refuted. Qed.

Theorem C39_in_range_safe_refuted_minimal :
  to_balance 12 922337203685477 = 9223372036854770000 /\
  to_balance 12 922337203685478 = -9223372036854771616.
Proof. exact in_range_safe_refuted_minimal. Qed.

Theorem C39_fixed8_in_range_safe_refuted :
  exists p n, 0 <= p <= max_precision /\ 0 <= n < two53 /\ to_fixed8 p n < 0.
Proof. exact fixed8_in_range_safe_refuted. Qed.

Theorem C39_exact_refuted :
  exists p n, fixed8_precision <= p <= max_precision /\ 0 <= n < two53 /\ round_trip p n <> n.
Proof. exact exact_refuted. Qed.

Theorem C39_no_creation_refuted_negative :
  exists p n, 0 <= p <= max_precision /\ in_i64 n = true /\ n < round_trip p n.
Proof. exact no_creation_refuted_negative. Qed.

(* what does hold: outside the class "the product n * 10^|p-8| leaves int64"
   (balance_overflows / fixed8_overflows) the result is the exact value and keeps its sign *)
Theorem C39_in_range_safe_partial : forall p n,
  in_i64 n = true -> balance_overflows p n = false ->
  to_balance p n = to_balance_exact p n /\ (0 <= n -> 0 <= to_balance p n).
Proof. exact balance_safe_partial. Qed.

Theorem C39_fixed8_in_range_safe_partial : forall p n,
  in_i64 n = true -> fixed8_overflows p n = false ->
  to_fixed8 p n = to_fixed8_exact p n /\ (0 <= n -> 0 <= to_fixed8 p n).
Proof. exact fixed8_safe_partial. Qed.

(* the class is empty on the supported range [0, 2^53) for balance precisions up to 11
   (ToBalancePrecision) and from 5 (ToFixed8) *)
Theorem C39_balance_no_overflow_upto_11 : forall p n,
  0 <= p <= 11 -> 0 <= n < two53 -> balance_overflows p n = false.
Proof. exact balance_no_overflow_upto_11. Qed.

Theorem C39_fixed8_no_overflow_from_5 : forall p n,
  5 <= p -> 0 <= n < two53 -> fixed8_overflows p n = false.
Proof. exact fixed8_no_overflow_from_5. Qed.

(* non-vacuity *)
Example C39_example :
  to_balance 12 123456789 = 1234567890000 /\ round_trip 12 123456789 = 123456789 /\
  to_balance 6 12345 = 123 /\ round_trip 6 12345 = 12300 /\
  balance_overflows 12 123456789 = false /\ in_i64 (123456789 * factor 12) = true /\
  fixed8_overflows 6 (to_balance 6 (-12345)) = false /\ round_trip 6 (-12345) = -12400.
Proof. vm_compute. repeat split; reflexivity. Qed.

Print Assumptions C39_no_creation.
Print Assumptions C39_no_creation_no_overflow.
Print Assumptions C39_exact.
Print Assumptions C39_in_range_safe_refuted.
Print Assumptions C39_in_range_safe_partial.
Print Assumptions C39_fixed8_in_range_safe_partial.
Print Assumptions C39_balance_no_overflow_upto_11.
Print Assumptions C39_fixed8_no_overflow_from_5.
