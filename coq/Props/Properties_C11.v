(* C11 — payload range reads return exactly the requested bytes or out-of-range.
   Only statements, `exact`, examples and Print Assumptions live here. *)
From Coq Require Import List NArith ZArith Arith Bool.
Import ListNotations.
From NV Require Import Base.U64 Gen.FSTreeConsts FSTree.Wire FSTree.Range FSTree.Combined FSTree.Layers
     FSTree.RangeCheck FSTree.WireProofs FSTree.RangeProofs.
Local Open Scope N_scope.

(* PayloadRange.Resolve, computed with uint64 wrap-around, equals the range
   specification computed without wrap, for all uint64 triples and all modes *)
Theorem C11_resolve_spec : forall mode a b len, a < two64 -> b < two64 -> len < two64 ->
  match range_spec mode a b len with
  | SpOk off ln => resolve mode a b len = RsOk off ln /\ off + ln <= len
  | SpUnsat => resolve mode a b len = RsOOR
  | SpBadMode => resolve mode a b len = RsBad
  end.
Proof. exact resolve_spec. Qed.

(* a resolved range covers exactly the payload positions the request denotes, and
   out-of-range is answered exactly for the unsatisfiable requests *)
Theorem C11_resolve_sound : forall mode a b len, a < two64 -> b < two64 -> len < two64 ->
  (forall off ln, resolve mode a b len = RsOk off ln ->
     off + ln <= len /\ forall i, (off <= i < off + ln) <-> denotes mode a b len i) /\
  (resolve mode a b len = RsOOR <-> unsatisfiable mode a b len).
Proof. exact resolve_sound. Qed.

(* Object binary = head ++ varint(|P|) ++ P, head buffer = head and the first j bytes of the
   rest (any j, also inside the varint), the remainder behind a stream of one of the shapes
   _readObject builds: the bytes delivered are the payload slice the range denotes. *)
Theorem C11_stream_bytes : forall head P j stream mode a b o tagln hdr,
  let vb := enc_varint (lenN P) in
  (match stream with
   | None => (length (vb ++ P) <= j)%nat
   | Some st => shape st (skipn j (vb ++ P))
   end) ->
  length head = (o + tagln)%nat ->
  lenN P <= max_int64 -> a < two64 -> b < two64 ->
  let res := range_with (PlOk (lenN P) hdr) (SFound o tagln ty_bytes) (head ++ firstn j (vb ++ P)) stream mode a b in
  match range_spec mode a b (lenN P) with
  | SpOk off ln => exists r, res = ShOk r /\ drain r = firstnN ln (skipnN off P)
  | SpUnsat => res = ShErr EOutOfRange
  | SpBadMode => res = ShErr EOther
  end.
Proof. exact stream_bytes_enc. Qed.

(* object without payload field *)
Theorem C11_stream_bytes_nopayload : forall prefix stream mode a b hdr, a < two64 -> b < two64 ->
  let res := range_with (PlOk 0 hdr) SMissing prefix stream mode a b in
  match range_spec mode a b 0 with
  | SpOk off ln => exists r, res = ShOk r /\ drain r = firstnN ln (skipnN off [])
  | SpUnsat => res = ShErr EOutOfRange
  | SpBadMode => res = ShErr EOther
  end.
Proof. exact stream_bytes_nopayload. Qed.

(* the streams of the three storage formats have the shape C11_stream_bytes asks for *)
Theorem C11_stream_bytes_plain : forall obj k, shape (RFile (skipn k obj)) (skipn k obj).
Proof. exact plain_shape. Qed.

Theorem C11_stream_bytes_combined : forall rest foreign,
  shape (RLim (RFile (rest ++ foreign)) (Z.of_N (lenN rest))) rest.
Proof. exact combined_shape. Qed.

(* zstd: for any decompressor that inverts the stored bytes, the preprocessed head is a
   prefix of the object and the stream is positioned right after it *)
Theorem C11_stream_bytes_compressed : forall (dec : bytes -> option bytes) Z obj, dec Z = Some obj ->
  forall chunk stream,
    (npfbl <= length (firstn npfbl Z))%nat ->
    is_compressed (firstn npfbl Z) = true ->
    drain stream = skipn npfbl Z ->
    exists k, preprocess dec chunk (firstn npfbl Z) stream =
              OOk (firstn k obj) (Some (RFile (skipn k obj))) /\ shape (RFile (skipn k obj)) (skipn k obj).
Proof. exact compressed_head. Qed.

Theorem C11_layers_agree :
  (forall tree blob, final_in_cache tree ->
     wc_range true tree = tree /\ shard_range (Some (wc_range true tree)) blob = tree) /\
  (forall blob (wc_has_cache : bool),
     shard_range (if wc_has_cache then Some (wc_range false (ShErr EOther)) else None) blob = blob) /\
  (forall before after r, Forall (fun x => x = ShErr ENotFound) before -> found r ->
     engine_range (before ++ r :: after) = r).
Proof. exact layers_agree. Qed.

(* non-vacuity *)
Example C11_example_wrap : resolve mode_bounds 5 18446744073709551615 10 = RsOk 5 5.
Proof. reflexivity. Qed.
Example C11_example_suffix : resolve mode_suffix 18446744073709551615 0 7 = RsOk 0 7.
Proof. reflexivity. Qed.
(* payload [1..6], tag at offset 3, head buffer ends inside nothing: 2 payload bytes buffered,
   the rest behind a limited reader followed by foreign bytes; bounds 1-4 *)
Example C11_example_stream :
  let P := [1;2;3;4;5;6] in
  let head := [9;9;9;34] in
  match range_with (PlOk 6 None) (SFound 3 1 ty_bytes) (head ++ firstn 3 (enc_varint 6 ++ P))
                   (Some (RLim (RFile ([3;4;5;6] ++ [127;0;7])) 4)) mode_bounds 1 4 with
  | ShOk r => drain r = [2;3;4;5]
  | _ => False
  end.
Proof. vm_compute. reflexivity. Qed.

Print Assumptions C11_resolve_spec.
Print Assumptions C11_resolve_sound.
Print Assumptions C11_stream_bytes.
Print Assumptions C11_stream_bytes_compressed.
Print Assumptions C11_layers_agree.
