(* C23 — reading a split or erasure-coded object returns exactly its original bytes.
   Only statements, `exact`, and Print Assumptions live here. *)
From Coq Require Import NArith List Bool.
Import ListNotations.
From NV Require Import Base.U64 Assemble.Range Assemble.RangeProofs.
Local Open Scope N_scope.

(* link based assembly (V2 with link; EC parts): the per-child sub-ranges
   concatenate to exactly the requested slice, for all child sizes/offsets/lengths *)
Theorem C23_link_range : forall (A : Type) (cs : list (list A)) off ln,
  read_all (fwd off ln (map len cs)) cs = slice off ln (concat cs).
Proof. intros A. exact fwd_correct. Qed.

(* chain walked back from the right end (V2 without link, V1 via link) *)
Theorem C23_reverse_chain_range : forall (A : Type) (rcs : list (list A)) from to, from <= to ->
  read_all_rev (bwd (len (concat (rev rcs))) from to (map len rcs)) rcs =
  slice from (to - from) (concat (rev rcs)).
Proof. intros A. exact bwd_correct. Qed.

(* V1 from the last part: sub-range of the last child + chain of the others *)
Theorem C23_v1_range : forall (A : Type) (rcs : list (list A)) off ln,
  off + ln <= len (concat (rev rcs)) ->
  read_all_rev (v1_requests off ln (map len rcs)) rcs = slice off ln (concat (rev rcs)).
Proof. intros A. exact v1_correct. Qed.

(* EC: ranges over the parts give the payload slice (padding and parity never leak) *)
Theorem C23_ec_range : forall (A : Type) (parts : list (list A)) (payload pad : list A) off ln,
  concat parts = payload ++ pad -> off + ln <= len payload ->
  read_all (fwd off ln (map len parts)) parts = slice off ln payload.
Proof. intros A. exact ec_range_correct. Qed.

(* whole object = the range (0, length) *)
Theorem C23_whole : forall (A : Type) (cs : list (list A)),
  read_all (fwd 0 (len (concat cs)) (map len cs)) cs = concat cs.
Proof.
  intros A cs. rewrite fwd_correct. unfold slice, len. simpl.
  rewrite Nnat.Nat2N.id. apply firstn_all.
Qed.

(* a requested range is answered with an in-bounds (offset, length) of the stated
   meaning, and reported out of range exactly when it is unsatisfiable *)
Theorem C23_resolve_sound : forall m f s n o l, resolve m f s n = Some (o, l) ->
  o + l <= n /\ (m = MNone -> o = 0 /\ l = n) /\
  (m = MOffLen -> (s = 0 /\ f = 0 /\ o = 0 /\ l = n) \/ (0 < s /\ o = f /\ l = s)) /\
  (m = MBounds -> f <= s /\ f < n /\ o = f /\ l = N.min s (n - 1) - f + 1) /\
  (m = MFrom -> f < n /\ o = f /\ l = n - f) /\
  (m = MSuffix -> 0 < f /\ l = N.min f n /\ o = n - l).
Proof. exact resolve_sound. Qed.

Theorem C23_out_of_range_iff : forall m f s n, resolve m f s n = None <->
  match m with
  | MNone => False
  | MOffLen => (s = 0 /\ f <> 0) \/ (0 < s /\ n < f + s)
  | MBounds => s < f \/ n <= f
  | MFrom => n <= f
  | MSuffix => f = 0
  end.
Proof. exact resolve_oor_iff. Qed.

(* the assemblers' own uint64 bounds check (with wrap-around of off+len) *)
Theorem C23_precheck_u64 : forall off ln par, off < two64 -> ln < two64 -> par < two64 ->
  precheck_oor off ln par = false <-> off + ln <= par.
Proof. exact precheck_oor_iff. Qed.

(* non-vacuity *)
Example C23_example_link :
  read_all (fwd 3 4 (map len [[1;2;3]; [4;5]; [6;7;8;9]]%N)) [[1;2;3]; [4;5]; [6;7;8;9]]%N = [4; 5; 6; 7]%N.
Proof. vm_compute. reflexivity. Qed.
Example C23_example_v1 :
  read_all_rev (v1_requests 2 5 (map len [[6;7;8;9]; [4;5]; [1;2;3]]%N)) [[6;7;8;9]; [4;5]; [1;2;3]]%N = [3; 4; 5; 6; 7]%N.
Proof. vm_compute. reflexivity. Qed.
Example C23_example_oor : resolve MOffLen 18446744073709551615 2 10 = None /\ precheck_oor 18446744073709551615 2 10 = true.
Proof. split; vm_compute; reflexivity. Qed.

Print Assumptions C23_link_range.
Print Assumptions C23_reverse_chain_range.
Print Assumptions C23_v1_range.
Print Assumptions C23_ec_range.
Print Assumptions C23_out_of_range_iff.
Print Assumptions C23_precheck_u64.
