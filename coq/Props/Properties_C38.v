(* C38 — network map admission and epoch ticks follow the rules. *)
From Coq Require Import List Bool Arith NArith.
Import ListNotations.
From NV Require Import Gen.IRProcConsts38 IRProc.C38Model IRProc.C38Proofs.

(* accepts cfg r = true  <->  processAddNode reaches NotarySignAndInvokeTX for the request r under the
   configured validator list cfg (any list: the theorem quantifies over configurations). *)
Theorem C38_accept_implies_all_validators : forall cfg r,
  accepts cfg r = true ->
  a_alphabet r = true /\ tx_valid r /\ forall v, In v cfg -> verdict r v = true.
Proof. exact accept_implies. Qed.

Theorem C38_reference_sound : forall cfg r,
  (accepts cfg r = true -> may_accept cfg r = true)
  /\ (may_accept cfg r = true -> a_alphabet r = true /\ tx_valid r /\ forall v, In v cfg -> verdict r v = true).
Proof. intros. split; [apply accept_ref|apply may_accept_sound]. Qed.

(* histories of notifications, ticks and membership changes, from any initial counter: the tick
   that follows the prefix `pre` invokes NewEpoch exactly once with (latest notified epoch + 1)
   (uint64 arithmetic) if the node is an alphabet member at that moment, and not at all otherwise *)
Theorem C38_tick_next : forall init a0 pre post,
  nth (ticks pre) (run (mkhst init a0) (pre ++ Tick :: post)) [] =
  if alpha_at a0 pre then [next (latest init pre)] else [].
Proof. intros. exact (tick_calls pre (mkhst init a0) post). Qed.

(* the same, said for the notification: once NewEpoch(n) has been notified -- whatever the chain did while the
   handler ran (env: failing epoch duration / transaction height / network map snapshot / container listing
   requests) -- and no other notification came since, a tick of an alphabet member asks for n + 1 *)
Theorem C38_tick_follows_notification : forall init a0 pre n env mid post,
  (forall e, In e mid -> match e with Notif _ _ => False | _ => True end) ->
  nth (ticks (pre ++ Notif n env :: mid)) (run (mkhst init a0) ((pre ++ Notif n env :: mid) ++ Tick :: post)) [] =
  if alpha_at a0 (pre ++ Notif n env :: mid) then [next n] else [].
Proof. intros. rewrite C38_tick_next. rewrite latest_after_notif by assumption. reflexivity. Qed.

(* ... and there is one (possibly empty) answer per tick, nothing else *)
Theorem C38_calls_only_at_ticks : forall init a0 h,
  length (run (mkhst init a0) h) = ticks h /\ run (mkhst init a0) h = spec init a0 h.
Proof. intros. split; [apply run_length|apply run_spec]. Qed.

Theorem C38_next_is_successor : forall c, (c < 18446744073709551615)%N -> next c = (c + 1)%N.
Proof. exact next_is_succ. Qed.

Theorem C38_non_alphabet_never : forall cfg r init pre post,
  (a_alphabet r = false -> accepts cfg r = false)
  /\ (alpha_at false pre = false -> nth (ticks pre) (run (mkhst init false) (pre ++ Tick :: post)) [] = []).
Proof.
  intros. split; [apply non_alphabet_never_accepts|].
  intros H. rewrite C38_tick_next. rewrite H. reflexivity.
Qed.

(* non-vacuity *)
Example C38_nonvacuous :
  accepts [VState; VStruct; VFact 0] (mkareq true 0 true 1 true [true; false]) = true
  /\ accepts [VState; VStruct; VFact 0; VFact 1] (mkareq true 0 true 1 true [true; false]) = false
  /\ accepts [VFact 0] (mkareq true 1 true 1 true [true]) = false
  /\ run (mkhst 5 true) [Tick; Notif 9 0; Tick; SetAlpha false; Tick; Notif 3 (16 + 4096); SetAlpha true; Tick]%N = [[6]; [10]; []; [4]]%N
  /\ accepts [VFact 0] (mkareq true 2 true 1 true [true]) = false
  /\ next 18446744073709551615%N = 0%N.
Proof. vm_compute. repeat split. Qed.

Print Assumptions C38_accept_implies_all_validators.
Print Assumptions C38_reference_sound.
Print Assumptions C38_tick_next.
Print Assumptions C38_tick_follows_notification.
Print Assumptions C38_calls_only_at_ticks.
Print Assumptions C38_next_is_successor.
Print Assumptions C38_non_alphabet_never.
