(* C16 — objects written through the write-cache stay readable through every flush.
   Only statements, `exact`, examples and Print Assumptions live here.
   Model: WC/Model16.v (one address; put / flush / read threads counted per program point; read-only
   switches, reopen, restart).  `run16 ls init16 = Some s` quantifies over ALL interleavings. *)
From Coq Require Import List Arith Bool.
Import ListNotations.
From NV Require Import WC.Model16 WC.Proofs16.

(* every read that started after a put through the cache was acknowledged returned the object, and a
   reader that missed the cache finds the object in the blob storage *)
Theorem C16_read_found : forall ls s, run16 ls init16 = Some s -> rok s = true /\ (rno s > 0 -> blobv s = true).
Proof. exact read_found. Qed.

(* core invariant: after the acknowledgement the bytes are in the cache or in the blob storage *)
Theorem C16_cache_or_blob : forall ls s, run16 ls init16 = Some s -> acked s = true -> cfile s = true \/ blobv s = true.
Proof. exact cache_or_blob. Qed.

(* after a flush (storage.Put succeeded; a fortiori after the flusher removed the object from the cache)
   the object is in the blob storage *)
Theorem C16_after_flush_in_blob : forall ls s, run16 ls init16 = Some s ->
  (fsto s + fdel s > 0 -> blobv s = true) /\ (acked s = true -> cfile s = false -> blobv s = true).
Proof. intros ls s H. split; [exact (after_flush_in_blob ls s H) | exact (flushed_means_in_blob ls s H)]. Qed.

(* non-vacuity: put, read racing with a flush that removes the object between the reader's counter check
   and its cache read, failed flush before, read-only switch, restart *)
Example C16_example :
  match run16 [PutFile; PutCnt; PutAck; FRead; FStore false; RStart; FRead; FStore true; FDelFile; RCacheMiss;
               FDelCnt; RBlob; SetRO true; RStart; RBlob; Restart; RStart; RBlob] init16 with
  | Some s => rok s && blobv s && negb (cfile s) && acked s
  | None => false
  end = true.
Proof. vm_compute. reflexivity. Qed.

Print Assumptions C16_read_found.
Print Assumptions C16_cache_or_blob.
Print Assumptions C16_after_flush_in_blob.
