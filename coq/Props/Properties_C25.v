(* C25 — a successful PUT means the storage policy's copies were acknowledged.
   Only statements, `exact`, examples and Print Assumptions live here. *)
From Coq Require Import List Arith.
Import ListNotations.
From NV Require Import Place.Put Place.PutProofs.

(* Replication rules, no MaxReplicas (no initial policy, or an initial policy
   that only sets per-rule limits): full success => every processed rule r
   (list, required) has [required] pairwise distinct nodes of ITS list
   (lists of different rules may overlap) that acknowledged and were really
   sent the object.  required = R of the rule, or its initial limit. *)
Theorem C25_rep : forall ack local lists rep ini st p acc,
  max_of ini = 0 ->
  save_rep ack local lists rep ini = (st, p, acc) ->
  Forall (fun r => NoDup (fst r)) (ordered_rules local lists rep ini) ->
  st = Ok ->
  Forall (fun r => rule_ok ack p r (snd r)) (ordered_rules local lists rep ini).
Proof. exact put_rep_ok. Qed.

(* ... and without an initial policy every rule with a positive count is processed *)
Theorem C25_rep_all_rules : forall local lists rep i,
  i < length rep -> 0 < nth i rep 0 ->
  In (nth i lists [], nth i rep 0) (ordered_rules local lists rep None).
Proof. exact ordered_rules_all. Qed.

(* Initial policy with MaxReplicas > 0 (acc = copies counted per processed rule,
   in processing order incl. local preference): no rule exceeds its limit, each
   count is witnessed by distinct acknowledging nodes of the rule's list, the
   total never exceeds MaxReplicas, and on success the total is exactly
   min(MaxReplicas, sum of the limits). *)
Theorem C25_initial : forall ack local lists rep ini st p acc,
  0 < max_of ini ->
  save_rep ack local lists rep ini = (st, p, acc) ->
  Forall (fun r => NoDup (fst r)) (ordered_rules local lists rep ini) ->
  length acc <= length (ordered_rules local lists rep ini)
  /\ Forall2 (within ack p) (firstn (length acc) (ordered_rules local lists rep ini)) acc
  /\ fold_right plus 0 acc <= max_of ini
  /\ (st = Ok -> fold_right plus 0 acc
                 = Nat.min (max_of ini) (sum_limits (ordered_rules local lists rep ini))).
Proof. exact put_initial_ok. Qed.

(* EC rule: for EVERY schedule of the part goroutines' atomic steps, if all
   parts are stored they sit on pairwise distinct node indexes of the rule's
   list, each of which acknowledged. *)
Theorem C25_ec : forall ack nodes data total sched,
  let st := ec_run ack nodes data sched (ec_init total (length nodes)) in
  ec_all_done st = true ->
  exists idxs, ec_placement st = map Some idxs /\ length idxs = total /\ NoDup idxs
               /\ forall i, In i idxs -> i < length nodes /\ ack (nth i nodes 0) = true.
Proof. exact ec_safe. Qed.

Theorem C25_ec_distinct_nodes : forall (nodes : list node) idxs,
  NoDup nodes -> NoDup idxs -> (forall i, In i idxs -> i < length nodes) ->
  NoDup (map (fun i => nth i nodes 0) idxs).
Proof. exact distinct_nodes. Qed.

(* ---- non-vacuity ------------------------------------------------------------ *)
Definition ex_ack (n : nat) : bool := negb (Nat.eqb n 2).

(* REP 2 over [1;2;3] and REP 2 over [2;3;4]; node 2 refuses: success with sends to 1,2,3,4 *)
Example C25_example_rep :
  let '(st, p, acc) := save_rep ex_ack 1 [[1; 2; 3]; [2; 3; 4]] [2; 2] None in
  st = Ok /\ rp_sent p = [1; 2; 3; 4] /\ acc = [2; 2].
Proof. repeat split; reflexivity. Qed.

(* only one node left in the second list -> explicitly incomplete / error *)
Example C25_example_fail :
  let '(st, _, _) := save_rep ex_ack 1 [[1; 2]; [2; 5]] [1; 2] None in st = Incomplete.
Proof. reflexivity. Qed.

(* initial policy: limits [1;1], MaxReplicas 1, local preference: the rule listing the local node 4 goes first *)
Example C25_example_initial :
  let '(st, p, acc) := save_rep ex_ack 4 [[1; 2; 3]; [2; 3; 4]] [2; 2] (Some (mkInit [1; 1] 1 true)) in
  st = Ok /\ rp_sent p = [2; 3] /\ acc = [1].
Proof. repeat split; reflexivity. Qed.

(* EC 2/1 over 4 nodes, node index 1 refuses, round-robin schedule *)
Example C25_example_ec :
  let st := ec_run (fun n => negb (Nat.eqb n 11)) [10; 11; 12; 13] 2
                   [0; 1; 2; 0; 1; 2; 1; 1; 1; 1] (ec_init 3 4) in
  ec_all_done st = true /\ ec_placement st = [Some 0; Some 3; Some 2].
Proof. split; reflexivity. Qed.

Print Assumptions C25_rep.
Print Assumptions C25_rep_all_rules.
Print Assumptions C25_initial.
Print Assumptions C25_ec.
Print Assumptions C25_ec_distinct_nodes.

(* the saveObject entry for REP rules differs from [save_rep] only by an early refusal *)
Theorem C25_entry : forall session ack local lists rep ini p acc,
  put_rep session ack local lists rep ini = (Ok, p, acc) ->
  save_rep ack local lists rep ini = (Ok, p, acc).
Proof. exact put_rep_ok_inv. Qed.
Print Assumptions C25_entry.
