(* C01 — object visibility follows tombstone, garbage, expiry and lock rules in all views.
   Only statements, `exact`, non-vacuity examples and Print Assumptions live here.

   run h          : state of the metabase model after the history h (any list of operations)
   status_at      : the reference status of Spec.v, written from the property text
   excluded s e c o: the known class (known_findings.txt, key tombstone-and-live-lock):
                    the object, or an ancestor it inherits from, has a tombstone and a live lock.
   Full-strength statement (refuted, see C01_exists_status_refuted):
     forall h ign c o, status_of_class (view_exists (run h) ign c o) = Some (status_at (run h) e c o). *)
From Coq Require Import List NArith ZArith Bool.
Import ListNotations.
From NV Require Import Gen.MetaConsts Meta.SMap Meta.Model Meta.Spec Meta.Check
     Meta.StatusProofs Meta.WfProofs Meta.ViewProofs Meta.C01Proofs.
Local Open Scope N_scope.

(* every reachable state keeps its indexes well formed *)
Theorem C01_inv_reachable : forall h, wf_state (run h).
Proof. exact wf_run. Qed.

(* DB.Exists (with and without ignoreExpiration) reports the reference status *)
Theorem C01_exists_status_partial : forall h (ign : bool) c o,
  let s := run h in let e := if ign then 0 else epoch s in
  excluded s e c o = false -> status_of_class (view_exists s ign c o) = Some (status_at s e c o).
Proof. exact c01_exists. Qed.

Theorem C01_exists_status_refuted :
  exists h c o, status_of_class (view_exists (run h) false c o) <> Some (status_at (run h) (epoch (run h)) c o).
Proof. exact c01_exists_refuted. Qed.

(* DB.Get (raw or not) *)
Theorem C01_get_status_partial : forall h raw c o,
  let s := run h in
  excluded s (epoch s) c o = false ->
  class_ok true (status_at s (epoch s) c o) (bucket_stored s c o) (view_get s raw c o) = true.
Proof. exact c01_get. Qed.

(* DB.ResolveECPart *)
Theorem C01_ec_part_partial : forall h c o rule idx,
  let s := run h in
  excluded s (epoch s) c o = false ->
  ec_agrees (match bucket s c with None => NotFound | Some _ => status_at s (epoch s) c o end)
            (view_ec s c o rule idx) = true.
Proof. exact c01_ec. Qed.

(* unfiltered search = the stored objects whose reference status is Available, in ID order *)
Theorem C01_search_partial : forall h c,
  let s := run h in
  (forall o, excluded s (epoch s) c o = false) ->
  view_search s c = match bucket s c with Some b => search_in b (epoch s) | None => [] end.
Proof. exact c01_search. Qed.

(* DB.IsLocked = some live lock object targets the address (all histories, no exclusion) *)
Theorem C01_is_locked : forall h c o,
  let s := run h in
  view_locked s c o = match bucket s c with
                      | Some b => negb (cgc b) && live_lock b (epoch s) o
                      | None => false
                      end.
Proof. exact c01_locked. Qed.

(* expired-object iteration yields exactly the expired, unlocked objects of live containers *)
Theorem C01_expired_iter_exact : forall h e x,
  In x (view_expired (run h) e) <-> In x (expired_unlocked (run h) e).
Proof. exact c01_expired. Qed.

(* existence check, header read and EC part resolution agree on one address *)
Theorem C01_views_agree_partial : forall h raw c o rule idx,
  let s := run h in
  excluded s (epoch s) c o = false ->
  exists st, st = status_at s (epoch s) c o /\
    status_of_class (view_exists s false c o) = Some st /\
    class_ok true st (bucket_stored s c o) (view_get s raw c o) = true /\
    (bucket s c <> None -> ec_agrees st (view_ec s c o rule idx) = true).
Proof. exact c01_views_agree. Qed.

(* the rules of the statement hold of the reference *)
Theorem C01_ref_container_removed : forall b e o, cgc b = true -> status_in b e o = NotFound.
Proof. exact ref_container_removed. Qed.
Theorem C01_ref_tombstone_removed : forall b e o,
  tombstoned b o = true -> direct b e o = Removed \/ direct b e o = Expired.
Proof. exact ref_tombstone_removed. Qed.
Theorem C01_ref_marked_not_found : forall b e o,
  tombstoned b o = false -> marked b o = true -> live_lock b e o = false -> expired b e o = false ->
  direct b e o = NotFound.
Proof. exact ref_marked_not_found. Qed.
Theorem C01_ref_expired : forall b e o,
  expired b e o = true -> live_lock b e o = false -> direct b e o = Expired.
Proof. exact ref_expired. Qed.
Theorem C01_ref_lock_overrides_expiry_and_marks : forall b e o,
  live_lock b e o = true -> tombstoned b o = false -> direct b e o = Available.
Proof. exact ref_lock_overrides_expiry_and_marks. Qed.
Theorem C01_ref_child_inherits_worse : forall k b e o p,
  parent_of b o = Some p -> (direct b e o = Available \/ direct b e o = NotFound) ->
  status_k (S k) b e o = worse (status_k k b e p) (direct b e o).
Proof. exact ref_child_inherits_worse. Qed.

(* non-vacuity: histories reaching each status, an inheritance case, and a non-excluded address *)
Definition hx (t : otype) (ex : option N) (a par : option oid) : hdr := mkHdr t 5 ex a par None None None None.
Definition ex_hist : list op :=
  [ OPut 1 (Obj 1 (hx TRegular None None None) None);                 (* plain *)
    OPut 1 (Obj 2 (hx TRegular (Some 2) None None) None);             (* expires after epoch 2 *)
    OPut 1 (Obj 3 (hx TRegular None None None) None);
    OPut 1 (Obj 4 (hx TTombstone None (Some 3) None) None);           (* tombstone for 3 *)
    OPut 1 (Obj 5 (hx TRegular (Some 2) None None) None);
    OPut 1 (Obj 6 (hx TLock None (Some 5) None) None);                (* lock on 5 *)
    OPut 1 (Obj 8 (hx TRegular None None (Some 7)) (Some (Obj 7 (hx TRegular (Some 1) None None) None)));
    OMark 1 [1] MDefault;
    OEpoch 3 ].
Example C01_example_statuses :
  map (fun o => status_at (run ex_hist) 3 1 o) [1; 2; 3; 5; 8; 9] =
  [NotFound; Expired; Removed; Available; Expired; Available].
Proof. vm_compute. reflexivity. Qed.
Example C01_example_views :
  map (fun o => view_exists (run ex_hist) false 1 o) [1; 2; 3; 5; 8; 9] =
  [v_notfound; v_expired; v_removed; v_ok; v_expired; v_absent] /\
  forallb (fun o => negb (excluded (run ex_hist) 3 1 o)) [1; 2; 3; 4; 5; 6; 7; 8; 9] = true.
Proof. vm_compute. split; reflexivity. Qed.

Print Assumptions C01_inv_reachable.
Print Assumptions C01_exists_status_partial.
Print Assumptions C01_exists_status_refuted.
Print Assumptions C01_get_status_partial.
Print Assumptions C01_ec_part_partial.
Print Assumptions C01_search_partial.
Print Assumptions C01_is_locked.
Print Assumptions C01_expired_iter_exact.
Print Assumptions C01_views_agree_partial.
