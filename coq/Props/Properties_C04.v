(* C04 — merged search over several shards / nodes behaves like one search over
   the union.  Only statements, `exact`, examples, Print Assumptions.

   Proved here:
   * the merge part: the model of MergeSearchResults (k-way loop as written, with
     calcMaxUniqueSearchResults, de-duplication by ID and the `more` computation)
     returns, for index-ordered pages of the shards' lists with exact flags, the
     first `lim` items of the sorted duplicate-free union and an exact `more`
     (C04_merge), under the premise that the comparator the loop uses agrees with
     the byte order of the stored values; that premise is established per
     attribute class (theorems C04_agree_id, _int, _text, _oid, _owner); C04_merge_int is the fully instantiated
     numeric case.  C04_associate_absent_refuted shows the one place where the
     premise failed in the code (repaired in the engine / server callers).
   * the cursor part ("every cursor the node returns is the index key of the last
     item", all primary attribute classes).
   NOT proved: the chain over several requests (C04_chain) and the composition with
   the shards' own search (that each shard returns an index-ordered page is C03's
   statement and only partly proved there); Server.ProcessSearch is not modelled. *)
From Coq Require Import List NArith ZArith Bool Arith Lia.
Import ListNotations.
From NV Require Import Gen.S256Consts Gen.SearchConsts S256.S256 Search.Search Search.SearchProofs Search.Merge Search.MergeProofs
  Search.MergeLoop Search.MergeLoopProofs Search.MergeClasses.
Local Open Scope N_scope.

(* numeric primary attribute: CalculateCursor(String(z)) is the integer index key *)
Theorem C04_cursor_roundtrip_int : forall cd attr op id z rest, canonical z ->
  cursor_class_of attr op = CC_INT ->
  calc_cursor cd attr op id (to_string z :: rest) = Some (index_key attr true (encode z) id).
Proof. exact cursor_int. Qed.

(* every other primary attribute (plain, owner, parent / first / associate,
   payload checksum, split ID): the rebuilt cursor is the plain index key,
   provided the text codecs round-trip (library assumptions, premises) *)
Theorem C04_cursor_roundtrip_partial : forall cd,
  (forall r, dec_b58 cd (enc_b58 cd r) = Some r) ->
  (forall r, dec_hex cd (enc_hex cd r) = Some r) ->
  (forall r, Nat.div2 (length (enc_hex cd r)) = length r) ->
  (forall r, length r = 16%nat -> dec_uuid cd (enc_uuid cd r) = Some r) ->
  forall attr op id raw text rest,
  restore_value cd attr raw = Some text ->
  (class_of attr = C_SUM -> length raw = 32%nat) -> (class_of attr = C_HOMO -> length raw = 64%nat) ->
  raw <> [] ->
  match cursor_class_of attr op with CC_ID | CC_INT => False | _ => True end ->
  calc_cursor cd attr op id (text :: rest) = Some (index_key attr false raw id).
Proof. exact cursor_plain. Qed.

(* the layout the unrepaired code produced for the payload checksum is not the index key *)
Theorem C04_old_checksum_cursor_refuted :
  old_sum_cursor key_checksum (repeat 171 32) (repeat 1 32)
  <> index_key key_checksum false (repeat 171 32) (repeat 1 32).
Proof. exact old_sum_cursor_wrong. Qed.

(* ---------- the merge ---------- *)

(* the reference: `union rawv sets` is the strictly (stored value, ID)-sorted list of exactly the items of the sets *)
Theorem C04_union_spec : forall (U : ritem -> Prop) (rawv : ritem -> bytes),
  (forall a b : ritem, U a -> U b -> r_id a = r_id b -> a = b) ->
  forall sets, Inv U rawv sets ->
  Forall U (union rawv sets) /\ ssorted rawv (union rawv sets) /\
  forall y, In y (union rawv sets) <-> In y (concat sets).
Proof. exact union_spec. Qed.

(* MergeSearchResults on pages: every set is the first `lim` items of its shard's
   strictly index-ordered list (Inv), flag = "the shard has more"; `agree` = the
   comparator used for this firstAttr / cmpInt equals byte order of the stored
   values; an ID determines the item (copies are equal).  Result = first `lim`
   items of the union, `more` exact. *)
Theorem C04_merge : forall dec_oid dec_usr first_attr cmp_int (U : ritem -> Prop) (rawv : ritem -> bytes),
  (forall a b, U a -> U b -> r_id a = r_id b -> a = b) ->
  (forall a b, U a -> U b -> r_id a <> r_id b ->
     attr_cmp dec_oid dec_usr first_attr cmp_int (r_attr a) (r_attr b) = Some (lex_compare (rawv a) (rawv b))) ->
  (forall a, U a -> cmp_int = true -> split_int_string (r_attr a) <> None) ->
  forall lim fulls, Inv U rawv fulls -> (0 < lim)%nat ->
  merge_results dec_oid dec_usr lim first_attr cmp_int
    (map (firstn lim) fulls) (map (fun f => Nat.ltb lim (length f)) fulls)
  = Some (firstn lim (union rawv fulls), Nat.ltb lim (length (union rawv fulls))).
Proof. exact merge_pages. Qed.

(* the same for arbitrary index-ordered sets and flags that are only set on full sets *)
Theorem C04_merge_sorted : forall dec_oid dec_usr first_attr cmp_int (U : ritem -> Prop) (rawv : ritem -> bytes),
  (forall a b, U a -> U b -> r_id a = r_id b -> a = b) ->
  (forall a b, U a -> U b -> r_id a <> r_id b ->
     attr_cmp dec_oid dec_usr first_attr cmp_int (r_attr a) (r_attr b) = Some (lex_compare (rawv a) (rawv b))) ->
  (forall a, U a -> cmp_int = true -> split_int_string (r_attr a) <> None) ->
  forall lim sets mores, Inv U rawv sets -> (0 < lim)%nat ->
  (any_true mores = true -> (lim <= length (union rawv sets))%nat) ->
  merge_results dec_oid dec_usr lim first_attr cmp_int sets mores
  = Some (firstn lim (union rawv sets), Nat.ltb lim (length (union rawv sets)) || any_true mores).
Proof. exact merge_sorted. Qed.

(* the agreement premise, per attribute class *)
Theorem C04_agree_id : forall dec_oid dec_usr cmp_int text (ok : bytes -> Prop) a b,
  cat_U text ok a -> cat_U text ok b -> r_id a <> r_id b ->
  attr_cmp dec_oid dec_usr [] cmp_int (r_attr a) (r_attr b)
  = Some (lex_compare (cat_raw (fun _ => []) a) (cat_raw (fun _ => []) b)).
Proof. exact agree_id. Qed.

Theorem C04_agree_int : forall dec_oid dec_usr first_attr (zof : bytes -> sint) a b, first_attr <> [] ->
  let U := cat_U (fun i => to_string (zof i)) (fun i => canonical (zof i)) in
  U a -> U b -> r_id a <> r_id b ->
  attr_cmp dec_oid dec_usr first_attr true (r_attr a) (r_attr b)
  = Some (lex_compare (cat_raw (fun i => encode (zof i)) a) (cat_raw (fun i => encode (zof i)) b)).
Proof. exact agree_int. Qed.

(* strings.Compare on the returned texts: user attributes and plain header fields
   (text = stored value), and hex / UUID texts provided the encoder preserves order *)
Theorem C04_agree_text : forall dec_oid dec_usr first_attr (text raw : bytes -> bytes) (ok : bytes -> Prop) a b,
  first_attr <> [] -> is_oid_key first_attr = false -> bytes_eqb first_attr key_owner = false ->
  (forall i j, ok i -> ok j -> lex_compare (text i) (text j) = lex_compare (raw i) (raw j)) ->
  cat_U text ok a -> cat_U text ok b -> r_id a <> r_id b ->
  attr_cmp dec_oid dec_usr first_attr false (r_attr a) (r_attr b)
  = Some (lex_compare (cat_raw raw a) (cat_raw raw b)).
Proof. exact agree_text. Qed.

Theorem C04_agree_oid : forall dec_oid dec_usr first_attr (text raw : bytes -> bytes) a b,
  is_oid_key first_attr = true ->
  let U := cat_U text (fun i => dec_oid (text i) = Some (raw i)) in
  U a -> U b -> r_id a <> r_id b ->
  attr_cmp dec_oid dec_usr first_attr false (r_attr a) (r_attr b)
  = Some (lex_compare (cat_raw raw a) (cat_raw raw b)).
Proof. exact agree_oid. Qed.

Theorem C04_agree_owner : forall dec_oid dec_usr (text raw : bytes -> bytes) a b,
  let U := cat_U text (fun i => dec_usr (text i) = Some (raw i)) in
  U a -> U b -> r_id a <> r_id b ->
  attr_cmp dec_oid dec_usr key_owner false (r_attr a) (r_attr b)
  = Some (lex_compare (cat_raw raw a) (cat_raw raw b)).
Proof. exact agree_owner. Qed.

(* fully instantiated: numeric primary filter (uses C05: print/parse round trip,
   compareIntStrings = numeric order, byte order of encodings = numeric order) *)
Theorem C04_merge_int : forall dec_oid dec_usr first_attr (zof : bytes -> sint) lim fulls, first_attr <> [] ->
  let U := cat_U (fun i => to_string (zof i)) (fun i => canonical (zof i)) in
  let rawv := cat_raw (fun i => encode (zof i)) in
  Inv U rawv fulls -> (0 < lim)%nat ->
  merge_results dec_oid dec_usr lim first_attr true
    (map (firstn lim) fulls) (map (fun f => Nat.ltb lim (length f)) fulls)
  = Some (firstn lim (union rawv fulls), Nat.ltb lim (length (union rawv fulls))).
Proof.
  intros dec_oid dec_usr first_attr zof lim fulls Hne U rawv HI Hlim.
  apply (merge_pages dec_oid dec_usr first_attr true U rawv); auto.
  - apply cat_id_inj.
  - intros a b Ha Hb Hab. now apply agree_int.
  - intros a Ha _. eapply precheck_int; eauto.
Qed.

(* where the premise failed: NOT_PRESENT on __NEOFS__ASSOCIATE with requested attributes -- the
   shards return the empty text, the (unrepaired) engine asked the merge to compare it as object IDs *)
Theorem C04_associate_absent_refuted : forall dec_oid dec_usr, dec_oid [] = None ->
  merge_results dec_oid dec_usr 10 key_associate false [[RItem [1] []]; [RItem [2] []]] [false; false] = None.
Proof. exact associate_absent_refuted. Qed.

(* non-vacuity *)
Example C04_example_int :
  calc_cursor id_codecs [78] M_GE (repeat 1 32) [[45; 53]]
  = Some ([78] ++ [0] ++ encode (true, 5) ++ repeat 1 32).
Proof. vm_compute. reflexivity. Qed.
Example C04_example_merge :
  ref_merge 2 [[MItem [1] [5]; MItem [3] [7]]; [MItem [2] [5]; MItem [1] [5]]] [false; false]
  = ([MItem [1] [5]; MItem [2] [5]], true).
Proof. vm_compute. reflexivity. Qed.

(* non-vacuity of C04_merge_int: IDs 1, 2, 3 with values 5, 5, 12; two shards [1;3] and [2;3], lim 2 *)
Definition ex_zof (i : bytes) : sint := (false, match i with [3] => 12 | _ => 5 end).
Definition ex_it (k : N) : ritem := RItem [k] (to_string (ex_zof [k])).
Example C04_example_merge_int :
  merge_results (fun _ => None) (fun _ => None) 2 [78] true
    (map (firstn 2) [[ex_it 1; ex_it 3]; [ex_it 2; ex_it 3]]) (map (fun f => Nat.ltb 2 (length f)) [[ex_it 1; ex_it 3]; [ex_it 2; ex_it 3]])
  = Some ([ex_it 1; ex_it 2], true).
Proof.
  rewrite (C04_merge_int (fun _ => None) (fun _ => None) [78] ex_zof); [vm_compute; reflexivity|discriminate| |lia].
  repeat constructor; try (vm_compute; congruence); try (vm_compute; reflexivity).
Qed.
Example C04_example_engine_absent :
  engine_first_attr [Filter key_associate M_NOT_PRESENT []] [key_associate] = [].
Proof. reflexivity. Qed.

Print Assumptions C04_cursor_roundtrip_int.
Print Assumptions C04_cursor_roundtrip_partial.
Print Assumptions C04_merge.
Print Assumptions C04_merge_sorted.
Print Assumptions C04_merge_int.
Print Assumptions C04_agree_text.
