(* C04 — merged search over several shards / nodes behaves like one search over
   the union.  Only statements, `exact`, examples, Print Assumptions.

   Proved here: the cursor part ("every cursor the node returns is the index
   key of the last item", all primary attribute classes).  The merge part
   (MergeSearchResults = first `lim` of the de-duplicated union in (stored
   value, ID) order) is NOT proved: the k-way merge loop is not modelled; the
   real function is compared with the reference `ref_merge` on every run. *)
From Coq Require Import List NArith ZArith Bool Arith.
Import ListNotations.
From NV Require Import Gen.S256Consts Gen.SearchConsts S256.S256 Search.Search Search.SearchProofs Search.Merge Search.MergeProofs.
Local Open Scope N_scope.

(* numeric primary attribute: CalculateCursor(String(z)) is the integer index key *)
Theorem C04_cursor_roundtrip_int : forall cd attr op id z rest, canonical z ->
  cursor_class_of attr op = CC_INT ->
  calc_cursor cd attr op id (to_string z :: rest) = Some (index_key attr true (encode z) id).
Proof. exact cursor_int. Qed.

(* every other primary attribute (plain, owner, parent / first / associate,
   payload checksum, split ID): the rebuilt cursor is the plain index key,
   provided the text codecs round-trip (library assumptions, premises) *)
Theorem C04_cursor_roundtrip_partial : forall cd,
  (forall r, dec_b58 cd (enc_b58 cd r) = Some r) ->
  (forall r, dec_hex cd (enc_hex cd r) = Some r) ->
  (forall r, Nat.div2 (length (enc_hex cd r)) = length r) ->
  (forall r, length r = 16%nat -> dec_uuid cd (enc_uuid cd r) = Some r) ->
  forall attr op id raw text rest,
  restore_value cd attr raw = Some text ->
  (class_of attr = C_SUM -> length raw = 32%nat) -> (class_of attr = C_HOMO -> length raw = 64%nat) ->
  raw <> [] ->
  match cursor_class_of attr op with CC_ID | CC_INT => False | _ => True end ->
  calc_cursor cd attr op id (text :: rest) = Some (index_key attr false raw id).
Proof. exact cursor_plain. Qed.

(* the layout the unrepaired code produced for the payload checksum is not the index key *)
Theorem C04_old_checksum_cursor_refuted :
  old_sum_cursor key_checksum (repeat 171 32) (repeat 1 32)
  <> index_key key_checksum false (repeat 171 32) (repeat 1 32).
Proof. exact old_sum_cursor_wrong. Qed.

(* non-vacuity *)
Example C04_example_int :
  calc_cursor id_codecs [78] M_GE (repeat 1 32) [[45; 53]]
  = Some ([78] ++ [0] ++ encode (true, 5) ++ repeat 1 32).
Proof. vm_compute. reflexivity. Qed.
Example C04_example_merge :
  ref_merge 2 [[MItem [1] [5]; MItem [3] [7]]; [MItem [2] [5]; MItem [1] [5]]] [false; false]
  = ([MItem [1] [5]; MItem [2] [5]], true).
Proof. vm_compute. reflexivity. Qed.

Print Assumptions C04_cursor_roundtrip_int.
Print Assumptions C04_cursor_roundtrip_partial.
