(* C17 — the write-cache eventually flushes everything and accounts its size exactly.
   Only statements, `exact`, examples and Print Assumptions live here.

   Model: WC/Model.v (labelled transition system of put / delete / scheduler steps / worker steps /
   restart over the literal transcription of flushScheduler's window arithmetic and of counters.Add /
   Delete).  `reachable p s` quantifies over ALL label sequences, i.e. all interleavings of user
   operations, scheduler steps, worker steps, storage failures and error aborts, for all parameters. *)
From Coq Require Import List NArith Arith Bool.
Import ListNotations.
From NV Require Import Base.U64 Gen.WCConsts WC.Model WC.Proofs1 WC.Proofs2 WC.Proofs3 WC.Proofs4 WC.Race.

(* Size accounting: at every reachable state (in particular every quiescent one) the counters' map is
   the directory and the reported size is the total size of the cached objects (as a uint64). *)
Theorem C17_size_exact : forall p s, reachable p s ->
  cmap s = fs s /\ csize s = wrap64 (msum (fs s)) /\ ((msum (fs s) < two64)%N -> csize s = msum (fs s)).
Proof.
  intros p s R. destruct (size_exact_mod p s R) as [A B]. split; [exact A|]. split; [exact B|].
  exact (size_exact p s R).
Qed.

(* No address stays marked "being flushed" without a scheduler window or a worker that will unmark it;
   at a quiescent point the in-flight set is empty, so no cached object is skipped by later rounds. *)
Theorem C17_no_inflight_leak : forall p s, reachable p s -> quiescent s -> infl s = [].
Proof. exact quiescent_no_inflight. Qed.

(* An undisturbed round hands every address of its snapshot to a worker exactly once, in order. *)
Theorem C17_round_covers : forall p srt, concat (round_batches p srt) = keys srt.
Proof. exact round_batches_cover. Qed.

(* Progress, all schedules: writes stopped, storage accepts writes, pending error consumed (tok = false:
   the scheduler has taken its error branch).  EVERY interleaving of one or more complete rounds that
   ends in a quiescent state has emptied the cache into the main storage. *)
Theorem C17_progress_all : forall p s0 srt ls s',
  reachable p s0 -> quiescent s0 -> tok s0 = false ->
  hrun p (LBegin srt :: ls) s0 = Some s' -> quiescent s' ->
  fs s' = [] /\ csize s' = 0%N /\ infl s' = [] /\ forall a, In a (keys (fs s0)) -> In a (blob s').
Proof. exact progress_all. Qed.

(* Progress, existence: from every quiescent reachable state (earlier flushes may have failed in any
   way) there is a round after which the cache is empty -- steps are always enabled and a measure
   decreases, so the round terminates. *)
Theorem C17_progress : forall p s0, reachable p s0 -> quiescent s0 ->
  exists ls s', hrun p (LTick :: LBegin (snapshot s0) :: ls) s0 = Some s' /\ quiescent s' /\
                fs s' = [] /\ csize s' = 0%N /\ infl s' = [] /\ forall a, In a (keys (fs s0)) -> In a (blob s').
Proof. exact progress_exists. Qed.

(* put = [file; counter] and delete = [file; counter] are not atomic in the code.  If a put and a
   delete of one address never overlap, the counters agree with the directory at quiescence ... *)
Theorem C17_size_exact_fine_partial : forall ls s, rrun true ls rinit = Some s -> rquiet s -> cnt s = file s.
Proof. exact race_partial. Qed.
(* ... and if they may overlap they can disagree permanently (suspected defect, see notes/C17.md). *)
Theorem C17_size_exact_fine_refuted :
  exists ls s, rrun false ls rinit = Some s /\ rquiet s /\ cnt s = true /\ file s = false.
Proof. exact race_refuted. Qed.

(* non-vacuity, with the package's default parameters *)
Definition default_params := mkP wc_max_batch_threshold wc_max_batch_count wc_max_batch_size.

Definition ex_labels := [LPut 0 100%N; LPut 1 200000%N; LPut 0 100%N; LPut 2 300%N].
Example C17_example_reachable_quiescent :
  match run default_params ex_labels init with
  | Some s => quiescentb s && N.eqb (csize s) 200400 && negb (tok s)
  | None => false
  end = true.
Proof. vm_compute. reflexivity. Qed.

Example C17_example_round :
  round_batches default_params [(0, 100%N); (2, 300%N); (1, 200000%N)] = [[0; 2]; [1]].
Proof. vm_compute. reflexivity. Qed.

(* failed flush, abort of the round, back-off, recovery: reachable, quiescent, and then emptied *)
Definition ex_p := mkP 600 2 8388608.
Definition ex_failed_then_flushed : bool :=
  match run ex_p [LPut 0 211%N; LPut 1 221%N; LPut 2 231%N; LPut 3 1012%N] init with
  | None => false
  | Some s1 =>
      match seq_round ex_p (fun b => mem 0 b) s1 with
      | None => false
      | Some (s2, c1) =>
          match c1 with [([0; 1], false)] => true | _ => false end && tok s2 &&
          match infl s2 with [] => true | _ => false end && N.eqb (csize s2) 1675 &&
          match step ex_p LTick s2 with
          | None => false
          | Some s3 =>
              match seq_round ex_p (fun _ => false) s3 with
              | None => false
              | Some (s4, _) => match fs s4 with [] => true | _ => false end && N.eqb (csize s4) 0 && quiescentb s4
              end
          end
      end
  end.
Example C17_example_failed_then_flushed : ex_failed_then_flushed = true.
Proof. vm_compute. reflexivity. Qed.

(* the three defects repaired in /repo, on the model of the old code *)
Example C17_old_scheduler_loses_last :
  round_batches_old (mkP 300 128 8388608) [(0, 1012%N); (1, 1022%N); (2, 1032%N)] = [[0]; [0]; [1]].
Proof. exact old_round_loses_last. Qed.
Example C17_old_add_inflates :
  let s := old_put 0 211%N (old_put 0 211%N init) in msum (fs s) = 211%N /\ csize s = 422%N.
Proof. exact old_add_inflates. Qed.

Print Assumptions C17_size_exact.
Print Assumptions C17_no_inflight_leak.
Print Assumptions C17_round_covers.
Print Assumptions C17_progress_all.
Print Assumptions C17_progress.
Print Assumptions C17_size_exact_fine_partial.
Print Assumptions C17_size_exact_fine_refuted.
