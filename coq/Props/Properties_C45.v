(* C45 — only client object operations are refused while the node is in maintenance. *)
From Coq Require Import String List Bool.
Import ListNotations.
From NV Require Import Prog.IR Prog.IRProofs Prog.Tables_Obj.
From NV Require Gen.Prog_ObjSvc.
Open Scope string_scope.
Module O := Gen.Prog_ObjSvc.

Lemma c45_bad_static : c45_bad O.funcs = [].
Proof. vm_compute. reflexivity. Qed.
Lemma c45_repl_static : c45_replicate_guarded O.funcs = false.
Proof. vm_compute. reflexivity. Qed.
Theorem C45_static : c45_bad O.funcs = [] /\ c45_replicate_guarded O.funcs = false.
Proof. split; [exact c45_bad_static|exact c45_repl_static]. Qed.

Lemma bad_with_nil_ok45 fuel prog noinl gs crit hs h :
  bad_handlers_with fuel prog noinl gs crit hs = [] -> In h hs ->
  handler_ok_with fuel prog noinl gs crit h = true.
Proof.
  unfold bad_handlers_with. intros Hb Hin.
  destruct (handler_ok_with fuel prog noinl gs crit h) eqn:E; [reflexivity|].
  assert (In h (filter (fun h => negb (handler_ok_with fuel prog noinl gs crit h)) hs)).
  { apply filter_In. split; [exact Hin|]. rewrite E. reflexivity. }
  rewrite Hb in H. contradiction.
Qed.

(* while the node is in maintenance (the check LocalNodeUnderMaintenance refuses), no
   execution of a client handler (get, head, range, put, delete, search) touches local
   storage or other nodes or sends object data *)
Theorem C45_maintenance_no_effect :
  forall h body env t r,
    In h client_handlers ->
    lookup O.funcs h = Some body ->
    exec env (inline_with obj_fuel O.funcs obj_noinl body) t r ->
    env "LocalNodeUnderMaintenance" = false ->
    forall e, In (EvEffect e) t -> obj_crit e = false.
Proof.
  intros h body env t r Hh Hl Hex Henv e He.
  pose proof (bad_with_nil_ok45 _ _ _ _ _ _ h c45_bad_static Hh) as Hok.
  refine (handler_ok_with_sound _ _ _ _ _ _ _ _ _ _ Hok Hl Hex g_maint (or_introl eq_refl) _ e He).
  intros g Hg. unfold g_maint in Hg. apply String.eqb_eq in Hg. subst. exact Henv.
Qed.

(* "only": the node-to-node replication handler does not consult the maintenance state *)
Theorem C45_only_clients :
  forall body, lookup O.funcs replicate_handler = Some body ->
    existsb (fun gs => g_maint (fst gs)) (guards_of (inline_with obj_fuel O.funcs obj_noinl body)) = false.
Proof.
  intros body Hl. pose proof c45_repl_static as H. unfold c45_replicate_guarded in H.
  rewrite Hl in H. exact H.
Qed.

Example C45_nonvacuous :
  exists body, lookup O.funcs replicate_handler = Some body
   /\ existsb obj_crit (names body) = true.
Proof. eexists. split; [vm_compute; reflexivity|vm_compute; reflexivity]. Qed.

Print Assumptions C45_static.
Print Assumptions C45_maintenance_no_effect.
Print Assumptions C45_only_clients.
