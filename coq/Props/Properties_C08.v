(* C08 — an object locked through the engine stays retrievable until the lock expires.
   Only statements, `exact`, examples and Print Assumptions live here.

   Full statement (false for the real engine, see C08_refuted; recorded in
   known_findings.txt as lock-missed-shard):
     for every history h of engine puts (objects, locks, tombstones), mode flips, put
     failures, GC passes and epoch advances with any shard visiting orders, if the engine
     accepted lock L for a retrievable object x at step i, then after every later step at
     which L is not expired, engine_get x = Found.
   Proved: the statement for every history that starts in a state where the accepted lock
   reached every shard (`Inv`, implied by the boolean c08_inv the check evaluates right after
   the acceptance): C08_locked_retrievable_partial. *)
From Coq Require Import List NArith Bool Arith Permutation.
Import ListNotations.
From NV Require Import Engine.Model Engine.Spec Engine.Check Engine.Gc Engine.Check8
  Engine.LockProofs Engine.LockWitness.
Local Open Scope N_scope.

(* x: object, l: its lock with expiration ex, b: the object's bytes, u: the objects that the
   history may put (every put of address x carries bytes b, every put of address l is the
   lock).  For every history `ops` of allowed operations (op_ok: no forced Delete/Drop, no
   shard addition, no injected read failures, epochs within the lock's life) with arbitrary
   visiting orders, broadcast orders, lock-check outcomes, error thresholds: x is returned by
   engine_get in the final state, for every visiting order. *)
Theorem C08_locked_retrievable_partial :
  forall (x l : oid) (ex : option N) (b : bytes), x <> l ->
  forall u : universe, (forall i, wf_put x l ex b (oid_of i) (rec_of u i) (bytes_of i)) ->
  forall rank ops s s' ord,
    Inv8 x l ex b s -> Forall (op_ok ex) ops -> run8 u rank s ops = Some s' ->
    Permutation ord (seq 0 (length (shards (s8_en s')))) ->
    fst (engine_get (thr (s8_en s')) (epoch (s8_en s')) x ord (shards (s8_en s'))) = GFound b.
Proof. exact locked_retrievable_partial. Qed.

(* the premise the check evaluates after a lock was accepted implies the invariant *)
Theorem C08_checked_premise : forall st x l ex b, c08_inv st x l ex b = true -> Inv x l ex b st.
Proof. exact c08_inv_Inv. Qed.

(* the unrestricted statement fails: the lock missed the shard holding the object (its put
   failed there), a later tombstone is refused as "locked" and rolled back, but the object is
   not retrievable any more and a GC pass deletes it, although the lock never expires *)
Theorem C08_refuted :
  let s1 := run8 uni8 rank8 (init8 2 0) ops_lock in
  let s2 := run8 uni8 rank8 (init8 2 0) (ops_lock ++ ops_ts) in
  let s3 := run8 uni8 rank8 (init8 2 0) (ops_lock ++ ops_ts ++ ops_gc) in
  (match s1 with Some s => option_map (fun r => fst (fst r)) (step8 uni8 rank8 s (O8 (OGet 0 [1;0]%nat))) | None => None end
   = Some 0) /\
  get_x s1 = Some (GFound 1) /\
  (match s1 with Some s => option_map (fun r => fst (fst r)) (step8 uni8 rank8 s (O8 (OPut 2 [0;1]%nat [0;1]%nat [1;0]%nat))) | None => None end
   = Some 2) /\
  get_x s2 = Some GNotFound /\ blob_x_on s2 1 = Some 1 /\
  get_x s3 = Some GNotFound /\ blob_x_on s3 1 = None.
Proof. exact lock_witness. Qed.

(* non-vacuity: a reachable 3-shard state satisfying the premise, and a history with a refused
   tombstone, an epoch advance, a degraded shard, put failures and GC passes after which the
   locked (and meanwhile expired) object is still returned while another expired one is gone *)
Example C08_example :
  c08_inv (shards (s8_en st8b)) 0 1 (Some 5) 1 = true /\
  (match run8 uni8b rank8b st8b ops8b with
   | Some s' => fst (engine_get (thr (s8_en s')) (epoch (s8_en s')) 0 [2;0;1]%nat (shards (s8_en s'))) = GFound 1
                /\ epoch (s8_en s') = 4
                /\ fst (engine_get (thr (s8_en s')) (epoch (s8_en s')) 3 [0;1;2]%nat (shards (s8_en s'))) = GNotFound
   | None => False
   end).
Proof. exact ok8_example. Qed.

Print Assumptions C08_locked_retrievable_partial.
Print Assumptions C08_checked_premise.
Print Assumptions C08_refuted.
