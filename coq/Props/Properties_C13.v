(* C13 — a failing file-system call makes blob writes fail cleanly and never crashes.
   Only statements, `exact`, examples and Print Assumptions live here. *)
From Coq Require Import List Arith Bool.
Import ListNotations.
From NV Require Import FSTree.Batch FSTree.BatchProofs.

(* every history of combined writes, timer expiries, finalize and batch writes, under every
   fault oracle: the repaired writer finishes every step (no panic, nothing left locked) *)
Theorem C13_no_panic : forall c, fixed c = true -> forall evs w f, lock_held w = false ->
  exists w' rs f', run c w evs f = Done (w', rs, f') /\ lock_held w' = false.
Proof. exact no_panic. Qed.

(* a combined write that does not fail at once has its record completely written and
   linked in the batch it then waits for (the batch's error is what it finally returns) *)
Theorem C13_success_readable : forall c w o sz f w' i f', fixed c = true -> lock_held w = false ->
  write_combined c w o sz f = Done (w', WWait i, f') ->
  In o (objs (get (batches w') i)) \/ length (batches w') <= i.
Proof. exact success_linked. Qed.

(* the code as found violated both halves *)
Theorem C13_no_panic_refuted_as_found : exists evs f, run found_cfg init evs f = Panic.
Proof. exact no_panic_refuted_as_found. Qed.
Theorem C13_no_deadlock_refuted_as_found : exists evs f, run found_cfg init evs f = Deadlock.
Proof. exact no_deadlock_refuted_as_found. Qed.

(* non-vacuity: linkat fails on the write that reaches the size limit; repaired code *)
Example C13_example :
  match run {| fixed := true; nosync := false; climit := 128; slimit := 100 |} init
            [EPut 1 338; EPut 2 338] link1_fails with
  | Done (w, [RPut r1; RPut r2], _) => final w r1 = false /\ final w r2 = true
  | _ => False
  end.
Proof. vm_compute. split; reflexivity. Qed.

Print Assumptions C13_no_panic.
Print Assumptions C13_success_readable.
Print Assumptions C13_no_panic_refuted_as_found.
