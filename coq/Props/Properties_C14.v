(* C14 -- read-only and degraded-read-only shard modes never change stored data.
   Only statements, `exact`, and Print Assumptions live here.
   St / apply: the persisted state and the effect of an operation that is let through --
   arbitrary (the theorems hold for every such pair). *)
From Coq Require Import List NArith Bool.
Import ListNotations.
From NV Require Import Gen.ShardModeConsts Shard.ROMode Shard.ROModeProofs.

(* any sequence of operations and background jobs issued in a mode with the read-only bit
   leaves the persisted state exactly as it was *)
Theorem C14_state_unchanged : forall (St : Type) (apply : op -> St -> St) m wc ops s,
  read_only m = true -> fst (run St apply m wc s ops) = s.
Proof. exact run_ro_state_unchanged. Qed.

(* every modifying request fails with a mode error, jobs return untouched, reads work as
   the mode table says *)
Theorem C14_results : forall (St : Type) (apply : op -> St -> St) m wc s o,
  read_only m = true -> ref_result_ok m wc o (snd (step St apply m wc s o)) = true.
Proof. exact step_ro_result. Qed.

Theorem C14_modifying_rejected : forall m wc o,
  read_only m = true -> modifying o = true -> guard m wc o <> Done.
Proof. exact guard_ro_not_done. Qed.

(* non-vacuity: both read-only modes have the bit; a put in read-write mode does run *)
Example C14_example :
  read_only ReadOnly = true /\ read_only DegradedReadOnly = true /\ read_only ReadWrite = false
  /\ run nat (fun _ n => S n) ReadOnly true 0 [Put; GCPass; EpochEvent; FlushWC; Get]
     = (0, [ErrReadOnly; Skipped; Skipped; ErrReadOnly; Done])
  /\ fst (run nat (fun _ n => S n) ReadWrite true 0 [Put; Delete]) = 2.
Proof. repeat split; reflexivity. Qed.

Print Assumptions C14_state_unchanged.
Print Assumptions C14_results.
Print Assumptions C14_modifying_rejected.
