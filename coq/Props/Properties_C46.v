(* C46 -- restoring a shard dump reproduces exactly the dumped objects, for any
   chunking of the reader; corrupted records are reported or skipped as requested.
   Only statements, `exact`, and Print Assumptions live here.

   unm  = object.Unmarshal: None = accepted, Some c = rejected with error class c
                                                        (outside this property)
   sink = answer class of Shard.Put for the bytes       (outside this property)
   small o = len(o) < 2^32 (the size field is a uint32; Go truncates silently) *)
From Coq Require Import List NArith Arith.
Import ListNotations.
From NV Require Import Gen.ShardDumpConsts Shard.Dump Shard.DumpProofs.

(* Full statement: for every list of objects, every reader whose chunks concatenate to
   the dump, and either value of ignoreErrors, Restore hands exactly the dumped objects,
   in order and byte-identical, to Put, counts them all, and reports no error. *)
Theorem C46_roundtrip : forall unm sink ign (objs : list bytes) (cs : reader),
  Forall small objs -> Forall (good unm sink) objs ->
  concat cs = dump objs ->
  restore unm sink ign cs = mkRes objs (length objs) 0 ENone.
Proof. exact roundtrip. Qed.

(* the same, with the chunking given as a list of Read sizes (the harness' reader) *)
Theorem C46_roundtrip_chunked : forall unm sink ign (objs : list bytes) (sizes : list nat),
  Forall small objs -> Forall (good unm sink) objs ->
  restore unm sink ign (chunk sizes (dump objs)) = mkRes objs (length objs) 0 ENone.
Proof. exact roundtrip_chunked. Qed.

(* any well-framed stream (bodies possibly damaged) behaves like the reader-free
   reference, for any chunking *)
Theorem C46_framed : forall unm sink ign (recs : list bytes) (cs : reader),
  Forall small recs -> concat cs = dump recs ->
  restore unm sink ign cs = ref_restore unm sink ign recs [] 0 0.
Proof. exact restore_framed. Qed.

(* ignoreErrors = true: records that do not decode are skipped and counted, all the
   others are delivered *)
Theorem C46_corrupt_skipped : forall unm sink (recs : list bytes) (cs : reader),
  Forall small recs -> Forall (not_failed unm sink) recs ->
  concat cs = dump recs ->
  restore unm sink true cs
  = mkRes (filter (is_stored unm sink) recs) (length (filter (decodes unm) recs))
          (length (filter (fun o => negb (decodes unm o)) recs)) ENone.
Proof. exact corrupt_skipped. Qed.

(* ignoreErrors = false: the first record that does not decode is reported, everything
   before it has been delivered, nothing after it *)
Theorem C46_corrupt_reported : forall unm sink (goods : list bytes) bad c rest (cs : reader),
  Forall small (goods ++ bad :: rest) ->
  Forall (fun o => unm o = None /\ forall c, sink o <> Failed c) goods -> unm bad = Some c ->
  concat cs = dump (goods ++ bad :: rest) ->
  restore unm sink false cs
  = mkRes (filter (is_stored unm sink) goods) (length goods) 0 (EOther c).
Proof. exact corrupt_reported. Qed.

Theorem C46_bad_magic : forall unm sink ign (cs : reader),
  firstn (length dump_magic) (concat cs) <> dump_magic ->
  restore unm sink ign cs = mkRes [] 0 0 EMagic.
Proof. exact restore_bad_magic. Qed.

(* the code before the repair (one r.Read for the body) does not have the property *)
Theorem C46_single_read_refuted : forall unm sink ign,
  exists (objs : list bytes) (cs : reader),
    Forall small objs /\ concat cs = dump objs /\
    (Forall (good unm sink) objs ->
     restore_old unm sink ign cs <> mkRes objs (length objs) 0 ENone).
Proof. exact single_read_refuted. Qed.

(* non-vacuity: two objects, read one byte / three bytes / the rest at a time *)
Example C46_example :
  let objs := [[10; 20; 30]; [7]]%N in
  restore (fun _ => None) (fun _ => Stored) false (chunk [1; 3; 2; 0; 5] (dump objs))
  = mkRes objs 2 0 ENone
  /\ dump objs = [78; 69; 79; 70; 3; 0; 0; 0; 10; 20; 30; 1; 0; 0; 0; 7]%N.
Proof. split; reflexivity. Qed.

Example C46_example_corrupt :
  let recs := [[1]; [255; 9]; [2]]%N in
  let unm := fun d => match d with 255%N :: _ => Some 4 | _ => None end in
  restore unm (fun _ => Stored) true (chunk [5; 5] (dump recs)) = mkRes [[1]; [2]]%N 2 1 ENone
  /\ restore unm (fun _ => Stored) false (chunk [5; 5] (dump recs)) = mkRes [[1]]%N 1 0 (EOther 4).
Proof. split; reflexivity. Qed.

Print Assumptions C46_roundtrip.
Print Assumptions C46_roundtrip_chunked.
Print Assumptions C46_framed.
Print Assumptions C46_corrupt_skipped.
Print Assumptions C46_corrupt_reported.
Print Assumptions C46_bad_magic.
Print Assumptions C46_single_read_refuted.
