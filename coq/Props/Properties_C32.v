(* C32 — control-plane requests run only when signed by an authorised key.
   `funcs`/`iface_methods` are regenerated from /repo by xlate on every run, so the two
   *_static theorems are re-checked against what the code says now. *)
From Coq Require Import String List Bool.
Import ListNotations.
From NV Require Import Prog.IR Prog.IRProofs Prog.Tables_C32.
From NV Require Gen.Prog_CtlNode Gen.Prog_CtlIR.
Open Scope string_scope.

Module N := Gen.Prog_CtlNode.
Module I := Gen.Prog_CtlIR.

(* every method of the storage node's ControlServiceServer: all effects other than
   building the PermissionDenied status are dominated by the signature check *)
Theorem C32_static_node :
  bad_handlers c32_fuel N.funcs c32_guards c32_crit (node_handlers N.iface_methods) = []
  /\ shapes_ok N.funcs (node_handlers N.iface_methods) = []
  /\ N.iface_methods <> [].
Proof. vm_compute. repeat split; discriminate. Qed.

Theorem C32_static_ir :
  bad_handlers c32_fuel I.funcs c32_guards c32_crit (ir_handlers I.iface_methods) = []
  /\ shapes_ok I.funcs (ir_handlers I.iface_methods) = []
  /\ I.iface_methods <> [].
Proof. vm_compute. repeat split; discriminate. Qed.

Lemma bad_nil_ok fuel prog gs crit hs h :
  bad_handlers fuel prog gs crit hs = [] -> In h hs -> handler_ok fuel prog gs crit h = true.
Proof.
  unfold bad_handlers. intros Hb Hin.
  destruct (handler_ok fuel prog gs crit h) eqn:E; [reflexivity|].
  assert (In h (filter (fun h => negb (handler_ok fuel prog gs crit h)) hs)).
  { apply filter_In. split; [exact Hin|]. rewrite E. reflexivity. }
  rewrite Hb in H. contradiction.
Qed.

(* semantic reading: in every execution of every control handler (callees of the package
   inlined), a request that fails the signature check causes only benign calls *)
Theorem C32_node_no_effect :
  forall h body env t r,
    In h (node_handlers N.iface_methods) ->
    lookup N.funcs h = Some body ->
    exec env (inline c32_fuel N.funcs body) t r ->
    env "isValidRequest" = false ->
    forall e, In (EvEffect e) t -> mem e c32_benign = true.
Proof.
  intros h body env t r Hin Hl Hex Henv e He.
  destruct C32_static_node as (Hb & _ & _).
  pose proof (bad_nil_ok _ _ _ _ _ h Hb Hin) as Hok.
  pose proof (handler_ok_sound _ _ _ _ _ _ _ _ _ Hok Hl Hex "isValidRequest" (or_introl eq_refl) Henv e He) as Hc.
  unfold c32_crit in Hc. apply negb_false_iff in Hc. exact Hc.
Qed.

Theorem C32_ir_no_effect :
  forall h body env t r,
    In h (ir_handlers I.iface_methods) ->
    lookup I.funcs h = Some body ->
    exec env (inline c32_fuel I.funcs body) t r ->
    env "isValidRequest" = false ->
    forall e, In (EvEffect e) t -> mem e c32_benign = true.
Proof.
  intros h body env t r Hin Hl Hex Henv e He.
  destruct C32_static_ir as (Hb & _ & _).
  pose proof (bad_nil_ok _ _ _ _ _ h Hb Hin) as Hok.
  pose proof (handler_ok_sound _ _ _ _ _ _ _ _ _ Hok Hl Hex "isValidRequest" (or_introl eq_refl) Henv e He) as Hc.
  unfold c32_crit in Hc. apply negb_false_iff in Hc. exact Hc.
Qed.

(* the check itself: accepted only with an allowed key and a verifying signature *)
Theorem C32_valid_implies :
  forall (key sigt body : Type) (key_eqb : key -> key -> bool) (verify : key -> body -> sigt -> bool)
         allowed b s,
    is_valid_request key sigt body key_eqb verify allowed b s = true ->
    exists k sg, s = Some (k, sg) /\ existsb (key_eqb k) allowed = true /\ verify k b sg = true.
Proof.
  intros key sigt body key_eqb verify allowed b [[k sg]|] H; cbn in H; [|discriminate].
  apply andb_true_iff in H. destruct H. eauto.
Qed.

(* non-vacuity: a handler really has effects behind the check, and a failing run exists *)
Example C32_nonvacuous :
  exists body, lookup N.funcs "control.Server.DropObjects" = Some body
    /\ mem "s.storage.Drop" (names body) = true
    /\ dominated (String.eqb "isValidRequest") c32_crit (inline c32_fuel N.funcs body) = true
    /\ dominated (String.eqb "someOtherCheck") c32_crit (inline c32_fuel N.funcs body) = false.
Proof. eexists. split; [vm_compute; reflexivity|]. vm_compute. auto. Qed.

Print Assumptions C32_static_node.
Print Assumptions C32_static_ir.
Print Assumptions C32_node_no_effect.
Print Assumptions C32_ir_no_effect.
Print Assumptions C32_valid_implies.
