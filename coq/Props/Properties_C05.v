(* C05 — numeric index encoding is lossless and preserves integer order.
   Only statements, `exact`, examples and Print Assumptions live here.
   Integers are Z / N over the whole range [-(2^256-1), 2^256-1]; bytes and
   characters are N. *)
From Coq Require Import List NArith ZArith Bool.
Import ListNotations.
From NV Require Import Gen.S256Consts S256.S256 S256.BytesProofs S256.CodecProofs
  S256.DecimalProofs S256.ReadersProofs.
Local Open Scope N_scope.

(* the supported range is exactly 2^256-1 in magnitude (re-checked against Gen) *)
Theorem C05_range : max_mag = 2 ^ 256 - 1.
Proof. exact max_mag_value. Qed.

(* every integer in range encodes to a key of fixed length made of bytes ... *)
Theorem C05_key_shape : forall z, canonical z ->
  length (encode z) = encoded_len /\ Forall (fun d => d < 256) (encode z).
Proof. intros z H. split; [apply encode_length|apply encode_bytes, H]. Qed.

(* ... that decodes back to the same integer *)
Theorem C05_roundtrip : forall v : Z, (Z.abs v <= Z.of_N max_mag)%Z ->
  option_map val (decode (encode_Z v)) = Some v.
Proof. exact roundtrip_Z. Qed.

Theorem C05_roundtrip_repr : forall z, canonical z -> decode (encode z) = Some z.
Proof. exact decode_encode. Qed.

(* byte-wise comparison of two keys = numeric comparison, for every pair *)
Theorem C05_order : forall a b : Z,
  (Z.abs a <= Z.of_N max_mag)%Z -> (Z.abs b <= Z.of_N max_mag)%Z ->
  lex_compare (encode_Z a) (encode_Z b) = (a ?= b)%Z.
Proof. exact order_Z. Qed.

(* Int.Cmp is numeric comparison *)
Theorem C05_cmp : forall a b, canonical a -> canonical b -> cmp a b = (val a ?= val b)%Z.
Proof. exact cmp_val. Qed.

(* decoding is total on 33-byte keys with sign byte 0/1 and rejects all others;
   the single non-canonical key (negative zero) decodes to 0 *)
Theorem C05_decode_total : forall b, length b = encoded_len -> Forall (fun d => d < 256) b ->
  hd 2 b <= 1 -> exists z, decode b = Some z /\ canonical z.
Proof. exact decode_total. Qed.
Theorem C05_decode_reject : forall b, (length b <> encoded_len \/ 1 < hd 0 b) -> decode b = None.
Proof. exact decode_reject. Qed.
Theorem C05_decode_negzero : decode (0 :: repeat 255 mag_len) = Some (false, 0).
Proof. exact decode_negzero. Qed.

(* ParseDecimal / SetFromDecimal is exactly the reference reader: it accepts
   exactly the optionally signed digit strings whose value is in range, and
   returns that value *)
Theorem C05_accept_exact : forall s, set_from_decimal s = spec_read s.
Proof. exact set_from_decimal_spec. Qed.
Theorem C05_accept_iff : forall s, set_from_decimal s <> None <->
  exists v, spec_parse s = Some v /\ (Z.abs v <= Z.of_N max_mag)%Z.
Proof. exact accept_exact. Qed.

(* splitIntString accepts exactly the signed digit strings; followed by
   ParseNormalizedDecimal it is ParseDecimal; compareIntStrings is numeric
   comparison of the reference values (any magnitude) *)
Theorem C05_split_exact : forall s,
  match split_int_string s with
  | Some p => normalized (snd p) /\ (fst p = true -> dec_val (snd p) <> 0) /\
              spec_parse s = Some (split_val p)
  | None => spec_parse s = None
  end.
Proof. exact split_int_string_spec. Qed.
Theorem C05_readers_agree : forall s,
  match split_int_string s with
  | Some (n, d) => parse_normalized n d = set_from_decimal s
  | None => set_from_decimal s = None
  end.
Proof. exact readers_agree. Qed.
Theorem C05_compare_int_strings : forall a b,
  compare_int_strings a b =
  match spec_parse a, spec_parse b with
  | Some x, Some y => Some (x ?= y)%Z
  | _, _ => None
  end.
Proof. exact compare_int_strings_spec. Qed.
Theorem C05_compare_normalized : forall a b, normalized a -> normalized b ->
  compare_normalized_digits a b = (dec_val a ?= dec_val b).
Proof. exact compare_normalized_digits_spec. Qed.

(* parsing round-trips with printing *)
Theorem C05_parse_print : forall z, canonical z -> set_from_decimal (to_string z) = Some z.
Proof. exact parse_print. Qed.

(* non-vacuity: concrete values at both extremes, the sign boundary, and the
   strings of the repaired defect *)
Example C05_ex_min : decode (encode_Z (- (2 ^ 256 - 1))) = Some (true, 2 ^ 256 - 1).
Proof. vm_compute. reflexivity. Qed.
Example C05_ex_order : lex_compare (encode_Z (-1)) (encode_Z 0) = Lt /\
  lex_compare (encode_Z (2 ^ 256 - 1)) (encode_Z (2 ^ 256 - 2)) = Gt /\
  lex_compare (encode_Z (- (2 ^ 256 - 1))) (encode_Z (- (2 ^ 256 - 2))) = Lt.
Proof. vm_compute. repeat split. Qed.
Example C05_ex_canonical : canonical (of_Z (- (2 ^ 256 - 1))).
Proof. apply canonicalb_spec. vm_compute. reflexivity. Qed.
(* "-5" accepted, "-+5" / "++5" rejected, 2^256 rejected *)
Example C05_ex_accept : set_from_decimal [45; 53] = Some (true, 5) /\
  set_from_decimal [45; 43; 53] = None /\ set_from_decimal [43; 43; 53] = None /\
  set_from_decimal (to_string (false, 2 ^ 256 - 1)) = Some (false, 2 ^ 256 - 1) /\
  spec_read [49; 49; 53; 55; 57; 50; 48; 56; 57; 50; 51; 55; 51; 49; 54; 49; 57; 53; 52; 50; 51; 53; 55; 48; 57; 56; 53; 48; 48; 56; 54; 56; 55; 57; 48; 55; 56; 53; 51; 50; 54; 57; 57; 56; 52; 54; 54; 53; 54; 52; 48; 53; 54; 52; 48; 51; 57; 52; 53; 55; 53; 56; 52; 48; 48; 55; 57; 49; 51; 49; 50; 57; 54; 51; 57; 57; 51; 54] = None.
Proof. vm_compute. repeat split. Qed.

Print Assumptions C05_roundtrip.
Print Assumptions C05_order.
Print Assumptions C05_accept_exact.
Print Assumptions C05_parse_print.
