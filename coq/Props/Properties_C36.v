(* C36 — alphabet rotation keeps size, uniqueness and the one-third replacement bound.
   Only statements, `exact`, and Print Assumptions live here.
   Keys are nat (rank of the key in keys.PublicKeys order). *)
From Coq Require Import List Arith Bool.
Import ListNotations.
From NV Require Import IRing.Alphabet IRing.AlphabetCheck IRing.AlphabetProofs.

(* [finite, by computation] newAlphabetList on exactly the domain the property quantifies over:
   every current alphabet fs (1..7 keys) and every main-network list mn (at least as many keys),
   both subsets of a universe of 8 keys given as bit masks.  alpha_res_ok says: the call does not
   fail, and a proposed list has the size of fs, no duplicates, only members of fs or mn, at most
   floor((n-1)/3) keys outside fs, and at least one such key (so it differs from fs). *)
Theorem C36_alphabet_universe8 : forall a b,
  a < 256 -> b < 256 ->
  let fs := keys_of_mask a in let mn := keys_of_mask b in
  0 < length fs < 8 -> length fs <= length mn ->
  alpha_res_ok fs mn (new_alphabet_list fs mn) = true.
Proof. exact alphabet_universe8. Qed.

Theorem C36_alpha_ok_reading : forall fs mn alpha,
  alpha_ok fs mn alpha = true ->
  length alpha = length fs /\ NoDup alpha /\ (forall x, In x alpha -> In x fs \/ In x mn) /\
  new_count alpha fs <= (length fs - 1) / 3 /\ 0 < new_count alpha fs.
Proof. exact alpha_ok_spec. Qed.

(* [all lists, by induction] the inner-ring list derived by the repaired updateInnerRing (fix commit in
   known_findings.txt): for duplicate-free lists of equal length with the current alphabet inside the inner
   ring, the call succeeds, the result has no duplicates and differs from the old list exactly by the replaced
   keys: z is in the result iff it was in the inner ring and is not a replaced key (in before, not in after),
   or it is a new key (in after, not in before).  No premise about extra inner-ring keys. *)
Theorem C36_ir_list : forall ir before after,
  length before = length after -> NoDup before -> NoDup after -> NoDup ir -> incl before ir ->
  exists l, update_inner_ring ir before after = Some l /\ NoDup l /\
            forall z, In z l <-> (In z ir /\ ~ (In z before /\ ~ In z after)) \/ (In z after /\ ~ In z before).
Proof. exact update_inner_ring_full. Qed.

(* the code before the repair (model update_inner_ring_old / pipeline_old): an extra inner-ring key that gets
   voted into the alphabet ended up twice in the new inner-ring list:
   alphabet [1;2;3;4], main network [0;1;2;3], inner ring [1;2;3;4;0]  ->  [0;0;1;2;3] *)
Theorem C36_ir_list_old_refuted :
  exists fs mn ir a l,
    NoDup fs /\ NoDup mn /\ NoDup ir /\ incl fs ir /\
    pipeline_old fs mn ir = (Proposed a, Some l) /\ ~ NoDup l.
Proof. exact update_inner_ring_old_refuted. Qed.

(* non-vacuity *)
Example C36_example :
  new_alphabet_list [5;2;3;4;1;6;7] [0;1;2;3;8;9;4] = Proposed [0;1;2;3;4;5;8]
  /\ alpha_ok [5;2;3;4;1;6;7] [0;1;2;3;8;9;4] [0;1;2;3;4;5;8] = true
  /\ pipeline [1;2;3;4] [0;1;2;3] [4;3;2;1;7] = (Proposed [0;1;2;3], Some [0;1;2;3;7])
  /\ pipeline [1;2;3;4] [0;1;2;3] [1;2;3;4;0] = (Proposed [0;1;2;3], Some [0;1;2;3])
  /\ new_alphabet_list [1;2;3] [1;2;3;4] = Unchanged.
Proof. vm_compute. repeat split; reflexivity. Qed.

Print Assumptions C36_alphabet_universe8.
Print Assumptions C36_alpha_ok_reading.
Print Assumptions C36_ir_list.
Print Assumptions C36_ir_list_old_refuted.
