(* C36 — alphabet rotation keeps size, uniqueness and the one-third replacement bound.
   Only statements, `exact`, and Print Assumptions live here.
   Keys are nat (rank of the key in keys.PublicKeys order). *)
From Coq Require Import List Arith Bool.
Import ListNotations.
From NV Require Import IRing.Alphabet IRing.AlphabetCheck IRing.AlphabetProofs IRing.AlphabetInd.

(* [finite, by computation] newAlphabetList on exactly the domain the property quantifies over:
   every current alphabet fs (1..7 keys) and every main-network list mn (at least as many keys),
   both subsets of a universe of 8 keys given as bit masks.  alpha_res_ok says: the call does not
   fail, and a proposed list has the size of fs, no duplicates, only members of fs or mn, at most
   floor((n-1)/3) keys outside fs, and at least one such key (so it differs from fs). *)
Theorem C36_alphabet_universe8 : forall a b,
  a < 256 -> b < 256 ->
  let fs := keys_of_mask a in let mn := keys_of_mask b in
  0 < length fs < 8 -> length fs <= length mn ->
  alpha_res_ok fs mn (new_alphabet_list fs mn) = true.
Proof. exact alphabet_universe8. Qed.

Theorem C36_alpha_ok_reading : forall fs mn alpha,
  alpha_ok fs mn alpha = true ->
  length alpha = length fs /\ NoDup alpha /\ (forall x, In x alpha -> In x fs \/ In x mn) /\
  new_count alpha fs <= (length fs - 1) / 3 /\ 0 < new_count alpha fs.
Proof. exact alpha_ok_spec. Qed.

(* [all lists, by induction over both loops] newAlphabetList for duplicate-free key lists of ARBITRARY
   length (no universe bound).  What the code returns, case by case:
     errEmptyFSChain   only for an empty current alphabet;
     errNotEnoughKeys  only when the main-network list is shorter;
     (nil, nil)        exactly when unchanged_cond holds: floor((n-1)/3) = 0, or the first n keys of the
                       sorted main-network list are all current alphabet keys;
     a list alpha      exactly when unchanged_cond fails, and then alpha_spec: same size as the current
                       alphabet, no duplicates, every member from current or main-network list,
                       1 <= number of keys outside the current alphabet <= floor((n-1)/3). *)
Theorem C36_alphabet_all : forall fs mn,
  NoDup fs -> NoDup mn ->
  match new_alphabet_list fs mn with
  | ErrEmpty => length fs = 0
  | ErrShort => 0 < length fs /\ length mn < length fs
  | Unchanged => 0 < length fs <= length mn /\ unchanged_cond fs mn
  | Proposed alpha => 0 < length fs <= length mn /\ ~ unchanged_cond fs mn /\ alpha_spec fs mn alpha
  end.
Proof. exact new_alphabet_list_all. Qed.

(* "it is only proposed when something changed": a proposed list contains a key that is not a current one ... *)
Theorem C36_proposed_differs : forall fs mn alpha,
  alpha_spec fs mn alpha -> exists x, In x alpha /\ ~ In x fs.
Proof. exact proposed_differs. Qed.

(* ... and when the main network lists only current alphabet keys nothing is proposed *)
Theorem C36_same_alphabet_unchanged : forall fs mn,
  NoDup fs -> NoDup mn -> 0 < length fs <= length mn -> incl mn fs ->
  new_alphabet_list fs mn = Unchanged.
Proof. exact same_alphabet_unchanged. Qed.

(* the boolean form of C36_alphabet_universe8 without the universe bound *)
Theorem C36_alpha_res_ok_all : forall fs mn,
  NoDup fs -> NoDup mn -> 0 < length fs <= length mn ->
  alpha_res_ok fs mn (new_alphabet_list fs mn) = true.
Proof. exact alpha_res_ok_all. Qed.

(* [all lists, by induction] the inner-ring list derived by the repaired updateInnerRing (fix commit in
   known_findings.txt): for duplicate-free lists of equal length with the current alphabet inside the inner
   ring, the call succeeds, the result has no duplicates and differs from the old list exactly by the replaced
   keys: z is in the result iff it was in the inner ring and is not a replaced key (in before, not in after),
   or it is a new key (in after, not in before).  No premise about extra inner-ring keys. *)
Theorem C36_ir_list : forall ir before after,
  length before = length after -> NoDup before -> NoDup after -> NoDup ir -> incl before ir ->
  exists l, update_inner_ring ir before after = Some l /\ NoDup l /\
            forall z, In z l <-> (In z ir /\ ~ (In z before /\ ~ In z after)) \/ (In z after /\ ~ In z before).
Proof. exact update_inner_ring_full. Qed.

(* reading of the boolean inner-ring reference ir_ok, which the check evaluates on the Go results: it is
   the conclusion of C36_ir_list *)
Theorem C36_ir_ok_reading : forall ir fs alpha newir,
  ir_ok ir fs alpha newir = true ->
  NoDup newir /\
  forall z, In z newir <-> (In z ir /\ ~ (In z fs /\ ~ In z alpha)) \/ (In z alpha /\ ~ In z fs).
Proof. exact ir_ok_spec. Qed.

(* end to end, what processAlphabetSync computes (pipeline = newAlphabetList; updateInnerRing with
   before = the sorted current alphabet; sort): for duplicate-free lists of any length with the alphabet inside
   the inner ring, either nothing is proposed (exactly under unchanged_cond) or a new alphabet with alpha_spec
   and a duplicate-free inner-ring list that differs from the old one exactly by the replaced keys *)
Theorem C36_pipeline : forall fs mn ir,
  NoDup fs -> NoDup mn -> NoDup ir -> incl fs ir -> 0 < length fs <= length mn ->
  match pipeline fs mn ir with
  | (Unchanged, None) => unchanged_cond fs mn
  | (Proposed a, Some l) =>
      ~ unchanged_cond fs mn /\ alpha_spec fs mn a /\ NoDup l /\
      forall z, In z l <-> (In z ir /\ ~ (In z fs /\ ~ In z a)) \/ (In z a /\ ~ In z fs)
  | _ => False
  end.
Proof. exact pipeline_all. Qed.

(* the code before the repair (model update_inner_ring_old / pipeline_old): an extra inner-ring key that gets
   voted into the alphabet ended up twice in the new inner-ring list:
   alphabet [1;2;3;4], main network [0;1;2;3], inner ring [1;2;3;4;0]  ->  [0;0;1;2;3] *)
Theorem C36_ir_list_old_refuted :
  exists fs mn ir a l,
    NoDup fs /\ NoDup mn /\ NoDup ir /\ incl fs ir /\
    pipeline_old fs mn ir = (Proposed a, Some l) /\ ~ NoDup l.
Proof. exact update_inner_ring_old_refuted. Qed.

(* non-vacuity *)
Example C36_example :
  new_alphabet_list [5;2;3;4;1;6;7] [0;1;2;3;8;9;4] = Proposed [0;1;2;3;4;5;8]
  /\ alpha_ok [5;2;3;4;1;6;7] [0;1;2;3;8;9;4] [0;1;2;3;4;5;8] = true
  /\ pipeline [1;2;3;4] [0;1;2;3] [4;3;2;1;7] = (Proposed [0;1;2;3], Some [0;1;2;3;7])
  /\ pipeline [1;2;3;4] [0;1;2;3] [1;2;3;4;0] = (Proposed [0;1;2;3], Some [0;1;2;3])
  /\ new_alphabet_list [1;2;3] [1;2;3;4] = Unchanged
  /\ new_alphabet_list [10;11;12;13;14;15;16;17;18;19] [0;1;2;3;4;12;13;14;15;16;17;18;19;20] = Proposed [0;1;2;12;13;14;15;16;17;18]
  /\ new_alphabet_list [4;5;6;7] [0;1;4;5;6;7] = Proposed [0;4;5;6].
Proof. vm_compute. repeat split; reflexivity. Qed.

(* premises of C36_alphabet_all / C36_ir_list are satisfiable, and both outcomes of unchanged_cond occur *)
Example C36_example_premises :
  NoDup [10;11;12;13;14;15;16;17;18;19] /\ NoDup [0;1;2;3;4;12;13;14;15;16;17;18;19;20]
  /\ ~ unchanged_cond [4;5;6;7] [0;1;4;5;6;7] /\ unchanged_cond [4;5;6;7] [4;5;6;7;8;9].
Proof.
  split; [apply nodupb_spec; reflexivity|]. split; [apply nodupb_spec; reflexivity|]. split.
  - intros [H|H]; [vm_compute in H; discriminate|]. specialize (H 0 (or_introl eq_refl)). simpl in H.
    repeat destruct H as [H|H]; try discriminate; exact H.
  - right. intros x Hx. vm_compute in Hx. exact Hx.
Qed.

Print Assumptions C36_alphabet_universe8.
Print Assumptions C36_alpha_ok_reading.
Print Assumptions C36_alphabet_all.
Print Assumptions C36_proposed_differs.
Print Assumptions C36_same_alphabet_unchanged.
Print Assumptions C36_alpha_res_ok_all.
Print Assumptions C36_ir_list.
Print Assumptions C36_ir_ok_reading.
Print Assumptions C36_pipeline.
Print Assumptions C36_ir_list_old_refuted.
