(* C41 — fast header parsing agrees with full object decoding; no panic on any input.
   Only statements, `exact`, examples and Print Assumptions live here.

   Model: Wire/Fast.v (internal/object/wire.go, the iprotobuf seekers it calls, and the callers
   in blobstor/fstree/head.go; every Go slice expression is bounds-checked with outcome Panic).
   Reference: Wire/Ref.v (full structural decode, last-wins; well-formedness). *)
From Coq Require Import List NArith Arith Bool.
Import ListNotations.
From NV Require Import Gen.WireConsts FSTree.Wire FSTree.WireProofs Wire.Fast Wire.Ref Wire.TotalProofs
     Wire.SimProofs Wire.AgreeProofs Wire.AgreeProofs2 Wire.AgreeProofs3 Wire.TruncProofs.

(* ---- (2) totality: for ALL byte strings, never Panic ---------------------------------------- *)

Theorem C41_total_seek : forall buf num,
  seek_field_p buf num <> Panic /\ get_len_field_bounds_p buf num <> Panic
  /\ get_uint64_field_p buf num <> Panic /\ get_enum_field_p buf num <> Panic.
Proof.
  intros buf num. split; [apply seek_field_total|]. split; [apply get_len_field_bounds_total|].
  split; [apply get_uint64_field_total|apply get_enum_field_total].
Qed.

(* GetNonPayloadFieldBounds: Ok or Err, and every returned bound lies inside the buffer *)
Theorem C41_total_bounds : forall buf,
  get_non_payload_bounds buf <> Panic /\ forall a, get_non_payload_bounds buf = Ok a -> acc_ok buf a.
Proof. exact get_non_payload_bounds_total. Qed.

Theorem C41_total_parent : forall buf,
  get_parent_bounds buf <> Panic /\ forall a, get_parent_bounds buf = Ok a -> acc_ok buf a.
Proof. exact get_parent_bounds_total. Qed.

Theorem C41_total_parent_hdr : forall buf,
  get_parent_bounds_hdr buf <> Panic /\ forall a, get_parent_bounds_hdr buf = Ok a -> acc_ok buf a.
Proof. exact get_parent_bounds_hdr_total. Qed.

Theorem C41_total_paylen : forall buf, get_payload_length_header buf <> Panic.
Proof. exact get_payload_length_header_total. Qed.

Theorem C41_total_type : forall buf, get_type_header buf <> Panic.
Proof. exact get_type_header_total. Qed.

(* for any behaviour of the nested decoders *)
Theorem C41_total_extract : forall pvalid svalid data,
  extract_header_and_payload pvalid svalid data <> Panic.
Proof. exact extract_total. Qed.

Theorem C41_total_read_parts : forall b partial, read_object_parts_hdr b partial <> Panic.
Proof. exact read_object_parts_total. Qed.

Theorem C41_total_head : forall pvalid svalid A (full : bytes -> res A) (fast : res ehp_res -> res A) file,
  (forall x, full x <> Panic) -> (forall r, r <> Panic -> fast r <> Panic) ->
  read_header_and_payload pvalid svalid full fast file <> Panic.
Proof. intros. apply read_header_and_payload_total; assumption. Qed.

(* the varint reader consumes at most ten bytes and reports an overflow on ten continuation
   bytes, whatever follows *)
Theorem C41_varint_overlong : forall b,
  (10 <= length b)%nat -> (forall j, (j < 10)%nat -> (128 <= nth j b 0)%N) ->
  parse_varint b = VErr VOver.
Proof. exact varint_overlong. Qed.

Theorem C41_varint_consumes_at_most_10 : forall b v n,
  parse_varint b = VOk v n -> (1 <= n <= length b)%nat /\ (n <= 10)%nat.
Proof. exact parse_varint_bounds. Qed.

(* ---- (1) agreement on well-formed encodings ------------------------------------------------- *)

Theorem C41_agree_bounds : forall b, wf_object b = true ->
  exists v, full_decode b = Some v /\ get_non_payload_bounds b = Ok (proj_bounds v).
Proof. exact agree_bounds. Qed.

Theorem C41_agree_parent : forall b, wf_object b = true ->
  exists v, full_decode b = Some v /\ get_parent_bounds b = Ok (proj_parent v).
Proof. exact agree_parent. Qed.

Theorem C41_agree_parent_hdr : forall h, h <> [] -> wf_header h = true ->
  exists hv, decode_header h 0 = Some hv /\ get_parent_bounds_hdr h = Ok (hproj_parent hv).
Proof. exact agree_parent_hdr. Qed.

Theorem C41_agree_paylen : forall h, wf_header h = true ->
  get_payload_length_header h = Ok (varint_of h fld_hdr_paylen).
Proof. exact agree_paylen. Qed.

Theorem C41_agree_type : forall h, wf_header h = true ->
  get_type_header h = Ok (varint_of h fld_hdr_type).
Proof. exact agree_type. Qed.

(* ExtractHeaderAndPayload: when the nested decoders accept the located id / signature / header
   values, the result is exactly the projection of the full decode (or the final
   FromProtoMessage error) *)
Theorem C41_agree_extract : forall pvalid svalid b, wf_object b = true ->
  exists v, full_decode b = Some v /\
    ((forall k o f, In (k, o) [(fld_object_id, ov_id v); (fld_object_sig, ov_sig v); (fld_object_hdr, ov_hdr v)] ->
                    o = Some f -> pvalid k (sub b f) = true) ->
     extract_header_and_payload pvalid svalid b
     = if svalid (osub b (ov_id v)) (osub b (ov_sig v)) (osub b (ov_hdr v)) then Ok (proj_ehp b v) else Err).
Proof. exact agree_extract. Qed.

Theorem C41_agree_read_parts : forall b partial, wf_object b = true ->
  exists v, full_decode b = Some v /\
    read_object_parts_hdr b partial
    = Ok (match ov_hdr v with
          | None => if partial then Some (0, 0, 0%N) else None
          | Some hf => Some (f_vfrom hf, f_to hf, hv_paylen (ov_h v))
          end).
Proof. exact agree_read_parts. Qed.

(* ---- (3) truncation -------------------------------------------------------------------------- *)

(* Once a prefix p of any buffer p ++ t has produced the header bounds, the answer is final:
   the whole buffer gives the same three bounds.  With C41_agree_bounds (p ++ t well-formed)
   this is: a proper prefix of a valid encoding is rejected, or answers without the header
   (cut before it), or gives exactly the bounds of the full decode. *)
Theorem C41_trunc_bounds : forall p t i s h,
  get_non_payload_bounds p = Ok (i, s, h) -> fb_missing h = false ->
  get_non_payload_bounds (p ++ t) = Ok (i, s, h).
Proof. exact trunc_bounds. Qed.

(* ExtractHeaderAndPayload on a prefix that reaches into the payload: same header parts, and the
   payload prefix is extended by exactly the missing bytes *)
Theorem C41_trunc_extract : forall pvalid svalid p t i s h pre,
  extract_header_and_payload pvalid svalid p = Ok (i, s, h, pre) -> pre <> [] ->
  extract_header_and_payload pvalid svalid (p ++ t) = Ok (i, s, h, pre ++ t).
Proof. exact trunc_extract. Qed.

(* head.go: a stored well-formed object whose first NonPayloadFieldsBufferLength bytes reach into
   the payload is read by ExtractHeaderAndPayload(initial) with the header parts of the full
   decode and a prefix of the payload *)
Theorem C41_head_agree : forall pvalid svalid b i s h pre, wf_object b = true ->
  extract_header_and_payload pvalid svalid (firstn head_buf_len b) = Ok (i, s, h, pre) -> pre <> [] ->
  exists v, full_decode b = Some v /\
    extract_header_and_payload pvalid svalid b = Ok (i, s, h, pre ++ skipn head_buf_len b).
Proof. exact head_agree. Qed.

(* ---- non-vacuity --------------------------------------------------------------------------- *)

Definition ex_split : split_rec :=
  mkSplit (Some [10; 2; 7; 7]%N) None (Some [10; 1; 9]%N) (Some [40; 5]%N) [[1; 1]%N; [2]%N] [] (Some [3]%N).
Definition ex_hdr : hdr_rec :=
  mkHdr (Some [8; 2]%N) (Some [10; 1; 1]%N) None 7 300 None 3 None None [[10; 1; 65]%N] (Some ex_split) None.
Definition ex_obj : obj_rec := mkObj (Some [10; 2; 5; 5]%N) (Some [10; 1; 4]%N) (Some ex_hdr) [1; 2; 3]%N.

Example C41_example_wf : wf_object (enc_object ex_obj) = true /\ canonical_object (enc_object ex_obj) = true.
Proof. split; vm_compute; reflexivity. Qed.

Example C41_example_values :
  let b := enc_object ex_obj in
  get_non_payload_bounds b = Ok ((0, 2, 6), (6, 8, 11), (11, 13, 61))%nat
  /\ get_parent_bounds b = Ok ((36, 38, 42), (42, 44, 47), (47, 49, 51))%nat
  /\ get_payload_length_header (firstn 48 (skipn 13 b)) = Ok 300%N
  /\ get_type_header (firstn 48 (skipn 13 b)) = Ok 3%N
  /\ extract_header_and_payload (fun _ _ => true) (fun _ _ _ => true) (firstn 64 b)
     = Ok (Some [10; 2; 5; 5]%N, Some [10; 1; 4]%N, Some (firstn 48 (skipn 13 b)), [1]%N).
Proof. vm_compute. repeat split. Qed.

(* outside the well-formed class the fast paths may reject what the full decoder accepts:
   an empty split message *)
Example C41_example_empty_split :
  let h := [90; 0]%N in
  decode_header h 0 <> None /\ get_parent_bounds_hdr h = Err /\ wf_header h = false.
Proof. vm_compute. repeat split. discriminate. Qed.

Print Assumptions C41_total_bounds.
Print Assumptions C41_total_extract.
Print Assumptions C41_agree_bounds.
Print Assumptions C41_agree_parent.
Print Assumptions C41_agree_extract.
Print Assumptions C41_agree_read_parts.
Print Assumptions C41_trunc_bounds.
Print Assumptions C41_trunc_extract.
Print Assumptions C41_head_agree.
