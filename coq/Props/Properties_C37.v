(* C37 — the inner ring approves container changes only when the owner authorised them. *)
From Coq Require Import List Bool Arith NArith ZArith String.
Import ListNotations.
From NV Require Import Gen.IRProcConsts IRProc.C37Model IRProc.C37Proofs.
Open Scope string_scope.

(* process e r = true  <->  the modelled processing of request r reaches NotarySignAndInvokeTX.
   spec (IRProc/C37Model.v) spells the property out per request kind:
     authorised = direct owner witness  \/  valid, unexpired session token issued by the owner
                  for the operation's verb and this container (V1 and V2 forms);
     creation: policy_valid /\ attrs_permitted;  eACL: eacl_rules_ok (extendable basic ACL, no
     system-role target) and, inside createV2, the eACL call's own authorisation. *)
Theorem C37_approve_implies : forall e r, process e r = true -> e_alphabet e = true /\ spec e r.
Proof. exact approve_implies. Qed.

(* the executable reference used to judge the implementation's approvals is implied too *)
Theorem C37_reference_sound : forall e r,
  (process e r = true -> may_approve e r = true) /\ (may_approve e r = true -> spec e r).
Proof. intros e r. split; [intros H; apply process_ref in H; tauto|apply may_approve_sound]. Qed.

(* "for that verb and container", V2 tokens, creation (the repaired defect) *)
Theorem C37_token_verb_and_container : forall e o c a e2 t,
  process e (RCreate o c a e2) = true -> a_tok a = TokV2 t ->
  exists cx, In cx (t2_ctxs t) /\ cx_cnr cx = None /\ In (v2_verb o) (cx_verbs cx).
Proof. exact v2_creation_needs_put_verb. Qed.

Theorem C37_no_system_role : forall e t ex owner cnr ext a r,
  process e (RSetEACL t ex owner cnr ext a) = true -> In r (ea_records t) -> ~ In role_system (r_roles r).
Proof. exact no_system_role. Qed.

(* non-vacuity: requests that are approved, one per witness form, and near misses *)
Definition ex_env := mkenv true 7%N 1500%Z true true.
Definition ex_direct := mkauth NoTok false false true 1.
Definition ex_v1 := mkauth (TokV1 (mkv1 true 0 v1_verb_delete (Some 2) 7%N 6%N 7%N true)) false false false 3.
Definition ex_v2 (verbs : list nat) := mkauth (TokV2 (mkv2 true true 1 [mkctx None verbs] 1490%Z 1500%Z 1500%Z)) false false false 3.
Definition ex_cre := mkcre true 1 ["Color"; "__NEOFS__NAME"; "__NEOFS__METAINFO_CONSISTENCY"] 0 2 false true true true.
Definition ex_tbl := mkeacl true true true [mkrec [1; 3] [(MNum, VDecimal); (MNotPresent, VEmpty)]].

Example C37_nonvacuous :
  process ex_env (RCreate OpPut ex_cre ex_direct None) = true
  /\ process ex_env (RDelete true true 0 2 ex_v1) = true
  /\ process ex_env (RCreate OpCreateV2 ex_cre (ex_v2 [1; v2_verb_put]) (Some (ex_tbl, ex_v2 [v2_verb_seteacl]))) = true
  (* a V2 token of the owner without the creation verb *)
  /\ process ex_env (RCreate OpCreateV2 ex_cre (ex_v2 [1; v2_verb_delete]) None) = false
  (* a V1 token bound to another container *)
  /\ process ex_env (RDelete true true 0 1 ex_v1) = false
  (* a system-role target *)
  /\ process ex_env (RSetEACL (mkeacl true true true [mkrec [role_system] []]) true 1 0 true ex_direct) = false
  (* a system attribute outside the allow-list *)
  /\ process ex_env (RCreate OpPut (mkcre true 1 ["__NEOFS__EVIL"] 1 0 false true true true) ex_direct None) = false.
Proof. vm_compute. repeat split. Qed.

Print Assumptions C37_approve_implies.
Print Assumptions C37_reference_sound.
Print Assumptions C37_token_verb_and_container.
Print Assumptions C37_no_system_role.
