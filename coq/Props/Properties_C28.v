(* C28 -- object access decisions follow basic ACL, sticky bit, eACL and bearer rules. *)
From Coq Require Import NArith List Bool String.
From NV Require Import Gen.AuthConsts Auth.ACL Auth.ACLProofs.
Import ListNotations.
Open Scope N_scope.

(* "served only if": basic ACL allows the operation for the requester's role; for puts the
   sticky rule holds; and if the basic ACL is extendable (and the role is not a system one)
   the applicable table -- table_of_statement, i.e. the bearer token's table iff the token is
   valid, issued by the container owner, for this container and requester, and bearer rules are
   allowed for the operation, else the stored table -- does not deny. *)
Theorem C28_served_implies : forall q,
  served q = true ->
  basic_allows (q_basic q) (eff_op q) (classify q) = true
  /\ (is_put q = true -> sticky_ok q = true)
  /\ (extendable (q_basic q) = false \/ system_role q = true \/ table_denies q = false).
Proof. exact served_implies. Qed.

Theorem C28_table_selection : forall q,
  table_of_statement q =
    match q_bearer q with
    | Some b => if b_valid b && ((b_issuer b =? q_owner q) && opt_is (b_cid b) (q_cnr q) && opt_is (b_user b) (q_author q))
                   && bearer_allowed (q_basic q) (eff_op q)
                then b_table b else stored_table q
    | None => stored_table q
    end.
Proof. exact table_selection. Qed.

(* exact characterisation of the implementation model: it serves exactly what the statement
   allows, minus the class [stricter] (invalid bearer token; bearer token not matching
   owner/container/requester -- refused outright instead of falling back to the stored table;
   failing eACL source; a matching rule whose action is neither ALLOW nor DENY) *)
Theorem C28_impl_exact : forall q, served q = statement_allows q && negb (stricter q).
Proof. exact impl_exact. Qed.

Theorem C28_stricter_is_safe : forall q, served q = true -> statement_allows q = true.
Proof. exact stricter_is_safe. Qed.

Theorem C28_exact_outside_stricter : forall q, stricter q = false -> served q = statement_allows q.
Proof. exact not_stricter_exact. Qed.

Theorem C28_basic_deny_denies : forall q,
  basic_allows (q_basic q) (eff_op q) (classify q) = false -> served q = false.
Proof. exact basic_deny_denies. Qed.

Theorem C28_sticky_deny_denies : forall q, is_put q = true -> sticky_ok q = false -> served q = false.
Proof. exact sticky_deny_denies. Qed.

Theorem C28_table_deny_denies : forall q,
  extendable (q_basic q) = true -> system_role q = false -> table_denies q = true -> served q = false.
Proof. exact table_deny_denies. Qed.

Theorem C28_bearer_ignored_when_not_allowed : forall q b,
  q_bearer q = Some b -> b_valid b = true -> bearer_matches q b = true ->
  bearer_allowed (q_basic q) (eff_op q) = false ->
  decide q = decide (drop_bearer q).
Proof. exact bearer_ignored_when_not_allowed. Qed.

(* non-vacuity: user 2 GETs from owner 1's extendable container whose stored table denies GET to
   OTHERS; a bearer token of the owner allowing it overrides the stored table when bearer rules
   are allowed for GET (bit 0) and is ignored when they are not *)
Definition deny_others : table := [mkrecord op_get action_deny [mktarget erole_others []] []].
Definition allow_others : table := [mkrecord op_get action_allow [mktarget erole_others []] []].
Definition ex_req (mask : N) (b : option bearer) : req :=
  mkreq KGet false false 1 mask 1 2 2 (Some 2) false false 2 b (STable deny_others) [] [] [].
Definition ex_bearer := mkbearer true 1 (Some 1) (Some 2) allow_others.

Example C28_nonvacuous :
  served (ex_req 3 (Some ex_bearer)) = true          (* others+bearer bits for GET *)
  /\ served (ex_req 3 None) = false
  /\ served (ex_req 2 (Some ex_bearer)) = false       (* bearer rules not allowed: stored table decides *)
  /\ served (ex_req 1 (Some ex_bearer)) = false       (* basic ACL does not allow OTHERS *)
  /\ stricter (ex_req 3 (Some (mkbearer true 3 None None allow_others))) = true
  /\ statement_allows (ex_req 3 (Some ex_bearer)) = true.
Proof. vm_compute. repeat split. Qed.

Print Assumptions C28_served_implies.
Print Assumptions C28_impl_exact.
Print Assumptions C28_stricter_is_safe.
Print Assumptions C28_bearer_ignored_when_not_allowed.
