(* C30 -- session and bearer tokens are honoured only when valid for the request. *)
From Coq Require Import NArith List Bool.
From NV Require Import Gen.AuthTokenConsts Auth.Token Auth.TokenProofs.
Import ListNotations.
Open Scope N_scope.

(* A token influences a request only through an Accept of its verification function. *)

(* session v1: accepted => signed by its issuer, within its lifetime at the current epoch,
   bound to the request's container, object (unless a removal session / no object / unrestricted)
   and a verb covering the request's operation *)
Theorem C30_effect_implies_valid_v1 : forall ku e wf t so no rv rc ro,
  accept1 ku e wf t so no rv rc ro = Accept ->
  signed_by_issuer ku (t1_issuer t) (t1_sig t) so no
  /\ in_life e (t1_life t)
  /\ t1_cnr t = rc
  /\ (t1_verb t = verb_delete \/ ro = 0 \/ t1_objs t = [] \/ In ro (t1_objs t))
  /\ verb_covers (t1_verb t) rv = true.
Proof. exact accept1_implies_valid. Qed.

(* bearer: accepted for a request => signed by its issuer = the container owner, within its
   lifetime, for this container and this requester *)
Theorem C30_effect_implies_valid_bearer : forall ku e wf t so no owner rc sender,
  acceptb ku e wf t so no owner rc sender = Accept ->
  signed_by_issuer ku (b_issuer t) (b_sig t) so no
  /\ in_life e (b_life t)
  /\ b_issuer t = owner /\ (b_cid t = 0 \/ b_cid t = rc) /\ (b_user t = 0 \/ b_user t = sender).
Proof. exact acceptb_implies_valid. Qed.

(* session v2 with its delegation chain (outermost token first): accepted => every token of the
   chain is signed by its issuer, the outer token is within its lifetime (chain time), every token
   of the chain is inside [nbf, exp] and grants the verb for the container, each issuer is a
   subject of its origin, every token is well-formed, and the chain has at most max_depth+1 tokens *)
Theorem C30_effect_implies_valid_v2 : forall ku nns now wf ch so no rv rc,
  accept2 ku nns now wf ch so no rv rc = Accept ->
  chain_signed ku ch so no
  /\ (exists t rest, ch = t :: rest /\ in_life now (t2_life t))
  /\ Forall (fun t => l_nbf (t2_life t) <= now /\ now <= l_exp (t2_life t)) ch
  /\ Forall (fun t => assert_verb t rv rc = true) ch
  /\ chain_links nns ch
  /\ Forall (fun t => fields_ok t = true) ch
  /\ N.of_nat (length ch) <= max_depth + 1.
Proof. exact accept2_implies_valid. Qed.

(* lifetime boundaries *)
Theorem C30_boundary_nbf : forall ku wf t so no,
  wf = true -> auth ku (t1_issuer t) (t1_sig t) so no = true ->
  l_iat (t1_life t) <= l_nbf (t1_life t) -> l_nbf (t1_life t) <= l_exp (t1_life t) ->
  common1 ku (l_nbf (t1_life t)) wf t so no = Accept.
Proof. exact common1_at_nbf. Qed.

Theorem C30_boundary_exp : forall ku wf t so no,
  wf = true -> auth ku (t1_issuer t) (t1_sig t) so no = true ->
  l_iat (t1_life t) <= l_exp (t1_life t) -> l_nbf (t1_life t) <= l_exp (t1_life t) ->
  common1 ku (l_exp (t1_life t)) wf t so no = Accept.
Proof. exact common1_at_exp. Qed.

Theorem C30_boundary_after_exp : forall ku wf t so no e,
  l_exp (t1_life t) < e -> common1 ku e wf t so no <> Accept.
Proof. exact common1_after_exp. Qed.

Theorem C30_boundary_before_nbf : forall ku wf t so no e,
  e < l_nbf (t1_life t) -> common1 ku e wf t so no <> Accept.
Proof. exact common1_before_nbf. Qed.

Theorem C30_boundary_bearer : forall ku t so no,
  auth ku (b_issuer t) (b_sig t) so no = true ->
  l_iat (b_life t) <= l_nbf (b_life t) -> l_nbf (b_life t) <= l_exp (b_life t) ->
  commonb ku (l_nbf (b_life t)) true t so no = Accept
  /\ commonb ku (l_exp (b_life t)) true t so no = Accept
  /\ commonb ku (l_exp (b_life t) + 1) true t so no = Reject.
Proof. exact commonb_boundaries. Qed.

Theorem C30_boundary_v2_time : forall ku nns wf ch so no rv rc t rest now,
  ch = t :: rest -> common2 ku nns wf ch so no = Accept -> assert_verb t rv rc = true ->
  (accept2 ku nns now wf ch so no rv rc = Accept <-> in_life now (t2_life t)).
Proof. exact accept2_time. Qed.

(* the cache of verification results keyed by the token hash: as long as every epoch tick resets
   it (cmd/neofs-node does so in its new-epoch handler), every answer in every history equals the
   uncached verification at the epoch current at that moment.  keyf stands for SHA-256 of the
   stable encoding (assumed injective). *)
Theorem C30_cache_transparent :
  forall (keyf : tok1 -> bool -> bool -> bool -> N),
    (forall t w s n t' w' s' n', keyf t w s n = keyf t' w' s' n' -> t = t' /\ w = w' /\ s = s' /\ n = n') ->
    forall ku es s,
      cinv keyf ku s -> ids_faithful keyf es -> ticks_reset es ->
      crun ku s es = crun_ref ku (cs_epoch s) es.
Proof. exact cache_transparent. Qed.

(* without the reset a token validated before its expiration stays honoured after it: the reset
   is load-bearing (the harness shows the same on the real Service) *)
Definition stale_tok := mktok1 1 (mklife 9 9 10) 1 verb_get 1 [] (Some (mksig 0 1 0)).
Theorem C30_reset_needed :
  crun [(1, 1)] (mkcstate 10 [])
       [EVerify 7 stale_tok true true false verb_get 1 0; ETick 11 false; EVerify 7 stale_tok true true false verb_get 1 0]
  = [Some Accept; None; Some Accept]
  /\ crun [(1, 1)] (mkcstate 10 [])
       [EVerify 7 stale_tok true true false verb_get 1 0; ETick 11 true; EVerify 7 stale_tok true true false verb_get 1 0]
  = [Some Accept; None; Some Expired].
Proof. split; vm_compute; reflexivity. Qed.

(* changing any signed field: under the hypothesis that a signature value verifies for at most one
   message per key and that the body encodings are injective, a token accepted with an ECDSA
   signature is rejected for every request after any change of its signed body that keeps the
   signature *)
Theorem C30_field_change_rejected_v1 :
  forall (msg : Type) (verify : N -> N -> msg -> N -> bool),
    (forall sc k s m m', verify sc k m s = true -> verify sc k m' s = true -> m = m') ->
    forall (enc1 : N * life * N * N * N * list N -> msg), (forall a b, enc1 a = enc1 b -> a = b) ->
    forall ku e t t' rv rc ro n3ok n3ok',
      accept1 ku e true t (sigok_of msg verify (enc1 (body1 t)) (t1_sig t)) n3ok rv rc ro = Accept ->
      (forall s, t1_sig t = Some s -> is_ecdsa (sg_scheme s) = true) ->
      t1_sig t' = t1_sig t -> body1 t' <> body1 t ->
      forall e' wf' rv' rc' ro',
        accept1 ku e' wf' t' (sigok_of msg verify (enc1 (body1 t')) (t1_sig t')) n3ok' rv' rc' ro' <> Accept.
Proof. exact field_change_rejected_v1. Qed.

Theorem C30_field_change_rejected_bearer :
  forall (msg : Type) (verify : N -> N -> msg -> N -> bool),
    (forall sc k s m m', verify sc k m s = true -> verify sc k m' s = true -> m = m') ->
    forall (encb : N * life * N * N * N -> msg), (forall a b, encb a = encb b -> a = b) ->
    forall ku e t t' owner rc sender n3ok n3ok',
      acceptb ku e true t (sigok_of msg verify (encb (bodyb t)) (b_sig t)) n3ok owner rc sender = Accept ->
      (forall s, b_sig t = Some s -> is_ecdsa (sg_scheme s) = true) ->
      b_sig t' = b_sig t -> bodyb t' <> bodyb t ->
      forall e' wf' owner' rc' sender',
        acceptb ku e' wf' t' (sigok_of msg verify (encb (bodyb t')) (b_sig t')) n3ok' owner' rc' sender' <> Accept.
Proof. exact field_change_rejected_bearer. Qed.

Theorem C30_field_change_rejected_v2 :
  forall (msg : Type) (verify : N -> N -> msg -> N -> bool),
    (forall sc k s m m', verify sc k m s = true -> verify sc k m' s = true -> m = m') ->
    forall (enc2 : N * N * N * list subj * life * list ctx2 * bool -> msg), (forall a b, enc2 a = enc2 b -> a = b) ->
    forall ku nns now ch n3oks rv rc i t t' ch',
      accept2 ku nns now true ch (sigoks_of msg verify enc2 ch) n3oks rv rc = Accept ->
      nth_error ch i = Some t ->
      (forall s, t2_sig t = Some s -> is_ecdsa (sg_scheme s) = true) ->
      t2_sig t' = t2_sig t -> body2 t' <> body2 t ->
      nth_error ch' i = Some t' ->
      forall nns' now' wf' n3oks' rv' rc',
        accept2 ku nns' now' wf' ch' (sigoks_of msg verify enc2 ch') n3oks' rv' rc' <> Accept.
Proof. exact field_change_rejected_v2. Qed.

(* non-vacuity *)
Definition ex_sig := Some (mksig 1 4 0).
Definition ex_t1 := mktok1 4 (mklife 8 9 11) 2 verb_get 1 [5; 6] ex_sig.
Definition ex_root := mktok2 0 0 4 [SUser 2] (mklife 90 95 200) [mkctx 0 [verb_get; verb_head]; mkctx 2 [verb_put]] false ex_sig.
Definition ex_del := mktok2 0 0 2 [SUser 3] (mklife 96 100 150) [mkctx 1 [verb_get]] false (Some (mksig 0 2 0)).
Example C30_nonvacuous :
  accept1 [(4, 4)] 10 true ex_t1 true false verb_head 1 5 = Accept
  /\ accept1 [(4, 4)] 12 true ex_t1 true false verb_head 1 5 = Expired
  /\ accept1 [(4, 4)] 10 true ex_t1 true false verb_put 1 5 = Reject
  /\ accept1 [(4, 4)] 10 true ex_t1 false false verb_head 1 5 = Reject
  /\ accept2 [(4, 4); (2, 2)] [] 120 true [ex_del; ex_root] [true; true] [false; false] verb_get 1 = Accept
  /\ accept2 [(4, 4); (2, 2)] [] 151 true [ex_del; ex_root] [true; true] [false; false] verb_get 1 = Expired
  /\ accept2 [(4, 4); (2, 2)] [] 120 true [ex_del; ex_root] [true; true] [false; false] verb_put 1 = Reject
  /\ accept2 [(4, 4); (2, 2)] [] 120 true [ex_del; ex_root] [true; false] [false; false] verb_get 1 = Reject.
Proof. vm_compute. repeat split. Qed.

Print Assumptions C30_effect_implies_valid_v1.
Print Assumptions C30_effect_implies_valid_bearer.
Print Assumptions C30_effect_implies_valid_v2.
Print Assumptions C30_cache_transparent.
Print Assumptions C30_field_change_rejected_v1.
Print Assumptions C30_field_change_rejected_bearer.
Print Assumptions C30_field_change_rejected_v2.
