(* C27 — repeated policer cycles restore the required replicas, then stop.
   Only statements, `exact`, examples and Print Assumptions live here.
   The cluster model (Place/Rounds.v) runs the C26 model [process_object true]
   (the repaired code) on every holder against the shared holder set. *)
From Coq Require Import List Arith.
Import ListNotations.
From NV Require Import Place.Policer Place.Rounds Place.RoundsProofs Place.RoundsMultiProofs Place.Repl Place.ReplProofs.

(* Stable placement list [nodes] (no repetitions), REP R, all nodes reachable and
   accepting, holders inside the container, at least one holder: after R+1 rounds
   - whatever the order of the nodes inside each round, as long as every node
   gets its turn - the holders are exactly the R primary nodes; any further
   checks leave the state unchanged and issue no replication task. *)
Theorem C27_converges : forall nodes R holds orders,
  NoDup nodes -> 0 < R -> R <= length nodes ->
  incl holds nodes -> (exists x, In x holds) ->
  covering nodes orders -> R + 1 <= length orders ->
  let h := rounds nodes R orders holds in
  same_set h (primaries nodes R)
  /\ (forall more, rounds nodes R more h = h)
  /\ (forall v, node_step nodes R h v = h /\ node_tasks nodes R h v = []).
Proof. exact converges. Qed.

(* the measure: every check by a holder strictly decreases the number of primary
   nodes that miss the object *)
Theorem C27_progress : forall nodes R holds v,
  NoDup nodes -> incl holds nodes -> In v holds ->
  0 < missing nodes R holds ->
  missing nodes R (node_step nodes R holds v) < missing nodes R holds.
Proof. exact step_progress. Qed.

Theorem C27_never_empty : forall nodes R holds v,
  NoDup nodes -> 0 < R -> incl holds nodes ->
  (exists x, In x holds) -> exists x, In x (node_step nodes R holds v).
Proof. exact never_empty. Qed.

Theorem C27_primary_never_drops : forall nodes R holds v,
  NoDup nodes -> In v (primaries nodes R) -> In v holds -> In v (node_step nodes R holds v).
Proof. exact primary_never_drops. Qed.

(* ---- several REP rules, overlapping placement vectors ---------------------------
   [rules] = one (placement vector, copies number) per REP rule of the policy; the
   per-node check walks them with ONE shared processPlacementContext
   (localNodeInContainer, needLocalCopy, node cache), as processObject does.
   Full statement wanted (as for one rule): "after finitely many rounds every primary
   node of every rule holds the object, the holder set stops changing and no check
   issues a task".  Proved here (hence _partial): the replicas are restored after
   (sum of the copies numbers) rounds and stay restored for ever; a holder that is a
   primary node of ANY rule never drops its copy; every holder's check strictly
   decreases the number of (rule, primary) pairs missing the object; the holder set
   never becomes empty.  NOT proved: that the holder set stops changing and
   replication stops (only checked by the differential tie); the last part is in fact
   false for the unchanged code in the strict form "no task": a node confirmed as a
   holder for an earlier vector is skipped without being counted for a later vector,
   so some nodes keep calling the replicator with an EMPTY candidate list. *)
Theorem C27_multi_restores_partial : forall rules orders holds,
  (forall r, In r rules -> rule_ok r) ->
  (forall x, In x holds -> in_container rules x) -> (exists x, In x holds) ->
  mcovering rules orders -> total_R rules <= length orders ->
  restored rules (mrounds rules orders holds)
  /\ (forall more, restored rules (mrounds rules more (mrounds rules orders holds))).
Proof. exact multi_restores. Qed.

Theorem C27_multi_primary_never_drops : forall rules holds v r,
  (forall r, In r rules -> rule_ok r) -> In r rules ->
  In v (primaries (fst r) (snd r)) -> In v holds -> In v (mnode_step rules holds v).
Proof. exact multi_primary_never_drops. Qed.

Theorem C27_multi_progress : forall rules holds v,
  (forall r, In r rules -> rule_ok r) -> In v holds ->
  0 < mmissing rules holds ->
  mmissing rules (mnode_step rules holds v) < mmissing rules holds.
Proof. exact multi_step_progress. Qed.

Theorem C27_multi_never_empty : forall rules holds v,
  (forall r, In r rules -> rule_ok r) ->
  (forall x, In x holds -> in_container rules x) -> (exists x, In x holds) ->
  exists x, In x (mnode_step rules holds v).
Proof. exact multi_never_empty. Qed.

(* the one-rule model is the one-element instance of the multi-rule model *)
Theorem C27_multi_single : forall nodes R holds v,
  mnode_step [(nodes, R)] holds v = node_step nodes R holds v
  /\ mnode_tasks [(nodes, R)] holds v = node_tasks nodes R holds v.
Proof. intros. split; [apply mstep_single|apply mtasks_single]. Qed.

(* non-vacuity: REP 1 over [1;2;3] and REP 1 over [2;3;1] (node 2 is a backup node of
   the first vector and the primary node of the second), one copy on node 3 *)
Example C27_multi_example :
  mrounds [([1; 2; 3], 1); ([2; 3; 1], 1)] [[1; 2; 3]; [3; 2; 1]] [3] = [1; 2]
  /\ mmissing [([1; 2; 3], 1); ([2; 3; 1], 1)] [3] = 2
  /\ restored [([1; 2; 3; 4], 2); ([3; 4; 5], 1)]
        (mrounds [([1; 2; 3; 4], 2); ([3; 4; 5], 1)] [[1; 2; 3; 4; 5]; [5; 4; 3; 2; 1]; [2; 4; 1; 3; 5]] [5]).
Proof. split; [reflexivity|split; [reflexivity|exact multi_restores_instance]]. Qed.

(* the replicator never reports more successes than asked for, and only nodes
   that were sent the object and accepted it; one check issues at most one task *)
Theorem C27_replicator_bounded : forall holds v q cands sends succ,
  handle_task (cluster_env holds v) q cands = (sends, succ) ->
  length succ <= q /\ incl succ sends /\ incl sends cands
  /\ (forall n, In n succ -> e_rep (cluster_env holds v) n = RStored /\ n <> v)
  /\ (NoDup cands -> NoDup succ).
Proof. exact replicator_bounded. Qed.

(* ... for EVERY kind of task and every environment (any answers of the remote nodes):
   address-only tasks (the policer's) and tasks that carry the object (Task.SetObject:
   post-placement replication, EC parts), where the LOCAL node is a regular target whose
   successful local Put consumes one unit of the quantity and is reported.  At most [q]
   reported nodes, every one a target of the task, reported once, and either a remote
   node that was sent the object and stored it or the local node after a successful
   local Put of a carried object. *)
Theorem C27_replicator_bounded_any : forall e o q nodes sends succ,
  handle_task_any e o q nodes = (sends, succ) ->
  length succ <= q /\ incl succ nodes /\ incl sends nodes
  /\ (forall n, In n succ ->
        (n <> e_local e /\ In n sends /\ e_rep e n = RStored) \/ (n = e_local e /\ given_stored o))
  /\ (NoDup nodes -> NoDup succ).
Proof. exact handle_task_any_spec. Qed.

(* non-vacuity: object carried, targets [local; 1; 2], two copies asked, everybody
   stores: the local copy takes one unit, only node 1 is sent the object *)
Example C27_example_local_target :
  handle_task_any (mkEnv 9 true (fun _ => false) (fun _ => NotFound) (fun _ => RStored) true)
                  (ObjGiven true true) 2 [9; 1; 2] = ([1], [9; 1]).
Proof. reflexivity. Qed.

Theorem C27_node_replication_bounded : forall nodes R holds v,
  NoDup nodes ->
  let r := node_result nodes R holds v in
  match r_tasks r with
  | [] => r_succ r = []
  | [(q, c)] => length (r_succ r) <= q /\ incl (r_succ r) c /\ incl c nodes
  | _ => False
  end.
Proof. exact node_replication_bounded. Qed.

(* non-vacuity: 4 nodes, REP 2, only the two backup nodes hold the object *)
Example C27_example :
  rounds [1; 2; 3; 4] 2 [[1; 2; 3; 4]; [4; 3; 2; 1]] [3; 4] = [1; 2]
  /\ missing [1; 2; 3; 4] 2 [3; 4] = 2
  /\ node_tasks [1; 2; 3; 4] 2 [3; 4] 3 = [(2, [1; 2])].
Proof. repeat split; reflexivity. Qed.

Print Assumptions C27_converges.
Print Assumptions C27_progress.
Print Assumptions C27_never_empty.
Print Assumptions C27_primary_never_drops.
Print Assumptions C27_multi_restores_partial.
Print Assumptions C27_multi_primary_never_drops.
Print Assumptions C27_multi_progress.
Print Assumptions C27_multi_never_empty.
Print Assumptions C27_replicator_bounded.
Print Assumptions C27_replicator_bounded_any.
Print Assumptions C27_node_replication_bounded.
