(* C26 — the policer never drops a local copy that may be needed.
   Only statements, `exact`, examples and Print Assumptions live here.

   The model (Place/Policer.v, [process_object true]) is the code after the
   repair of processNodes; [C26_unrepaired_refuted] shows that the code before
   the repair ([process_object false]) violated the statement. *)
From Coq Require Import List Arith.
Import ListNotations.
From NV Require Import Place.Policer Place.PolicerProofs Place.Repl Place.ReplProofs.

(* Removal with the "redundant" mark of an object checked against the REP rules
   (whole objects; also an EC part in a container without EC rules): every
   processed rule that lists the local node has at least its required number
   (LOCK/LINK: the whole list) of OTHER nodes of that list, pairwise distinct,
   each confirmed = header read OK from it during this check, or replication to
   it reported and accepted.  Maintenance nodes and errors are never in [hs]. *)
Theorem C26_drop_safe : forall e ty ec shards nn rep ecr,
  rep_path ec ecr ->
  let r := process_object true e ty ec shards (NetOk nn rep ecr) in
  In MRedundant (r_dels r) ->
  forall nodes req,
    In (nodes, req) (rules_of ty nn rep ecr) -> NoDup nodes -> In (e_local e) nodes ->
    exists hs, NoDup hs /\ incl hs nodes /\ ~ In (e_local e) hs
               /\ (forall n, In n hs -> confirmed e r n)
               /\ (if is_broadcast ty then length nodes else req) <= length hs.
Proof. exact drop_safe. Qed.

(* The local node is in none of the processed lists: removal only when the node
   is in the network map and at least one node is a confirmed holder. *)
Theorem C26_outside_drop_safe : forall e ty ec shards nn rep ecr,
  rep_path ec ecr ->
  let r := process_object true e ty ec shards (NetOk nn rep ecr) in
  In MRedundant (r_dels r) ->
  (forall nodes req, In (nodes, req) (rules_of ty nn rep ecr) -> ~ In (e_local e) nodes) ->
  e_in_netmap e = true /\ exists n, confirmed e r n.
Proof. exact outside_drop_safe. Qed.

(* LOCK and LINK objects are never removed (no Delete call at all) on a node
   that is in one of the container's lists. *)
Theorem C26_lock_link_never_dropped : forall e ty shards nn rep ecr nodes req,
  is_broadcast ty = true ->
  In (nodes, req) (rules_of ty nn rep ecr) -> In (e_local e) nodes ->
  r_dels (process_object true e ty None shards (NetOk nn rep ecr)) = [].
Proof. exact lock_link_never_dropped. Qed.

(* EC part: removal with the redundant mark only with a confirmed other holder
   in the node list of the part's rule. *)
Theorem C26_ec_drop_safe : forall fx e ty shards nn rep ecr ri pi,
  ecr <> [] ->
  let r := process_object fx e ty (Some (ri, pi)) shards (NetOk nn rep ecr) in
  In MRedundant (r_dels r) ->
  exists n, In n (nth ri (skipn (length rep) nn) []) /\ n <> e_local e /\ confirmed e r n.
Proof. exact ec_drop_safe. Qed.

(* Removals with the default mark happen only when the container is gone or
   the object's EC attributes do not fit the policy. *)
Theorem C26_default_deletions_classified : forall fx e ty ec shards net,
  In MDefault (r_dels (process_object fx e ty ec shards net)) ->
  net = NetNotFound
  \/ exists nn rep ecr, net = NetOk nn rep ecr /\ policy_mismatch ty ec rep ecr = true.
Proof. exact default_deletions_classified. Qed.

(* Replicator: never more successes than asked for, only for nodes that were
   sent the object and accepted it ([RStored]: not a maintenance status, not any
   other failure status, not a transport failure), never the local node, no node
   twice. *)
Theorem C26_replicator_bounded : forall e q nodes sends succ,
  handle_task e q nodes = (sends, succ) ->
  length succ <= q /\ incl succ sends /\ incl sends nodes
  /\ (forall n, In n succ -> e_rep e n = RStored /\ n <> e_local e)
  /\ (NoDup nodes -> NoDup succ).
Proof. exact handle_task_spec. Qed.

(* The same for every kind of task, including tasks that carry the object
   (Task.SetObject) and list the LOCAL node among the targets: a successful local Put
   consumes one unit of the quantity and is the only way the local node is reported. *)
Theorem C26_replicator_bounded_any : forall e o q nodes sends succ,
  handle_task_any e o q nodes = (sends, succ) ->
  length succ <= q /\ incl succ nodes /\ incl sends nodes
  /\ (forall n, In n succ ->
        (n <> e_local e /\ In n sends /\ e_rep e n = RStored) \/ (n = e_local e /\ given_stored o))
  /\ (NoDup nodes -> NoDup succ).
Proof. exact handle_task_any_spec. Qed.

Example C26_example_local_target :
  handle_task_any (mkEnv 9 true (fun _ => false) (fun _ => NotFound) (fun _ => RStored) true)
                  (ObjGiven true true) 2 [9; 1; 2] = ([1], [9; 1]).
Proof. reflexivity. Qed.

(* The code before the repair: nodes [A: not found; M: maintenance; Local],
   REP 1, replication to A fails -> local copy removed, nobody confirmed. *)
Theorem C26_unrepaired_refuted :
  let r := process_object false refute_env Regular None 1 (NetOk [[1; 2; 3]] [1] []) in
  In MRedundant (r_dels r)
  /\ In (e_local refute_env) [1; 2; 3]
  /\ forall n, ~ confirmed refute_env r n.
Proof. exact unrepaired_refuted. Qed.

(* ---- non-vacuity ---------------------------------------------------------- *)
Definition ex_env : env :=
  mkEnv 9 true (fun n => Nat.eqb n 4)
        (fun n => match n with 1 => Has | 2 => NotFound | 5 => Has | _ => Err end)
        (fun n => match n with 2 => RStored | 3 => RMaint | 6 => RStatus | 7 => RNoConn | _ => RFail end) true.

(* in the container: [1: has; 9 = local] REP 1 and [5: has; 2: not found; 9] REP 1 -> removed *)
Example C26_example_drop :
  r_dels (process_object true ex_env Regular None 1 (NetOk [[1; 9]; [5; 2; 9]] [1; 1] [])) = [MRedundant]
  /\ rules_of Regular [[1; 9]; [5; 2; 9]] [1; 1] [] = [([1; 9], 1); ([5; 2; 9], 1)].
Proof. split; reflexivity. Qed.

(* outside the container: [2: not found; 3: error] REP 1, replication to 2 succeeds -> removed *)
Example C26_example_outside :
  let r := process_object true ex_env Regular None 1 (NetOk [[2; 3]] [1] []) in
  r_dels r = [MRedundant] /\ r_succ r = [2].
Proof. split; reflexivity. Qed.

(* LOCK on a container node: kept, replicated to the nodes that miss it *)
Example C26_example_lock :
  let r := process_object true ex_env Lock None 1 (NetOk [[1; 9; 2]] [1] []) in
  r_dels r = [] /\ r_tasks r = [(1, [2])].
Proof. split; reflexivity. Qed.

(* EC part 0 of rule 2/1 on lists [9; 1; 2]: local optimal -> hold; [1; 9; 2]: node 1 has it -> drop *)
Example C26_example_ec :
  r_dels (process_object true ex_env Regular (Some (0, 0)) 1 (NetOk [[9; 1; 2]] [] [(2, 1)])) = []
  /\ r_dels (process_object true ex_env Regular (Some (0, 0)) 1 (NetOk [[1; 9; 2]] [] [(2, 1)])) = [MRedundant].
Proof. split; reflexivity. Qed.

(* the maintenance scenario on the repaired code: kept *)
Example C26_example_maintenance_kept :
  r_dels (process_object true refute_env Regular None 1 (NetOk [[1; 2; 3]] [1] [])) = [].
Proof. reflexivity. Qed.

Example C26_example_default :
  r_dels (process_object true ex_env Regular (Some (3, 0)) 1 (NetOk [[1; 9; 2]] [] [(2, 1)])) = [MDefault]
  /\ policy_mismatch Regular (Some (3, 0)) [] [(2, 1)] = true.
Proof. split; reflexivity. Qed.

Example C26_example_replicator :
  handle_task ex_env 1 [3; 2; 2] = ([3; 2], [2]).
Proof. reflexivity. Qed.

(* a node answering the replication request with the maintenance status (3), another
   failure status (6), a transport failure (1) or unreachable (7) is not a holder: the
   request goes on to the next candidate and only node 2 is reported *)
Example C26_example_replicator_statuses :
  handle_task ex_env 1 [3; 6; 7; 1; 2] = ([3; 6; 1; 2], [2])
  /\ handle_task ex_env 1 [3; 6; 7; 1] = ([3; 6; 1], []).
Proof. split; reflexivity. Qed.

(* EC part 0 on [3; 9; 2]: node 3 does not have the part (HEAD answers not found)
   and answers the replication request with the maintenance status -> the part is kept *)
Definition ex_env_mm : env :=
  mkEnv 9 true (fun _ => false) (fun _ => NotFound)
        (fun n => match n with 3 => RMaint | _ => RFail end) true.
Example C26_example_ec_maintenance_reply_kept :
  let r := process_object true ex_env_mm Regular (Some (0, 0)) 1 (NetOk [[3; 9; 2]] [] [(2, 1)]) in
  r_dels r = [] /\ r_sends r = [3] /\ r_succ r = [].
Proof. repeat split; reflexivity. Qed.

Print Assumptions C26_drop_safe.
Print Assumptions C26_outside_drop_safe.
Print Assumptions C26_lock_link_never_dropped.
Print Assumptions C26_ec_drop_safe.
Print Assumptions C26_default_deletions_classified.
Print Assumptions C26_replicator_bounded.
Print Assumptions C26_replicator_bounded_any.
Print Assumptions C26_unrepaired_refuted.
