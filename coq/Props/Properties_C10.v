(* C10 — file-tree blob storage behaves as a map from address to bytes.
   Only statements, `exact`, examples and Print Assumptions live here. *)
From Coq Require Import List NArith Arith Bool.
Import ListNotations.
From NV Require Import Gen.FSTreeConsts FSTree.Wire FSTree.Combined FSTree.CombinedProofs FSTree.FS FSTree.FSProofs FSTree.FSExample.

(* Refinement to a map.  [dec] = zstd.DecodeTo, [nm] = naming of addresses (stringifyAddress,
   addressFromString, object ID bytes), [content a] = the object binary address a stands for
   (addresses are content hashes: every stored form put under a decompresses to content a --
   premise [op_ok], which also carries the format guard [no_prefix]).
   For EVERY history of Put critical sections (single file, combined record, generic writer --
   chosen by the configuration), batch timer expiries, PutBatch, Delete, Get/GetBytes,
   Head/GetStream, ReadObject/ReadHeader, Exists and Iterate, from any state a history can reach,
   every result equals the result of the same operation on the map (iteration: every stored
   address exactly once with its bytes). *)
Theorem C10_refines_map :
  forall (dec : bytes -> option bytes) (nm : naming) (c : cfg) (content : nat -> bytes),
  (forall a, parse nm (str nm a) = Some a) ->
  (forall n, has_hash n = true -> parse nm n = None) ->
  (forall a, length (oidb nm a) = oid_size) ->
  (forall a b, oidb nm a = oidb nm b -> a = b) ->
  forall ops w M, Inv dec nm c content w M -> Forall (op_ok dec content) ops ->
  Forall2 res_match (snd (run dec nm c w ops)) (snd (ref_run dec M ops)).
Proof. exact refines_map. Qed.

(* the empty tree and the empty map are related *)
Theorem C10_initial : forall dec nm c content, Inv dec nm c content init_w (fun _ => None).
Proof. exact Inv_init. Qed.

(* key lemma: appending records (or a torn record) never changes what an earlier ID resolves to *)
Theorem C10_scan_finds_own_record : forall dec nm content b a x,
  servesC dec nm content b a -> servesC dec nm content (b ++ x) a.
Proof. exact servesC_app. Qed.

(* key lemma: unlinking one path keeps the others *)
Theorem C10_unlink_one_keeps_others : forall s p q,
  linked (exec s (ScUnlink p)) q <-> linked s q /\ q <> p.
Proof. exact linked_unlink. Qed.

(* iteration in any state that satisfies the link discipline: each linked address once, with its bytes *)
Theorem C10_iterate_once :
  forall dec nm c content,
  (forall a, parse nm (str nm a) = Some a) -> (forall n, has_hash n = true -> parse nm n = None) ->
  (forall a b, oidb nm a = oidb nm b -> a = b) ->
  forall s, linked_ok dec nm c content s ->
  exists r, iterate dec nm c s = Some r /\ NoDup (map fst r) /\
            forall a x, In (a, x) r <-> (x = content a /\ exists_ nm c s a = true).
Proof. exact iterate_ok. Qed.

(* where the format guard comes from: stored bytes begin with a protobuf field tag of the object
   message (0x0a, 0x12, 0x1a, 0x22) or with the zstd magic (0x28), never with 0x7f *)
Theorem C10_guard_from_first_byte : forall b rest, b <> combined_prefix -> no_prefix (b :: rest) = true.
Proof. exact no_prefix_first_byte. Qed.

(* Without the premise that an address always carries the same object the literal reading
   "the bytes last stored" fails on the O_TMPFILE writer: linkat answers EEXIST, the writer reports
   success and the first bytes stay (by design, neofs-node issue 2563). *)
Theorem C10_reput_other_bytes_refuted :
  exists ops, snd (run ex_dec ex_nm (ex_cfg false) init_w ops) = [RPut true; RPut true; RGet (GOk [10; 0; 1; 2; 3]%N)] /\
              snd (ref_run ex_dec (fun _ => None) ops) = [QPut true; QPut true; QGet (Some [10; 0; 7; 7; 7]%N)].
Proof. exists [OPut 0 [10; 0; 1; 2; 3]%N; OPut 0 [10; 0; 7; 7; 7]%N; OGetBytes 0]. vm_compute. split; reflexivity. Qed.

(* non-vacuity: a naming of all natural numbers satisfies the hypotheses, and a concrete history
   (single + combined + batch with an empty member + delete + every read) satisfies the premises;
   the same history on the generic writer gives the same answers *)
Example C10_example :
  Forall2 res_match (snd (run ex_dec ex_nm (ex_cfg false) init_w ex_ops)) (snd (ref_run ex_dec (fun _ => None) ex_ops)) /\
  snd (run ex_dec ex_nm (ex_cfg false) init_w ex_ops) = snd (run ex_dec ex_nm (ex_cfg true) init_w ex_ops) /\
  nth 6 (snd (run ex_dec ex_nm (ex_cfg false) init_w ex_ops)) RNone = RGet (GOk (ex_content 3)) /\
  nth 7 (snd (run ex_dec ex_nm (ex_cfg false) init_w ex_ops)) RNone = RGet GNotFound /\
  nth 11 (snd (run ex_dec ex_nm (ex_cfg false) init_w ex_ops)) RNone =
    RIter (Some [(5, ex_content' 5); (3, ex_content 3); (1, ex_content 1); (0, ex_content 0)]).
Proof.
  split; [|vm_compute; repeat split; reflexivity].
  exact (C10_refines_map ex_dec ex_nm (ex_cfg false) ex_content' ex_parse_str ex_parse_hash ex_oid_len ex_oid_inj
           ex_ops init_w _ (C10_initial _ _ _ _) ex_ops_ok).
Qed.

Print Assumptions C10_refines_map.
Print Assumptions C10_iterate_once.
Print Assumptions C10_reput_other_bytes_refuted.
