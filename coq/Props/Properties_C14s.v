(* C14 (static part) — in every function of package shard, every call that changes stored
   objects, metadata or write-cache contents is dominated by a mode check. The IR
   (Gen/Prog_Shard.v) is regenerated from the Go source on every run. *)
From Coq Require Import String List Bool.
Import ListNotations.
From NV Require Import Prog.IR Prog.IRProofs Prog.Tables_C14.
From NV Require Gen.Prog_Shard.
Open Scope string_scope.
Module S := Gen.Prog_Shard.

Lemma c14_bad_static : c14_bad S.funcs = [].
Proof. vm_compute. reflexivity. Qed.
Lemma c14_shapes_static : c14_bad_shapes S.funcs = [].
Proof. vm_compute. reflexivity. Qed.
Lemma c14_unclassified_static : c14_unclassified S.funcs = [].
Proof. vm_compute. reflexivity. Qed.

Theorem C14_static : c14_bad S.funcs = [] /\ c14_bad_shapes S.funcs = [] /\ c14_unclassified S.funcs = [].
Proof. split; [exact c14_bad_static|split; [exact c14_shapes_static|exact c14_unclassified_static]]. Qed.

Lemma bad_with_nil_ok14 fuel prog noinl gs crit hs h :
  bad_handlers_with fuel prog noinl gs crit hs = [] -> In h hs ->
  handler_ok_with fuel prog noinl gs crit h = true.
Proof.
  unfold bad_handlers_with. intros Hb Hin.
  destruct (handler_ok_with fuel prog noinl gs crit h) eqn:E; [reflexivity|].
  assert (In h (filter (fun h => negb (handler_ok_with fuel prog noinl gs crit h)) hs)).
  { apply filter_In. split; [exact Hin|]. rewrite E. reflexivity. }
  rewrite Hb in H. contradiction.
Qed.

(* semantic reading: while every mode check refuses (the shard is in a read-only mode), no
   execution of ANY function of the package — public operation, GC pass, epoch handler,
   helper — performs a mutating component call *)
Theorem C14_read_only_no_mutation :
  forall h body env t r,
    In h (c14_all S.funcs) ->
    lookup S.funcs h = Some body ->
    exec env (inline_with c14_fuel S.funcs (fun _ => false) body) t r ->
    (forall g, c14_isg g = true -> env g = false) ->
    forall e, In (EvEffect e) t -> c14_mut e = false.
Proof.
  intros h body env t r Hh Hl Hex Henv e He.
  pose proof (bad_with_nil_ok14 _ _ _ _ _ _ h c14_bad_static Hh) as Hok.
  exact (handler_ok_with_sound _ _ _ _ _ _ _ _ _ _ Hok Hl Hex c14_isg (or_introl eq_refl) Henv e He).
Qed.

Example C14_static_nonvacuous :
  Nat.leb 10 (length (c14_mut_present S.funcs)) = true
  /\ dominated (String.eqb "NoSuchCheck") c14_mut
       (match lookup S.funcs "shard.Shard.Put" with Some b => inline_with c14_fuel S.funcs (fun _ => false) b | None => Skip end) = false.
Proof. vm_compute. split; reflexivity. Qed.

Print Assumptions C14_static.
Print Assumptions C14_read_only_no_mutation.
