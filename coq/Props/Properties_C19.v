(* C19 — evacuation keeps every available object available on the remaining shards.
   Only statements, `exact`, examples and Print Assumptions live here.

   The engine restricted to the remaining shards = engine_get with a visiting order over the
   shard indices that are not evacuated (`remaining srcs n`); the shard list keeps its shape.

   Full statements:
   (1) preserved:  evacuate = (EvOk, x') -> In i srcs -> nth_error st i = Some s ->
         fst (sh_get s e a false) = SFound b -> Permutation ord (remaining srcs (length st)) ->
         In a (ev_handed x') \/ fst (engine_get t e a ord (ev_st x')) = GFound b.
       FALSE for the faithful model and the real engine: C19_preserved_refuted (an object that a
       lock keeps alive over its garbage mark is not listed), C19_preserved_refuted_separated_lock
       (an expired object and the lock keeping it are re-put on different shards).  Proved for the
       class c19_good: C19_preserved_partial.  (A third failure, a source shard without metabase
       silently skipped, was repaired in the code; the model is the repaired code.)
   (2) sources unchanged: proved at full strength, C19_sources_unchanged (also when Evacuate fails).
   (3) status unchanged: tombstonedb / lockedb over the remaining shards afterwards = over all
       shards before.  FALSE (C19_status_unchanged_refuted: ignoreErrors skips an unreadable
       tombstone object and Evacuate reports success).  Proved: the "not created" direction for
       the tombstone status at full strength (C19_tombstone_not_created, with
       C19_records_from_before: every metabase record of every shard afterwards is a record some
       shard had before), and C19_moved: every object a source lists and serves -- tombstone and
       lock objects included -- is handed to the fault handler or held by a remaining shard.
       The "not lost" direction for the tombstone status: C19_tombstone_kept_partial (a tombstone
       object a source lists and serves is handed or stored with its record by a remaining
       shard, if its ID carries one header everywhere, no remaining shard is in a degraded
       read-write mode and none stores the tombstone's data without its record).
       The "not lost" direction for the LOCK status: C19_lock_status_partial (Engine/EvacLock.v): a lock
       object L for x a source lists and serves is handed or, afterwards, a remaining shard stores it
       with its record and reports x as locked (Model.locked = objectLocked), in the class PT and if
       the garbage status of L is "available" where it matters (no shard stores a tombstone for L,
       no remaining shard default-marks L -- proved to be kept through all re-puts) and the lock is
       not expired.  NOT proved: the "not created" direction for the lock status (every lock RECORD
       afterwards was a record before: lock_record_not_created in Engine/EvacStatus.v, but a re-put
       may in principle change the garbage status of a lock object on the receiving shard), hence
       not the equality; it is checked on the real engine by the correspondence run only
       (class c19_status_good / deviation 2 of Engine/EvacCheck.v). *)
From Coq Require Import List NArith Bool Arith Permutation.
Import ListNotations.
From NV Require Import Engine.Model Engine.Spec Engine.Check Engine.Evac Engine.EvacSpec
                       Engine.EvacProofs Engine.EvacPreserved Engine.EvacStatus Engine.EvacTomb
                       Engine.EvacLock Engine.EvacWitness.
Local Open Scope N_scope.

(* the paged listing (page size regenerated from the code) is the raw-ordered list of the IDs
   the metabase lists: pages neither lose nor repeat an ID *)
Theorem C19_listing_is_filter : forall s rank, listing s rank = filter (listed s) rank.
Proof. exact listing_is_filter. Qed.

(* evacuation never changes a source shard -- whatever it returns *)
Theorem C19_sources_unchanged : forall t e srcs ign fh rank ords st i, In i srcs ->
  nth_error (ev_st (snd (evacuate t e srcs ign fh rank ords st))) i = nth_error st i.
Proof. exact sources_unchanged. Qed.

(* Ok => every address a source lists and serves was handed to the fault handler or is held by
   a shard that is not evacuated (its metabase lists it, or it has no metabase and stores the data) *)
Theorem C19_moved : forall t e srcs ign fh rank ords st x' i s a b m,
  evacuate t e srcs ign fh rank ords st = (EvOk, x') ->
  In i srcs -> nth_error st i = Some s -> sh_get s e a false = (SFound b, m) -> listed s a = true -> In a rank ->
  In a (ev_handed x') \/
  exists j s', is_src srcs j = false /\ nth_error (ev_st x') j = Some s' /\ held_by a s'.
Proof. exact moved. Qed.

(* Ok => an address available on a source, in the class c19_good, is returned with the same
   bytes for every visiting order over the remaining shards (unless the handler took it) *)
Theorem C19_preserved_partial : forall t e srcs ign fh rank ords a b st x' i s m ord,
  evacuate t e srcs ign fh rank ords st = (EvOk, x') ->
  In i srcs -> nth_error st i = Some s -> sh_get s e a false = (SFound b, m) -> In a rank ->
  c19_good st e srcs a = true ->
  Permutation ord (remaining srcs (length st)) ->
  In a (ev_handed x') \/ fst (engine_get t e a ord (ev_st x')) = GFound b.
Proof. exact preserved_partial. Qed.

(* the unrestricted statement fails on reachable states *)
Theorem C19_preserved_refuted :
  exists u n ops srcs rank ords a b,
    let en := run_ops u (init_engine n 0) ops in
    let ev := evacuate 0 (epoch en) srcs false None rank ords (shards en) in
    fst ev = EvOk /\
    (exists s, nth_error (shards en) 0 = Some s /\ In 0%nat srcs /\ fst (sh_get s (epoch en) a false) = SFound b) /\
    In a rank /\ coherent (shards en) a = true /\
    forallb (fun s => serves s a) (rem_shards srcs (shards en)) = true /\
    ev_handed (snd ev) = [] /\
    fst (engine_get 0 (epoch en) a (remaining srcs n) (ev_st (snd ev))) = GNotFound.
Proof.
  exists uni_w1, 2%nat, ops_w1, [0%nat], [0; 1], (all_orders [0;1]%nat), 0, 1.
  destruct w1_witness as (H1 & (s & H2 & H3) & H4 & H5 & H6 & H7).
  repeat split; auto. exists s. repeat split; auto. left; auto. left; auto.
Qed.

Theorem C19_preserved_refuted_separated_lock :
  exists u n ops srcs rank ords a b,
    let en := run_ops u (init_engine n 0) ops in
    let ev := evacuate 0 (epoch en) srcs false None rank ords (shards en) in
    fst ev = EvOk /\
    (exists s, nth_error (shards en) 0 = Some s /\ In 0%nat srcs /\ fst (sh_get s (epoch en) a false) = SFound b) /\
    In a rank /\ coherent (shards en) a = true /\
    forallb (fun s => serves s a) (rem_shards srcs (shards en)) = true /\
    ev_handed (snd ev) = [] /\
    (forall ord, ord = [1;2]%nat \/ ord = [2;1]%nat ->
       fst (engine_get 0 (epoch en) a ord (ev_st (snd ev))) = GNotFound).
Proof.
  exists uni_w2, 3%nat, ops_w2, [0%nat], [0; 1], ords_w2, 0, 1.
  destruct w2_witness as (H1 & (s & H2 & H3) & H4 & H5 & H6 & H7 & H8).
  repeat split; auto. exists s. repeat split; auto. left; auto. left; auto.
  intros ord [-> | ->]; auto.
Qed.

(* every metabase record of every shard afterwards was a record of some shard before *)
Theorem C19_records_from_before : forall t e srcs ign fh rank ords st j s p,
  nth_error (ev_st (snd (evacuate t e srcs ign fh rank ords st))) j = Some s -> In p (s_meta s) ->
  exists k s0, nth_error st k = Some s0 /\ In p (s_meta s0).
Proof. intros t e srcs ign fh rank ords st j s p Hs Hp. exact (records_from_before t e srcs ign fh rank ords st j s Hs p Hp). Qed.

(* no removal status is created *)
Theorem C19_tombstone_not_created : forall t e srcs ign fh rank ords st j s x,
  nth_error (ev_st (snd (evacuate t e srcs ign fh rank ords st))) j = Some s ->
  tombstoned s x = true -> tombstonedb st x = true.
Proof. exact tombstone_not_created. Qed.

(* no removal status is lost for a tombstone object that can be moved: premise PT = the
   tombstone's ID carries the header r on every shard; a remaining shard without metabase is
   read-only; no remaining shard stores the tombstone's data without its record *)
Theorem C19_tombstone_kept_partial : forall t e srcs ign fh rank ords T x r b,
  mk r = KTS x ->
  forall st x' i s m,
  PT srcs T r st ->
  evacuate t e srcs ign fh rank ords st = (EvOk, x') ->
  In i srcs -> nth_error st i = Some s -> lookup T (s_meta s) = Some r ->
  sh_get s e T false = (SFound b, m) -> listed s T = true -> In T rank ->
  In T (ev_handed x') \/
  exists j s', is_src srcs j = false /\ nth_error (ev_st x') j = Some s' /\ tombstoned s' x = true.
Proof. exact tombstone_kept_partial. Qed.

(* no lock status is lost for a lock object that can be moved.  Premises: PT (as above, for the
   lock object L with record r); no shard stores a tombstone for L and no remaining shard carries
   a default garbage mark for L (so L is "available" for objectLocked; the proof shows that the
   re-puts keep it so); the lock is not expired at the epoch e (e = 0: expiration ignored).
   Conclusion: L went to the fault handler, or a remaining shard reports x as locked afterwards. *)
Theorem C19_lock_status_partial : forall t e srcs ign fh rank ords L x r b st x' i s m,
  mk r = KLock x ->
  PT srcs L r st ->
  tombstonedb st L = false ->
  (forall j s0, is_src srcs j = false -> nth_error st j = Some s0 -> lookup L (s_garb s0) <> Some MDefault) ->
  (0 <? e) && rec_expired e r = false ->
  evacuate t e srcs ign fh rank ords st = (EvOk, x') ->
  In i srcs -> nth_error st i = Some s -> lookup L (s_meta s) = Some r ->
  sh_get s e L false = (SFound b, m) -> listed s L = true -> In L rank ->
  In L (ev_handed x') \/
  exists j s', is_src srcs j = false /\ nth_error (ev_st x') j = Some s' /\ locked s' e x = true.
Proof.
  intros t e srcs ign fh rank ords L x r b st x' i s m Hk HP Hnt.
  exact (lock_kept_partial t e srcs ign fh rank ords L r b st Hnt x x' i s m Hk HP).
Qed.

(* the status equality fails: a tombstone is lost and Evacuate reports success *)
Theorem C19_status_unchanged_refuted :
  exists u n ops srcs rank ords x,
    let en := run_ops u (init_engine n 0) ops in
    let ev := evacuate 0 (epoch en) srcs true None rank ords (shards en) in
    fst ev = EvOk /\ tombstonedb (shards en) x = true /\
    tombstonedb (rem_shards srcs (ev_st (snd ev))) x = false.
Proof. exists uni_w3, 2%nat, ops_w3, [0%nat], [0; 1], (all_orders [0;1]%nat), 0. exact w3_witness. Qed.

(* non-vacuity: a reachable engine with objects, a lock and a tombstone over four shards, two of
   them evacuated, one target refusing writes: the evacuation succeeds and moves two objects, the
   premises of C19_preserved_partial hold for them and the conclusions are visible *)
Example C19_example :
  fst ev_ok = EvOk /\ ev_cnt (snd ev_ok) = 2 /\
  (exists s, nth_error (shards en_ok) 0 = Some s /\ sh_get s (epoch en_ok) 0 false = (SFound 1, false)) /\
  (exists s, nth_error (shards en_ok) 1 = Some s /\ sh_get s (epoch en_ok) 4 false = (SFound 5, false)) /\
  c19_good (shards en_ok) (epoch en_ok) [1;0]%nat 0 = true /\
  c19_good (shards en_ok) (epoch en_ok) [1;0]%nat 4 = true /\
  fst (engine_get 2 (epoch en_ok) 0 [3;2]%nat (ev_st (snd ev_ok))) = GFound 1 /\
  fst (engine_get 2 (epoch en_ok) 4 [2;3]%nat (ev_st (snd ev_ok))) = GFound 5 /\
  tombstonedb (shards en_ok) 1 = true /\ tombstonedb (rem_shards [1;0]%nat (ev_st (snd ev_ok))) 1 = true /\
  lockedb (shards en_ok) (epoch en_ok) 0 = true /\
  lockedb (rem_shards [1;0]%nat (ev_st (snd ev_ok))) (epoch en_ok) 0 = true.
Proof. exact ok_example. Qed.

(* non-vacuity of C19_tombstone_kept_partial: in the same engine the tombstone object 3 (for
   object 1) satisfies PT and is listed and served by source shard 0 *)
Example C19_tombstone_example :
  PT [1;0]%nat 3 (MRec (KTS 1) None) (shards en_ok) /\
  exists s, nth_error (shards en_ok) 0 = Some s /\ lookup 3 (s_meta s) = Some (MRec (KTS 1) None) /\
            sh_get s (epoch en_ok) 3 false = (SFound 4, false) /\ listed s 3 = true.
Proof.
  split.
  - remember (shards en_ok) as st eqn:E. vm_compute in E. subst st. split.
    + intros j s H r' Hl.
      destruct j as [|[|[|[|j]]]]; simpl in H; try (destruct j; discriminate); inversion H; subst; clear H;
        vm_compute in Hl; inversion Hl; reflexivity.
    + intros j s Hj H.
      destruct j as [|[|[|[|j]]]]; simpl in H; try (destruct j; discriminate); inversion H; subst; clear H;
        try (vm_compute in Hj; discriminate); split; vm_compute; auto; intros; discriminate.
  - vm_compute. eexists. repeat split.
Qed.

(* non-vacuity of C19_lock_status_partial: in the same engine the lock object 2 (for object 0)
   satisfies the premises and is listed and served by source shard 0 *)
Example C19_lock_example :
  PT [1;0]%nat 2 (MRec (KLock 0) None) (shards en_ok) /\
  tombstonedb (shards en_ok) 2 = false /\
  (forall j s0, is_src [1;0]%nat j = false -> nth_error (shards en_ok) j = Some s0 -> lookup 2 (s_garb s0) <> Some MDefault) /\
  (0 <? epoch en_ok) && rec_expired (epoch en_ok) (MRec (KLock 0) None) = false /\
  In 2 [3; 0; 4; 1; 2] /\
  exists s bb, nth_error (shards en_ok) 0 = Some s /\ lookup 2 (s_meta s) = Some (MRec (KLock 0) None) /\
            sh_get s (epoch en_ok) 2 false = (SFound bb, false) /\ listed s 2 = true.
Proof.
  split; [|split; [vm_compute; reflexivity|split; [|split; [vm_compute; reflexivity|split; [simpl; auto 6|]]]]].
  - remember (shards en_ok) as st eqn:E. vm_compute in E. subst st. split.
    + intros j s H r' Hl.
      destruct j as [|[|[|[|j]]]]; simpl in H; try (destruct j; discriminate); inversion H; subst; clear H;
        vm_compute in Hl; inversion Hl; reflexivity.
    + intros j s Hj H.
      destruct j as [|[|[|[|j]]]]; simpl in H; try (destruct j; discriminate); inversion H; subst; clear H;
        try (vm_compute in Hj; discriminate); split; vm_compute; auto; intros; discriminate.
  - remember (shards en_ok) as st eqn:E. vm_compute in E. subst st.
    intros j s Hj H.
    destruct j as [|[|[|[|j]]]]; simpl in H; try (destruct j; discriminate); inversion H; subst; clear H;
      vm_compute; intros; discriminate.
  - vm_compute. eexists. eexists. repeat split.
Qed.

Print Assumptions C19_sources_unchanged.
Print Assumptions C19_moved.
Print Assumptions C19_preserved_partial.
Print Assumptions C19_tombstone_not_created.
Print Assumptions C19_tombstone_kept_partial.
Print Assumptions C19_lock_status_partial.
