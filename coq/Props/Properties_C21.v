(* C21 — erasure coding restores the payload from any sufficient subset of parts.
   Only statements, `exact`, and Print Assumptions live here. *)
From Coq Require Import NArith List Bool Arith.
Import ListNotations.
From NV Require Import EC.GF256 EC.GF256Proofs EC.LinAlg EC.LinAlgProofs EC.RS EC.RSMds EC.RSProofs
  EC.RSBuf EC.RSBufProofs Gen.ECConsts EC.RSGenTie.

(* --- GF(2^8) with polynomial 0x11d is a field (all bytes; finite facts decided
       exhaustively, associativity/distributivity by induction on the bits) --- *)
Theorem C21_gf_field : forall a b c, is_byte a -> is_byte b -> is_byte c ->
  gmul a b = gmul b a /\ gmul (gmul a b) c = gmul a (gmul b c) /\
  gmul a (gadd b c) = gadd (gmul a b) (gmul a c) /\ gmul 1 a = a /\
  gadd a a = 0%N /\ (a <> 0%N -> gmul a (ginv a) = 1%N) /\ is_byte (gmul a b).
Proof.
  intros a b c Ha Hb Hc. repeat split.
  - apply gmul_comm; assumption.
  - apply gmul_assoc; assumption.
  - apply gmul_gadd_r; assumption.
  - apply gmul_1_l; assumption.
  - apply gadd_self.
  - apply gmul_inv; assumption.
  - apply gmul_byte; assumption.
Qed.

(* --- the library's exp table (regenerated from galois.go on every run) is the
       table of powers of 2 in this field --- *)
Theorem C21_library_tables : lib_exp_table = exp_table.
Proof. exact lib_exp_table_ok. Qed.

(* --- MDS: for every rule with 1..8 data and 0..4 parity parts the coding matrix
       has an identity top and every k-subset of its rows is invertible --- *)
Theorem C21_mds : forall k m, rule_in_box k m -> rule_facts k m.
Proof. exact rule_facts_box. Qed.

(* --- all parts have the same length, for every payload --- *)
Theorem C21_equal_lengths : forall k m data, rule_in_box k m -> bytes data ->
  length (encode k m data) = k + m /\ all_len (part_len k (length data)) (encode k m data).
Proof. exact encode_equal_lengths. Qed.

(* --- announced hashes are the hashes of the parts (hash function abstract) --- *)
Theorem C21_hashes : forall (Dg : Type) (H : list N -> Dg) k m data,
  length (encode_hashes H k m data) = length (encode k m data) /\
  forall i, nth i (encode_hashes H k m data) (H []) = H (nth i (encode k m data) []).
Proof. exact encode_hashes_match. Qed.

(* --- any >= k of the k+m parts decode to exactly the payload; every non-empty
       payload of any length --- *)
Theorem C21_decode : forall k m data mask,
  rule_in_box k m -> data <> [] -> bytes data ->
  length mask = k + m -> k <= count_true mask ->
  decode k m (length data) (erase mask (encode k m data)) = Some data.
Proof. exact decode_erase_encode. Qed.

(* the empty payload has k+m empty parts; iec.Decode on them is an error
   (library: ErrShardNoData).  Full-strength statement "for every payload" is
   therefore refuted at the iec.Decode level for the empty payload only; the
   GET service never calls Decode for it (payload size 0 short-cut). *)
Theorem C21_decode_empty_refuted : forall k m mask,
  decode k m 0 (erase mask (encode k m [])) = None.
Proof. exact decode_empty_is_error. Qed.

(* --- partial reconstruction restores exactly the requested parts --- *)
Theorem C21_partial_indexes : forall k m data mask idxs,
  rule_in_box k m -> data <> [] -> bytes data ->
  length mask = k + m -> k <= count_true mask ->
  exists R, decode_indexes k m (erase mask (encode k m data)) idxs = Some R /\
            restored k m data mask (fun i => existsb (Nat.eqb i) idxs) R.
Proof. exact decode_indexes_restores. Qed.

Theorem C21_partial_range : forall k m data mask from to,
  rule_in_box k m -> data <> [] -> bytes data ->
  length mask = k + m -> k <= count_true mask ->
  exists R, decode_range k m from to (erase mask (encode k m data)) = Some R /\
            restored k m data mask (fun i => (from <=? i) && (i <=? to)) R.
Proof. exact decode_range_restores. Qed.

(* --- several rules from one buffer: with cap = len nothing is corrupted --- *)
Theorem C21_multi_rule_no_corruption : forall rules len mem, rules_ok rules -> length mem = len ->
  final_parts (multi_encode rules len mem) = parts_when_encoded rules len mem /\
  firstn len (fst (multi_encode rules len mem)) = firstn len mem.
Proof.
  intros rules len mem HR Hl. split;
    [apply multi_rule_no_corruption | apply multi_rule_payload_kept]; assumption.
Qed.

(* the caller's buffer: exact-fit writes into bytes.Buffer keep cap = len *)
Theorem C21_caller_buffer_exact : forall chunks,
  buf_write_all (list_sum chunks) chunks = (list_sum chunks, list_sum chunks).
Proof. exact buf_write_all_exact. Qed.

(* with spare capacity the hazard is real (why the caller must clip the capacity) *)
Theorem C21_multi_rule_hazard_with_spare_capacity :
  5 < length hazard_mem /\
  final_parts (multi_encode hazard_rules 5 hazard_mem) <> parts_when_encoded hazard_rules 5 hazard_mem.
Proof. exact multi_rule_hazard_with_spare_capacity. Qed.

(* non-vacuity *)
Example C21_example_rule : rule_in_box 3 2.
Proof. unfold rule_in_box, max_data, max_parity. repeat split; auto with arith. Qed.
Example C21_example_decode :
  decode 3 2 7 (erase [false; true; false; true; true] (encode 3 2 [1; 2; 3; 4; 5; 6; 7]%N))
  = Some [1; 2; 3; 4; 5; 6; 7]%N.
Proof. vm_compute. reflexivity. Qed.
Example C21_example_multi : rules_ok [(2, 1); (3, 2)] /\
  final_parts (multi_encode [(2, 1); (3, 2)] 5 [1; 2; 3; 4; 5]%N) =
  [encode 2 1 [1; 2; 3; 4; 5]%N; encode 3 2 [1; 2; 3; 4; 5]%N].
Proof. split; [repeat constructor | vm_compute; reflexivity]. Qed.

Print Assumptions C21_gf_field.
Print Assumptions C21_mds.
Print Assumptions C21_decode.
Print Assumptions C21_partial_indexes.
Print Assumptions C21_partial_range.
Print Assumptions C21_multi_rule_no_corruption.
