(* C24 — nodes store only self-consistent, authenticated objects.
   Only statements, `exact`, non-vacuity examples and Print Assumptions live here.

   Full property text: "A node never stores an object, whether from a client, another node or
   its own slicer, unless its identifier matches its header, its payload matches the declared
   length and checksum, its format and attributes are valid, and (for non-EC objects) its
   signature authenticates the owner or session. For objects the node assembles itself, the
   stored pieces reassemble to exactly the payload the client streamed."

   Proved below for the model of the admission pipeline (ObjFmt/Model.v, tied to the Go code
   by the differential check) over abstract cryptography: the hash H, the streaming hash
   (h0, upd, fin) with the premise fin (fold upd chunks h0) = H (concat chunks), signature and
   token predicates are universally quantified. The last clause is proved for the payload
   arithmetic of the slicer only (name ..._partial): that the SDK slicer forms, signs and links
   the child objects correctly is outside the model and is re-verified by the harness on every
   stored child. *)
From Coq Require Import List NArith ZArith Bool Arith Lia.
Import ListNotations.
From NV Require Import Gen.ObjFmtConsts ObjFmt.Model ObjFmt.Spec ObjFmt.Proofs ObjFmt.SliceProofs ObjFmt.Check ObjFmt.RefProofs ObjFmt.RefWitness.
Local Open Scope N_scope.

Section Statements.
  Variable H : bytes -> bytes.
  Variable hstate : Type.
  Variable h0 : hstate.
  Variable upd : hstate -> bytes -> hstate.
  Variable fin : hstate -> bytes.
  Variable sig_ok : N -> bytes -> bytes -> bytes -> bool.
  Variable key_ok : bytes -> bool.
  Variable user_of : bytes -> bytes.
  Variable tok1_ok : tok1 -> bool.
  Variable tok2_ok : tok2 -> bool.
  Variable n3_ok : bytes -> N -> bytes -> bytes -> bytes -> bool.
  Hypothesis Hstream : forall chunks, fin (fold_left upd chunks h0) = H (concat chunks).

  Notation run_put := (run_put H hstate h0 upd fin sig_ok key_ok user_of tok1_ok tok2_ok n3_ok).
  Notation run_repl := (run_repl H sig_ok key_ok user_of tok1_ok tok2_ok n3_ok).
  Notation run_slice := (run_slice H sig_ok key_ok user_of tok1_ok tok2_ok n3_ok).
  Notation stored_ok := (stored_ok H sig_ok key_ok user_of tok1_ok tok2_ok n3_ok).
  Notation auth_ok := (auth_ok sig_ok key_ok user_of tok1_ok tok2_ok n3_ok).

  (* PUT (Init, SendChunk*, Close) for ANY chunking: what is stored is the submitted object with
     the concatenated chunks as payload, and stored_ok = id_ok /\ size_ok /\ checksum_ok /\
     content_ok (system objects: LINK has a non-empty, parsing payload accepted by the split
     verifier; TOMBSTONE / LOCK have none, a tombstone is accepted by the tombstone verifier;
     required whatever the payload length) /\ (EC part -> ec_parent_auth: the parent header it
     carries has ID = H(parent header) and an authenticating signature) /\ format_ok /\
     (not EC -> auth_ok) *)
  Theorem C24_stored_implies_valid : forall e o chunks fail o' pl,
    o_payload o = [] ->
    run_put e o chunks fail = (OOk, Some (o', pl)) ->
    o' = o /\ pl = concat chunks /\ stored_ok e false o pl.
  Proof. exact (put_stored_valid H hstate h0 upd fin sig_ok key_ok user_of tok1_ok tok2_ok n3_ok Hstream). Qed.

  (* Server.Replicate -> VerifyAndStoreObjectLocally *)
  Theorem C24_replicated_implies_valid : forall e o fail o' pl,
    run_repl e o fail = Some (o', pl) ->
    o' = o /\ pl = o_payload o /\ stored_ok e true o pl.
  Proof. exact (repl_stored_valid H sig_ok key_ok user_of tok1_ok tok2_ok n3_ok). Qed.

  (* for client PUT the pre-2.18 owner exemption inside auth_ok is unreachable *)
  Theorem C24_client_put_strict_auth : forall e o chunks fail o' pl,
    o_payload o = [] ->
    run_put e o chunks fail = (OOk, Some (o', pl)) ->
    is_ec_obj e o = false ->
    auth_ok o /\ ~ legacy o.
  Proof. exact (put_strict_auth H hstate h0 upd fin sig_ok key_ok user_of tok1_ok tok2_ok n3_ok Hstream). Qed.

  (* two chunkings of the same payload: same verdict, same stored object *)
  Theorem C24_chunking_irrelevant : forall e o c1 c2 fail,
    o_payload o = [] ->
    concat c1 = concat c2 ->
    accepted (run_put e o c1 fail) = accepted (run_put e o c2 fail) /\
    snd (run_put e o c1 fail) = snd (run_put e o c2 fail).
  Proof. exact (chunking_irrelevant H hstate h0 upd fin sig_ok key_ok user_of tok1_ok tok2_ok n3_ok Hstream). Qed.

  (* a stream longer than declared is refused at the first chunk that overflows (an earlier
     chunk only if the quota runs out first); nothing is stored *)
  Theorem C24_size_mismatch_rejected : forall e o ecp st pre p post fail,
    init_target e o = KUntrusted ecp ->
    write_header H hstate h0 sig_ok key_ok user_of tok1_ok tok2_ok n3_ok e ecp o = Some st ->
    ts_written hstate st + blen (concat pre) <= o_size o ->
    o_size o < ts_written hstate st + blen (concat pre) + blen p ->
    exists j, (j <= length pre)%nat /\
      run_put e o (pre ++ p :: post) fail = (OChunkErr j, None) /\
      (e_quota e = None -> j = length pre).
  Proof. exact (overflow_rejected H hstate h0 upd fin sig_ok key_ok user_of tok1_ok tok2_ok n3_ok). Qed.

  (* a stream shorter than declared never gets stored *)
  Theorem C24_short_payload_rejected : forall e o chunks fail,
    o_payload o = [] ->
    blen (concat chunks) < o_size o ->
    snd (run_put e o chunks fail) = None /\ accepted (run_put e o chunks fail) = false.
  Proof. exact (short_rejected H hstate h0 upd fin sig_ok key_ok user_of tok1_ok tok2_ok n3_ok). Qed.

  (* node-side slicing. Full statement wanted: the stored child OBJECTS reassemble (through
     their split links) to exactly the streamed payload. Proved here (partial): the child
     PAYLOADS, in store order, concatenate to the streamed payload for any chunking, any size
     limit and any declared size, each within the limit, and success implies that every local
     store attempted for them succeeded (no masked failure). Missing: header formation, signing
     and linking of the children by the SDK slicer. *)
  Theorem C24_slices_reassemble_partial : forall e o chunks fails out,
    run_slice e o chunks fails = (OOk, out) ->
    concat out = concat chunks /\
    Forall (fun c => blen c <= slice_limit e o) out /\
    (forall k, (k < length out)%nat -> fails k = false).
  Proof. exact (slices_reassemble H sig_ok key_ok user_of tok1_ok tok2_ok n3_ok). Qed.
  (* ---- the executable reference of the check (Spec.stored_okb) against the Prop stored_ok ----
     Whatever stored_okb accepts satisfies stored_ok: a stored object violating the right-hand
     side of the theorems above cannot pass the reference evaluation of the check. *)
  Theorem C24_reference_is_spec : forall e allow_all o pl,
    stored_okb H sig_ok key_ok user_of tok1_ok tok2_ok n3_ok e allow_all o pl = true -> stored_ok e allow_all o pl.
  Proof. exact (stored_okb_sound H sig_ok key_ok user_of tok1_ok tok2_ok n3_ok). Qed.

  (* Full equivalence wanted: stored_okb = true <-> stored_ok. The converse does NOT hold in
     general: the executable form is strictly stronger in three places it shares with the
     admission model (authenticate bounds the script lengths; check_ec_part requires a non-empty,
     long enough hash attribute; the parent header of an EC part must classify). Proved
     (partial): the converse with exactly these three as premises. *)
  Theorem C24_reference_complete_partial : forall e allow_all o pl,
    stored_ok e allow_all o pl ->
    (is_ec_obj e o = false -> script_len_ok o) ->
    (is_ec_obj e o = true ->
       check_ec_part o (e_rules e) = true /\
       forall p, o_parent o = Some p ->
                 check_ec p (e_rules e) false true <> None /\
                 (check_ec p (e_rules e) false true = Some false -> script_len_ok p)) ->
    stored_okb H sig_ok key_ok user_of tok1_ok tok2_ok n3_ok e allow_all o pl = true.
  Proof. exact (stored_okb_complete_partial H sig_ok key_ok user_of tok1_ok tok2_ok n3_ok). Qed.
End Statements.

(* the attribute loop of checkAttributes (running key set) = the nodupb/forallb form of the
   reference = the declarative attrs_ok (NoDup keys, no empty value, no zero byte) *)
Theorem C24_attr_loop_is_spec : forall attrs,
  check_attrs attrs = attrs_okb attrs /\ (attrs_okb attrs = true <-> attrs_ok attrs).
Proof. intros attrs. split; [apply check_attrs_eq_okb | apply attrs_okb_spec]. Qed.

(* the converse of C24_reference_is_spec fails (toy crypto of the check, H = identity): an object
   whose signature declares an over-long key satisfies stored_ok, the executable reference refuses it *)
Theorem C24_reference_converse_refuted :
  exists e allow_all o pl,
    stored_ok (H_of []) t_sig_ok t_key_ok t_user_of t_tok1_ok t_tok2_ok t_n3_ok e allow_all o pl /\
    m_stored_okb [] e allow_all o pl = false.
Proof. exists refw_env, false, refw_obj, [1;2;3]. exact ref_converse_witness. Qed.

(* ---- non-vacuity -------------------------------------------------------------------------- *)
(* the streaming premise is satisfiable: accumulate, then hash *)
Lemma fold_app_concat : forall (chunks : list bytes) acc, fold_left (fun h p => h ++ p) chunks acc = acc ++ concat chunks.
Proof.
  induction chunks as [|c r IH]; intro acc; cbn; [rewrite app_nil_r; reflexivity|].
  rewrite IH, app_assoc. reflexivity.
Qed.
Example C24_stream_premise_satisfiable : forall tbl chunks,
  H_of tbl (fold_left (fun h p => h ++ p) chunks []) = H_of tbl (concat chunks).
Proof. intros. rewrite fold_app_concat. reflexivity. Qed.

Definition ex_env : env := mkenv 10 64 [] 1 1 true 0 true true (Some 100) [1].
(* a REGULAR object of user [1], 3 payload bytes, signed by key [1] over its ID *)
Definition ex_obj (pl : bytes) : obj :=
  mkobj (Some (2, 18)) TRegular 100 (Some [255;254;0]) [255;254;0] 1 [1] 5 [([97], [98])] 3
        (Some (1, [1;2;3])) pl (Some (mksig 1 [1] 33 [1;255;254;0] 64)) None None
        true false false false true false None.

Example C24_put_accepts : m_run_put [] ex_env (ex_obj []) [[1;2]; []; [3]] false = (OOk, Some (ex_obj [], [1;2;3])).
Proof. vm_compute. reflexivity. Qed.
Example C24_put_other_chunking : m_run_put [] ex_env (ex_obj []) [[1]; [2;3]] false = (OOk, Some (ex_obj [], [1;2;3])).
Proof. vm_compute. reflexivity. Qed.
Example C24_put_overflow_at_first_overflowing_chunk :
  m_run_put [] ex_env (ex_obj []) [[1;2]; [3;4]; [5]] false = (OChunkErr 1, None).
Proof. vm_compute. reflexivity. Qed.
Example C24_put_short : m_run_put [] ex_env (ex_obj []) [[1;2]] false = (OCloseErr, None).
Proof. vm_compute. reflexivity. Qed.
Example C24_put_wrong_checksum : m_run_put [] ex_env (ex_obj []) [[1;2;4]] false = (OCloseErr, None).
Proof. vm_compute. reflexivity. Qed.
Example C24_repl_accepts : m_run_repl [] ex_env (ex_obj [1;2;3]) false = Some (ex_obj [1;2;3], [1;2;3]).
Proof. vm_compute. reflexivity. Qed.
Example C24_reference_holds_on_example : m_stored_okb [] ex_env false (ex_obj []) [1;2;3] = true.
Proof. vm_compute. reflexivity. Qed.
(* the premises of C24_reference_complete_partial hold on the example (not an EC part, script lengths 33 and 64) *)
Example C24_reference_complete_premises :
  is_ec_obj ex_env (ex_obj []) = false /\ script_len_ok (ex_obj []) /\
  check_attrs (o_attrs (ex_obj [])) = true.
Proof. split; [reflexivity|]. split; [|reflexivity]. unfold script_len_ok. cbn. split; intro Hc; discriminate Hc. Qed.
(* trusted path: unsigned header of the node's own user, limit 2, 5 bytes in 2 chunks -> 3 children *)
Definition ex_hdr : obj :=
  mkobj (Some (2, 18)) TRegular 50 None [255;254;1] 1 [1] 0 [] 0 None [] None None None
        true false false false true false None.
Example C24_slice_example :
  m_run_slice [] (mkenv 10 2 [] 1 1 true 0 true true None [1]) ex_hdr [[1;2;3]; [4;5]] (fun _ => false)
  = (OOk, [[1;2]; [3;4]; [5]]).
Proof. vm_compute. reflexivity. Qed.
Example C24_slice_store_failure_surfaces :
  fst (m_run_slice [] (mkenv 10 2 [] 1 1 true 0 true true None [1]) ex_hdr [[1;2;3]; [4;5]] (fun k => Nat.eqb k 1))
  = OChunkErr 1.
Proof. vm_compute. reflexivity. Qed.

Print Assumptions C24_stored_implies_valid.
Print Assumptions C24_replicated_implies_valid.
Print Assumptions C24_client_put_strict_auth.
Print Assumptions C24_chunking_irrelevant.
Print Assumptions C24_size_mismatch_rejected.
Print Assumptions C24_short_payload_rejected.
Print Assumptions C24_slices_reassemble_partial.
Print Assumptions C24_reference_is_spec.
Print Assumptions C24_reference_complete_partial.
Print Assumptions C24_attr_loop_is_spec.
Print Assumptions C24_reference_converse_refuted.
