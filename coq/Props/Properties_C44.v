(* C44 -- garbage collection eventually removes everything that should be removed
   (shard level; objects without family relations).  Statements only; proofs in GC/C44Proofs.v.

   Full statement aimed at (DESIGN.md 5/C44):
     should_go s e = tombstoned \/ marked \/ (expired /\ ~locked) \/ in removed container
     C44_eventually : read-write mode /\ epochs advance /\ no new operations ->
        exists n, after n passes every such object has neither data nor metadata, expired tombstones and
        locks are removed, removed containers' buckets are gone.
   Proved below: C44_eventually_partial -- for every well-formed state of the fragment in which stored
   tombstoned objects carry a garbage key, every batch size >= 1 and every later epoch e': after n1 passes,
   one epoch advance to e' and n2 more passes the garbage lists are empty, no removed container is left, the
   epoch is processed and no stored object should go at e' (not tombstoned, not marked, not expired-and-
   unlocked; tombstones and locks included).  Measure [msize] = buckets + stored headers + garbage keys.
   "partial": final-state form (persistence of "the same object" and "no data without metadata" are checked
   by oracles 61/63 on every run, not proved); ts_inv is a premise (preserved by passes: ts_inv_pass; checked
   on every replayed state by oracle 62).  One epoch advance AFTER the garbage is drained is needed: a lock
   removed as garbage can unprotect an expired object after collectExpiredObjects marked the epoch processed.
   Premise excluding persistently failing deletes: the model has no failing component calls (metabase
   Delete error = the same batch is retried forever; BLOB delete error = data left without metadata).

   Refuted outside the fragment (known finding c44-nonphy-parent-starvation): with objects that carry
   a parent header, the non-physical parent entry gets a garbage key (tombstone of the parent) that
   metabase Delete skips; when >= batch-size such keys head a container's garbage list, GetGarbage
   returns the same keys forever and nothing behind them -- in this and in later containers -- is ever
   collected.  Witness below with batch size 1. *)
From Coq Require Import List NArith ZArith Bool Lia.
Import ListNotations.
From NV Require Import Meta.SMap Meta.Model Meta.Spec Meta.WfProofs GC.Model GC.Spec GC.Lemmas GC.C07Proofs GC.C44Proofs.
Local Open Scope N_scope.

Theorem C44_pass_progress : forall limit s,
  inv s -> (0 < limit)%nat ->
  inv (gc_pass limit s) /\ (msize (gc_pass limit s) <= msize s)%nat /\
  ((msize (gc_pass limit s) < msize s)%nat \/ garbage_free (sh_meta (gc_pass limit s)) = true).
Proof. exact pass_progress. Qed.

Theorem C44_garbage_eventually : forall limit, (0 < limit)%nat -> forall k s,
  inv s -> (msize s <= k)%nat ->
  exists n, (n <= S k)%nat /\ inv (gc_iter limit n s) /\ garbage_free (sh_meta (gc_iter limit n s)) = true /\
            (msize (gc_iter limit n s) <= msize s)%nat.
Proof. exact garbage_eventually. Qed.

Theorem C44_expired_eventually : forall limit, (0 < limit)%nat -> forall k s e d,
  inv s -> gfree s -> ts_inv s -> epoch (sh_meta s) = e -> sh_cur s = e -> sh_done s = d -> d < e -> (msize s <= k)%nat ->
  exists n, inv (gc_iter limit n s) /\ gfree (gc_iter limit n s) /\ ts_inv (gc_iter limit n s) /\
            epoch (sh_meta (gc_iter limit n s)) = e /\ sh_cur (gc_iter limit n s) = e /\ sh_done (gc_iter limit n s) = e /\
            view_expired (sh_meta (gc_iter limit n s)) e = [].
Proof. exact expired_eventually. Qed.

Theorem C44_eventually_partial : forall limit, (0 < limit)%nat -> forall s e',
  inv s -> ts_inv s -> sh_cur s < e' -> sh_done s < e' ->
  exists n1 n2,
    let s3 := gc_iter limit n2 (fst (sstep limit (gc_iter limit n1 s) (STick e'))) in
    inv s3 /\ garbage_free (sh_meta s3) = true /\ sh_done s3 = e' /\ sh_cur s3 = e' /\ epoch (sh_meta s3) = e' /\
    forall c b x, bucket (sh_meta s3) c = Some b -> sm_get x (objs b) <> None -> should_go_in b e' x = false.
Proof. exact eventually_clean. Qed.

(* what a delete of the GC removes: header, garbage key and data together *)
Theorem C44_delete_removes_all : forall s c ids x b,
  inv s -> bucket (sh_meta s) c = Some b -> In x ids ->
  entry_at (sh_meta (delete_objs s c ids)) c x = None /\ mark_at (sh_meta (delete_objs s c ids)) c x = None /\
  blob_has (sh_blob (delete_objs s c ids)) c x = false.
Proof. exact delete_objs_gone. Qed.

(* ---- non-vacuity: garbage volume (4 keys in 2 containers + a removed container) larger than the batch size 1:
   six passes are needed (the bound of the theorem is msize + 1 = 15) *)
Definition g_reg (id : oid) := Obj id (mkHdr TRegular 5 None None None None None None None) None.
Definition g_tomb (id x : oid) := Obj id (mkHdr TTombstone 0 None (Some x) None None None None None) None.
Definition g_hist : list sop :=
  [SPut 1 (g_reg 1); SPut 1 (g_reg 2); SPut 1 (g_reg 3); SPut 2 (g_reg 1); SPut 2 (g_reg 2); SPut 3 (g_reg 1);
   SPut 1 (g_tomb 4 1); SMark 1 [2; 3] MDefault; SMark 2 [1] MRedundant; SInhume 3].
Definition g_state : shard := srun 1 g_hist.

Example C44_nonvacuous :
  garbage_free (sh_meta g_state) = false /\ msize g_state = 14%nat /\
  garbage_free (sh_meta (gc_iter 1 5 g_state)) = false /\
  garbage_free (sh_meta (gc_iter 1 6 g_state)) = true /\
  gone (gc_iter 1 7 g_state) 1 1 = true /\ gone (gc_iter 1 7 g_state) 1 2 = true /\ gone (gc_iter 1 7 g_state) 2 1 = true /\
  gone (gc_iter 1 7 g_state) 3 1 = true /\ bucket (sh_meta (gc_iter 1 7 g_state)) 3 = None /\
  stored_at (sh_meta (gc_iter 1 7 g_state)) 2 2 = true /\ blob_has (sh_blob (gc_iter 1 7 g_state)) 2 2 = true.
Proof. vm_compute. repeat split; reflexivity. Qed.

(* expired objects straddling batches, an expired lock and an expired tombstone: batch size 1, one advance to epoch 5 *)
Definition x_reg (id : oid) (e : N) := Obj id (mkHdr TRegular 5 (Some e) None None None None None None) None.
Definition x_hist : list sop :=
  [SPut 1 (x_reg 1 1); SPut 1 (x_reg 2 2); SPut 1 (x_reg 3 9);
   SPut 1 (Obj 4 (mkHdr TLock 0 (Some 3) (Some 2) None None None None None) None);
   SPut 1 (Obj 5 (mkHdr TTombstone 0 (Some 2) (Some 3) None None None None None) None)].
Definition x_state : shard := srun 1 x_hist.
Example C44_nonvacuous_expired :
  let s3 := gc_iter 1 6 (fst (sstep 1 (gc_iter 1 2 x_state) (STick 5))) in
  garbage_free (sh_meta (gc_iter 1 2 x_state)) = true /\ sh_done s3 = 5 /\
  gone s3 1 1 = true /\ gone s3 1 2 = true /\ gone s3 1 4 = true /\ gone s3 1 5 = true /\
  gone s3 1 3 = true /\ clean_at s3 5 = true.
Proof. vm_compute. repeat split; reflexivity. Qed.

(* ---- the starvation witness (outside the fragment: child 5 carries the header of its parent 1) *)
Definition st_parent := Obj 1 (mkHdr TRegular 10 None None None None None None None) None.
Definition st_child := Obj 5 (mkHdr TRegular 5 None None (Some 1) None None None None) (Some st_parent).
Definition st_hist : list sop :=
  [SPut 1 st_child; SPut 1 (g_reg 7); SPut 2 (g_reg 2); SPut 1 (g_tomb 3 1); SMark 1 [7] MDefault; SMark 2 [2] MDefault].
Definition st_state : shard := srun 1 st_hist.

Lemma st_fix : gc_pass 1 st_state = st_state.
Proof. vm_compute. reflexivity. Qed.

Theorem C44_eventually_refuted_nonphy_parent :
  forall n, let s := gc_iter 1 n st_state in
  should_go (sh_meta s) (epoch (sh_meta s)) 1 5 = true /\ blob_has (sh_blob s) 1 5 = true /\
  should_go (sh_meta s) (epoch (sh_meta s)) 2 2 = true /\ blob_has (sh_blob s) 2 2 = true.
Proof.
  intros n. assert (E : gc_iter 1 n st_state = st_state).
  { induction n as [|n IH]; [reflexivity|].
    change (gc_iter 1 (S n) st_state) with (gc_iter 1 n (gc_pass 1 st_state)). rewrite st_fix. exact IH. }
  cbv zeta. rewrite E. vm_compute. repeat split; reflexivity.
Qed.

(* with batch size 2 the same state drains completely *)
Example C44_starvation_needs_small_batch :
  garbage_free (sh_meta (gc_iter 2 4 (srun 2 st_hist))) = true.
Proof. vm_compute. reflexivity. Qed.

(* ---- scenario class "expired split objects" (engine/inhume.go processExpiredObjects -> processAddrDelete ->
   collectChildrenWithoutLink; model GC/SplitCheck.v, proofs GC/SplitProofs.v).  For both split versions, every
   chain (first ID f, any number of later objects: middle parts, last part, link) and EVERY stored set st
   (any subset of the chain, on whatever shards, mixed with objects of other chains): every stored object of
   the chain -- the first part included, although it carries no split.first attribute -- is in the list of IDs
   the engine hands to Shard.Delete, and none of them is among the survivors.  The second theorem is the other
   direction (controls stay): only the first ID and stored objects bound to this chain are collected.
   Tied on every run through the harness observable survivors = stored - collected (`gc split`).
   Not covered by these two statements (tie-only): that IterateExpired yields the expired parent, that
   metabase Exists assembles the split info with the first / split ID, that Shard.Delete removes what it is given. *)
From NV Require GC.SplitCheck GC.SplitProofs.

Theorem C44_split_collect_all : forall v f rest st,
  (forall p, In p st -> In p (SplitCheck.chain_of v f rest) ->
             In (SplitCheck.sp_id p) (SplitCheck.collect_children None (SplitCheck.sinfo_of v f) st)) /\
  (forall p, In p (SplitCheck.split_survivors st (SplitCheck.collect_children None (SplitCheck.sinfo_of v f) st)) ->
             ~ In p (SplitCheck.chain_of v f rest)).
Proof. exact SplitProofs.split_collect_all. Qed.

Theorem C44_split_collect_only : forall v f st x,
  In x (SplitCheck.collect_children None (SplitCheck.sinfo_of v f) st) ->
  x = f \/ exists p, In p st /\ SplitCheck.sp_id p = x /\ SplitProofs.member (SplitCheck.sinfo_of v f) p = true.
Proof. exact SplitProofs.split_collect_only. Qed.

(* non-vacuity: V2 chain 21 <- 22 <- 23 (+ link 24) without its middle part, next to a complete chain of another
   object (41, 42): the lookup collects 23, 24 and the first part 21; the other chain survives untouched.
   V1 chain with split ID 7: all three parts collected. *)
Example C44_split_nonvacuous :
  let st := [SplitCheck.v2_first 21; SplitCheck.v2_later 21 23; SplitCheck.v2_later 21 24;
             SplitCheck.v2_first 41; SplitCheck.v2_later 41 42] in
  let coll := SplitCheck.collect_children None (SplitCheck.sinfo_of SplitCheck.SV2 21) st in
  coll = [23; 24; 21] /\
  SplitCheck.split_survivors st coll = [SplitCheck.v2_first 41; SplitCheck.v2_later 41 42] /\
  In (SplitCheck.v2_first 21) (SplitCheck.chain_of SplitCheck.SV2 21 [22; 23; 24]) /\
  SplitCheck.collect_children None (SplitCheck.sinfo_of (SplitCheck.SV1 7) 1)
     [SplitCheck.v1_part 7 1; SplitCheck.v1_part 7 2; SplitCheck.v1_part 8 5; SplitCheck.v1_part 7 3] = [1; 2; 3].
Proof. vm_compute. repeat split; try reflexivity. left. reflexivity. Qed.


Print Assumptions C44_eventually_partial.
Print Assumptions C44_eventually_refuted_nonphy_parent.
Print Assumptions C44_split_collect_all.
Print Assumptions C44_split_collect_only.
