(* C47 -- container data is discarded only when the container is definitively absent or
   unpaid for at least the grace period counted from the processed epoch.
   Only statements, `exact`, and Print Assumptions live here. *)
From Coq Require Import NArith ZArith Bool.
From NV Require Import Base.U64 Gen.ShardGcConsts Shard.Unpaid Shard.UnpaidProofs.

(* the grace period the code uses is the property's three epochs *)
Theorem C47_grace_is_three : max_unpaid_epoch_delay = 3%N.
Proof. exact delay_is_grace. Qed.

(* new-epoch handler, one container, over ALL uint64 epochs and ALL int64 marks:
   DeleteContainer is called iff payments are on, the payment check succeeded, the mark is
   non-negative and mark + grace <= processed epoch (no wrap-around anywhere) *)
Theorem C47_discard_iff : forall disabled check_err (epoch : N) (unpaid : Z),
  is_u64 epoch -> is_i64 unpaid ->
  (epoch_discard cond_new disabled check_err epoch unpaid = true <->
   disabled = false /\ check_err = false /\ (0 <= unpaid)%Z
   /\ (unpaid + Z.of_N grace <= Z.of_N epoch)%Z).
Proof. exact discard_iff_prop. Qed.

Theorem C47_model_is_reference : forall disabled check_err (epoch : N) (unpaid : Z),
  is_u64 epoch -> is_i64 unpaid ->
  epoch_discard cond_new disabled check_err epoch unpaid
  = ref_epoch_discard disabled check_err epoch unpaid.
Proof. exact discard_iff. Qed.

(* unpaid marks newer than the processed epoch never cause a discard *)
Theorem C47_newer_mark_never : forall disabled check_err (epoch : N) (unpaid : Z),
  is_u64 epoch -> is_i64 unpaid -> (Z.of_N epoch < unpaid)%Z ->
  epoch_discard cond_new disabled check_err epoch unpaid = false.
Proof. exact newer_mark_never. Qed.

(* start-up cleanup / policer: only a definitive "container not found" *)
Theorem C47_source_discard_iff : forall s, source_discard s = true <-> s = NotFound.
Proof. exact source_discard_iff. Qed.

(* the condition before the repair wrapped around *)
Theorem C47_old_cond_refuted :
  exists (epoch : N) (unpaid : Z), is_u64 epoch /\ is_i64 unpaid /\ (Z.of_N epoch < unpaid)%Z /\
    epoch_discard cond_old false false epoch unpaid = true.
Proof. exact old_cond_refuted. Qed.

(* non-vacuity *)
Example C47_example :
  epoch_discard cond_new false false 7 4 = true /\ epoch_discard cond_new false false 6 4 = false
  /\ epoch_discard cond_new false false 4 5 = false /\ epoch_discard cond_old false false 4 5 = true
  /\ epoch_discard cond_new false false 18446744073709551615 9223372036854775807 = true
  /\ epoch_discard cond_new false false 0 (-1) = false.
Proof. repeat split; reflexivity. Qed.

Print Assumptions C47_discard_iff.
Print Assumptions C47_model_is_reference.
Print Assumptions C47_newer_mark_never.
Print Assumptions C47_source_discard_iff.
Print Assumptions C47_old_cond_refuted.
