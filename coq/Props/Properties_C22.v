(* C22 — EC part node order visits every node once and spreads parts.
   Only statements, `exact`, and Print Assumptions live here. *)
From Coq Require Import List Arith Permutation.
Import ListNotations.
From NV Require Import EC.NodeSeq EC.NodeSeqProofs.

(* every node index exactly once, for any number of parts (> 0) and nodes *)
Theorem C22_perm : forall p t n, 0 < t -> Permutation (node_seq p t n) (seq 0 n).
Proof. exact node_seq_perm. Qed.

Theorem C22_nodup : forall p t n, 0 < t -> NoDup (node_seq p t n).
Proof. exact node_seq_nodup. Qed.

(* each part starts at the node with its own index *)
Theorem C22_first : forall p t n, p < t -> t <= n -> first_node p t n = Some p.
Proof. exact node_seq_first. Qed.

(* distinct parts start at distinct nodes *)
Theorem C22_distinct_starts : forall p q t n,
  t <= n -> p < t -> q < t -> p <> q -> first_node p t n <> first_node q t n.
Proof. exact node_seq_distinct_starts. Qed.

(* non-vacuity: the premises are satisfiable and the model computes *)
Example C22_example : node_seq 1 3 7 = [1; 4; 2; 5; 0; 3; 6]%list.
Proof. reflexivity. Qed.

Print Assumptions C22_perm.
Print Assumptions C22_nodup.
Print Assumptions C22_first.
Print Assumptions C22_distinct_starts.
