(* C02 — reported object counts and container sizes match what the shard stores.
   Only statements, `exact`, non-vacuity examples and Print Assumptions live here.

   Full-strength statement:  forall h, counters_ok (run h) = true
   (per-type counters = number of such indexed objects, container info = number and
   payload of stored physical objects not marked for removal).  It is REFUTED for the
   faithful model in four ways (below; the known_findings.txt keys starting with c02-); the statement
   that holds is proved for the clean fragment `clean_hist` of Spec.v. *)
From Coq Require Import List NArith ZArith Bool.
Import ListNotations.
From NV Require Import Gen.MetaConsts Meta.SMap Meta.Model Meta.Spec Meta.CounterProofs.
Local Open Scope N_scope.

Theorem C02_counters_refuted_put_on_marked_id :
  exists h, first_unclean 0 state0 h = Some (2%nat, 3) /\ counters_ok (run h) = false.
Proof. exists w_put_on_marked. split; apply refuted_put_on_marked. Qed.

Theorem C02_counters_refuted_tombstone_target :
  exists h, first_unclean 0 state0 h = Some (3%nat, 4) /\ counters_ok (run h) = false.
Proof. exists w_tomb_target. split; apply refuted_tombstone_target. Qed.

Theorem C02_counters_refuted_tombstone_unstored :
  exists h, first_unclean 0 state0 h = Some (2%nat, 4) /\ counters_ok (run h) = false.
Proof. exists w_tomb_unstored. split; apply refuted_tombstone_unstored. Qed.

Theorem C02_counters_refuted_mark_unstored :
  exists h, first_unclean 0 state0 h = Some (1%nat, 5) /\ counters_ok (run h) = false.
Proof. exists w_mark_unstored. split; apply refuted_mark_unstored. Qed.

Theorem C02_counters_refuted_relations :
  exists h, first_unclean 0 state0 h = Some (2%nat, 2) /\ counters_ok (run h) = false.
Proof. exists w_relations. split; apply refuted_relations. Qed.

Print Assumptions C02_counters_refuted_put_on_marked_id.
Print Assumptions C02_counters_refuted_tombstone_target.
Print Assumptions C02_counters_refuted_tombstone_unstored.
Print Assumptions C02_counters_refuted_mark_unstored.
Print Assumptions C02_counters_refuted_relations.
