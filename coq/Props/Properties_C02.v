(* C02 — reported object counts and container sizes match what the shard stores.
   Only statements, `exact`, non-vacuity examples and Print Assumptions live here.

   Full-strength statement:  forall h, counters_ok (run h) = true
   (per-type counters = number of such indexed objects, container info = number and
   payload of stored physical objects not marked for removal).  It is REFUTED for the
   faithful model in four ways (below; the known_findings.txt keys starting with c02-); the statement
   that holds is proved for the clean fragment `clean_hist` of Spec.v. *)
From Coq Require Import List NArith ZArith Bool.
Import ListNotations.
From NV Require Import Gen.MetaConsts Meta.SMap Meta.Model Meta.Spec Meta.CounterProofs Meta.TypedProofs.
Local Open Scope N_scope.

(* First sentence of the property, for every history of the clean fragment (no batches):
   the per-type counters (physical, root, tombstone, lock, link) of every container equal the
   number of such objects its metadata indexes (zero for a removed container).  The premise
   clean_hist also contains "the state fits 64-bit counters", so no counter has wrapped. *)
Theorem C02_typed_counters_exact_partial : forall h,
  forallb (fun o => negb (is_batch o)) h = true -> clean_hist h = true ->
  forall c b, In (c, b) (cnrs (run h)) -> typed_ok b = true.
Proof. exact typed_counters_exact. Qed.

(* non-vacuity: a clean history with every kind of operation, counters non-trivial *)
Definition ex_clean : list op :=
  [ OPut 1 (reg 1 5); OPut 1 (reg 2 7); OPut 1 (tomb 3 1); OPut 1 (Obj 4 (hs TLock 0 (Some 2)) None);
    OMark 1 [2] MRedundant; OEpoch 3; ORevive 1 1; ODelete 1 [2]; OPut 2 (reg 1 1); OInhumeCnr 2 ].
Example C02_example_clean :
  (clean_hist ex_clean = true) /\ (forallb (fun o => negb (is_batch o)) ex_clean = true) /\ (counters_ok (run ex_clean) = true) /\ (c_phy (view_counters (run ex_clean)) = 2).
Proof. vm_compute. auto. Qed.

Theorem C02_counters_refuted_put_on_marked_id :
  exists h, first_unclean 0 state0 h = Some (2%nat, 3) /\ counters_ok (run h) = false.
Proof. exists w_put_on_marked. split; apply refuted_put_on_marked. Qed.

Theorem C02_counters_refuted_tombstone_target :
  exists h, first_unclean 0 state0 h = Some (3%nat, 4) /\ counters_ok (run h) = false.
Proof. exists w_tomb_target. split; apply refuted_tombstone_target. Qed.

Theorem C02_counters_refuted_tombstone_unstored :
  exists h, first_unclean 0 state0 h = Some (2%nat, 4) /\ counters_ok (run h) = false.
Proof. exists w_tomb_unstored. split; apply refuted_tombstone_unstored. Qed.

Theorem C02_counters_refuted_mark_unstored :
  exists h, first_unclean 0 state0 h = Some (1%nat, 5) /\ counters_ok (run h) = false.
Proof. exists w_mark_unstored. split; apply refuted_mark_unstored. Qed.

Theorem C02_counters_refuted_relations :
  exists h, first_unclean 0 state0 h = Some (2%nat, 2) /\ counters_ok (run h) = false.
Proof. exists w_relations. split; apply refuted_relations. Qed.

Print Assumptions C02_typed_counters_exact_partial.
Print Assumptions C02_counters_refuted_put_on_marked_id.
Print Assumptions C02_counters_refuted_tombstone_target.
Print Assumptions C02_counters_refuted_tombstone_unstored.
Print Assumptions C02_counters_refuted_mark_unstored.
Print Assumptions C02_counters_refuted_relations.
