(* C29 — every object RPC checks authenticity and access before any effect.
   Gen.Prog_ObjSvc is regenerated from /repo/pkg/services/object by xlate on every run. *)
From Coq Require Import String List Bool.
Import ListNotations.
From NV Require Import Prog.IR Prog.IRProofs Prog.Tables_Obj.
From NV Require Gen.Prog_ObjSvc.
Open Scope string_scope.
Module O := Gen.Prog_ObjSvc.

(* static obligation on the current source: for get/head/range/delete/search all six checks
   (signatures, maintenance, tokens, request info, basic ACL, eACL) dominate every effect
   that touches storage, other nodes or sends data; for put the per-message and init-message
   obligations of Tables_Obj hold; every check is evaluated with an accepted shape *)
(* the three components of c29_bad, each computed once by the VM *)
Lemma c29_unary_static :
  bad_handlers_with obj_fuel O.funcs obj_noinl c29_guards obj_crit unary_handlers = [].
Proof. vm_compute. reflexivity. Qed.
Lemma c29_put_msg_static :
  bad_handlers_with obj_fuel O.funcs obj_noinl [g_sig; g_maint] obj_crit ["objsvc.Server.Put"] = [].
Proof. vm_compute. reflexivity. Qed.
Lemma c29_put_acl_static :
  bad_handlers_with obj_fuel O.funcs obj_noinl [g_meta; g_info; g_basic; g_eacl] put_crit_acl ["objsvc.Server.Put"] = [].
Proof. vm_compute. reflexivity. Qed.
Lemma c29_hdr_static : c29_hdr_bad O.funcs = [].
Proof. vm_compute. reflexivity. Qed.

Theorem C29_static :
  c29_bad O.funcs = [] /\ c29_hdr_bad O.funcs = [] /\ obj_bad_shapes O.funcs = [].
Proof.
  unfold c29_bad. rewrite c29_unary_static, c29_put_msg_static, c29_put_acl_static, c29_hdr_static.
  repeat split.
Qed.

Lemma bad_with_nil_ok fuel prog noinl gs crit hs h :
  bad_handlers_with fuel prog noinl gs crit hs = [] -> In h hs ->
  handler_ok_with fuel prog noinl gs crit h = true.
Proof.
  unfold bad_handlers_with. intros Hb Hin.
  destruct (handler_ok_with fuel prog noinl gs crit h) eqn:E; [reflexivity|].
  assert (In h (filter (fun h => negb (handler_ok_with fuel prog noinl gs crit h)) hs)).
  { apply filter_In. split; [exact Hin|]. rewrite E. reflexivity. }
  rewrite Hb in H. contradiction.
Qed.

(* semantic reading for get/head/range/delete/search: a request that fails any one of the
   six checks causes no storage, network or data-sending effect in any execution *)
Theorem C29_failed_check_no_effect :
  forall h body env t r isg,
    In h unary_handlers -> In isg c29_guards ->
    lookup O.funcs h = Some body ->
    exec env (inline_with obj_fuel O.funcs obj_noinl body) t r ->
    (forall g, isg g = true -> env g = false) ->
    forall e, In (EvEffect e) t -> obj_crit e = false.
Proof.
  intros h body env t r isg Hh Hg Hl Hex Henv e He.
  pose proof (bad_with_nil_ok _ _ _ _ _ _ h c29_unary_static Hh) as Hok.
  exact (handler_ok_with_sound _ _ _ _ _ _ _ _ _ _ Hok Hl Hex isg Hg Henv e He).
Qed.

(* order form: every such effect is preceded, in the same execution, by a passed
   evaluation of each check *)
Theorem C29_effect_after_checks :
  forall h body env t r isg,
    In h unary_handlers -> In isg c29_guards ->
    lookup O.funcs h = Some body ->
    exec env (inline_with obj_fuel O.funcs obj_noinl body) t r ->
    forall t1 e t2, t = (t1 ++ EvEffect e :: t2)%list -> obj_crit e = true ->
    exists g, isg g = true /\ In (EvGuard g true) t1.
Proof.
  intros h body env t r isg Hh Hg Hl Hex.
  pose proof (bad_with_nil_ok _ _ _ _ _ _ h c29_unary_static Hh) as Hok.
  exact (handler_ok_with_order _ _ _ _ _ _ _ _ _ _ Hok Hl Hex isg Hg).
Qed.

(* put: every stream message is signature- and maintenance-checked before any effect *)
Theorem C29_put_message_checked :
  forall body env t r isg,
    In isg [g_sig; g_maint] ->
    lookup O.funcs "objsvc.Server.Put" = Some body ->
    exec env (inline_with obj_fuel O.funcs obj_noinl body) t r ->
    (forall g, isg g = true -> env g = false) ->
    forall e, In (EvEffect e) t -> obj_crit e = false.
Proof.
  intros body env t r isg Hg Hl Hex Henv e He.
  assert (Hin : In "objsvc.Server.Put" ["objsvc.Server.Put"]) by (left; reflexivity).
  pose proof (bad_with_nil_ok _ _ _ _ _ _ _ c29_put_msg_static Hin) as Hok.
  exact (handler_ok_with_sound _ _ _ _ _ _ _ _ _ _ Hok Hl Hex isg Hg Henv e He).
Qed.

(* put: the init message is forwarded only after tokens, request info, basic ACL and eACL
   passed (or the classifier exempted the request) *)
Theorem C29_put_init_after_acl :
  forall body env t r isg,
    In isg [g_meta; g_info; g_basic; g_eacl] ->
    lookup O.funcs "objsvc.Server.Put" = Some body ->
    exec env (inline_with obj_fuel O.funcs obj_noinl body) t r ->
    forall t1 e t2, t = (t1 ++ EvEffect e :: t2)%list -> put_crit_acl e = true ->
    exists g, isg g = true /\ In (EvGuard g true) t1.
Proof.
  intros body env t r isg Hg Hl Hex.
  assert (Hin : In "objsvc.Server.Put" ["objsvc.Server.Put"]) by (left; reflexivity).
  pose proof (bad_with_nil_ok _ _ _ _ _ _ _ c29_put_acl_static Hin) as Hok.
  exact (handler_ok_with_order _ _ _ _ _ _ _ _ _ _ Hok Hl Hex isg Hg).
Qed.

(* no header or payload is sent by the GET stream before the header-time eACL evaluation *)
Theorem C29_payload_after_header_eacl :
  forall body env t r,
    lookup O.funcs "objsvc.getStream.WriteHeader" = Some body ->
    exec env (inline_with obj_fuel O.funcs obj_noinl body) t r ->
    forall t1 e t2, t = (t1 ++ EvEffect e :: t2)%list -> obj_crit e = true ->
    exists g, g_hdr g = true /\ In (EvGuard g true) t1.
Proof.
  intros body env t r Hl Hex.
  assert (Hin : In "objsvc.getStream.WriteHeader" ["objsvc.getStream.WriteHeader"]) by (left; reflexivity).
  pose proof (bad_with_nil_ok _ _ _ _ _ _ _ c29_hdr_static Hin) as Hok.
  exact (handler_ok_with_order _ _ _ _ _ _ _ _ _ _ Hok Hl Hex g_hdr (or_introl eq_refl)).
Qed.

(* non-vacuity: each handler really contains critical effects behind the checks, and the
   analysis rejects when a required check is absent *)
Example C29_nonvacuous :
  forallb (fun h => match lookup O.funcs h with
                    | Some b => existsb obj_crit (names b)
                    | None => false end) client_handlers = true
  /\ bad_handlers_with 1 O.funcs obj_noinl [String.eqb "NoSuchCheck"] obj_crit ["objsvc.Server.Delete"] = ["objsvc.Server.Delete"].
Proof. vm_compute. split; reflexivity. Qed.

Print Assumptions C29_static.
Print Assumptions C29_failed_check_no_effect.
Print Assumptions C29_effect_after_checks.
Print Assumptions C29_put_message_checked.
Print Assumptions C29_put_init_after_acl.
Print Assumptions C29_payload_after_header_eacl.
