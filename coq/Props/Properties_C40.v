(* C40 — epoch timers fire each tick exactly once per epoch, at the right time.
   Only statements, `exact`, and Print Assumptions live here.

   A history is any list of Reset / Update (block time) ops from any state;
   `pre` is everything before some Reset, `curs` the block times observed
   after that Reset up to (not including) the next one.  Observation number
   length pre + 1 + j is the one of the j-th of these updates.
   first_reach t curs j  =  j-th block time is the first one that is >= t. *)
From Coq Require Import List NArith Arith Bool.
Import ListNotations.
From NV Require Import Base.U64 IRing.Timers IRing.TimersProofs.
Local Open Scope N_scope.

(* new-epoch handler k is invoked by exactly that update which is the first to
   reach lastTick+dur, and by no other call until the next reset
   (premise: lastTick+dur does not overflow uint64) *)
Theorem C40_epoch_once : forall ne s pre l du curs j k,
  l + du < two64 ->
  (In k (fst (nth (length pre + 1 + j) (run ne (pre ++ Reset l du :: map Update curs) s) silent)) <->
   (k < ne)%nat /\ first_reach (l + du) curs j).
Proof. exact hist_epoch_once. Qed.

(* ... and the total number of invocations between the two resets is exactly
   one if some block time reaches the end of the epoch, otherwise zero *)
Theorem C40_epoch_count : forall ne s pre l du curs k,
  l + du < two64 ->
  count_occ Nat.eq_dec (concat (map fst (segment_obs ne pre l du curs s))) k =
  if (k <? ne)%nat && existsb (N.leb (l + du)) curs then 1%nat else 0%nat.
Proof. exact hist_epoch_count. Qed.

(* sub-epoch handler i with fraction m/dv (m <= dv, no uint64 overflow of
   dur*m) is invoked exactly by the first update reaching lastTick+dur*m/dv *)
Theorem C40_delta_once : forall ne s pre l du curs j i m dv,
  nth_error (muldiv s) i = Some (m, dv) ->
  l + du < two64 -> du * m < two64 -> m <= dv -> dv <> 0 ->
  (In i (snd (nth (length pre + 1 + j) (run ne (pre ++ Reset l du :: map Update curs) s) silent)) <->
   first_reach (l + du * m / dv) curs j).
Proof. exact hist_delta_once. Qed.

Theorem C40_delta_count : forall ne s pre l du curs i m dv,
  nth_error (muldiv s) i = Some (m, dv) ->
  l + du < two64 -> du * m < two64 -> m <= dv -> dv <> 0 ->
  count_occ Nat.eq_dec (concat (map snd (segment_obs ne pre l du curs s))) i =
  if existsb (N.leb (l + du * m / dv)) curs then 1%nat else 0%nat.
Proof. exact hist_delta_count. Qed.

(* what the code does without the premises (wrap-around, m > dv): the handler
   fires at the first block time reaching the wrapped schedule, but only if
   the new-epoch tick has not fired at an earlier block; so a fraction > 1 is
   suppressed by the early return on `done` *)
Theorem C40_delta_general : forall ne s pre l du curs j i m dv,
  nth_error (muldiv s) i = Some (m, dv) ->
  (In i (snd (nth (length pre + 1 + j) (run ne (pre ++ Reset l du :: map Update curs) s) silent)) <->
   first_reach (delta_at l du m dv) curs j /\
   forall k, (k < j)%nat -> nth k curs 0 < add64 l du).
Proof. exact hist_delta_general. Qed.

(* after the new-epoch tick no handler at all is invoked until the next reset *)
Theorem C40_silent_until_reset : forall ne s pre l du curs j j',
  l + du < two64 ->
  first_reach (l + du) curs j -> (j < j')%nat ->
  nth (length pre + 1 + j') (run ne (pre ++ Reset l du :: map Update curs) s) silent = silent.
Proof. exact hist_silent_until_reset. Qed.

(* no call invokes the same handler twice *)
Theorem C40_call_nodup : forall ne ops s j,
  NoDup (fst (nth j (run ne ops s) silent)) /\ NoDup (snd (nth j (run ne ops s) silent)).
Proof. exact call_nodup. Qed.

(* non-vacuity: reset during an epoch, non-monotonic block times, fractions
   1/2 and 3/4 of a 10 ms epoch starting at 100 *)
Example C40_example :
  run 2 [Update 5; Reset 50 10; Update 55; Reset 100 10; Update 104; Update 105; Update 103;
         Update 108; Update 107; Update 111; Update 109; Update 120]
      (init [(1, 2); (3, 4)])
  = [([0;1]%nat, [0;1]%nat); silent; ([], [0]%nat); silent; silent; ([], [0]%nat); silent;
     ([], [1]%nat); silent; ([0;1]%nat, []); silent; silent].
Proof. vm_compute. reflexivity. Qed.

Example C40_example_premises :
  first_reach (100 + 10) [104; 105; 103; 108; 107; 111; 109; 120] 5
  /\ first_reach (100 + 10 * 3 / 4) [104; 105; 103; 108; 107; 111; 109; 120] 3
  /\ nth_error (muldiv (init [(1, 2); (3, 4)])) 1 = Some (3, 4).
Proof.
  split; [apply first_reachb_spec; vm_compute; reflexivity|].
  split; [apply first_reachb_spec; vm_compute; reflexivity|reflexivity].
Qed.

(* documented corner cases of the faithful model (outside the premises):
   a fraction 3/2 is never served; lastTick+dur wrapping fires at once *)
Example C40_fraction_above_one_suppressed :
  run 1 [Reset 0 10; Update 12; Update 15; Update 20] (init [(3, 2)])
  = [silent; ([0]%nat, []); silent; silent].
Proof. vm_compute. reflexivity. Qed.

Example C40_wrapped_schedule_fires_at_once :
  run 1 [Reset 18446744073709551615 2; Update 5] (init []) = [silent; ([0]%nat, [])].
Proof. vm_compute. reflexivity. Qed.

Print Assumptions C40_epoch_once.
Print Assumptions C40_epoch_count.
Print Assumptions C40_delta_once.
Print Assumptions C40_delta_count.
Print Assumptions C40_delta_general.
Print Assumptions C40_silent_until_reset.
Print Assumptions C40_call_nodup.
