(* C35 — inner ring nodes outside the alphabet never act with alphabet authority. *)
From Coq Require Import String List Bool ZArith Lia.
Import ListNotations.
From NV Require Import Prog.IR Prog.IRProofs Prog.Tables_C35 Prog.C35Member Prog.C35MemberProofs.
From NV Require Gen.Prog_IR.
Open Scope string_scope.
Module G := Gen.Prog_IR.

(* static obligation on the current source: from every entry point (event, notary-request
   and timer handlers, startup, exported methods) every chain transaction that needs alphabet
   authority is dominated by a membership check, and every membership check has an accepted shape *)
Lemma c35_bad_static : c35_bad G.funcs = [].
Proof. vm_compute. reflexivity. Qed.
Lemma c35_shapes_static : c35_bad_shapes G.funcs = [].
Proof. vm_compute. reflexivity. Qed.
Theorem C35_static : c35_bad G.funcs = [] /\ c35_bad_shapes G.funcs = [].
Proof. split; [exact c35_bad_static|exact c35_shapes_static]. Qed.

Lemma bad_with_nil_ok35 fuel prog noinl gs crit hs h :
  bad_handlers_with fuel prog noinl gs crit hs = [] -> In h hs ->
  handler_ok_with fuel prog noinl gs crit h = true.
Proof.
  unfold bad_handlers_with. intros Hb Hin.
  destruct (handler_ok_with fuel prog noinl gs crit h) eqn:E; [reflexivity|].
  assert (In h (filter (fun h => negb (handler_ok_with fuel prog noinl gs crit h)) hs)).
  { apply filter_In. split; [exact Hin|]. rewrite E. reflexivity. }
  rewrite Hb in H. contradiction.
Qed.

(* semantic reading: when every membership check refuses (the node is not an alphabet
   member), no execution from any entry point performs a chain transaction needing alphabet
   authority, nor reaches un-analysed code of these packages *)
Theorem C35_non_member_never_acts :
  forall h body env t r,
    In h (c35_roots G.funcs) ->
    lookup G.funcs h = Some body ->
    exec env (inline_with c35_fuel G.funcs (fun _ => false) body) t r ->
    (forall g, c35_isg g = true -> env g = false) ->
    forall e, In (EvEffect e) t -> c35_crit G.funcs e = false.
Proof.
  intros h body env t r Hh Hl Hex Henv e He.
  pose proof (bad_with_nil_ok35 _ _ _ _ _ _ h c35_bad_static Hh) as Hok.
  exact (handler_ok_with_sound _ _ _ _ _ _ _ _ _ _ Hok Hl Hex c35_isg (or_introl eq_refl) Henv e He).
Qed.

(* the accepted shapes do refuse every non-member index (negative, incl. -1 returned when
   the index lookup fails) *)
Theorem C35_shapes_refuse_non_members :
  forall sh i n, shape_ok sh = true -> sh <> "assign; if err != nil" -> (i < 0)%Z ->
    shape_refuses sh i n = true.
Proof.
  intros sh i n Hok Hne Hi. unfold shape_refuses, shape_ok in *.
  destruct (has_prefix "if !" sh && has_suffix ".IsAlphabet(..)" sh)%bool eqn:E1.
  - apply negb_true_iff. apply Z.leb_gt. exact Hi.
  - cbn [orb] in Hok. unfold mem in Hok. cbn [existsb] in Hok.
    destruct (String.eqb_spec sh "assign; if index < 0") as [->|N1].
    + apply Z.ltb_lt. exact Hi.
    + destruct (String.eqb_spec sh "assign; if index < 0 || index >= len(s.contracts.alphabet)") as [->|N2].
      * apply orb_true_iff. left. apply Z.ltb_lt. exact Hi.
      * exfalso. destruct (String.eqb_spec sh "assign; if err != nil") as [->|N3]; [contradiction|].
        repeat rewrite orb_false_r in Hok. discriminate.
Qed.

Theorem C35_lookup_failure_is_non_member : Tables_C35.is_member None = false /\ forall i, (i < 0)%Z -> Tables_C35.is_member (Some i) = false.
Proof. split; [reflexivity|]. intros i Hi. unfold Tables_C35.is_member, index_of. apply Z.leb_gt. exact Hi. Qed.

(* the membership getters themselves (state.go over indexer.go, model Prog/C35Member.v tied
   to the real code by the harness): IsAlphabet holds exactly for a key in the alphabet list
   with both chain lookups succeeding; otherwise the index is negative, which every accepted
   check shape refuses (previous theorem) *)
Theorem C35_is_alphabet_iff : forall own ir alpha fi fa,
  is_alphabet own ir alpha fi fa = true <-> fi = false /\ fa = false /\ In own alpha.
Proof. exact is_alphabet_iff. Qed.

Theorem C35_non_member_index_negative : forall own ir alpha fi fa,
  ~ (fi = false /\ fa = false /\ In own alpha) -> (alpha_index own ir alpha fi fa < 0)%Z.
Proof. exact non_member_negative. Qed.

Theorem C35_is_active_iff : forall own ir alpha fi fa,
  is_active own ir alpha fi fa = true <-> fi = false /\ fa = false /\ In own ir.
Proof. exact is_active_iff. Qed.

(* the shape the unrepaired code used in voteForFSChainValidator lets index -1 through *)
Theorem C35_range_only_shape_refuted :
  exists i n, (i < 0)%Z /\ shape_refuses "assign; if index >= len(s.contracts.alphabet)" i n = false.
Proof. exists (-1)%Z, 7%Z. split; [lia|reflexivity]. Qed.

Example C35_nonvacuous :
  (10 <=? length (c35_roots G.funcs))%nat = true
  /\ existsb (fun h => match lookup G.funcs h with
                       | Some b => existsb c35_chain (names (inline_with c35_fuel G.funcs (fun _ => false) b))
                       | None => false end) (c35_roots G.funcs) = true.
Proof. vm_compute. split; reflexivity. Qed.

Print Assumptions C35_static.
Print Assumptions C35_non_member_never_acts.
Print Assumptions C35_shapes_refuse_non_members.
Print Assumptions C35_lookup_failure_is_non_member.
Print Assumptions C35_is_alphabet_iff.
Print Assumptions C35_non_member_index_negative.
