(* C18 — rebuilding metadata from blobs gives the same object statuses in any blob order.

   Full-strength statement (NOT provable, refuted below by witnesses on the faithful model
   and on the real code):
     forall e q B o1 o2, Permutation o1 o2 -> forall c a,
       status_at (resync_st e o1) q c a = status_at (resync_st e o2) q c a
     and every removed object is reported by GetGarbage.
   Proved: the statement for blob sets without family relations under the boolean premises
   [flat_ok] (no target with both a lock and a tombstone; no lock of a non-regular object, no
   tombstone of a tombstone / lock; distinct addresses) and [no_tomb_exp q] (no tombstoned blob
   that is itself expired at the query epoch), for every rebuild epoch and batch size.  Missing:
   family relations (split / EC children) — tied and compared across orders on every run only. *)
From Coq Require Import List NArith ZArith Bool Lia Permutation.
Import ListNotations.
From NV Require Import Gen.MetaConsts Gen.ResyncConsts Meta.SMap Meta.Model Meta.Spec
  Resync.Model Resync.BatchProofs Resync.FlatProofs Resync.KnownProofs Resync.GcProofs.
Local Open Scope N_scope.

Theorem C18_batching_irrelevant : forall bs e order s',
  (0 < bs)%nat -> batch_loop (reset_state e) order = inl s' -> resync_bs bs e order = (s', true).
Proof. exact batching_irrelevant. Qed.

Lemma batch_size_pos : (0 < resync_batch_size)%nat.
Proof. unfold resync_batch_size. lia. Qed.

Theorem C18_status_follows_from_blobs_partial : forall e q B order,
  flat_ok B = true -> no_tomb_exp q B = true -> Permutation order B ->
  resync_ok e (map to_blob order) = true /\
  forall c a, status_at (resync_st e (map to_blob order)) q c a = status_of_blobs q B c a.
Proof. intros e q B order. exact (flat_status resync_batch_size e q B order batch_size_pos). Qed.

Theorem C18_order_independent_partial : forall e q o1 o2,
  flat_ok o1 = true -> no_tomb_exp q o1 = true -> Permutation o1 o2 ->
  forall c a, status_at (resync_st e (map to_blob o1)) q c a = status_at (resync_st e (map to_blob o2)) q c a.
Proof.
  intros e q o1 o2 H1 H2 Hp c a.
  destruct (flat_status resync_batch_size e q o1 o1 batch_size_pos H1 H2 (Permutation_refl o1)) as [_ A].
  destruct (flat_status resync_batch_size e q o1 o2 batch_size_pos H1 H2 (Permutation_sym Hp)) as [_ B].
  unfold resync_st, resync. now rewrite A, B.
Qed.

(* no blob is lost: every tombstone, every lock and every object that no tombstone of the set removes is
   indexed with its own header after the rebuild, in every enumeration order (the rebuild's batches
   partition the enumeration).  Partial like the theorems above: blob sets satisfying [flat_ok]. *)
Theorem C18_no_blob_lost_partial : forall e B order,
  flat_ok B = true -> Permutation order B ->
  resync_ok e (map to_blob order) = true /\
  forall c i h, In (c, i, h) B -> must_know B (c, i, h) = true ->
  exists en, In (i, en) (objs (bucket_or_new (resync_st e (map to_blob order)) c)) /\ e_hdr en = h.
Proof. intros e B order. exact (flat_known resync_batch_size e B order batch_size_pos). Qed.

(* ---- non-vacuity: a tombstone, its expirable target, a lock of another object, a link *)
Definition hd (t : otype) (ex : option N) (a : option oid) : hdr := mkHdr t 1 ex a None None None None None.
Definition ex_B : list fblob :=
  [(1, 3, hd TTombstone None (Some 1)); (1, 1, hd TRegular None None); (1, 4, hd TLock (Some 9) (Some 2));
   (1, 2, hd TRegular (Some 3) None); (2, 1, hd TLink None None); (1, 5, hd TTombstone (Some 2) (Some 7))].
Example C18_premise_nonvacuous :
  flat_ok ex_B = true /\ no_tomb_exp 6 ex_B = true /\
  map (fun a => status_of_blobs 6 ex_B 1 a) [1; 2; 3; 7] = [Removed; Available; Available; Removed] /\
  status_at (resync_st 0 (map to_blob (rev ex_B))) 6 1 1 = Removed /\
  status_of_blobs 12 ex_B 1 2 = Expired.
Proof. vm_compute. repeat split; reflexivity. Qed.

Example C18_no_blob_lost_nonvacuous :
  flat_ok ex_B = true /\ map (must_know ex_B) ex_B = [true; false; true; true; true; true] /\
  (exists b, bucket (resync_st 0 (map to_blob ex_B)) 1 = Some b /\ stored b 4 = true /\ stored b 1 = false).
Proof. vm_compute. repeat split; try reflexivity. eexists; repeat split; reflexivity. Qed.

(* ---- the excluded classes really are order-dependent (each confirmed on the real code, notes/C18.md) *)
Definition X := (1, 1, hd TRegular None None) : fblob.
Definition Lx (ex : option N) := (1, 2, hd TLock ex (Some 1)) : fblob.
Definition Tx := (1, 3, hd TTombstone None (Some 1)) : fblob.

(* normal operation leaves X, an EXPIRED lock of X and a later accepted tombstone of X behind;
   rebuilt at epoch 0 (neofs-lancet) the order decides whether X is available or removed at epoch 5 *)
Theorem C18_conflict_is_order_dependent :
  let o1 := [X; Lx (Some 2); Tx] in let o2 := [X; Tx; Lx (Some 2)] in
  Permutation o1 o2 /\ no_pair o1 = false /\
  status_at (resync_st 0 (map to_blob o1)) 5 1 1 = Available /\
  status_at (resync_st 0 (map to_blob o2)) 5 1 1 = Removed.
Proof. split; [apply perm_skip, perm_swap|]. vm_compute. repeat split; reflexivity. Qed.

(* the same with a live lock at the real epoch (not producible by normal operation on one shard) *)
Theorem C18_live_conflict_is_order_dependent :
  let o1 := [X; Lx None; Tx] in let o2 := [X; Tx; Lx None] in
  Permutation o1 o2 /\ no_pair o1 = false /\
  status_at (resync_st 5 (map to_blob o1)) 5 1 1 = Available /\
  status_at (resync_st 5 (map to_blob o2)) 5 1 1 = Removed.
Proof. split; [apply perm_skip, perm_swap|]. vm_compute. repeat split; reflexivity. Qed.

(* rebuilt at the real epoch the expired lock itself is indexed (expired) or skipped (unknown) *)
Theorem C18_expired_lock_unindexed_refuted :
  let o1 := [X; Lx (Some 2); Tx] in let o2 := [X; Tx; Lx (Some 2)] in
  Permutation o1 o2 /\
  status_at (resync_st 5 (map to_blob o1)) 5 1 2 = Expired /\
  status_at (resync_st 5 (map to_blob o2)) 5 1 2 = Available /\
  view_exists (at_epoch (resync_st 5 (map to_blob o2)) 5) false 1 2 = v_absent.
Proof. split; [apply perm_skip, perm_swap|]. vm_compute. repeat split; reflexivity. Qed.

(* a tombstoned blob that has also expired is reported expired or removed *)
Theorem C18_tombstoned_expired_refuted :
  let Xe := (1, 1, hd TRegular (Some 2) None) : fblob in
  let o1 := [Xe; Tx] in let o2 := [Tx; Xe] in
  Permutation o1 o2 /\ flat_ok o1 = true /\ no_tomb_exp 5 o1 = false /\
  status_at (resync_st 5 (map to_blob o1)) 5 1 1 = Expired /\
  status_at (resync_st 5 (map to_blob o2)) 5 1 1 = Removed.
Proof. split; [apply perm_swap|]. vm_compute. repeat split; reflexivity. Qed.

(* a split child carrying its parent's header, read after the parent's tombstone, is skipped
   without a garbage mark: unindexed, and GetGarbage never reports it (its blob is never reclaimed) *)
Definition par_hdr := mkHdr TRegular 10 None None None None None None None.
Definition child : blob := (1, Obj 4 (mkHdr TRegular 5 None None (Some 1) (Some 3) None None None) (Some (Obj 1 par_hdr None))).
Definition tpar : blob := (1, Obj 8 (hd TTombstone None (Some 1)) None).
Theorem C18_child_after_tombstone_refuted :
  let o1 := [child; tpar] in let o2 := [tpar; child] in
  Permutation o1 o2 /\
  view_garbage (resync_st 0 o1) 100 = [(1, [1; 3; 4])] /\ status_at (resync_st 0 o1) 5 1 4 = Removed /\
  view_garbage (resync_st 0 o2) 100 = [(1, [1])] /\ status_at (resync_st 0 o2) 5 1 4 = Available /\
  view_exists (at_epoch (resync_st 0 o2) 5) false 1 4 = v_absent.
Proof. split; [apply perm_swap|]. vm_compute. repeat split; reflexivity. Qed.

(* ---- garbage collection can reclaim what a tombstone removed: every target of an indexed
   tombstone carries a garbage mark (all blob sets, all orders, all epochs and batch sizes, also
   after an aborted rebuild) and GetGarbage with a sufficient limit lists every mark *)
Theorem C18_gc_reclaims : forall bs e order c b x,
  bucket (fst (resync_bs bs e order)) c = Some b -> tombstoned b x = true -> In x (sm_keys (garb b)).
Proof. exact gc_reclaims. Qed.

Theorem C18_gc_listed : forall s limit c b x,
  (garbage_total (cnrs s) < limit)%nat ->
  In (c, b) (cnrs s) -> cgc b = false -> In x (sm_keys (garb b)) ->
  exists ids, In (c, ids) (view_garbage s limit) /\ In x ids.
Proof. exact gc_listed. Qed.

Example C18_gc_nonvacuous :
  let s := resync_st 0 (map to_blob [Tx; X]) in
  (exists b, bucket s 1 = Some b /\ tombstoned b 1 = true /\ stored b 1 = false) /\
  view_garbage s 100 = [(1, [1])].
Proof. vm_compute. split; [eexists; repeat split; reflexivity | reflexivity]. Qed.

Print Assumptions C18_batching_irrelevant.
Print Assumptions C18_status_follows_from_blobs_partial.
Print Assumptions C18_order_independent_partial.
Print Assumptions C18_no_blob_lost_partial.
Print Assumptions C18_conflict_is_order_dependent.
Print Assumptions C18_live_conflict_is_order_dependent.
Print Assumptions C18_expired_lock_unindexed_refuted.
Print Assumptions C18_tombstoned_expired_refuted.
Print Assumptions C18_child_after_tombstone_refuted.
Print Assumptions C18_gc_reclaims.
Print Assumptions C18_gc_listed.
