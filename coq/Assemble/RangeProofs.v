(* C23: the child sub-ranges requested by the assemblers concatenate to exactly
   the requested slice of the original payload; out-of-range iff unsatisfiable. *)
From Coq Require Import NArith List Bool Lia Arith.
Import ListNotations.
From NV Require Import Base.U64 Assemble.Range.
Local Open Scope N_scope.

Section Proofs.
  Context {A : Type}.
  Implicit Types (c l : list A) (cs rcs : list (list A)).

  Lemma len_app l1 l2 : len (l1 ++ l2) = len l1 + len l2.
  Proof. unfold len. rewrite app_length. lia. Qed.

  Lemma slice_zero off l : slice off 0 l = [].
  Proof. reflexivity. Qed.

  (* slicing a concatenation *)
  Lemma slice_app off ln l1 l2 :
    slice off ln (l1 ++ l2) =
    slice off ln l1 ++ slice (off - len l1) (ln - (len l1 - off)) l2.
  Proof.
    unfold slice, len. rewrite skipn_app, firstn_app. f_equal. f_equal.
    - rewrite skipn_length. lia.
    - f_equal. lia.
  Qed.

  Lemma slice_beyond off ln l : len l <= off -> slice off ln l = [].
  Proof.
    intros H. unfold slice, len in *. rewrite skipn_all2 by lia. apply firstn_nil.
  Qed.

  Lemma slice_clip off ln l : len l - off <= ln -> slice off ln l = slice off (len l - off) l.
  Proof.
    intros H. unfold slice, len in *.
    rewrite !firstn_all2; [reflexivity | |]; rewrite skipn_length; lia.
  Qed.

  (* ---------------- forward (link based, EC parts) ---------------- *)
  Theorem fwd_correct cs : forall off ln,
    read_all (fwd off ln (map len cs)) cs = slice off ln (concat cs).
  Proof.
    induction cs as [|c cs IH]; intros off ln; simpl.
    - unfold slice. rewrite skipn_nil, firstn_nil. reflexivity.
    - destruct (N.eqb_spec ln 0) as [-> | Hln]; simpl.
      + rewrite IH. reflexivity.
      + destruct (N.leb_spec (len c) off) as [Hle | Hgt]; simpl.
        * rewrite IH. rewrite slice_app. rewrite (slice_beyond off ln c Hle). simpl.
          f_equal. lia.
        * rewrite IH. rewrite slice_app. f_equal.
          -- destruct (N.min_spec ln (len c - off)) as [[H1 ->] | [H1 ->]].
             ++ reflexivity.
             ++ symmetry. apply slice_clip. lia.
          -- f_equal; lia.
  Qed.

  (* ---------------- backward (chain from the last part) ---------------- *)
  Lemma bwd_done rcs : forall cur from to, cur <= from ->
    read_all_rev (bwd cur from to (map len rcs)) rcs = [].
  Proof.
    induction rcs as [|c r IH]; intros cur from to H; simpl; auto.
    destruct (N.leb_spec cur from); [| lia]. simpl. rewrite IH by assumption. reflexivity.
  Qed.

  Theorem bwd_correct rcs : forall from to, from <= to ->
    read_all_rev (bwd (len (concat (rev rcs))) from to (map len rcs)) rcs =
    slice from (to - from) (concat (rev rcs)).
  Proof.
    induction rcs as [|c r IH]; intros from to Hft; simpl.
    - unfold slice. rewrite skipn_nil, firstn_nil. reflexivity.
    - rewrite concat_app. simpl. rewrite app_nil_r. rewrite len_app.
      set (P := concat (rev r)) in *.
      destruct (N.leb_spec (len P + len c) from) as [Hdone | Hgo]; simpl.
      + rewrite bwd_done by assumption. simpl.
        symmetry. apply slice_beyond. rewrite len_app. exact Hdone.
      + replace (len P + len c - len c) with (len P) by lia.
        rewrite IH by exact Hft. rewrite slice_app. f_equal.
        destruct (N.ltb_spec (len P) to) as [Hin | Hout]; simpl.
        * destruct (N.ltb_spec (len P) from) as [Hf | Hf].
          -- (* range starts inside this child *)
             destruct (N.ltb_spec to (len P + (from - len P) + (len c - (from - len P)))) as [Hc | Hc].
             ++ f_equal; lia.
             ++ rewrite (slice_clip (from - len P) (to - from - (len P - from)) c) by lia. reflexivity.
          -- destruct (N.ltb_spec to (len P + 0 + (len c - 0))) as [Hc | Hc].
             ++ f_equal; lia.
             ++ rewrite (slice_clip (from - len P) (to - from - (len P - from)) c) by lia.
                f_equal; lia.
        * replace (to - from - (len P - from)) with 0 by lia. reflexivity.
  Qed.

  (* V1 from the last part: last child range + chain = the requested slice *)
  Theorem v1_correct rcs off ln :
    off + ln <= len (concat (rev rcs)) ->
    read_all_rev (v1_requests off ln (map len rcs)) rcs = slice off ln (concat (rev rcs)).
  Proof.
    destruct rcs as [|c r]; intros Hin; simpl.
    - unfold slice. rewrite skipn_nil, firstn_nil. reflexivity.
    - simpl in Hin. rewrite concat_app in *. simpl in *. rewrite app_nil_r in *. rewrite len_app in Hin.
      set (P := concat (rev r)) in *.
      assert (Hsum : fold_right N.add 0 (map len r) = len P).
      { unfold P. clear. induction r as [|x r IH]; simpl; auto.
        rewrite concat_app, len_app. simpl. rewrite app_nil_r. rewrite IH. lia. }
      rewrite Hsum.
      replace (len c + len P - len c) with (len P) by lia.
      pose proof (bwd_correct r off (off + ln) ltac:(lia)) as HB. fold P in HB.
      rewrite HB. rewrite slice_app. replace (off + ln - off) with ln by lia. f_equal.
      unfold last_child_range.
      replace (len c + len P - len c) with (len P) by lia.
      repeat match goal with
      | |- context [N.min ?a ?b] => destruct (N.min_spec a b) as [[? ->] | [? ->]]
      | |- context [?a <? ?b] => destruct (N.ltb_spec a b)
      end; cbn [apply_req];
      try (f_equal; lia);
      try (replace (ln - (len P - off)) with 0 by lia; reflexivity).
      all: repeat match goal with
           | H : context [?a <? ?b] |- _ => destruct (N.ltb_spec a b)
           end;
           replace (ln - (len P - off)) with 0 by lia; reflexivity.
  Qed.
End Proofs.

(* ---------------- EC: data parts then anything (padding is inside the last
   data parts, parity parts follow) ---------------- *)
Lemma slice_prefix {A} off ln (d x : list A) : off + ln <= len d -> slice off ln (d ++ x) = slice off ln d.
Proof.
  intros H. rewrite slice_app. replace (ln - (len d - off)) with 0 by lia.
  rewrite slice_zero. apply app_nil_r.
Qed.

Theorem ec_range_correct {A} (parts : list (list A)) (payload pad : list A) off ln :
  concat parts = payload ++ pad -> off + ln <= len payload ->
  read_all (fwd off ln (map len parts)) parts = slice off ln payload.
Proof. intros Hc Hin. rewrite fwd_correct, Hc. apply slice_prefix, Hin. Qed.

(* ---------------- Resolve: out of range iff unsatisfiable ---------------- *)
Ltac breakb :=
  repeat match goal with
  | |- context [?a =? ?b] => destruct (N.eqb_spec a b)
  | |- context [?a <=? ?b] => destruct (N.leb_spec a b)
  | |- context [?a <? ?b] => destruct (N.ltb_spec a b)
  end; simpl.

Theorem resolve_sound m f s n o l : resolve m f s n = Some (o, l) ->
  o + l <= n /\ (m = MNone -> o = 0 /\ l = n) /\
  (m = MOffLen -> (s = 0 /\ f = 0 /\ o = 0 /\ l = n) \/ (0 < s /\ o = f /\ l = s)) /\
  (m = MBounds -> f <= s /\ f < n /\ o = f /\ l = N.min s (n - 1) - f + 1) /\
  (m = MFrom -> f < n /\ o = f /\ l = n - f) /\
  (m = MSuffix -> 0 < f /\ l = N.min f n /\ o = n - l).
Proof.
  unfold resolve. destruct m; breakb; intros Hres; inversion Hres; subst; clear Hres;
    repeat split; try discriminate; intros; try lia;
    try (left; lia); try (right; lia).
Qed.

Theorem resolve_oor_iff m f s n : resolve m f s n = None <->
  match m with
  | MNone => False
  | MOffLen => (s = 0 /\ f <> 0) \/ (0 < s /\ n < f + s)
  | MBounds => s < f \/ n <= f
  | MFrom => n <= f
  | MSuffix => f = 0
  end.
Proof.
  unfold resolve. destruct m; breakb; split; intros Hres; try discriminate; try reflexivity; try lia;
    try (exfalso; lia).
Qed.

(* the uint64 pre-check of the assemblers *)
Theorem precheck_oor_iff off ln par : off < two64 -> ln < two64 -> par < two64 ->
  precheck_oor off ln par = false <-> off + ln <= par.
Proof.
  intros Ho Hl Hp. unfold precheck_oor, add64, wrap64.
  destruct (N.lt_ge_cases (off + ln) two64) as [Hs | Hs].
  - rewrite N.mod_small by exact Hs. breakb; split; intros; try discriminate; try reflexivity; lia.
  - assert (E : (off + ln) mod two64 = off + ln - two64).
    { replace (off + ln) with ((off + ln - two64) + 1 * two64) at 1 by lia.
      rewrite N.mod_add by discriminate. apply N.mod_small. lia. }
    rewrite E. unfold two64 in *. breakb; split; intros; try discriminate; try reflexivity; lia.
Qed.
