(* Executable comparison for the correspondence check of C23: status, length
   and the sequence of child / EC-part sub-range reads observed from the real
   getsvc.Service against the model Assemble/Range.v. *)
From Coq Require Import NArith List Bool Arith.
Import ListNotations.
From NV Require Import Base.U64 Assemble.Range.
Local Open Scope N_scope.

(* (child or part index, range mode, first, second) *)
Definition rd := (nat * nat * N * N)%type.
(* (mode, first, second, status 0 ok/1 out of range/2 other, got_len, ref_oor, ref_off, ref_len, reads) *)
Definition res := (nat * N * N * nat * N * bool * N * N * list rd)%type.
(* (kind 0 whole/1 split/2 ec, ver, link, len, sizes, k, parts missing, results) *)
Definition gcase := (nat * nat * bool * N * list N * N * nat * list res)%type.

Definition mode_of (m : nat) : rmode :=
  match m with 0%nat => MNone | 1%nat => MOffLen | 2%nat => MBounds | 3%nat => MFrom | _ => MSuffix end.

Definition rd_eqb (a b : rd) : bool :=
  let '(i, m, f, s) := a in let '(i', m', f', s') := b in
  (i =? i')%nat && (m =? m')%nat && (f =? f') && (s =? s').
Fixpoint rds_eqb (a b : list rd) : bool :=
  match a, b with
  | [], [] => true
  | x :: a', y :: b' => rd_eqb x y && rds_eqb a' b'
  | _, _ => false
  end.

Fixpoint indexed (i : nat) (reqs : list (option (N * N))) : list (nat * N * N) :=
  match reqs with
  | [] => []
  | None :: r => indexed (S i) r
  | Some (o, l) :: r => (i, o, l) :: indexed (S i) r
  end.

(* rangeFromLink: explicit range for the first and the last touched child, nil range between *)
Definition trace_link (reqs : list (option (N * N))) : list rd :=
  let t := indexed 0 reqs in
  let n := length t in
  map (fun jx => let '(j, (i, o, l)) := jx in
                 if (j =? 0)%nat || (S j =? n)%nat then (i, 1%nat, o, l) else (i, 0%nat, 0, 0))
      (combine (seq 0 n) t).

(* chain walked in reverse: explicit range for every touched child; requests aligned last-to-first *)
Definition trace_rev (nchildren : nat) (reqs : list (option (N * N))) : list rd :=
  rev (map (fun x => let '(j, o, l) := x in ((nchildren - 1 - j)%nat, 1%nat, o, l)) (indexed 0 reqs)).

Definition trace_full (n : nat) : list rd := map (fun i => (i, 0%nat, 0, 0)) (seq 0 n).

Definition expected_reads (c : gcase) (m : rmode) (o l : N) : option (list rd) :=
  let '(kind, ver, link, len, sizes, k, missing, _) := c in
  let n := length sizes in
  match kind with
  | 1%nat =>
    match m with
    | MNone => Some (trace_full n)
    | _ =>
      if (ver =? 2)%nat && link then Some (trace_link (fwd o l sizes))
      else if (ver =? 1)%nat && negb link then Some (trace_rev n (v1_requests o l (rev sizes)))
      else Some (trace_rev n (bwd len o (o + l) (rev sizes)))
    end
  | 2%nat =>
    if (0 <? missing)%nat || (len =? 0) then None
    else match m with
         | MNone => Some (trace_full n)
         | _ => Some ((0%nat, 0%nat, 0, 0) ::
                      map (fun x => let '(i, po, pl) := x in (i, 1%nat, po, pl))
                          (filter (fun x => negb (fst (fst x) =? 0)%nat) (indexed 0 (fwd o l sizes))))
         end
  | _ => None
  end.

Definition res_ok (c : gcase) (r : res) : bool :=
  let '(kind, ver, link, len, sizes, k, missing, _) := c in
  let '(m, f, s, status, got, ref_oor, ref_off, ref_len, reads) := r in
  match resolve (mode_of m) f s len with
  | None => (status =? 1)%nat && ref_oor
  | Some (o, l) =>
    (status =? 0)%nat && (got =? l) && negb ref_oor && (ref_off =? o) && (ref_len =? l) &&
    match expected_reads c (mode_of m) o l with
    | None => true
    | Some want => rds_eqb (filter (fun x => (fst (fst (fst x)) <? length sizes)%nat) reads) want
    end
  end.

Fixpoint bad_res (j : nat) (c : gcase) (rs : list res) : list nat :=
  match rs with
  | [] => []
  | r :: t => if res_ok c r then bad_res (S j) c t else j :: bad_res (S j) c t
  end.

(* codes: 1000 * case index + result index *)
Fixpoint mism_from (ci : nat) (cs : list gcase) : list nat :=
  match cs with
  | [] => []
  | c :: t =>
    let '(_, _, _, _, _, _, _, rs) := c in
    map (fun j => (1000 * ci + j)%nat) (bad_res 0 c rs) ++ mism_from (S ci) t
  end.
Definition model_mismatches := mism_from 0.
