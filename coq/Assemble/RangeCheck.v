(* Executable comparison for the correspondence check of C23: status, length
   and the sequence of child / EC-part sub-range reads observed from the real
   getsvc.Service against the model Assemble/Range.v. *)
From Coq Require Import NArith List Bool Arith.
Import ListNotations.
From NV Require Import Base.U64 Assemble.Range.
Local Open Scope N_scope.

(* (child or part index, range mode, first, second) *)
Definition rd := (nat * nat * N * N)%type.
(* (mode, first, second, status 0 ok/1 out of range/2 other, got_len, ref_oor, ref_off, ref_len, reads) *)
Definition res := (nat * N * N * nat * N * bool * N * N * list rd)%type.
(* (kind 0 whole/1 split/2 ec, ver, link, len, sizes, k, m, EC parts removed, EC parts whose range
   streams break after n bytes, results) *)
Definition gcase := (nat * nat * bool * N * list N * N * nat * list nat * list (nat * N) * list res)%type.

Definition mode_of (m : nat) : rmode :=
  match m with 0%nat => MNone | 1%nat => MOffLen | 2%nat => MBounds | 3%nat => MFrom | _ => MSuffix end.

Definition rd_eqb (a b : rd) : bool :=
  let '(i, m, f, s) := a in let '(i', m', f', s') := b in
  (i =? i')%nat && (m =? m')%nat && (f =? f') && (s =? s').
Fixpoint rds_eqb (a b : list rd) : bool :=
  match a, b with
  | [], [] => true
  | x :: a', y :: b' => rd_eqb x y && rds_eqb a' b'
  | _, _ => false
  end.

Fixpoint indexed (i : nat) (reqs : list (option (N * N))) : list (nat * N * N) :=
  match reqs with
  | [] => []
  | None :: r => indexed (S i) r
  | Some (o, l) :: r => (i, o, l) :: indexed (S i) r
  end.

(* rangeFromLink: explicit range for the first and the last touched child, nil range between *)
Definition trace_link (reqs : list (option (N * N))) : list rd :=
  let t := indexed 0 reqs in
  let n := length t in
  map (fun jx => let '(j, (i, o, l)) := jx in
                 if (j =? 0)%nat || (S j =? n)%nat then (i, 1%nat, o, l) else (i, 0%nat, 0, 0))
      (combine (seq 0 n) t).

(* chain walked in reverse: explicit range for every touched child; requests aligned last-to-first *)
Definition trace_rev (nchildren : nat) (reqs : list (option (N * N))) : list rd :=
  rev (map (fun x => let '(j, o, l) := x in ((nchildren - 1 - j)%nat, 1%nat, o, l)) (indexed 0 reqs)).

Definition trace_full (n : nat) : list rd := map (fun i => (i, 0%nat, 0, 0)) (seq 0 n).

Definition expected_reads (c : gcase) (m : rmode) (o l : N) : option (list rd) :=
  let '(kind, ver, link, len, sizes, k, _, missing, flaky, _) := c in
  let n := length sizes in
  match kind with
  | 1%nat =>
    match m with
    | MNone => Some (trace_full n)
    | _ =>
      if (ver =? 2)%nat && link then Some (trace_link (fwd o l sizes))
      else if (ver =? 1)%nat && negb link then Some (trace_rev n (v1_requests o l (rev sizes)))
      else Some (trace_rev n (bwd len o (o + l) (rev sizes)))
    end
  | 2%nat =>
    if negb (length missing =? 0)%nat || negb (length flaky =? 0)%nat || (len =? 0) then None
    else match m with
         | MNone => Some (trace_full n)
         | _ => Some ((0%nat, 0%nat, 0, 0) ::
                      map (fun x => let '(i, po, pl) := x in (i, 1%nat, po, pl))
                          (filter (fun x => negb (fst (fst x) =? 0)%nat) (indexed 0 (fwd o l sizes))))
         end
  | _ => None
  end.

(* ---- ranged read of an EC object with unavailable parts (copyECObjectRangeByRule /
   copyECObjectRangeByParts with the recovery branch) ----
   The header comes from the full stream of the first stored part.  The data parts of the range
   are then read in order (part 0 from that stream when it is stored) until the first one that
   is removed (no read reaches the storage) or whose range stream breaks before the requested
   length (the read is issued).  Then all other parts are read in full (offset 0, length 0) for
   the recovery: which of them and how many is a race in the code (errgroup, interrupted after k
   successes), so only "distinct stored parts other than the failed one, at least k of them
   complete" is required. *)
Definition memn (i : nat) (l : list nat) : bool := existsb (Nat.eqb i) l.
Definition flaky_n (i : nat) (fl : list (nat * N)) : option N :=
  match find (fun x => (fst x =? i)%nat) fl with Some (_, n) => Some n | None => None end.

Fixpoint ec_range_reads (missing : list nat) (flaky : list (nat * N)) (t : list (nat * N * N)) : list rd * option nat :=
  match t with
  | [] => ([], None)
  | (i, po, pl) :: r =>
    if memn i missing then ([], Some i)
    else if (i =? 0)%nat then ec_range_reads missing flaky r
    else
      let broken := match flaky_n i flaky with Some n => n <? pl | None => false end in
      if broken then ([(i, 1%nat, po, pl)], Some i)
      else let '(rs, f) := ec_range_reads missing flaky r in ((i, 1%nat, po, pl) :: rs, f)
  end.

Definition is_hdr (x : rd) : bool := let '(_, m, _, _) := x in (m =? 0)%nat.
Definition is_rec (x : rd) : bool := let '(_, m, _, s) := x in (m =? 1)%nat && (s =? 0).
Definition is_rng (x : rd) : bool := let '(_, m, _, s) := x in (m =? 1)%nat && negb (s =? 0).

Fixpoint strictly_inc (l : list nat) : bool :=
  match l with
  | a :: ((b :: _) as t) => (a <? b)%nat && strictly_inc t
  | _ => true
  end.

Definition ec_loss_trace_ok (sizes : list N) (m : nat) (missing : list nat) (flaky : list (nat * N)) (o l : N) (reads : list rd) : bool :=
  let n := (length sizes + m)%nat in
  let per := hd 0 sizes in
  let '(want_rng, f) := ec_range_reads missing flaky (indexed 0 (fwd o l sizes)) in
  forallb (fun x => is_hdr x || is_rec x || is_rng x) reads &&
  match find (fun i => negb (memn i missing)) (seq 0 n) with
  | Some p0 => rds_eqb (filter is_hdr reads) [(p0, 0%nat, 0, 0)]
  | None => false
  end &&
  rds_eqb (filter is_rng reads) want_rng &&
  let idxs := map (fun x : rd => fst (fst (fst x))) (filter is_rec reads) in
  match f with
  | None => (length idxs =? 0)%nat
  | Some fi =>
    strictly_inc idxs &&
    forallb (fun i => (i <? n)%nat && negb (i =? fi)%nat && negb (memn i missing)) idxs &&
    (length sizes <=? length (filter (fun i => match flaky_n i flaky with Some fn => (per <=? fn)%N | None => true end) idxs))%nat
  end.

Definition trace_ok (c : gcase) (md : rmode) (o l : N) (reads : list rd) : bool :=
  let '(kind, ver, link, len, sizes, k, m, missing, flaky, _) := c in
  let lossy := negb (length missing =? 0)%nat || negb (length flaky =? 0)%nat in
  let ranged := match md with MNone => false | _ => true end in
  if (kind =? 2)%nat && lossy && ranged && negb (len =? 0) then ec_loss_trace_ok sizes m missing flaky o l reads
  else match expected_reads c md o l with
       | None => true
       | Some want => rds_eqb (filter (fun x => (fst (fst (fst x)) <? length sizes)%nat) reads) want
       end.

Definition res_ok (c : gcase) (r : res) : bool :=
  let '(kind, ver, link, len, sizes, k, _, _, _, _) := c in
  let '(m, f, s, status, got, ref_oor, ref_off, ref_len, reads) := r in
  match resolve (mode_of m) f s len with
  | None => (status =? 1)%nat && ref_oor
  | Some (o, l) =>
    (status =? 0)%nat && (got =? l) && negb ref_oor && (ref_off =? o) && (ref_len =? l) &&
    trace_ok c (mode_of m) o l reads
  end.

Fixpoint bad_res (j : nat) (c : gcase) (rs : list res) : list nat :=
  match rs with
  | [] => []
  | r :: t => if res_ok c r then bad_res (S j) c t else j :: bad_res (S j) c t
  end.

(* codes: 1000 * case index + result index *)
Fixpoint mism_from (ci : nat) (cs : list gcase) : list nat :=
  match cs with
  | [] => []
  | c :: t =>
    let '(_, _, _, _, _, _, _, _, _, rs) := c in
    map (fun j => (1000 * ci + j)%nat) (bad_res 0 c rs) ++ mism_from (S ci) t
  end.
Definition model_mismatches := mism_from 0.
