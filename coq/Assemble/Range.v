(* C23: arithmetic cores of object assembly in pkg/services/object/get, as list
   functions over child sizes.  Model file: definitions only.
   Requests are aligned with the list of children: None = child not read,
   Some (off, len) = that sub-range of the child's payload is read. *)
From Coq Require Import NArith List Bool.
Import ListNotations.
From NV Require Import Base.U64.
Local Open Scope N_scope.

(* ---- common.PayloadRange.Resolve ---- *)
Inductive rmode := MNone | MOffLen | MBounds | MFrom | MSuffix.

Definition resolve (m : rmode) (first second n : N) : option (N * N) :=
  let check (o l : N) := if negb (l =? 0) && ((n <=? o) || (n - o <? l)) then None else Some (o, l) in
  match m with
  | MNone => check 0 n
  | MOffLen =>
    if second =? 0 then (if negb (first =? 0) then None else check 0 n) else check first second
  | MBounds =>
    if (second <? first) || (n <=? first) then None
    else let last := N.min second (n - 1) in check first (last - first + 1)
  | MFrom => if n <=? first then None else check first (n - first)
  | MSuffix => if first =? 0 then None else let l := N.min first n in check (n - l) l
  end.

(* range pre-check of initFromChild / processV2Link on uint64:
   seekTo := seekOff + seekLen; seekTo < seekOff || parSize < seekOff || parSize < seekTo *)
Definition precheck_oor (off ln par : N) : bool :=
  let seek_to := add64 off ln in
  (seek_to <? off) || (par <? off) || (par <? seek_to).

(* ---- forward: requiredChildrenIter + rangeFromLink / copyECPartsRanges ---- *)
Fixpoint fwd (off ln : N) (sizes : list N) : list (option (N * N)) :=
  match sizes with
  | [] => []
  | s :: r =>
    if ln =? 0 then None :: fwd 0 0 r
    else if s <=? off then None :: fwd (off - s) ln r          (* bytesSeen <= leftBound *)
    else let take := N.min ln (s - off) in
         Some (off, take) :: fwd 0 (ln - take) r
  end.

(* ---- backward: buildChainInReverse (children given last-to-first) ---- *)
Fixpoint bwd (cur from to : N) (rsizes : list N) : list (option (N * N)) :=
  match rsizes with
  | [] => []
  | s :: r =>
    if cur <=? from then None :: bwd cur from to r              (* loop left *)
    else
      let cur' := cur - s in
      (if cur' <? to then
         let off := if cur' <? from then from - cur' else 0 in
         let sz0 := s - off in
         let sz := if to <? cur' + off + sz0 then to - off - cur' else sz0 in
         Some (off, sz)
       else None) :: bwd cur' from to r
  end.

(* initFromChild: sub-range of the last child (V1, walking back from the last part) *)
Definition last_child_range (par child off ln : N) : option (N * N) :=
  let start_right := par - child in
  let from := if start_right <? off then off - start_right else 0 in
  let to := if start_right + from <? off + ln then N.min (off + ln - start_right) child else 0 in
  if from <? to then Some (from, to - from) else None.

(* whole V1 read from the last part: last child first, then the chain *)
Definition v1_requests (off ln : N) (rsizes : list N) : list (option (N * N)) :=
  match rsizes with
  | [] => []
  | s :: r =>
    let par := fold_right N.add 0 (s :: r) in
    last_child_range par s off ln :: bwd (par - s) off (off + ln) r
  end.

(* EC: fullPartLen and calcECRangeBufferLen *)
Definition ec_part_len (pld k : N) : N := (pld + k - 1) / k.

(* ---- reading ---- *)
Section Read.
  Context {A : Type}.
  Definition slice (off ln : N) (l : list A) : list A :=
    firstn (N.to_nat ln) (skipn (N.to_nat off) l).
  Definition len (l : list A) : N := N.of_nat (length l).
  Definition apply_req (q : option (N * N)) (c : list A) : list A :=
    match q with None => [] | Some (o, l) => slice o l c end.
  Fixpoint read_all (reqs : list (option (N * N))) (cs : list (list A)) : list A :=
    match reqs, cs with
    | q :: qs, c :: cs' => apply_req q c ++ read_all qs cs'
    | _, _ => []
    end.
  (* children and requests given last-to-first; bytes produced first-to-last *)
  Fixpoint read_all_rev (reqs : list (option (N * N))) (rcs : list (list A)) : list A :=
    match reqs, rcs with
    | q :: qs, c :: cs' => read_all_rev qs cs' ++ apply_req q c
    | _, _ => []
    end.
End Read.
