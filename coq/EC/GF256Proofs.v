(* Field laws of GF(2^8) (model EC/GF256.v) for all bytes.
   Finite facts are decided by vm_compute over the full domain (256 or 256^2
   values) and lifted with forallb_forall; associativity and distributivity
   are then proved by induction on the bits of the multiplier, so no 2^24
   sweep is needed. *)
From Coq Require Import NArith List Bool Lia.
Import ListNotations.
From NV Require Import EC.GF256.
Local Open Scope N_scope.

Lemma in_bytes256 a : a < 256 -> In a bytes256.
Proof.
  intros H. unfold bytes256. apply in_map_iff. exists (N.to_nat a). split.
  - apply N2Nat.id.
  - apply in_seq. lia.
Qed.

Lemma all1 (P : N -> bool) :
  forallb P bytes256 = true -> forall a, a < 256 -> P a = true.
Proof. intros H a Ha. rewrite forallb_forall in H. apply H, in_bytes256, Ha. Qed.

Lemma all2 (P : N -> N -> bool) :
  forallb (fun a => forallb (P a) bytes256) bytes256 = true ->
  forall a b, a < 256 -> b < 256 -> P a b = true.
Proof.
  intros H a b Ha Hb. pose proof (all1 _ H a Ha) as H1. cbv beta in H1.
  exact (all1 _ H1 b Hb).
Qed.

(* ---- finite sweeps ---- *)
Lemma lxor_byte a b : a < 256 -> b < 256 -> N.lxor a b < 256.
Proof.
  intros Ha Hb. apply N.ltb_lt.
  exact (all2 (fun a b => N.lxor a b <? 256) ltac:(vm_compute; reflexivity) a b Ha Hb).
Qed.

Lemma xtime_byte a : a < 256 -> xtime a < 256.
Proof.
  intros Ha. apply N.ltb_lt.
  exact (all1 (fun a => xtime a <? 256) ltac:(vm_compute; reflexivity) a Ha).
Qed.

Lemma xtime_lxor a b : a < 256 -> b < 256 -> xtime (N.lxor a b) = N.lxor (xtime a) (xtime b).
Proof.
  intros Ha Hb. apply N.eqb_eq.
  exact (all2 (fun a b => xtime (N.lxor a b) =? N.lxor (xtime a) (xtime b))
              ltac:(vm_compute; reflexivity) a b Ha Hb).
Qed.

Lemma gmul_comm a b : a < 256 -> b < 256 -> gmul a b = gmul b a.
Proof.
  intros Ha Hb. apply N.eqb_eq.
  exact (all2 (fun a b => gmul a b =? gmul b a) ltac:(vm_compute; reflexivity) a b Ha Hb).
Qed.

Lemma xtime_gmul a b : a < 256 -> b < 256 -> xtime (gmul a b) = gmul a (xtime b).
Proof.
  intros Ha Hb. apply N.eqb_eq.
  exact (all2 (fun a b => xtime (gmul a b) =? gmul a (xtime b))
              ltac:(vm_compute; reflexivity) a b Ha Hb).
Qed.

Lemma ginv_byte a : a < 256 -> ginv a < 256.
Proof.
  intros Ha. apply N.ltb_lt.
  exact (all1 (fun a => ginv a <? 256) ltac:(vm_compute; reflexivity) a Ha).
Qed.

Lemma gmul_inv_raw a : a < 256 -> ((a =? 0) || (gmul a (ginv a) =? 1)) = true.
Proof.
  intros Ha.
  exact (all1 (fun a => (a =? 0) || (gmul a (ginv a) =? 1)) ltac:(vm_compute; reflexivity) a Ha).
Qed.

(* ---- closure ---- *)
Lemma pmul_byte b : forall a, a < 256 -> pmul a b < 256.
Proof.
  induction b as [b IH | b IH |]; intros a Ha; simpl.
  - apply lxor_byte; [exact Ha | apply IH, xtime_byte, Ha].
  - apply IH, xtime_byte, Ha.
  - exact Ha.
Qed.

Lemma gmul_byte a b : a < 256 -> gmul a b < 256.
Proof. intros Ha. destruct b; simpl; [lia | apply pmul_byte, Ha]. Qed.

Lemma gpow_byte a n : a < 256 -> gpow a n < 256.
Proof. intros Ha. destruct n; simpl; [lia | apply gmul_byte, Ha]. Qed.

(* ---- additive group ---- *)
Lemma gadd_comm a b : gadd a b = gadd b a.       Proof. apply N.lxor_comm. Qed.
Lemma gadd_assoc a b c : gadd (gadd a b) c = gadd a (gadd b c). Proof. apply N.lxor_assoc. Qed.
Lemma gadd_0_l a : gadd 0 a = a.                  Proof. apply N.lxor_0_l. Qed.
Lemma gadd_0_r a : gadd a 0 = a.                  Proof. apply N.lxor_0_r. Qed.
Lemma gadd_self a : gadd a a = 0.                 Proof. apply N.lxor_nilpotent. Qed.
Lemma gadd_byte a b : a < 256 -> b < 256 -> gadd a b < 256. Proof. apply lxor_byte. Qed.

(* ---- multiplication ---- *)
Lemma gmul_0_r a : gmul a 0 = 0.  Proof. reflexivity. Qed.
Lemma gmul_1_r a : gmul a 1 = a.  Proof. reflexivity. Qed.
Lemma gmul_0_l a : a < 256 -> gmul 0 a = 0.
Proof. intros Ha. rewrite gmul_comm by (assumption || lia). reflexivity. Qed.
Lemma gmul_1_l a : a < 256 -> gmul 1 a = a.
Proof. intros Ha. rewrite gmul_comm by (assumption || lia). reflexivity. Qed.

(* left distributivity: by induction on the bits of the multiplier *)
Lemma pmul_lxor_l b : forall a a', a < 256 -> a' < 256 ->
  pmul (N.lxor a a') b = N.lxor (pmul a b) (pmul a' b).
Proof.
  induction b as [b IH | b IH |]; intros a a' Ha Ha'; simpl.
  - rewrite xtime_lxor, IH by (assumption || apply xtime_byte; assumption).
    rewrite !N.lxor_assoc. f_equal.
    rewrite <- !N.lxor_assoc. f_equal. apply N.lxor_comm.
  - rewrite xtime_lxor, IH by (assumption || apply xtime_byte; assumption). reflexivity.
  - reflexivity.
Qed.

Lemma gmul_gadd_l a a' b : a < 256 -> a' < 256 ->
  gmul (gadd a a') b = gadd (gmul a b) (gmul a' b).
Proof.
  intros Ha Ha'. destruct b; simpl; [reflexivity | apply pmul_lxor_l; assumption].
Qed.

Lemma gmul_gadd_r a b b' : a < 256 -> b < 256 -> b' < 256 ->
  gmul a (gadd b b') = gadd (gmul a b) (gmul a b').
Proof.
  intros Ha Hb Hb'.
  rewrite (gmul_comm a (gadd b b')) by (assumption || apply gadd_byte; assumption).
  rewrite gmul_gadd_l by assumption.
  rewrite (gmul_comm b a), (gmul_comm b' a) by assumption. reflexivity.
Qed.

(* associativity: by induction on the bits of the last factor *)
Lemma pmul_assoc c : forall a b, a < 256 -> b < 256 ->
  pmul (gmul a b) c = gmul a (pmul b c).
Proof.
  induction c as [c IH | c IH |]; intros a b Ha Hb; simpl.
  - rewrite xtime_gmul by assumption.
    rewrite IH by (assumption || apply xtime_byte; assumption).
    change (N.lxor b (pmul (xtime b) c)) with (gadd b (pmul (xtime b) c)).
    rewrite gmul_gadd_r by (assumption || apply pmul_byte, xtime_byte; assumption).
    reflexivity.
  - rewrite xtime_gmul by assumption.
    apply IH; [assumption | apply xtime_byte; assumption].
  - reflexivity.
Qed.

Lemma gmul_assoc a b c : a < 256 -> b < 256 ->
  gmul (gmul a b) c = gmul a (gmul b c).
Proof.
  intros Ha Hb. destruct c; simpl; [reflexivity | apply pmul_assoc; assumption].
Qed.

Lemma gmul_inv a : a < 256 -> a <> 0 -> gmul a (ginv a) = 1.
Proof.
  intros Ha Hz. pose proof (gmul_inv_raw a Ha) as H.
  apply orb_true_iff in H. destruct H as [H | H]; apply N.eqb_eq in H; congruence.
Qed.

(* no zero divisors *)
Lemma gmul_eq_0 a b : a < 256 -> b < 256 -> gmul a b = 0 -> a = 0 \/ b = 0.
Proof.
  intros Ha Hb H. destruct (N.eq_dec a 0) as [-> | Hz]; [now left | right].
  assert (E : gmul (ginv a) (gmul a b) = b).
  { rewrite <- gmul_assoc by (assumption || apply ginv_byte; assumption).
    rewrite (gmul_comm (ginv a) a) by (assumption || apply ginv_byte; assumption).
    rewrite gmul_inv by assumption. apply gmul_1_l, Hb. }
  rewrite H in E. simpl in E. congruence.
Qed.
