(* GF(2^8) as used by github.com/klauspost/reedsolomon (galois.go): bytes are
   polynomials over GF(2) modulo x^8+x^4+x^3+x^2+1 (0x11d = 285, "generating
   polynomial 29" once the x^8 bit is dropped), generator 2.
   Model file: definitions only (executable).  Elements are N below 256. *)
From Coq Require Import NArith List Bool.
Import ListNotations.
Local Open Scope N_scope.

Definition gf_poly : N := 285.            (* 0x11d *)

Definition byteb (a : N) : bool := a <? 256.
Definition is_byte (a : N) : Prop := a < 256.

Definition gadd (a b : N) : N := N.lxor a b.

(* multiplication by x, reduced *)
Definition xtime (a : N) : N :=
  let b := N.double a in if 256 <=? b then N.lxor b gf_poly else b.

(* shift-and-add multiplication, structural on the bits of b:
   a * (2b') = (x a) * b',   a * (2b'+1) = a + (x a) * b' *)
Fixpoint pmul (a : N) (b : positive) : N :=
  match b with
  | xH => a
  | xO b' => pmul (xtime a) b'
  | xI b' => N.lxor a (pmul (xtime a) b')
  end.
Definition gmul (a b : N) : N := match b with 0 => 0 | Npos p => pmul a p end.

Fixpoint gpow (a : N) (n : nat) : N :=
  match n with O => 1 | S n' => gmul a (gpow a n') end.

(* a^254 = a^-1 for a <> 0 (galOneOver), by repeated squaring:
   254 = 2+4+8+16+32+64+128 *)
Definition gsq (a : N) : N := gmul a a.
Definition ginv (a : N) : N :=
  let a2 := gsq a in let a4 := gsq a2 in let a8 := gsq a4 in let a16 := gsq a8 in
  let a32 := gsq a16 in let a64 := gsq a32 in let a128 := gsq a64 in
  gmul a2 (gmul a4 (gmul a8 (gmul a16 (gmul a32 (gmul a64 a128))))).

(* galExp(a, n) of the library: a^n with 0^0 = 1 *)
Definition gal_exp (a : N) (n : nat) : N := gpow a n.

Definition bytes256 : list N := map N.of_nat (seq 0 256).

(* expTable[0..254] of the library: powers of the generator 2 *)
Definition exp_table : list N := map (gpow 2) (seq 0 255).
