(* Model of internal/ec/policy.go: NodeSequenceForPart (C22).

   Go:
     for shift := 0; shift <= totalParts-1; shift++ {
       for i := (partIdx + shift) % totalParts; i < nodes; i += totalParts {
         yield(i)
       }
     }
   totalParts = 0 makes Go divide by zero (panic); the model returns [] there
   and every theorem excludes it by the premise 0 < t. *)
From Coq Require Import List Arith Lia.
Import ListNotations.

(* inner loop: i, i+t, i+2t, ... while < n; fuel bounds the number of steps *)
Fixpoint stride (fuel i t n : nat) : list nat :=
  match fuel with
  | O => []
  | S f => if Nat.ltb i n then i :: stride f (i + t) t n else []
  end.

Definition node_seq (p t n : nat) : list nat :=
  match t with
  | O => []
  | _ => flat_map (fun shift => stride n ((p + shift) mod t) t n) (seq 0 t)
  end.

(* first element as the iterator consumer sees it *)
Definition first_node (p t n : nat) : option nat := hd_error (node_seq p t n).
