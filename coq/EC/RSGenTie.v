(* Tie of the field to the library source: Gen/ECConsts.v is regenerated from
   reedsolomon/galois.go (expTable) on every run; it must be the table of powers
   of the generator 2 modulo 0x11d. *)
From Coq Require Import NArith List.
From NV Require Import EC.GF256 Gen.ECConsts.

Lemma lib_exp_table_ok : lib_exp_table = exp_table.
Proof. vm_compute. reflexivity. Qed.
