(* Buffer-level model of reedsolomon.Split + Encode as iec.Encode calls them,
   for the multi-rule clause of C21: the payload slice has a length and a
   capacity; Split re-uses spare capacity (cap > len) for padding and parity
   shards, so shards may alias the caller's backing array.
   Model file: definitions only. *)
From Coq Require Import NArith List Bool Arith.
Import ListNotations.
From NV Require Import EC.GF256 EC.LinAlg EC.RS.

(* the backing array has length = cap(data); the payload is its first [len] bytes *)
Definition slice (off len : nat) (mem : list N) : list N := firstn len (skipn off mem).
Definition write (off : nat) (bs : list N) (mem : list N) : list N :=
  firstn off mem ++ bs ++ skipn (off + length bs) mem.

(* a shard is a window of the caller's array or a fresh allocation *)
Inductive view := VBuf (off : nat) | VOwn (bs : list N).

Definition read (per : nat) (mem : list N) (v : view) : list N :=
  match v with VBuf off => slice off per mem | VOwn bs => bs end.

(* reedSolomon.Split(data) with len(data) = len > 0, cap(data) = length mem.
   Returns the array after Split (spare capacity cleared) and the n shard views. *)
Definition split_buf (k n len : nat) (mem : list N) : list N * list view :=
  let cap := length mem in
  let per := part_len k len in
  let need := n * per in
  let dlen := if len <? cap then Nat.min cap need else len in      (* len(data) after re-slicing *)
  let mem' := if len <? cap then write len (repeat 0%N (dlen - len)) mem else mem in
  let full := if dlen <? need then dlen / per else n in             (* shards taken from the array *)
  let tail := if per * full <? len then slice (per * full) (len - per * full) mem' else [] in
  let padding := chunks per (n - full) (pad_to ((n - full) * per) tail) in
  (mem', map (fun i => VBuf (i * per)) (seq 0 full) ++ map VOwn padding).

(* Split followed by Encode: parity shards are overwritten where they live *)
Fixpoint write_parity (per : nat) (mem : list N) (views : list view) (parity : mat)
  : list N * list view :=
  match views, parity with
  | VBuf off :: vs, p :: ps =>
    let '(mem', vs') := write_parity per (write off p mem) vs ps in (mem', VBuf off :: vs')
  | VOwn _ :: vs, p :: ps =>
    let '(mem', vs') := write_parity per mem vs ps in (mem', VOwn p :: vs')
  | _, _ => (mem, views)
  end.

(* iec.Encode(rule, data) on the shared array; [] views for the empty payload *)
Definition encode_buf (k m len : nat) (mem : list N) : list N * list view :=
  match len with
  | O => (mem, map VOwn (repeat [] (k + m)))
  | _ =>
    let n := k + m in
    let per := part_len k len in
    let '(mem1, views) := split_buf k n len mem in
    let d := map (read per mem1) (firstn k views) in
    let parity := mat_mul per (skipn k (coding_matrix k n)) d in
    let '(mem2, pviews) := write_parity per mem1 (skipn k views) parity in
    (mem2, firstn k views ++ pviews)
  end.

(* modifyECParentObject: for _, rule := range rules { Encode(rule, payload) },
   all results kept (t.encodedECParts) while later rules are encoded *)
Fixpoint multi_encode (rules : list (nat * nat)) (len : nat) (mem : list N)
  : list N * list (nat * list view) :=
  match rules with
  | [] => (mem, [])
  | (k, m) :: rest =>
    let '(mem1, views) := encode_buf k m len mem in
    let '(mem2, others) := multi_encode rest len mem1 in
    (mem2, (part_len k len, views) :: others)
  end.

(* what the caller sees in rule i's parts after all rules were encoded *)
Definition final_parts (res : list N * list (nat * list view)) : list mat :=
  map (fun pv => map (read (fst pv) (fst res)) (snd pv)) (snd res).

(* what each rule's parts were right after its own Encode call *)
Fixpoint parts_when_encoded (rules : list (nat * nat)) (len : nat) (mem : list N) : list mat :=
  match rules with
  | [] => []
  | (k, m) :: rest =>
    let '(mem1, views) := encode_buf k m len mem in
    map (read (part_len k len) mem1) views :: parts_when_encoded rest len mem1
  end.

(* bytes.Buffer as modifyECParentObject uses it: NewBuffer(b[:0:cap]) then a
   sequence of Write calls (io.Copy from the slicer's MultiReader of
   bytes.Readers ends in Buffer.Write per chunk).  State = (len, cap).
   Write re-slices when the chunk fits and otherwise re-allocates (cap grows:
   at least 2*cap + n in the Go runtime; any value >= len + n here). *)
Definition buf_write (st : nat * nat) (chunk : nat) : nat * nat :=
  let '(len, cap) := st in
  if len + chunk <=? cap then (len + chunk, cap) else (len + chunk, 2 * cap + chunk).

Definition buf_write_all (cap : nat) (chunks : list nat) : nat * nat :=
  fold_left buf_write chunks (0, cap).
