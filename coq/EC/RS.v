(* Reed-Solomon coding as internal/ec/ec.go drives klauspost/reedsolomon:
   coding matrix (buildMatrix), Split with zero padding, Encode,
   ReconstructSome, and iec.Encode / Decode / DecodeRange / DecodeIndexes /
   ConcatDataParts.  Model file: definitions only.
   A part (shard) is a list of bytes; a missing part is the empty list, as in
   the library (len(shard) == 0). *)
From Coq Require Import NArith List Bool Arith.
Import ListNotations.
From NV Require Import EC.GF256 EC.LinAlg.

(* vandermonde(rows, cols): result[r][c] = galExp(byte(r), c) *)
Definition vandermonde (n k : nat) : mat :=
  map (fun r => map (fun c => gal_exp (N.of_nat r) c) (seq 0 k)) (seq 0 n).

(* buildMatrix(dataShards, totalShards) = vm * inverse(top square of vm) *)
Definition coding_matrix (k n : nat) : mat :=
  let vm := vandermonde n k in
  match invert (firstn k vm) with
  | Some ti => mat_mul k vm ti
  | None => []
  end.

(* perShard := (len(data) + dataShards - 1) / dataShards *)
Definition part_len (k len : nat) : nat := (len + k - 1) / k.

Fixpoint chunks (per cnt : nat) (l : list N) : mat :=
  match cnt with
  | O => []
  | S c => firstn per l :: chunks per c (skipn per l)
  end.

Definition pad_to (L : nat) (l : list N) : list N := l ++ repeat 0%N (L - length l).

(* the k data shards produced by Split (observationally: zero padded chunks) *)
Definition split_data (k : nat) (data : list N) : mat :=
  let per := part_len k (length data) in
  chunks per k (pad_to (k * per) data).

(* iec.Encode: parts only *)
Definition encode (k m : nat) (data : list N) : mat :=
  match data with
  | [] => repeat [] (k + m)
  | _ =>
    let d := split_data k data in
    let per := part_len k (length data) in
    d ++ mat_mul per (skipn k (coding_matrix k (k + m))) d
  end.

Definition is_nil (s : vec) : bool := match s with [] => true | _ => false end.

Fixpoint erase (mask : list bool) (parts : mat) : mat :=
  match mask, parts with
  | b :: mask', p :: parts' => (if b then p else []) :: erase mask' parts'
  | _, _ => []
  end.

(* shardSize: first non-zero length *)
Fixpoint shard_size (shards : mat) : nat :=
  match shards with
  | [] => 0
  | s :: r => if is_nil s then shard_size r else length s
  end.

Fixpoint present_idx (i : nat) (shards : mat) : list nat :=
  match shards with
  | [] => []
  | s :: r => if is_nil s then present_idx (S i) r else i :: present_idx (S i) r
  end.

Definition count_missing_required (shards : mat) (required : list bool) : nat :=
  length (filter (fun sr => is_nil (fst sr) && snd sr) (combine shards required)).

(* reedSolomon.reconstruct(shards, dataOnly = (len(required) == dataShards), required)
   with len(required) = k + m as internal/ec passes it. None = error. *)
Definition reconstruct (k m : nat) (shards : mat) (required : list bool) : option mat :=
  let n := k + m in
  if negb (length shards =? n) then None else            (* ErrTooFewShards *)
  let size := shard_size shards in
  if size =? 0 then None else                             (* ErrShardNoData *)
  if negb (forallb (fun s => (length s =? size) || is_nil s) shards) then None else  (* ErrShardSize *)
  let present := present_idx 0 shards in
  let np := length present in
  let dp := length (filter (fun i => i <? k) present) in
  let data_only := m =? 0 in
  if (np =? n) || (data_only && (dp =? k)) || (count_missing_required shards required =? 0)
  then Some shards else
  if np <? k then None else                               (* ErrTooFewShards *)
  let valid := firstn k present in
  let sub := select valid shards in
  let cm := coding_matrix k n in
  match invert (select valid cm) with
  | None => None                                          (* errSingular *)
  | Some dec =>
    Some (map (fun i =>
            let s := nth i shards [] in
            if is_nil s && nth i required false then
              if i <? k then lincomb size (nth i dec []) sub
              else if data_only then s
              else lincomb size (lincomb k (nth i cm []) dec) sub
            else s)
          (seq 0 n))
  end.

Definition required_of (n : nat) (idxs : list nat) : list bool :=
  map (fun i => existsb (Nat.eqb i) idxs) (seq 0 n).

(* islices.TwoDimSliceElementCount *)
Definition total_len (ps : mat) : nat := length (concat ps).

(* iec.ConcatDataParts *)
Definition concat_data_parts (k len : nat) (parts : mat) : list N :=
  firstn len (concat (firstn k parts)).

(* iec.Decode *)
Definition decode (k m len : nat) (parts : mat) : option (list N) :=
  match reconstruct k m parts (required_of (k + m) (seq 0 k)) with
  | None => None
  | Some ps =>
    if total_len (firstn k ps) <? len then None
    else Some (concat_data_parts k len ps)
  end.

(* iec.DecodeIndexes: parts are updated in place; None = error *)
Definition decode_indexes (k m : nat) (parts : mat) (idxs : list nat) : option mat :=
  reconstruct k m parts (required_of (k + m) idxs).

(* iec.DecodeRange(from, to): required[i] for from <= i <= to *)
Definition decode_range (k m from to : nat) (parts : mat) : option mat :=
  reconstruct k m parts (required_of (k + m) (seq from (S to - from))).

(* part hashes announced by iec.Encode, over an abstract hash *)
Definition encode_hashes {D} (H : list N -> D) (k m : nat) (data : list N) : list D :=
  map H (encode k m data).
