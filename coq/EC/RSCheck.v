(* Executable comparison used by the correspondence check of C21.
   A case = one payload encoded under one rule by iec.Encode together with the
   observed results of iec.Decode / DecodeRange / DecodeIndexes on erased
   (and sometimes malformed) part sets. *)
From Coq Require Import NArith List Bool Arith.
Import ListNotations.
From NV Require Import EC.GF256 EC.LinAlg EC.RS.

Inductive opkind := KDecode | KRange (from to : nat) | KIdx (idxs : list nat).

(* (kind, mask, trunc (part cut by one byte; none = >= number of parts), ok, payload out, parts after) *)
Definition op := (opkind * list bool * option nat * bool * list N * mat)%type.

(* (k, m, data, enc_ok, parts, hashes_ok, n_hashes, ops) *)
Definition case := (nat * nat * list N * bool * mat * bool * nat * list op)%type.

Definition truncate (t : option nat) (ps : mat) : mat :=
  match t with
  | None => ps
  | Some j => map (fun ip => if (fst ip =? j) then removelast (snd ip) else snd ip)
                  (combine (seq 0 (length ps)) ps)
  end.

Definition count_true (l : list bool) : nat := length (filter (fun b => b) l).

Definition op_input (parts : mat) (o : op) : mat :=
  let '(_, mask, tr, _, _, _) := o in truncate tr (erase mask parts).

Definition model_op_ok (k m len : nat) (parts : mat) (o : op) : bool :=
  let '(kind, mask, tr, ok, out, after) := o in
  let input := op_input parts o in
  match kind with
  | KDecode =>
    match decode k m len input with
    | Some d => ok && vec_eqb d out
    | None => negb ok
    end
  | KRange from to =>
    match decode_range k m from to input with
    | Some ps => ok && mat_eqb ps after
    | None => negb ok
    end
  | KIdx idxs =>
    match decode_indexes k m input idxs with
    | Some ps => ok && mat_eqb ps after
    | None => negb ok
    end
  end.

(* reference = right-hand sides of the C21 theorems on the implementation's outputs *)
Definition required_list (n : nat) (kind : opkind) : list bool :=
  match kind with
  | KDecode => required_of n (seq 0 0)
  | KRange from to => required_of n (seq from (S to - from))
  | KIdx idxs => required_of n idxs
  end.

Definition ref_op_ok (k m : nat) (data : list N) (parts : mat) (o : op) : bool :=
  let '(kind, mask, tr, ok, out, after) := o in
  let n := k + m in
  match tr, data with
  | Some _, _ => true                     (* malformed input: nothing promised *)
  | None, [] => true                      (* empty payload has no parts to decode *)
  | None, _ =>
    if count_true mask <? k then true     (* too few parts: nothing promised *)
    else match kind with
         | KDecode => ok && vec_eqb out data
         | _ =>
           ok && (length after =? n) &&
           forallb (fun i =>
                      let want := if nth i mask false || nth i (required_list n kind) false
                                  then nth i parts [] else [] in
                      vec_eqb (nth i after []) want)
                   (seq 0 n)
         end
  end.

Definition model_enc_ok (c : case) : bool :=
  let '(k, m, data, enc_ok, parts, hashes_ok, nh, ops) := c in
  enc_ok && mat_eqb (encode k m data) parts.

Definition ref_enc_ok (c : case) : bool :=
  let '(k, m, data, enc_ok, parts, hashes_ok, nh, ops) := c in
  enc_ok && hashes_ok && (nh =? k + m) && (length parts =? k + m)
  && forallb (fun p => length p =? part_len k (length data)) parts
  && vec_eqb (firstn (length data) (concat (firstn k parts))) data.

Fixpoint bad_ops (i : nat) (f : op -> bool) (ops : list op) : list nat :=
  match ops with
  | [] => []
  | o :: r => if f o then bad_ops (S i) f r else i :: bad_ops (S i) f r
  end.

(* codes: 1000 * case index + (0 for the encoding itself | 1 + op index) *)
Fixpoint mism_from (ci : nat) (fe : case -> bool) (fo : case -> op -> bool) (cs : list case) : list nat :=
  match cs with
  | [] => []
  | c :: r =>
    let '(_, _, _, _, _, _, _, ops) := c in
    (if fe c then [] else [1000 * ci]) ++
    map (fun j => 1000 * ci + 1 + j) (bad_ops 0 (fo c) ops) ++
    mism_from (S ci) fe fo r
  end.

Definition model_mismatches : list case -> list nat :=
  mism_from 0 model_enc_ok
    (fun c o => let '(k, m, data, _, parts, _, _, _) := c in model_op_ok k m (length data) parts o).
Definition ref_mismatches : list case -> list nat :=
  mism_from 0 ref_enc_ok
    (fun c o => let '(k, m, data, _, parts, _, _, _) := c in ref_op_ok k m data parts o).
