(* Executable comparison used by the correspondence check of C22.
   A case is (p, t, n, sequence observed from the Go implementation). *)
From Coq Require Import List Arith Bool.
Import ListNotations.
From NV Require Import EC.NodeSeq.

Definition case := (nat * nat * nat * list nat)%type.

Definition list_nat_eqb (a b : list nat) : bool :=
  if list_eq_dec Nat.eq_dec a b then true else false.

(* reference = right-hand sides of the C22 theorems, evaluated on the
   implementation's output (independent of node_seq) *)
Fixpoint count (x : nat) (l : list nat) : nat :=
  match l with [] => 0 | y :: r => (if Nat.eqb x y then 1 else 0) + count x r end.

Definition ref_ok (c : case) : bool :=
  let '(p, t, n, obs) := c in
  Nat.eqb (length obs) n
  && forallb (fun x => Nat.eqb (count x obs) 1) (seq 0 n)
  && (if (Nat.ltb p t && Nat.leb t n)%bool then
        match obs with x :: _ => Nat.eqb x p | [] => false end
      else true).

Definition model_ok (c : case) : bool :=
  let '(p, t, n, obs) := c in list_nat_eqb (node_seq p t n) obs.

(* indices of cases where implementation and model / reference disagree *)
Fixpoint mism_from (i : nat) (f : case -> bool) (cs : list case) : list nat :=
  match cs with
  | [] => []
  | c :: r => if f c then mism_from (S i) f r else i :: mism_from (S i) f r
  end.
Definition model_mismatches := mism_from 0 model_ok.
Definition ref_mismatches := mism_from 0 ref_ok.
