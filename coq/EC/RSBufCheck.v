(* Executable comparison for the multi-rule tie of C21: several iec.Encode
   calls on one slice (len, cap) -- parts as seen right after each call and
   after all calls, against the buffer model and against the reference. *)
From Coq Require Import NArith List Bool Arith.
Import ListNotations.
From NV Require Import EC.GF256 EC.LinAlg EC.RS EC.RSBuf.

(* (rules, len, backing array, ok, parts after own call, parts at the end, payload at the end) *)
Definition mcase := (list (nat * nat) * nat * list N * bool * list mat * list mat * list N)%type.

Definition mats_eqb (a b : list mat) : bool :=
  if list_eq_dec (list_eq_dec (list_eq_dec N.eq_dec)) a b then true else false.

Definition model_ok (c : mcase) : bool :=
  let '(rules, len, mem, ok, after, final, mem_end) := c in
  let res := multi_encode rules len mem in
  ok && mats_eqb (final_parts res) final
     && mats_eqb (parts_when_encoded rules len mem) after
     && vec_eqb (firstn len (fst res)) mem_end.

(* reference: every call returns the pure encoding of the payload; the payload
   is never modified; and when cap = len the kept parts never change *)
Definition ref_ok (c : mcase) : bool :=
  let '(rules, len, mem, ok, after, final, mem_end) := c in
  let pure := map (fun km => encode (fst km) (snd km) (firstn len mem)) rules in
  ok && mats_eqb after pure && vec_eqb mem_end (firstn len mem)
     && (if length mem =? len then mats_eqb final pure else true).

Fixpoint mism_from (i : nat) (f : mcase -> bool) (cs : list mcase) : list nat :=
  match cs with
  | [] => []
  | c :: r => if f c then mism_from (S i) f r else i :: mism_from (S i) f r
  end.
Definition model_mismatches := mism_from 0 model_ok.
Definition ref_mismatches := mism_from 0 ref_ok.
