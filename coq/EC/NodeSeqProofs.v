From Coq Require Import List Arith Lia Permutation.
Import ListNotations.
From NV Require Import EC.NodeSeq.

Lemma stride_in f i t n x :
  0 < t ->
  In x (stride f i t n) <-> exists k, k < f /\ x = i + k * t /\ x < n.
Proof.
  intros Ht. revert i. induction f as [|f IH]; intros i; cbn [stride].
  - split; [intros []|intros (k & Hk & _); lia].
  - destruct (Nat.ltb_spec i n) as [Hlt|Hge].
    + cbn [In]. rewrite IH. split.
      * intros [<-|(k & Hk & -> & Hx)].
        -- exists 0. lia.
        -- exists (S k). lia.
      * intros (k & Hk & -> & Hx). destruct k as [|k].
        -- left. lia.
        -- right. exists k. lia.
    + split; [intros []|]. intros (k & Hk & -> & Hx). nia.
Qed.

Lemma stride_lower f i t n x : In x (stride f i t n) -> i <= x.
Proof.
  revert i. induction f as [|f IH]; intros i; cbn [stride]; [intros []|].
  destruct (Nat.ltb i n); [|intros []].
  intros [<-|H]; [lia|]. apply IH in H. lia.
Qed.

Lemma stride_nodup f i t n : 0 < t -> NoDup (stride f i t n).
Proof.
  intros Ht. revert i. induction f as [|f IH]; intros i; cbn [stride]; [constructor|].
  destruct (Nat.ltb i n); [|constructor].
  constructor; [|apply IH]. intros H. apply stride_lower in H. lia.
Qed.

Lemma stride_mod f i t n x : 0 < t -> In x (stride f i t n) -> x mod t = i mod t.
Proof.
  intros Ht H. apply stride_in in H; [|exact Ht]. destruct H as (k & _ & -> & _).
  apply Nat.mod_add. lia.
Qed.

Lemma nodup_app {B} (l1 l2 : list B) :
  NoDup l1 -> NoDup l2 -> (forall x, In x l1 -> In x l2 -> False) -> NoDup (l1 ++ l2).
Proof.
  induction l1 as [|y ys IH]; intros H1 H2 Hd; cbn [app]; [exact H2|].
  inversion H1 as [|? ? Hny Hys]; subst. constructor.
  - rewrite in_app_iff. intros [H|H]; [contradiction|]. apply (Hd y); [now left|exact H].
  - apply IH; [exact Hys|exact H2|]. intros x Hx. apply Hd. now right.
Qed.

Lemma nodup_flat_map {A B} (f : A -> list B) (l : list A) :
  NoDup l ->
  (forall a, In a l -> NoDup (f a)) ->
  (forall a b x, In a l -> In b l -> a <> b -> In x (f a) -> In x (f b) -> False) ->
  NoDup (flat_map f l).
Proof.
  induction l as [|a l IH]; intros Hl Hf Hd; cbn [flat_map]; [constructor|].
  inversion Hl as [|? ? Hna Hl']; subst.
  apply nodup_app.
  - apply Hf. now left.
  - apply IH; [exact Hl'| |].
    + intros b Hb. apply Hf. now right.
    + intros b c x Hb Hc. apply Hd; now right.
  - intros x Hx Hx'. apply in_flat_map in Hx'. destruct Hx' as (b & Hb & Hxb).
    apply (Hd a b x); [now left|now right| |exact Hx|exact Hxb].
    intros ->. contradiction.
Qed.

Lemma node_seq_in p t n x : 0 < t -> In x (node_seq p t n) <-> x < n.
Proof.
  intros Ht. unfold node_seq. destruct t as [|t']; [lia|]. set (t := S t') in *.
  rewrite in_flat_map. split.
  - intros (s & _ & H). apply stride_in in H; [|exact Ht]. destruct H as (_ & _ & _ & H). exact H.
  - intros Hx.
    exists ((x mod t + t - p mod t) mod t). split.
    + apply in_seq. split; [lia|]. cbn [plus]. apply Nat.mod_upper_bound. lia.
    + apply stride_in; [exact Ht|].
      assert (Hr : (p + (x mod t + t - p mod t) mod t) mod t = x mod t).
      { rewrite Nat.add_mod_idemp_r by lia.
        rewrite <- Nat.add_mod_idemp_l by lia.
        assert (p mod t < t) by (apply Nat.mod_upper_bound; lia).
        assert (x mod t < t) by (apply Nat.mod_upper_bound; lia).
        replace (p mod t + (x mod t + t - p mod t)) with (x mod t + 1 * t) by lia.
        rewrite Nat.mod_add by lia. apply Nat.mod_mod. lia. }
      rewrite Hr. exists (x / t). split; [|split].
      * assert (x / t <= x) by (apply Nat.div_le_upper_bound; nia). lia.
      * pose proof (Nat.div_mod x t). lia.
      * exact Hx.
Qed.

Lemma node_seq_nodup p t n : 0 < t -> NoDup (node_seq p t n).
Proof.
  intros Ht. unfold node_seq. destruct t as [|t']; [lia|]. set (t := S t') in *.
  apply nodup_flat_map.
  - apply seq_NoDup.
  - intros s _. apply stride_nodup. exact Ht.
  - intros a b x Ha Hb Hab Hxa Hxb.
    apply stride_mod in Hxa; [|exact Ht]. apply stride_mod in Hxb; [|exact Ht].
    rewrite Nat.mod_mod in Hxa, Hxb by lia.
    apply in_seq in Ha. apply in_seq in Hb.
    assert (Heq : (p + a) mod t = (p + b) mod t) by congruence.
    (* a, b < t and p+a = p+b (mod t)  ->  a = b *)
    assert (Hlt : forall u v, u < t -> v < t -> u <= v -> (p + u) mod t = (p + v) mod t -> u = v).
    { intros u v Hu Hv Huv E.
      pose proof (Nat.div_mod (p + u) t). pose proof (Nat.div_mod (p + v) t).
      assert (Hq : (p + u) / t <= (p + v) / t) by (apply Nat.div_le_mono; lia).
      rewrite E in *.
      destruct (Nat.eq_dec ((p + u) / t) ((p + v) / t)) as [Hqe|Hqn]; [rewrite Hqe in *; lia|].
      assert (t * ((p + u) / t) + t <= t * ((p + v) / t)) by nia. lia. }
    destruct (Nat.le_ge_cases a b) as [Hle|Hle].
    + apply Hab. apply Hlt; [lia|lia|exact Hle|exact Heq].
    + apply Hab. symmetry. apply Hlt; [lia|lia|exact Hle|symmetry; exact Heq].
Qed.

Lemma node_seq_perm p t n : 0 < t -> Permutation (node_seq p t n) (seq 0 n).
Proof.
  intros Ht. apply NoDup_Permutation.
  - apply node_seq_nodup. exact Ht.
  - apply seq_NoDup.
  - intros x. rewrite node_seq_in by exact Ht. rewrite in_seq. lia.
Qed.

Lemma node_seq_first p t n : p < t -> t <= n -> first_node p t n = Some p.
Proof.
  intros Hp Htn. unfold first_node, node_seq.
  destruct t as [|t']; [lia|]. set (t := S t') in *.
  change (seq 0 t) with (0 :: seq 1 t'). cbn [flat_map].
  rewrite Nat.add_0_r. rewrite Nat.mod_small by exact Hp.
  destruct n as [|n']; [lia|]. cbn [stride].
  destruct (Nat.ltb_spec p (S n')) as [_|H]; [reflexivity|lia].
Qed.

Lemma node_seq_distinct_starts p q t n :
  t <= n -> p < t -> q < t -> p <> q -> first_node p t n <> first_node q t n.
Proof.
  intros Htn Hp Hq Hpq. rewrite !node_seq_first by assumption. congruence.
Qed.

Lemma node_seq_length p t n : 0 < t -> length (node_seq p t n) = n.
Proof.
  intros Ht. rewrite (Permutation_length (node_seq_perm p t n Ht)). apply seq_length.
Qed.
