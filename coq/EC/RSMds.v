(* C21, finite part: for every rule with 1..8 data and 0..4 parity parts the
   coding matrix is systematic and every k-subset of its rows is invertible
   (MDS).  Decided by vm_compute over all rules and all subsets (a genuinely
   finite domain) and lifted with forallb_forall. *)
From Coq Require Import NArith List Bool Arith Lia.
Import ListNotations.
From NV Require Import EC.GF256 EC.LinAlg EC.RS.

(* all sub-lists of l with exactly k elements, in order *)
Fixpoint subs (l : list nat) (k : nat) : list (list nat) :=
  match l with
  | [] => match k with O => [[]] | S _ => [] end
  | x :: r => match k with
              | O => [[]]
              | S k' => map (cons x) (subs r k') ++ subs r k
              end
  end.

Definition vec_okb (L : nat) (v : vec) : bool := (length v =? L) && forallb byteb v.

Definition subset_check (k : nat) (M : mat) (S : list nat) : bool :=
  match invert (select S M) with
  | Some inv => mat_eqb (mat_mul k inv (select S M)) (identity k)
                && (length inv =? k) && forallb (vec_okb k) inv
  | None => false
  end.

Definition rule_check (km : nat * nat) : bool :=
  let '(k, m) := km in
  let n := k + m in
  let M := coding_matrix k n in
  (length M =? n) && mat_eqb (firstn k M) (identity k) && forallb (vec_okb k) M
  && forallb (subset_check k M) (subs (seq 0 n) k).

Definition max_data : nat := 8.
Definition max_parity : nat := 4.

Definition rules_box : list (nat * nat) :=
  flat_map (fun k => map (pair k) (seq 0 (S max_parity))) (seq 1 max_data).

Definition rule_in_box (k m : nat) : Prop := 1 <= k <= max_data /\ m <= max_parity.

Lemma rules_box_in k m : rule_in_box k m -> In (k, m) rules_box.
Proof.
  intros [Hk Hm]. unfold rules_box. apply in_flat_map. exists k. split.
  - apply in_seq. lia.
  - apply in_map, in_seq. lia.
Qed.

Lemma all_rules_checked : forallb rule_check rules_box = true.
Proof. vm_compute. reflexivity. Qed.

Lemma rule_checked k m : rule_in_box k m -> rule_check (k, m) = true.
Proof.
  intros H. pose proof all_rules_checked as A. rewrite forallb_forall in A.
  apply A, rules_box_in, H.
Qed.

(* number of (rule, subset) pairs decided *)
Definition mds_subsets_checked : nat :=
  fold_right plus 0 (map (fun km => length (subs (seq 0 (fst km + snd km)) (fst km))) rules_box).
