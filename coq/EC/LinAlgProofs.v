(* Linear algebra over GF(2^8) needed to lift the finite MDS computation to
   payloads of every length: lincomb is linear in its coefficient vector and
   matrix products associate. *)
From Coq Require Import NArith List Bool Arith Lia.
Import ListNotations.
From NV Require Import EC.GF256 EC.GF256Proofs EC.LinAlg.

#[global] Arguments gmul _ _ : simpl never.
#[global] Arguments gadd _ _ : simpl never.
#[global] Arguments ginv _ : simpl never.

Definition bytes (v : vec) : Prop := Forall is_byte v.
Definition vec_ok (L : nat) (v : vec) : Prop := length v = L /\ bytes v.
Definition rows_ok (L : nat) (X : mat) : Prop := Forall (vec_ok L) X.

Lemma b0 : is_byte 0%N. Proof. unfold is_byte; lia. Qed.
Lemma b1 : is_byte 1%N. Proof. unfold is_byte; lia. Qed.
#[export] Hint Resolve b0 b1 : gf.

(* ---- vadd / vscale / vzero ---- *)
Lemma vadd_length u v : length u = length v -> length (vadd u v) = length u.
Proof.
  revert v; induction u as [|a u IH]; intros [|b v] H; simpl in *; try lia.
  rewrite IH; lia.
Qed.

Lemma vadd_bytes u v : bytes u -> bytes v -> bytes (vadd u v).
Proof.
  unfold bytes. revert v; induction u as [|a u IH]; intros [|b v] Hu Hv; simpl; auto.
  inversion Hu; inversion Hv; subst. constructor; [apply gadd_byte; assumption | apply IH; assumption].
Qed.

Lemma vadd_ok L u v : vec_ok L u -> vec_ok L v -> vec_ok L (vadd u v).
Proof.
  intros [Hu Bu] [Hv Bv]. split; [rewrite vadd_length; lia | apply vadd_bytes; assumption].
Qed.

Lemma vscale_length c v : length (vscale c v) = length v.
Proof. apply map_length. Qed.

Lemma vscale_bytes c v : is_byte c -> bytes (vscale c v).
Proof.
  intros Hc. unfold bytes, vscale. apply Forall_forall. intros x Hx.
  apply in_map_iff in Hx. destruct Hx as [y [<- _]]. apply gmul_byte, Hc.
Qed.

Lemma vscale_ok L c v : is_byte c -> length v = L -> vec_ok L (vscale c v).
Proof. intros Hc Hv. split; [rewrite vscale_length; exact Hv | apply vscale_bytes, Hc]. Qed.

Lemma vzero_ok L : vec_ok L (vzero L).
Proof.
  split; [apply repeat_length |]. unfold bytes, vzero. apply Forall_forall.
  intros x Hx. apply repeat_spec in Hx. subst. apply b0.
Qed.

Lemma vadd_comm u v : vadd u v = vadd v u.
Proof.
  revert v; induction u as [|a u IH]; intros [|b v]; simpl; auto.
  rewrite gadd_comm, IH. reflexivity.
Qed.

Lemma vadd_assoc u v w : vadd (vadd u v) w = vadd u (vadd v w).
Proof.
  revert v w; induction u as [|a u IH]; intros [|b v] [|c w]; simpl; auto.
  rewrite gadd_assoc, IH. reflexivity.
Qed.

Lemma vadd_zero_l L v : length v = L -> vadd (vzero L) v = v.
Proof.
  revert v; induction L as [|L IH]; intros [|a v] H; simpl in *; try lia; auto.
  rewrite IH by lia. reflexivity.
Qed.

Lemma vadd_zero_r L v : length v = L -> vadd v (vzero L) = v.
Proof. intros H. rewrite vadd_comm. apply vadd_zero_l, H. Qed.

Lemma vscale_vadd c u v : is_byte c -> bytes u -> bytes v ->
  vscale c (vadd u v) = vadd (vscale c u) (vscale c v).
Proof.
  intros Hc. unfold bytes. revert v; induction u as [|a u IH]; intros [|b v] Hu Hv; simpl; auto.
  inversion Hu; inversion Hv; subst.
  rewrite gmul_gadd_r by assumption. rewrite IH by assumption. reflexivity.
Qed.

Lemma vscale_gadd c d v : is_byte c -> is_byte d ->
  vscale (gadd c d) v = vadd (vscale c v) (vscale d v).
Proof.
  intros Hc Hd. induction v as [|a v IH]; simpl; auto.
  rewrite gmul_gadd_l by assumption. rewrite IH. reflexivity.
Qed.

Lemma vscale_vscale c d v : is_byte c -> is_byte d ->
  vscale c (vscale d v) = vscale (gmul c d) v.
Proof.
  intros Hc Hd. induction v as [|a v IH]; simpl; auto.
  rewrite gmul_assoc by assumption. rewrite IH. reflexivity.
Qed.

Lemma vscale_0 v : bytes v -> vscale 0 v = vzero (length v).
Proof.
  unfold bytes, vscale, vzero. induction 1 as [|a v Ha _ IH]; [reflexivity|].
  rewrite map_cons. rewrite gmul_0_l by exact Ha. rewrite IH. reflexivity.
Qed.

Lemma vscale_1 v : bytes v -> vscale 1 v = v.
Proof.
  unfold bytes, vscale. induction 1 as [|a v Ha _ IH]; [reflexivity|].
  rewrite map_cons. rewrite gmul_1_l by exact Ha. rewrite IH. reflexivity.
Qed.

Lemma vscale_vzero c L : vscale c (vzero L) = vzero L.
Proof.
  unfold vscale, vzero. induction L as [|L IH]; [reflexivity|].
  cbn [repeat]. rewrite map_cons, IH. reflexivity.
Qed.

(* ---- lincomb ---- *)
Lemma lincomb_ok L cs X : bytes cs -> rows_ok L X -> vec_ok L (lincomb L cs X).
Proof.
  unfold bytes, rows_ok. revert X; induction cs as [|c cs IH]; intros [|r X] Hc HX; simpl;
    try apply vzero_ok.
  inversion Hc; inversion HX; subst.
  apply vadd_ok; [apply vscale_ok; [assumption | apply H5] | apply IH; assumption].
Qed.

Lemma lincomb_vzero L K X : rows_ok L X -> lincomb L (vzero K) X = vzero L.
Proof.
  unfold rows_ok. revert X; induction K as [|K IH]; intros [|r X] HX; simpl; auto.
  inversion HX; subst. rewrite IH by assumption.
  destruct H1 as [Hl Hb]. rewrite vscale_0 by exact Hb. rewrite Hl. apply vadd_zero_l, repeat_length.
Qed.

Lemma lincomb_vadd L a b X : length a = length b -> bytes a -> bytes b -> rows_ok L X ->
  lincomb L (vadd a b) X = vadd (lincomb L a X) (lincomb L b X).
Proof.
  unfold bytes, rows_ok. revert b X; induction a as [|c a IH]; intros [|d b] [|r X] Hl Ha Hb HX;
    simpl in *; try lia; try (symmetry; apply vadd_zero_l, repeat_length).
  inversion Ha; inversion Hb; inversion HX; subst.
  rewrite IH by (assumption || lia).
  rewrite vscale_gadd by assumption.
  rewrite !vadd_assoc. f_equal. rewrite <- !vadd_assoc. f_equal. apply vadd_comm.
Qed.

Lemma lincomb_vscale L c a X : is_byte c -> bytes a -> rows_ok L X ->
  lincomb L (vscale c a) X = vscale c (lincomb L a X).
Proof.
  intros Hc. unfold bytes, rows_ok. revert X; induction a as [|d a IH]; intros [|r X] Ha HX; simpl;
    try (symmetry; apply vscale_vzero).
  inversion Ha; inversion HX; subst.
  rewrite IH by assumption.
  rewrite vscale_vadd.
  - rewrite vscale_vscale by assumption. reflexivity.
  - exact Hc.
  - apply vscale_bytes; assumption.
  - apply lincomb_ok; assumption.
Qed.

(* (a * B) * X = a * (B * X) *)
Lemma lincomb_assoc L K a B X : bytes a -> rows_ok K B -> rows_ok L X ->
  lincomb L (lincomb K a B) X = lincomb L a (mat_mul L B X).
Proof.
  unfold bytes. revert B; induction a as [|c a IH]; intros [|b B] Ha HB HX; simpl;
    try (apply lincomb_vzero; exact HX).
  inversion Ha; inversion HB; subst.
  destruct H5 as [Hbl Hbb].
  assert (Hr : vec_ok K (lincomb K a B)) by (apply lincomb_ok; assumption).
  rewrite lincomb_vadd.
  - rewrite lincomb_vscale by assumption. rewrite IH by assumption. reflexivity.
  - rewrite vscale_length. destruct Hr as [Hr _]. lia.
  - apply vscale_bytes; assumption.
  - apply Hr.
  - exact HX.
Qed.

Lemma mat_mul_assoc L K A B X : Forall bytes A -> rows_ok K B -> rows_ok L X ->
  mat_mul L (mat_mul K A B) X = mat_mul L A (mat_mul L B X).
Proof.
  intros HA HB HX. unfold mat_mul. rewrite map_map. apply map_ext_in.
  intros a Ha. apply lincomb_assoc; try assumption.
  rewrite Forall_forall in HA. apply HA, Ha.
Qed.

Lemma mat_mul_rows_ok L A X : Forall bytes A -> rows_ok L X -> rows_ok L (mat_mul L A X).
Proof.
  intros HA HX. unfold rows_ok, mat_mul. apply Forall_forall. intros r Hr.
  apply in_map_iff in Hr. destruct Hr as [a [<- Ha]]. apply lincomb_ok; [| exact HX].
  rewrite Forall_forall in HA. apply HA, Ha.
Qed.

(* ---- identity ---- *)
Definition unit_at (i : nat) : nat -> N := fun j => if j =? i then 1%N else 0%N.

Lemma lincomb_unit_after L i X : rows_ok L X -> forall s, i < s ->
  lincomb L (map (unit_at i) (seq s (length X))) X = vzero L.
Proof.
  unfold rows_ok. induction 1 as [|r X Hr HX IH]; intros s Hs; simpl; auto.
  unfold unit_at at 1. destruct (Nat.eqb_spec s i); [lia|].
  destruct Hr as [Hl Hb]. rewrite vscale_0 by exact Hb. rewrite Hl.
  rewrite IH by lia. apply vadd_zero_l, repeat_length.
Qed.

Lemma lincomb_unit_gen L i X : rows_ok L X -> forall s, s <= i -> i < s + length X ->
  lincomb L (map (unit_at i) (seq s (length X))) X = nth (i - s) X (vzero L).
Proof.
  unfold rows_ok. induction 1 as [|r X Hr HX IH]; intros s Hs Hi; simpl in *; [lia|].
  destruct Hr as [Hl Hb]. unfold unit_at at 1.
  destruct (Nat.eqb_spec s i) as [-> | Hne].
  - rewrite Nat.sub_diag. rewrite vscale_1 by exact Hb.
    rewrite lincomb_unit_after by (assumption || lia). apply vadd_zero_r, Hl.
  - rewrite vscale_0 by exact Hb. rewrite Hl.
    rewrite IH by lia. rewrite vadd_zero_l.
    + replace (i - s) with (S (i - S s)) by lia. reflexivity.
    + destruct (nth_in_or_default (i - S s) X (vzero L)) as [Hin | ->]; [| apply repeat_length].
      rewrite Forall_forall in HX. apply HX, Hin.
Qed.

Lemma lincomb_unit L k i X : rows_ok L X -> length X = k -> i < k ->
  lincomb L (unit_vec k i) X = nth i X (vzero L).
Proof.
  intros HX Hk Hi. unfold unit_vec. subst k.
  change (fun j => if j =? i then 1%N else 0%N) with (unit_at i).
  rewrite lincomb_unit_gen by (assumption || lia). rewrite Nat.sub_0_r. reflexivity.
Qed.

Lemma mat_mul_identity L k X : rows_ok L X -> length X = k -> mat_mul L (identity k) X = X.
Proof.
  intros HX Hk. unfold mat_mul, identity. rewrite map_map.
  apply nth_ext with (d := vzero L) (d' := vzero L).
  - rewrite map_length, seq_length. lia.
  - intros i Hi. rewrite map_length, seq_length in Hi.
    rewrite nth_indep with (d' := lincomb L (unit_vec k 0) X) by (rewrite map_length, seq_length; lia).
    change (lincomb L (unit_vec k 0) X) with ((fun x => lincomb L (unit_vec k x) X) 0).
    rewrite map_nth. rewrite seq_nth by lia. simpl. apply lincomb_unit; assumption.
Qed.

Lemma unit_vec_bytes k i : bytes (unit_vec k i).
Proof.
  unfold bytes, unit_vec. apply Forall_forall. intros x Hx. apply in_map_iff in Hx.
  destruct Hx as [j [<- _]]. destruct (j =? i); [apply b1 | apply b0].
Qed.

(* nth of a matrix product *)
Lemma nth_mat_mul L A X i : i < length A ->
  nth i (mat_mul L A X) [] = lincomb L (nth i A []) X.
Proof.
  intros Hi. unfold mat_mul.
  rewrite nth_indep with (d' := lincomb L [] X) by (rewrite map_length; exact Hi).
  change (lincomb L [] X) with ((fun a => lincomb L a X) []). apply map_nth.
Qed.
