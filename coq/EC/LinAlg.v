(* Vectors and matrices over GF(2^8) as lists (rows).  Model file:
   definitions only.  Mirrors reedsolomon/matrix.go: Multiply, Invert
   (Gauss-Jordan on the augmented matrix), SubMatrix by row selection. *)
From Coq Require Import NArith List Bool Arith.
Import ListNotations.
From NV Require Import EC.GF256.

Definition vec := list N.
Definition mat := list vec.

Fixpoint vadd (u v : vec) : vec :=
  match u, v with
  | a :: u', b :: v' => gadd a b :: vadd u' v'
  | _, _ => []
  end.
Definition vscale (c : N) (v : vec) : vec := map (gmul c) v.
Definition vzero (L : nat) : vec := repeat 0%N L.

(* sum_i cs[i] * rows[i]   (all rows of length L): this is codeSomeShards for
   one output row, multiplyRowWithMatrix, and one row of matrix.Multiply *)
Fixpoint lincomb (L : nat) (cs : vec) (rows : mat) : vec :=
  match cs, rows with
  | c :: cs', r :: rows' => vadd (vscale c r) (lincomb L cs' rows')
  | _, _ => vzero L
  end.

(* A (r x K) times X (K x L) *)
Definition mat_mul (L : nat) (A X : mat) : mat := map (fun a => lincomb L a X) A.

Definition unit_vec (k i : nat) : vec := map (fun j => if j =? i then 1%N else 0%N) (seq 0 k).
Definition identity (k : nat) : mat := map (unit_vec k) (seq 0 k).

Definition select (idxs : list nat) (X : mat) : mat := map (fun i => nth i X []) idxs.

Definition vec_eqb (u v : vec) : bool := if list_eq_dec N.eq_dec u v then true else false.
Definition mat_eqb (A B : mat) : bool := if list_eq_dec (list_eq_dec N.eq_dec) A B then true else false.

(* ---- Gauss-Jordan inversion, as matrix.gaussianElimination ---- *)
Definition nzb (a : N) : bool := negb (N.eqb a 0).

(* replace element j of l by x *)
Fixpoint set_nth {A} (j : nat) (x : A) (l : list A) : list A :=
  match l, j with
  | [], _ => []
  | _ :: r, O => x :: r
  | y :: r, S j' => y :: set_nth j' x r
  end.

(* index of the first row of l with a non-zero entry in column c *)
Fixpoint find_nz (c : nat) (l : mat) : option nat :=
  match l with
  | [] => None
  | r :: t => if nzb (nth c r 0%N) then Some O
              else match find_nz c t with Some j => Some (S j) | None => None end
  end.

(* forward pass over the rows still to process; [c] = current diagonal index.
   Returns the rows in upper-triangular form with unit diagonal. *)
Fixpoint gj_forward (fuel c : nat) (rest : mat) : option mat :=
  match fuel with
  | O => match rest with [] => Some [] | _ => None end
  | S fuel' =>
    match rest with
    | [] => Some []
    | r0 :: tl =>
      let swapped :=
        if nzb (nth c r0 0%N) then Some (r0, tl)
        else match find_nz c tl with
             | Some j => Some (nth j tl [], set_nth j r0 tl)
             | None => None
             end in
      match swapped with
      | None => None                       (* errSingular *)
      | Some (p, tl') =>
        let pv := nth c p 0%N in
        let p' := if N.eqb pv 1 then p else vscale (ginv pv) p in
        let tl'' := map (fun row => let s := nth c row 0%N in
                                    if nzb s then vadd row (vscale s p') else row) tl' in
        match gj_forward fuel' (S c) tl'' with
        | Some done => Some (p' :: done)
        | None => None
        end
      end
    end
  end.

(* backward pass: for d = 0..size-1 clear column d in the rows above d *)
Definition gj_back_step (rows : mat) (d : nat) : mat :=
  let rd := nth d rows [] in
  map (fun ir => let '(i, row) := ir in
         if i <? d then
           let s := nth d row 0%N in
           if nzb s then vadd row (vscale s rd) else row
         else row)
      (combine (seq 0 (length rows)) rows).

Definition gj_backward (rows : mat) : mat :=
  fold_left gj_back_step (seq 0 (length rows)) rows.

Definition invert (A : mat) : option mat :=
  let k := length A in
  let aug := map (fun ir => fst ir ++ snd ir) (combine A (identity k)) in
  match gj_forward k 0 aug with
  | None => None
  | Some up => Some (map (skipn k) (gj_backward up))
  end.
