(* C21: decode (erase (encode payload)) = payload for every payload, lifted
   from the finite MDS computation (EC/RSMds.v) by linearity. *)
From Coq Require Import NArith List Bool Arith Lia.
Import ListNotations.
From NV Require Import EC.GF256 EC.GF256Proofs EC.LinAlg EC.LinAlgProofs EC.RS EC.RSMds.

(* ------------------------------------------------------------------ *)
(* sub-lists *)
Inductive sublist {A} : list A -> list A -> Prop :=
| sl_nil l : sublist [] l
| sl_cons x s l : sublist s l -> sublist (x :: s) (x :: l)
| sl_skip x s l : sublist s l -> sublist s (x :: l).

Lemma subs_complete s l : sublist s l -> In s (subs l (length s)).
Proof.
  induction 1 as [l | x s l H IH | x s l H IH]; simpl.
  - destruct l; simpl; auto.
  - apply in_or_app. left. apply in_map, IH.
  - destruct s as [|y s]; simpl; auto. apply in_or_app. right. exact IH.
Qed.

Fixpoint mask_idx (s : nat) (mask : list bool) : list nat :=
  match mask with
  | [] => []
  | b :: r => if b then s :: mask_idx (S s) r else mask_idx (S s) r
  end.

Definition count_true (l : list bool) : nat := length (filter (fun b => b) l).

Lemma mask_idx_sublist k mask : forall s, sublist (firstn k (mask_idx s mask)) (seq s (length mask)).
Proof.
  revert k. induction mask as [|b r IH]; intros k s; simpl.
  - rewrite firstn_nil. constructor.
  - destruct b.
    + destruct k; simpl; constructor. apply IH.
    + constructor. apply IH.
Qed.

Lemma mask_idx_length mask s : length (mask_idx s mask) = count_true mask.
Proof.
  revert s. unfold count_true. induction mask as [|b r IH]; intros s; simpl; auto.
  destruct b; simpl; rewrite IH; reflexivity.
Qed.

Lemma mask_idx_in mask : forall s j, In j (mask_idx s mask) ->
  s <= j /\ j < s + length mask /\ nth (j - s) mask false = true.
Proof.
  induction mask as [|b r IH]; intros s j H; simpl in *; [contradiction|].
  destruct b.
  - destruct H as [<- | H].
    + rewrite Nat.sub_diag. repeat split; lia.
    + apply IH in H. destruct H as (H1 & H2 & H3).
      replace (j - s) with (S (j - S s)) by lia. repeat split; try lia. exact H3.
  - apply IH in H. destruct H as (H1 & H2 & H3).
    replace (j - s) with (S (j - S s)) by lia. repeat split; try lia. exact H3.
Qed.

Lemma filter_length_le {A} (f : A -> bool) l : length (filter f l) <= length l.
Proof. induction l as [|a l IH]; simpl; [lia|]. destruct (f a); simpl; lia. Qed.

Lemma count_true_le mask : count_true mask <= length mask.
Proof. unfold count_true. apply filter_length_le. Qed.

Lemma count_true_all mask : count_true mask = length mask ->
  forall i, i < length mask -> nth i mask false = true.
Proof.
  unfold count_true. induction mask as [|b r IH]; intros H i Hi; simpl in *; [lia|].
  destruct b; simpl in *.
  - destruct i; auto. apply IH; lia.
  - pose proof (filter_length_le (fun b => b) r). lia.
Qed.

(* ------------------------------------------------------------------ *)
(* splitting *)
Lemma part_len_pos k len : 1 <= k -> 1 <= len -> 1 <= part_len k len.
Proof.
  intros Hk Hl. unfold part_len. apply Nat.div_le_lower_bound; lia.
Qed.

Lemma part_len_cover k len : 1 <= k -> len <= k * part_len k len.
Proof.
  intros Hk. unfold part_len.
  pose proof (Nat.div_mod (len + k - 1) k ltac:(lia)) as E.
  pose proof (Nat.mod_upper_bound (len + k - 1) k ltac:(lia)) as B. lia.
Qed.

Lemma chunks_spec per cnt : forall l, length l = cnt * per -> bytes l ->
  length (chunks per cnt l) = cnt /\ rows_ok per (chunks per cnt l) /\ concat (chunks per cnt l) = l.
Proof.
  induction cnt as [|c IH]; intros l Hl Hb; simpl in *.
  - destruct l; simpl in *; try lia. repeat split; constructor.
  - destruct (IH (skipn per l)) as (H1 & H2 & H3).
    + rewrite skipn_length. lia.
    + unfold bytes in *. apply Forall_forall. intros x Hx. rewrite Forall_forall in Hb.
      apply Hb. rewrite <- (firstn_skipn per l). apply in_or_app. right. exact Hx.
    + repeat split.
      * rewrite H1. reflexivity.
      * constructor; [| exact H2]. split.
        -- rewrite firstn_length. lia.
        -- unfold bytes in *. apply Forall_forall. intros x Hx. rewrite Forall_forall in Hb.
           apply Hb. rewrite <- (firstn_skipn per l). apply in_or_app. left. exact Hx.
      * rewrite H3. apply firstn_skipn.
Qed.

Lemma pad_to_spec L l : length l <= L -> bytes l ->
  length (pad_to L l) = L /\ bytes (pad_to L l) /\ firstn (length l) (pad_to L l) = l.
Proof.
  intros Hl Hb. unfold pad_to. repeat split.
  - rewrite app_length, repeat_length. lia.
  - unfold bytes in *. apply Forall_app. split; [exact Hb|].
    apply Forall_forall. intros x Hx. apply repeat_spec in Hx. subst. apply b0.
  - rewrite firstn_app, Nat.sub_diag, firstn_all. simpl. apply app_nil_r.
Qed.

Lemma split_data_spec k data : 1 <= k -> bytes data ->
  let L := part_len k (length data) in
  length (split_data k data) = k /\ rows_ok L (split_data k data) /\
  firstn (length data) (concat (split_data k data)) = data.
Proof.
  intros Hk Hb L. unfold split_data. fold L.
  destruct (pad_to_spec (k * L) data) as (P1 & P2 & P3); [apply part_len_cover, Hk | exact Hb |].
  destruct (chunks_spec L k (pad_to (k * L) data) P1 P2) as (C1 & C2 & C3).
  repeat split; try assumption. rewrite C3. exact P3.
Qed.

(* ------------------------------------------------------------------ *)
(* what the finite check gives for a rule in the box *)
Lemma vec_okb_ok L v : vec_okb L v = true -> vec_ok L v.
Proof.
  unfold vec_okb. intros H. apply andb_true_iff in H. destruct H as [H1 H2].
  split; [apply Nat.eqb_eq, H1|]. unfold bytes. apply Forall_forall. intros x Hx.
  rewrite forallb_forall in H2. apply H2 in Hx. unfold byteb in Hx. apply N.ltb_lt in Hx. exact Hx.
Qed.

Lemma forallb_vec_okb L X : forallb (vec_okb L) X = true -> rows_ok L X.
Proof.
  intros H. unfold rows_ok. apply Forall_forall. intros v Hv. rewrite forallb_forall in H.
  apply vec_okb_ok, H, Hv.
Qed.

Lemma mat_eqb_eq A B : mat_eqb A B = true -> A = B.
Proof. unfold mat_eqb. destruct (list_eq_dec (list_eq_dec N.eq_dec) A B); [auto | discriminate]. Qed.

Lemma vec_eqb_eq u v : vec_eqb u v = true -> u = v.
Proof. unfold vec_eqb. destruct (list_eq_dec N.eq_dec u v); [auto | discriminate]. Qed.

Record rule_facts (k m : nat) : Prop := {
  rf_len : length (coding_matrix k (k + m)) = k + m;
  rf_top : firstn k (coding_matrix k (k + m)) = identity k;
  rf_rows : rows_ok k (coding_matrix k (k + m));
  rf_mds : forall S, sublist S (seq 0 (k + m)) -> length S = k ->
           exists inv, invert (select S (coding_matrix k (k + m))) = Some inv /\
                       mat_mul k inv (select S (coding_matrix k (k + m))) = identity k /\
                       length inv = k /\ rows_ok k inv
}.

Lemma rule_facts_of_check k m : rule_check (k, m) = true -> rule_facts k m.
Proof.
  unfold rule_check. intros H.
  repeat (apply andb_true_iff in H; destruct H as [H ?]).
  constructor.
  - apply Nat.eqb_eq, H.
  - apply mat_eqb_eq. assumption.
  - apply forallb_vec_okb. assumption.
  - intros S HS HL. rewrite forallb_forall in H0.
    pose proof (subs_complete _ _ HS) as HI. rewrite HL in HI.
    specialize (H0 S HI).
    unfold subset_check in H0.
    destruct (invert (select S (coding_matrix k (k + m)))) as [inv|]; [|discriminate].
    repeat (apply andb_true_iff in H0; destruct H0 as [H0 ?]).
    exists inv. repeat split.
    + apply mat_eqb_eq. assumption.
    + apply Nat.eqb_eq. assumption.
    + apply forallb_vec_okb. assumption.
Qed.

Lemma rule_facts_box k m : rule_in_box k m -> rule_facts k m.
Proof. intros H. apply rule_facts_of_check, rule_checked, H. Qed.

(* ------------------------------------------------------------------ *)
(* erased part sets *)
Lemma erase_length mask P : length mask = length P -> length (erase mask P) = length P.
Proof.
  revert P. induction mask as [|b r IH]; intros [|p P] H; simpl in *; try lia. rewrite IH; lia.
Qed.

Lemma erase_nth mask P i : nth i (erase mask P) [] = if nth i mask false then nth i P [] else [].
Proof.
  revert P i. induction mask as [|b r IH]; intros [|p P] [|i]; simpl; auto;
    try (destruct b; reflexivity); try (destruct (nth i r false); destruct i; reflexivity).
Qed.

Definition all_len (L : nat) (P : mat) : Prop := Forall (fun p => length p = L) P.

Lemma shard_size_erase L mask P : 1 <= L -> all_len L P -> length mask = length P ->
  1 <= count_true mask -> shard_size (erase mask P) = L.
Proof.
  intros HL HP. revert mask. unfold all_len in HP.
  induction HP as [|p P Hp _ IH]; intros [|b r] Hlen Hc; simpl in *; try lia.
  - unfold count_true in Hc. simpl in Hc. lia.
  - destruct b.
    + destruct p; simpl in *; [lia | exact Hp].
    + simpl. apply IH; [lia | exact Hc].
Qed.

Lemma size_check_erase L mask P : all_len L P ->
  forallb (fun s => (length s =? L) || is_nil s) (erase mask P) = true.
Proof.
  intros HP. revert mask. unfold all_len in HP.
  induction HP as [|p P Hp _ IH]; intros [|b r]; simpl; auto.
  rewrite IH. destruct b; cbn [length is_nil].
  - rewrite Hp, Nat.eqb_refl. reflexivity.
  - rewrite orb_true_r. reflexivity.
Qed.

Lemma present_idx_erase L mask P : 1 <= L -> all_len L P -> length mask = length P ->
  forall s, present_idx s (erase mask P) = mask_idx s mask.
Proof.
  intros HL HP. revert mask. unfold all_len in HP.
  induction HP as [|p P Hp _ IH]; intros [|b r] Hlen s; simpl in *; try lia; auto.
  destruct b; simpl.
  - destruct p; simpl in *; [lia|]. rewrite IH by lia. reflexivity.
  - apply IH. lia.
Qed.

Lemma no_missing_required shards required :
  count_missing_required shards required = 0 ->
  forall i, i < length shards -> is_nil (nth i shards []) = true -> nth i required false = true -> False.
Proof.
  unfold count_missing_required. revert required.
  induction shards as [|s r IH]; intros [|q required] H i Hi Hn Hr; simpl in *; try lia.
  - destruct i; discriminate.
  - destruct i.
    + rewrite Hn, Hr in H. simpl in H. lia.
    + destruct (is_nil s && q); simpl in H; [lia|]. eapply IH; eauto. lia.
Qed.

Lemma required_of_nth n idxs i : i < n -> nth i (required_of n idxs) false = existsb (Nat.eqb i) idxs.
Proof.
  intros Hi. unfold required_of.
  rewrite nth_indep with (d' := existsb (Nat.eqb 0) idxs) by (rewrite map_length, seq_length; exact Hi).
  change (existsb (Nat.eqb 0) idxs) with ((fun i => existsb (Nat.eqb i) idxs) 0).
  rewrite map_nth, seq_nth by exact Hi. reflexivity.
Qed.

Lemma nth_map_seq {A} (f : nat -> A) n i d : i < n -> nth i (map f (seq 0 n)) d = f i.
Proof.
  intros Hi. rewrite nth_indep with (d' := f 0) by (rewrite map_length, seq_length; exact Hi).
  rewrite map_nth, seq_nth by exact Hi. reflexivity.
Qed.

Lemma firstn_In {A} (x : A) n l : In x (firstn n l) -> In x l.
Proof.
  revert l. induction n as [|n IH]; intros [|a l] H; simpl in *; try contradiction.
  destruct H as [-> | H]; [left; reflexivity | right; apply IH, H].
Qed.

Lemma nth_firstn_lt {A} (l : list A) k i d : i < k -> nth i (firstn k l) d = nth i l d.
Proof.
  revert l i. induction k as [|k IH]; intros [|a l] [|i] H; simpl; auto; try lia. apply IH. lia.
Qed.

Lemma Forall_nth_len L (P : mat) i : all_len L P -> i < length P -> length (nth i P []) = L.
Proof.
  intros HP Hi. unfold all_len in HP. rewrite Forall_forall in HP. apply HP, nth_In, Hi.
Qed.

(* ------------------------------------------------------------------ *)
Section Recon.
  Variables (k m : nat) (data : list N).
  Hypothesis Hk : 1 <= k.
  Hypothesis HF : rule_facts k m.
  Hypothesis Hne : data <> [].
  Hypothesis Hb : bytes data.

  Local Notation n := (k + m).
  Local Notation L := (part_len k (length data)).
  Local Notation D := (split_data k data).
  Local Notation M := (coding_matrix k (k + m)).
  Local Notation P := (encode k m data).

  Lemma L_pos : 1 <= L.
  Proof. apply part_len_pos; [exact Hk|]. destruct data; [congruence | simpl; lia]. Qed.

  Lemma D_len : length D = k.
  Proof. apply (split_data_spec k data Hk Hb). Qed.
  Lemma D_rows : rows_ok L D.
  Proof. apply (split_data_spec k data Hk Hb). Qed.
  Lemma D_concat : firstn (length data) (concat D) = data.
  Proof. apply (split_data_spec k data Hk Hb). Qed.

  Lemma M_bytes : Forall bytes M.
  Proof.
    pose proof (rf_rows _ _ HF) as H. unfold rows_ok in H.
    apply Forall_forall. intros r Hr. rewrite Forall_forall in H. apply H, Hr.
  Qed.

  Lemma encode_eq : P = D ++ mat_mul L (skipn k M) D.
  Proof. unfold encode. destruct data; [congruence | reflexivity]. Qed.

  Lemma P_as_mul : P = mat_mul L M D.
  Proof.
    rewrite encode_eq. rewrite <- (firstn_skipn k M) at 2.
    unfold mat_mul at 2. rewrite map_app. fold (mat_mul L (firstn k M) D). fold (mat_mul L (skipn k M) D).
    rewrite (rf_top _ _ HF). rewrite mat_mul_identity; [reflexivity | apply D_rows | apply D_len].
  Qed.

  Lemma P_len : length P = n.
  Proof. rewrite P_as_mul. unfold mat_mul. rewrite map_length. apply (rf_len _ _ HF). Qed.

  Lemma P_rows : rows_ok L P.
  Proof. rewrite P_as_mul. apply mat_mul_rows_ok; [apply M_bytes | apply D_rows]. Qed.

  Lemma P_all_len : all_len L P.
  Proof.
    pose proof P_rows as H. unfold rows_ok in H. unfold all_len.
    apply Forall_forall. intros p Hp. rewrite Forall_forall in H. apply H, Hp.
  Qed.

  Lemma P_nth i : i < n -> nth i P [] = lincomb L (nth i M []) D.
  Proof.
    intros Hi. rewrite P_as_mul at 1. apply nth_mat_mul. rewrite (rf_len _ _ HF). exact Hi.
  Qed.

  Lemma P_data i : i < k -> nth i P [] = nth i D [].
  Proof. intros Hi. rewrite encode_eq. apply app_nth1. rewrite D_len. exact Hi. Qed.

  Lemma M_nth_bytes i : bytes (nth i M []).
  Proof.
    destruct (nth_in_or_default i M []) as [H | ->]; [| constructor].
    pose proof M_bytes as HB. rewrite Forall_forall in HB. apply HB, H.
  Qed.

  Variable mask : list bool.
  Hypothesis Hmask : length mask = n.
  Hypothesis Hcount : k <= count_true mask.
  Variable required : list bool.

  Local Notation shards := (erase mask P).

  Lemma shards_len : length shards = n.
  Proof. rewrite erase_length; [apply P_len | rewrite P_len; exact Hmask]. Qed.

  Lemma shards_nil i : i < n -> is_nil (nth i shards []) = negb (nth i mask false).
  Proof.
    intros Hi. rewrite erase_nth. destruct (nth i mask false); simpl; [|reflexivity].
    pose proof (Forall_nth_len L P i P_all_len ltac:(rewrite P_len; exact Hi)) as Hl.
    pose proof L_pos. destruct (nth i P []); simpl in *; [lia | reflexivity].
  Qed.

  Definition recon_result (i : nat) : vec :=
    if nth i mask false || nth i required false then nth i P [] else [].

  (* the main step: the Gauss-Jordan branch of reconstruct *)
  Lemma recon_main_branch inv :
    let valid := firstn k (mask_idx 0 mask) in
    invert (select valid M) = Some inv ->
    mat_mul k inv (select valid M) = identity k ->
    length inv = k -> rows_ok k inv ->
    let sub := select valid shards in
    mat_mul L inv sub = D.
  Proof.
    intros valid Hinv Hid Hil Hir sub.
    assert (Hsub : sub = mat_mul L (select valid M) D).
    { unfold sub, select, mat_mul. rewrite map_map. apply map_ext_in. intros j Hj.
      apply firstn_In in Hj. apply mask_idx_in in Hj. destruct Hj as (_ & Hj2 & Hj3).
      rewrite Nat.sub_0_r in Hj3. rewrite erase_nth, Hj3. apply P_nth. lia. }
    rewrite Hsub. rewrite <- mat_mul_assoc with (K := k).
    - rewrite Hid. apply mat_mul_identity; [apply D_rows | apply D_len].
    - unfold rows_ok in Hir. apply Forall_forall. intros r Hr. rewrite Forall_forall in Hir. apply Hir, Hr.
    - unfold rows_ok, select. apply Forall_forall. intros r Hr. apply in_map_iff in Hr.
      destruct Hr as [j [<- Hj]].
      apply firstn_In in Hj. apply mask_idx_in in Hj. destruct Hj as (_ & Hj2 & _).
      pose proof (rf_rows _ _ HF) as HR. unfold rows_ok in HR. rewrite Forall_forall in HR.
      apply HR, nth_In. rewrite (rf_len _ _ HF). lia.
    - apply D_rows.
  Qed.

  Theorem reconstruct_spec :
    exists R, reconstruct k m shards required = Some R /\ length R = n /\
              forall i, i < n -> nth i R [] = recon_result i.
  Proof.
    pose proof L_pos as HL. pose proof P_all_len as HA. pose proof P_len as HP.
    assert (Hml : length mask = length P) by (rewrite HP; exact Hmask).
    assert (Hc1 : 1 <= count_true mask) by lia.
    unfold reconstruct.
    rewrite shards_len, Nat.eqb_refl. cbn [negb].
    rewrite (shard_size_erase L mask P HL HA Hml Hc1).
    replace (L =? 0) with false by (symmetry; apply Nat.eqb_neq; lia).
    rewrite (size_check_erase L mask P HA). cbn [negb].
    rewrite (present_idx_erase L mask P HL HA Hml 0).
    rewrite mask_idx_length.
    match goal with |- context [if ?c then Some shards else _] => destruct c eqn:Hearly end.
    - (* nothing to do *)
      exists shards. split; [reflexivity|]. split; [apply shards_len|].
      intros i Hi. unfold recon_result. rewrite erase_nth.
      destruct (nth i mask false) eqn:Hmi; simpl; [reflexivity|].
      destruct (nth i required false) eqn:Hri; [|reflexivity]. exfalso.
      assert (Hall : count_true mask = length mask -> False).
      { intros Hx. pose proof (count_true_all mask Hx i ltac:(lia)). congruence. }
      apply orb_true_iff in Hearly. destruct Hearly as [Hearly | Hearly].
      + apply orb_true_iff in Hearly. destruct Hearly as [Hearly | Hearly].
        * apply Nat.eqb_eq in Hearly. apply Hall. lia.
        * apply andb_true_iff in Hearly. destruct Hearly as [Hm0 _].
          apply Nat.eqb_eq in Hm0. apply Hall. pose proof (count_true_le mask). lia.
      + apply Nat.eqb_eq in Hearly.
        apply (no_missing_required _ _ Hearly i); [rewrite shards_len; exact Hi | | exact Hri].
        rewrite shards_nil by exact Hi. rewrite Hmi. reflexivity.
    - replace (count_true mask <? k) with false by (symmetry; apply Nat.ltb_ge; exact Hcount).
      set (valid := firstn k (mask_idx 0 mask)).
      assert (Hvs : sublist valid (seq 0 n)).
      { unfold valid. rewrite <- Hmask. apply mask_idx_sublist. }
      assert (Hvl : length valid = k).
      { unfold valid. rewrite firstn_length, mask_idx_length. lia. }
      destruct (rf_mds _ _ HF valid Hvs Hvl) as (inv & Hinv & Hid & Hil & Hir).
      rewrite Hinv.
      pose proof (recon_main_branch inv Hinv Hid Hil Hir) as Hmul. cbv zeta in Hmul.
      fold valid in Hmul.
      eexists. split; [reflexivity|]. split; [rewrite map_length, seq_length; reflexivity|].
      intros i Hi. rewrite nth_map_seq by exact Hi.
      unfold recon_result. rewrite shards_nil by exact Hi. rewrite erase_nth.
      destruct (nth i mask false) eqn:Hmi; simpl; [reflexivity|].
      destruct (nth i required false) eqn:Hri; [|reflexivity].
      destruct (i <? k) eqn:Hik.
      + apply Nat.ltb_lt in Hik.
        rewrite <- nth_mat_mul by (rewrite Hil; exact Hik).
        rewrite Hmul. symmetry. apply P_data, Hik.
      + destruct (m =? 0) eqn:Hm0.
        * apply Nat.eqb_eq in Hm0. apply Nat.ltb_ge in Hik. lia.
        * rewrite lincomb_assoc.
          -- rewrite Hmul. symmetry. apply P_nth, Hi.
          -- apply M_nth_bytes.
          -- exact Hir.
          -- unfold rows_ok, select. apply Forall_forall. intros r Hr. apply in_map_iff in Hr.
             destruct Hr as [j [<- Hj]]. rewrite erase_nth.
             pose proof P_rows as HPR. unfold rows_ok in HPR. rewrite Forall_forall in HPR.
             unfold valid in Hj. apply firstn_In in Hj. apply mask_idx_in in Hj.
             destruct Hj as (_ & Hj2 & Hj3). rewrite Nat.sub_0_r in Hj3. rewrite Hj3.
             apply HPR, nth_In. rewrite HP. lia.
  Qed.
End Recon.

(* ------------------------------------------------------------------ *)
(* the C21 statements *)
Lemma rule_box_k k m : rule_in_box k m -> 1 <= k.
Proof. intros [H _]. lia. Qed.

Theorem encode_equal_lengths k m data : rule_in_box k m -> bytes data ->
  length (encode k m data) = k + m /\
  all_len (part_len k (length data)) (encode k m data).
Proof.
  intros HB Hb. pose proof (rule_box_k _ _ HB) as Hk. pose proof (rule_facts_box _ _ HB) as HF.
  destruct data as [|a data'] eqn:E.
  - simpl. split; [apply repeat_length|].
    unfold all_len. apply Forall_forall. intros p Hp. apply repeat_spec in Hp. subst p.
    unfold part_len. simpl. symmetry. apply Nat.div_small. lia.
  - rewrite <- E in *. assert (Hne : data <> []) by (rewrite E; discriminate).
    split; [apply P_len | apply P_all_len]; assumption.
Qed.

Lemma existsb_seq i s len : existsb (Nat.eqb i) (seq s len) = (s <=? i) && (i <? s + len).
Proof.
  destruct (existsb (Nat.eqb i) (seq s len)) eqn:E.
  - apply existsb_exists in E. destruct E as [x [Hx He]]. apply Nat.eqb_eq in He. subst x.
    apply in_seq in Hx. symmetry. apply andb_true_iff. split; [apply Nat.leb_le | apply Nat.ltb_lt]; lia.
  - symmetry. apply not_true_is_false. intros H. apply andb_true_iff in H. destruct H as [H1 H2].
    apply Nat.leb_le in H1. apply Nat.ltb_lt in H2.
    assert (X : existsb (Nat.eqb i) (seq s len) = true).
    { apply existsb_exists. exists i. split; [apply in_seq; lia | apply Nat.eqb_refl]. }
    congruence.
Qed.

Theorem decode_erase_encode k m data mask :
  rule_in_box k m -> data <> [] -> bytes data ->
  length mask = k + m -> k <= count_true mask ->
  decode k m (length data) (erase mask (encode k m data)) = Some data.
Proof.
  intros HB Hne Hb Hmask Hcount.
  pose proof (rule_box_k _ _ HB) as Hk. pose proof (rule_facts_box _ _ HB) as HF.
  destruct (reconstruct_spec k m data Hk HF Hne Hb mask Hmask Hcount (required_of (k + m) (seq 0 k)))
    as (R & HR & HRl & HRn).
  unfold decode. rewrite HR.
  assert (HD : firstn k R = split_data k data).
  { apply nth_ext with (d := []) (d' := []).
    - rewrite firstn_length, HRl, (D_len k data Hk Hb). lia.
    - intros i Hi. rewrite firstn_length, HRl in Hi. assert (Hik : i < k) by lia.
      rewrite nth_firstn_lt by exact Hik.
      rewrite HRn by lia. unfold recon_result.
      rewrite required_of_nth by lia. rewrite existsb_seq. simpl.
      replace (i <? k) with true by (symmetry; apply Nat.ltb_lt; exact Hik).
      rewrite orb_true_r. apply P_data; assumption. }
  unfold total_len, concat_data_parts. rewrite HD.
  pose proof (D_concat k data Hk Hb) as HC.
  assert (Hlen : length data <= length (concat (split_data k data))).
  { rewrite <- HC at 1. rewrite firstn_length. lia. }
  replace (length (concat (split_data k data)) <? length data) with false
    by (symmetry; apply Nat.ltb_ge; exact Hlen).
  rewrite HC. reflexivity.
Qed.

Definition restored (k m : nat) (data : list N) (mask : list bool) (want : nat -> bool) (R : mat) : Prop :=
  length R = k + m /\
  forall i, i < k + m ->
    nth i R [] = if nth i mask false || want i then nth i (encode k m data) [] else [].

Theorem decode_indexes_restores k m data mask idxs :
  rule_in_box k m -> data <> [] -> bytes data ->
  length mask = k + m -> k <= count_true mask ->
  exists R, decode_indexes k m (erase mask (encode k m data)) idxs = Some R /\
            restored k m data mask (fun i => existsb (Nat.eqb i) idxs) R.
Proof.
  intros HB Hne Hb Hmask Hcount.
  pose proof (rule_box_k _ _ HB) as Hk. pose proof (rule_facts_box _ _ HB) as HF.
  destruct (reconstruct_spec k m data Hk HF Hne Hb mask Hmask Hcount (required_of (k + m) idxs))
    as (R & HR & HRl & HRn).
  exists R. split; [exact HR|]. split; [exact HRl|].
  intros i Hi. rewrite HRn by exact Hi. unfold recon_result. rewrite required_of_nth by exact Hi. reflexivity.
Qed.

Theorem decode_range_restores k m data mask from to :
  rule_in_box k m -> data <> [] -> bytes data ->
  length mask = k + m -> k <= count_true mask ->
  exists R, decode_range k m from to (erase mask (encode k m data)) = Some R /\
            restored k m data mask (fun i => (from <=? i) && (i <=? to)) R.
Proof.
  intros HB Hne Hb Hmask Hcount.
  destruct (decode_indexes_restores k m data mask (seq from (S to - from)) HB Hne Hb Hmask Hcount)
    as (R & HR & HRl & HRn).
  exists R. split; [exact HR|]. split; [exact HRl|].
  intros i Hi. rewrite HRn by exact Hi. rewrite existsb_seq.
  assert (E : ((from <=? i) && (i <? from + (S to - from)) = (from <=? i) && (i <=? to))%bool).
  { destruct (Nat.leb_spec from i); destruct (Nat.leb_spec i to);
      destruct (Nat.ltb_spec i (from + (S to - from))); simpl; try reflexivity; lia. }
  rewrite E. reflexivity.
Qed.

(* the empty payload: iec.Encode returns k+m empty parts; feeding them to
   iec.Decode is an error in the library (ErrShardNoData).  The GET service
   never does that (it returns as soon as the header says payload size 0). *)
Lemma shard_size_erase_empty mask n : shard_size (erase mask (repeat [] n)) = 0.
Proof.
  revert n. induction mask as [|b r IH]; intros [|n]; simpl; auto.
  destruct b; simpl; apply IH.
Qed.

Theorem decode_empty_is_error k m mask :
  decode k m 0 (erase mask (encode k m [])) = None.
Proof.
  unfold decode, reconstruct. simpl encode.
  destruct (negb (length (erase mask (repeat [] (k + m))) =? k + m)); [reflexivity|].
  rewrite shard_size_erase_empty. reflexivity.
Qed.

Section Hashes.
  Variable Dg : Type.
  Variable H : list N -> Dg.

  Theorem encode_hashes_match k m data :
    length (encode_hashes H k m data) = length (encode k m data) /\
    forall i, nth i (encode_hashes H k m data) (H []) = H (nth i (encode k m data) []).
  Proof.
    unfold encode_hashes. split; [apply map_length|]. intros i. apply map_nth.
  Qed.
End Hashes.
