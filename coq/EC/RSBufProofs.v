(* C21, multi-rule clause: when the payload slice has no spare capacity
   (cap = len, which modifyECParentObject enforces with b[:0:payloadLen] and
   which bytes.Buffer keeps because the writes fit exactly), encoding under any
   number of rules never writes the shared array, so no rule's kept parts
   change afterwards.  With spare capacity they can (witness below). *)
From Coq Require Import NArith List Bool Arith Lia.
Import ListNotations.
From NV Require Import EC.GF256 EC.LinAlg EC.RS EC.RSBuf.

(* ---- bytes.Buffer: exact-fit writes never re-allocate ---- *)
Lemma buf_write_fits chunks : forall l c, l + list_sum chunks <= c ->
  fold_left buf_write chunks (l, c) = (l + list_sum chunks, c).
Proof.
  induction chunks as [|x r IH]; intros l c H; simpl in *.
  - f_equal. lia.
  - replace (l + x <=? c) with true by (symmetry; apply Nat.leb_le; lia).
    rewrite IH by lia. f_equal. lia.
Qed.

Theorem buf_write_all_exact chunks :
  buf_write_all (list_sum chunks) chunks = (list_sum chunks, list_sum chunks).
Proof. unfold buf_write_all. rewrite buf_write_fits by lia. reflexivity. Qed.

(* ---- no write into the shared array when cap = len ---- *)
Lemma write_parity_own per mem xs : forall parity,
  fst (write_parity per mem (map VOwn xs) parity) = mem.
Proof.
  induction xs as [|x r IH]; intros [|p ps]; simpl; auto.
  specialize (IH ps). destruct (write_parity per mem (map VOwn r) ps). simpl in *. exact IH.
Qed.

Lemma skipn_app_ge {A} (l1 l2 : list A) k : length l1 <= k -> skipn k (l1 ++ l2) = skipn (k - length l1) l2.
Proof.
  revert k. induction l1 as [|a l1 IH]; intros k H; simpl in *.
  - rewrite Nat.sub_0_r. reflexivity.
  - destruct k; [lia|]. simpl. apply IH. lia.
Qed.

Lemma part_len_cover' k len : 1 <= k -> len <= part_len k len * k.
Proof.
  intros Hk. unfold part_len.
  pose proof (Nat.div_mod (len + k - 1) k ltac:(lia)) as E.
  pose proof (Nat.mod_upper_bound (len + k - 1) k ltac:(lia)) as B. lia.
Qed.

Lemma part_len_pos' k len : 1 <= k -> 1 <= len -> 1 <= part_len k len.
Proof. intros Hk Hl. unfold part_len. apply Nat.div_le_lower_bound; lia. Qed.

Theorem encode_buf_no_write k m len mem : 1 <= k -> length mem = len ->
  fst (encode_buf k m len mem) = mem.
Proof.
  intros Hk Hlen. unfold encode_buf. destruct len as [|len']; [reflexivity|].
  set (len := S len') in *.
  unfold split_buf. rewrite Hlen. rewrite Nat.ltb_irrefl.
  set (per := part_len k len). set (n := k + m).
  assert (Hper : 1 <= per) by (apply part_len_pos'; [exact Hk | unfold len; lia]).
  assert (Hcov : len <= per * k) by (apply part_len_cover', Hk).
  set (full := if len <? n * per then len / per else n).
  assert (Hfull : full <= k).
  { unfold full. destruct (Nat.ltb_spec len (n * per)).
    - apply Nat.div_le_upper_bound; lia.
    - unfold n in *. nia. }
  match goal with |- context [map VOwn ?p] => set (padding := p) end.
  rewrite skipn_app_ge by (rewrite map_length, seq_length; exact Hfull).
  rewrite map_length, seq_length. rewrite skipn_map.
  match goal with |- context [write_parity per mem (map VOwn ?xs) ?par] =>
    pose proof (write_parity_own per mem xs par) as W;
    destruct (write_parity per mem (map VOwn xs) par) end.
  simpl in *. exact W.
Qed.

Lemma encode_buf_length k m len mem : 1 <= k -> length mem = len ->
  length (fst (encode_buf k m len mem)) = len.
Proof. intros Hk Hl. rewrite encode_buf_no_write by assumption. exact Hl. Qed.

Definition rules_ok (rules : list (nat * nat)) : Prop := Forall (fun km => 1 <= fst km) rules.

Theorem multi_encode_no_write rules : forall len mem, rules_ok rules -> length mem = len ->
  fst (multi_encode rules len mem) = mem.
Proof.
  unfold rules_ok. induction rules as [|[k m] rest IH]; intros len mem HR Hl; simpl; auto.
  inversion HR; subst. simpl in H1.
  pose proof (encode_buf_no_write k m (length mem) mem H1 eq_refl) as E.
  destruct (encode_buf k m (length mem) mem) as [mem1 views]. simpl in E. subst mem1.
  specialize (IH (length mem) mem H2 eq_refl).
  destruct (multi_encode rest (length mem) mem) as [mem2 others]. simpl in *. exact IH.
Qed.

(* the parts kept for every rule read the same at the end as when they were produced *)
Theorem multi_rule_no_corruption rules : forall len mem, rules_ok rules -> length mem = len ->
  final_parts (multi_encode rules len mem) = parts_when_encoded rules len mem.
Proof.
  unfold rules_ok. induction rules as [|[k m] rest IH]; intros len mem HR Hl; [reflexivity|].
  inversion HR; subst. simpl in H1.
  pose proof (multi_encode_no_write ((k, m) :: rest) (length mem) mem HR eq_refl) as F.
  pose proof (multi_encode_no_write rest (length mem) mem H2 eq_refl) as F'.
  specialize (IH (length mem) mem H2 eq_refl).
  simpl in *.
  pose proof (encode_buf_no_write k m (length mem) mem H1 eq_refl) as E.
  destruct (encode_buf k m (length mem) mem) as [mem1 views]. simpl in E. subst mem1.
  destruct (multi_encode rest (length mem) mem) as [mem2 others]. simpl in *. subst mem2.
  unfold final_parts in *. simpl in *. rewrite IH. reflexivity.
Qed.

(* and the payload itself is never modified *)
Theorem multi_rule_payload_kept rules len mem : rules_ok rules -> length mem = len ->
  firstn len (fst (multi_encode rules len mem)) = firstn len mem.
Proof. intros HR Hl. rewrite multi_encode_no_write by assumption. reflexivity. Qed.

(* ---- with spare capacity the encodings do interfere ---- *)
Definition hazard_mem : list N := [1; 2; 3; 4; 5; 9; 9; 9; 9; 9; 9; 9; 9; 9]%N.
Definition hazard_rules : list (nat * nat) := [(2, 1); (3, 2)].

Theorem multi_rule_hazard_with_spare_capacity :
  5 < length hazard_mem /\
  final_parts (multi_encode hazard_rules 5 hazard_mem) <> parts_when_encoded hazard_rules 5 hazard_mem.
Proof. split; [simpl; lia|]. vm_compute. discriminate. Qed.
