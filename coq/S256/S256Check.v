(* Executable comparison functions of the C05 correspondence check.
   model_*: implementation observable = model;  ref_*: implementation
   observable satisfies the right-hand sides of the C05 theorems (stated with
   spec_parse / Z only, no model function of the code under test). *)
From Coq Require Import List NArith ZArith Bool Arith.
Import ListNotations.
From NV Require Import Gen.S256Consts S256.S256.
Local Open Scope N_scope.

(* compact literal for a byte string: length and big-endian value, written as
   one hexadecimal number (cheap for coqc to elaborate); decoded by walking
   the bits of the number, 8 at a time from the low end *)
Fixpoint pos_bytes_le (p : positive) (k : nat) (cur w : N) : list N :=
  match p with
  | xH => [cur + w]
  | xO q => match k with
            | 7%nat => cur :: pos_bytes_le q 0 0 1
            | _ => pos_bytes_le q (S k) cur (2 * w)
            end
  | xI q => match k with
            | 7%nat => (cur + w) :: pos_bytes_le q 0 0 1
            | _ => pos_bytes_le q (S k) (cur + w) (2 * w)
            end
  end.
Definition bs (n : nat) (x : N) : list N :=
  let le := match x with N0 => [] | Npos p => pos_bytes_le p 0 0 1 end in
  rev (le ++ repeat 0 (n - length le)).

Fixpoint list_N_eqb (a b : list N) : bool :=
  match a, b with
  | [], [] => true
  | x :: a', y :: b' => (x =? y) && list_N_eqb a' b'
  | _, _ => false
  end.
Definition opt_eqb {A} (eq : A -> A -> bool) (a b : option A) : bool :=
  match a, b with
  | None, None => true
  | Some x, Some y => eq x y
  | _, _ => false
  end.
Definition cmp_eqb (a b : comparison) : bool :=
  match a, b with Eq, Eq | Lt, Lt | Gt, Gt => true | _, _ => false end.
Definition split_eqb (a b : bool * list N) : bool :=
  Bool.eqb (fst a) (fst b) && list_N_eqb (snd a) (snd b).
Definition is_some {A} (o : option A) : bool := match o with Some _ => true | None => false end.

(* ---- kind "str" ---- *)
Record str_case := StrCase {
  sc_s : list N;
  sc_pd_enc : option (list N);   (* ParseDecimal(s).EncodeBytes() *)
  sc_pd_str : option (list N);   (* ParseDecimal(s).String() *)
  sc_rt_str : option (list N);   (* DecodeBytes(EncodeBytes(z)).String() *)
  sc_split : option (bool * list N);  (* splitIntString(s) *)
  sc_pn_enc : option (list N)    (* ParseNormalizedDecimal(split(s)).EncodeBytes() *)
}.

Definition str_model_ok (c : str_case) : bool :=
  let z := set_from_decimal (sc_s c) in
  opt_eqb list_N_eqb (option_map encode z) (sc_pd_enc c)
  && opt_eqb list_N_eqb (option_map to_string z) (sc_pd_str c)
  && opt_eqb list_N_eqb (match z with Some z => option_map to_string (decode (encode z)) | None => None end) (sc_rt_str c)
  && opt_eqb split_eqb (split_int_string (sc_s c)) (sc_split c)
  && opt_eqb list_N_eqb (match split_int_string (sc_s c) with
                         | Some (n, d) => option_map encode (parse_normalized n d)
                         | None => None end) (sc_pn_enc c).

Definition Z_opt_eqb := opt_eqb Z.eqb.

Definition str_ref_ok (c : str_case) : bool :=
  let v := spec_parse (sc_s c) in
  let accepted := match v with Some x => in_range x | None => false end in
  (* acceptance exactness of ParseDecimal *)
  Bool.eqb (is_some (sc_pd_enc c)) accepted
  && Bool.eqb (is_some (sc_pd_str c)) accepted
  (* printing parses back to the same integer; decode . encode is the identity *)
  && (if accepted then
        Z_opt_eqb (match sc_pd_str c with Some p => spec_parse p | None => None end) v
        && opt_eqb list_N_eqb (sc_rt_str c) (sc_pd_str c)
        && (match sc_pd_enc c with Some e => Nat.eqb (length e) encoded_len | None => false end)
      else true)
  (* splitIntString accepts exactly the signed digit strings, same value *)
  && Bool.eqb (is_some (sc_split c)) (is_some v)
  && (match sc_split c, v with
      | Some (n, d), Some x =>
        Z.eqb (if n then - Z.of_N (dec_val d) else Z.of_N (dec_val d))%Z x && forallb is_digit d
      | _, _ => true end)
  (* ParseNormalizedDecimal after splitIntString = ParseDecimal *)
  && opt_eqb list_N_eqb (sc_pn_enc c) (sc_pd_enc c).

(* ---- kind "pair" ---- *)
Record pair_case := PairCase {
  pc_a : list N;
  pc_b : list N;
  pc_cmp : option comparison;    (* Int.Cmp, when both parse *)
  pc_bcmp : option comparison;   (* bytes.Compare of the encodings *)
  pc_cis : option comparison;    (* compareIntStrings *)
  pc_cnd : option comparison     (* compareNormalizedDigits of the split digits, both non-negative *)
}.

Definition pair_model_ok (c : pair_case) : bool :=
  let za := set_from_decimal (pc_a c) in
  let zb := set_from_decimal (pc_b c) in
  opt_eqb cmp_eqb (match za, zb with Some x, Some y => Some (cmp x y) | _, _ => None end) (pc_cmp c)
  && opt_eqb cmp_eqb (match za, zb with Some x, Some y => Some (lex_compare (encode x) (encode y)) | _, _ => None end) (pc_bcmp c)
  && opt_eqb cmp_eqb (compare_int_strings (pc_a c) (pc_b c)) (pc_cis c)
  && opt_eqb cmp_eqb (match split_int_string (pc_a c), split_int_string (pc_b c) with
                      | Some (false, da), Some (false, db) => Some (compare_normalized_digits da db)
                      | _, _ => None end) (pc_cnd c).

Definition pair_ref_ok (c : pair_case) : bool :=
  let va := spec_parse (pc_a c) in
  let vb := spec_parse (pc_b c) in
  let num := match va, vb with Some x, Some y => Some (x ?= y)%Z | _, _ => None end in
  let both_in := match va, vb with Some x, Some y => in_range x && in_range y | _, _ => false end in
  opt_eqb cmp_eqb (pc_cmp c) (if both_in then num else None)
  && opt_eqb cmp_eqb (pc_bcmp c) (if both_in then num else None)   (* byte order = numeric order *)
  && opt_eqb cmp_eqb (pc_cis c) num
  && opt_eqb cmp_eqb (pc_cnd c) (match va, vb with
                                 | Some x, Some y => if (0 <=? x)%Z && (0 <=? y)%Z then Some (x ?= y)%Z else None
                                 | _, _ => None end).

(* ---- kind "dec" ---- *)
Record dec_case := DecCase {
  dc_b : list N;
  dc_str : option (list N);      (* DecodeBytes(b).String() *)
  dc_reenc : option (list N)     (* DecodeBytes(b).EncodeBytes() *)
}.

Definition dec_model_ok (c : dec_case) : bool :=
  let z := decode (dc_b c) in
  opt_eqb list_N_eqb (option_map to_string z) (dc_str c)
  && opt_eqb list_N_eqb (option_map encode z) (dc_reenc c).

Definition dec_ref_ok (c : dec_case) : bool :=
  let wf := Nat.eqb (length (dc_b c)) encoded_len && (hd 2 (dc_b c) <=? 1) in
  Bool.eqb (is_some (dc_str c)) wf
  && (if wf then
        match dc_str c, dc_reenc c with
        | Some s, Some e =>
          match spec_parse s with
          | Some v => in_range v &&
                      (list_N_eqb e (dc_b c)
                       || (list_N_eqb (dc_b c) (0 :: repeat 255 mag_len) && Z.eqb v 0))
          | None => false
          end
        | _, _ => false
        end
      else true).

Section Mism.
  Context {A : Type} (f : A -> bool).
  Fixpoint mism_from (i : nat) (cs : list A) : list nat :=
    match cs with
    | [] => []
    | c :: r => if f c then mism_from (S i) r else i :: mism_from (S i) r
    end.
End Mism.

Definition str_model_mismatches := mism_from str_model_ok 0.
Definition str_ref_mismatches := mism_from str_ref_ok 0.
Definition pair_model_mismatches := mism_from pair_model_ok 0.
Definition pair_ref_mismatches := mism_from pair_ref_ok 0.
Definition dec_model_mismatches := mism_from dec_model_ok 0.
Definition dec_ref_mismatches := mism_from dec_ref_ok 0.

(* sanity of the literal decoder against the model's be_bytes *)
Example bs_sanity : bs 5 0x00ff0110 = [0; 0; 255; 1; 16] /\ bs 0 0x0 = [] /\ bs 2 0x0 = [0; 0] /\
  bs 33 0x01ffffffffffffffffffffffffffffffffffffffffffffffffffffffffffffff80
  = be_bytes 33 0x01ffffffffffffffffffffffffffffffffffffffffffffffffffffffffffffff80.
Proof. vm_compute. repeat split. Qed.
