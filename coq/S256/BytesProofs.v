(* Lemmas on big-endian digit lists: value bound, lexicographic order equals
   numeric order, be_bytes inverts be_val, complement reverses order. *)
From Coq Require Import List NArith ZArith Bool Arith Lia.
Import ListNotations.
From NV Require Import S256.S256.
Local Open Scope N_scope.

Lemma be_val_bound B l : 0 < B -> Forall (fun d => d < B) l -> be_val B l < B ^ N.of_nat (length l).
Proof.
  intros HB H. induction H as [|d r Hd Hr IH]; simpl length.
  - simpl. lia.
  - cbn [be_val]. rewrite Nat2N.inj_succ, N.pow_succ_r'.
    assert (0 < B ^ N.of_nat (length r)) by (apply N.neq_0_lt_0, N.pow_nonzero; lia).
    nia.
Qed.

Lemma lex_be_val B a : 0 < B -> forall b, length a = length b ->
  Forall (fun d => d < B) a -> Forall (fun d => d < B) b ->
  lex_compare a b = (be_val B a ?= be_val B b).
Proof.
  intros HB. induction a as [|x a IH]; intros [|y b] Hl Ha Hb; try discriminate.
  - reflexivity.
  - simpl in Hl. injection Hl as Hl. inversion Ha as [|? ? Hx Ha']; inversion Hb as [|? ? Hy Hb']; subst.
    cbn [lex_compare be_val]. rewrite <- Hl.
    pose proof (be_val_bound B a HB Ha') as Ba.
    pose proof (be_val_bound B b HB Hb') as Bb. rewrite <- Hl in Bb.
    set (P := B ^ N.of_nat (length a)) in *.
    destruct (N.compare_spec x y) as [E|L|G].
    + subst y. rewrite (IH b Hl Ha' Hb'). symmetry.
      destruct (N.compare_spec (be_val B a) (be_val B b)) as [E|L|G].
      * apply N.compare_eq_iff. lia.
      * apply N.compare_lt_iff. lia.
      * apply N.compare_gt_iff. lia.
    + symmetry. apply N.compare_lt_iff. nia.
    + symmetry. apply N.compare_gt_iff. nia.
Qed.

Lemma be_bytes_length n : forall x, length (be_bytes n x) = n.
Proof. induction n; intros x; simpl; [reflexivity| now rewrite IHn]. Qed.

Lemma pow256_pos k : 0 < 256 ^ k.
Proof. apply N.neq_0_lt_0, N.pow_nonzero. discriminate. Qed.

Lemma be_bytes_bound n : forall x, x < 256 ^ N.of_nat n -> Forall (fun d => d < 256) (be_bytes n x).
Proof.
  induction n; intros x Hx; cbn [be_bytes]; constructor.
  - rewrite Nat2N.inj_succ, N.pow_succ_r' in Hx.
    apply N.div_lt_upper_bound. { pose proof (pow256_pos (N.of_nat n)). lia. } lia.
  - apply IHn. apply N.mod_lt. pose proof (pow256_pos (N.of_nat n)). lia.
Qed.

Lemma be_val_bytes n : forall x, x < 256 ^ N.of_nat n -> be_val 256 (be_bytes n x) = x.
Proof.
  induction n; intros x Hx.
  - simpl in *. lia.
  - cbn [be_bytes be_val]. rewrite be_bytes_length.
    rewrite IHn by (apply N.mod_lt; pose proof (pow256_pos (N.of_nat n)); lia).
    pose proof (N.div_mod' x (256 ^ N.of_nat n)). lia.
Qed.

Lemma inv_bytes_length l : length (inv_bytes l) = length l.
Proof. apply map_length. Qed.

Lemma inv_bytes_invol l : Forall (fun d => d < 256) l -> inv_bytes (inv_bytes l) = l.
Proof.
  induction 1 as [|d r Hd Hr IH]; [reflexivity|].
  unfold inv_bytes in *. cbn [map]. rewrite IH. f_equal. lia.
Qed.

Lemma inv_bytes_bound l : Forall (fun d => d < 256) l -> Forall (fun d => d < 256) (inv_bytes l).
Proof.
  induction 1; unfold inv_bytes; cbn [map]; constructor; [lia|assumption].
Qed.

Lemma lex_compare_inv a : forall b, length a = length b ->
  Forall (fun d => d < 256) a -> Forall (fun d => d < 256) b ->
  lex_compare (inv_bytes a) (inv_bytes b) = lex_compare b a.
Proof.
  induction a as [|x a IH]; intros [|y b] Hl Ha Hb; try reflexivity; try discriminate.
  inversion Ha as [|? ? Hx Ha']; inversion Hb as [|? ? Hy Hb']; subst.
  simpl in Hl. injection Hl as Hl.
  specialize (IH b Hl Ha' Hb'). unfold inv_bytes in *. cbn [map lex_compare].
  rewrite IH.
  destruct (N.compare_spec y x) as [E|L|G].
  - subst. rewrite N.compare_refl. reflexivity.
  - assert (255 - x < 255 - y) as H by lia. apply N.compare_lt_iff in H. rewrite H. reflexivity.
  - assert (255 - y < 255 - x) as H by lia. apply N.compare_gt_iff in H. rewrite H. reflexivity.
Qed.

Lemma lex_compare_refl a : lex_compare a a = Eq.
Proof. induction a; simpl; [reflexivity|]. now rewrite N.compare_refl. Qed.

Lemma lex_compare_antisym a : forall b, lex_compare b a = CompOpp (lex_compare a b).
Proof.
  induction a as [|x a IH]; intros [|y b]; try reflexivity.
  cbn [lex_compare]. rewrite (N.compare_antisym x y).
  destruct (x ?= y); simpl; auto.
Qed.

Lemma be_val_app B a b : be_val B (a ++ b) = be_val B a * B ^ N.of_nat (length b) + be_val B b.
Proof.
  induction a as [|d a IH]; cbn [app be_val]; [lia|].
  rewrite IH, app_length, Nat2N.inj_add, N.pow_add_r. lia.
Qed.
