(* Model of internal/signed256/signed256.go and of the decimal readers in
   pkg/core/object/metadata.go (splitIntString, compareIntStrings,
   compareNormalizedDigits).  C05.  Definitions only.

   Bytes and characters are N (byte values); Go strings are byte lists.
   Integers are N / Z -- never nat -- so everything is stated over the whole
   257-bit range.  The parts of github.com/holiman/uint256 v1.3.2 that
   SetFromDecimal relies on (one leading '+', leading zeros, 78-digit bound,
   19-character chunks through strconv.ParseUint, wrap-around of Add/Mul) are
   transcribed too, because the acceptance behaviour of the signed reader is
   the composition of both. *)
From Coq Require Import List NArith ZArith Bool Arith.
Import ListNotations.
From NV Require Import Gen.S256Consts.
Local Open Scope N_scope.

(* ---------- bytes ---------- *)

(* bytes.Compare / strings.Compare *)
Fixpoint lex_compare (a b : list N) : comparison :=
  match a, b with
  | [], [] => Eq
  | [], _ :: _ => Lt
  | _ :: _, [] => Gt
  | x :: a', y :: b' => match x ?= y with Eq => lex_compare a' b' | c => c end
  end.

(* value of a big-endian digit list in base B *)
Fixpoint be_val (B : N) (l : list N) : N :=
  match l with
  | [] => 0
  | d :: r => d * B ^ N.of_nat (length r) + be_val B r
  end.

(* n big-endian bytes of x (uint256.Bytes32 for n = 32) *)
Fixpoint be_bytes (n : nat) (x : N) : list N :=
  match n with
  | O => []
  | S k => (x / 256 ^ N.of_nat k) :: be_bytes k (x mod 256 ^ N.of_nat k)
  end.

Definition inv_bytes (l : list N) : list N := map (fun b => 255 - b) l.

(* ---------- signed256.Int ---------- *)

Definition sint := (bool * N)%type.           (* (neg, mag) *)

Definition mag_len : nat := (encoded_len - 1)%nat.
Definition max_mag : N := 256 ^ N.of_nat mag_len - 1.
Definition two256 : N := 256 ^ N.of_nat mag_len.

Definition val (z : sint) : Z := if fst z then (- Z.of_N (snd z))%Z else Z.of_N (snd z).
Definition of_Z (v : Z) : sint := ((v <? 0)%Z, Z.abs_N v).
Definition canonical (z : sint) : Prop := snd z <= max_mag /\ (fst z = true -> snd z <> 0).
Definition canonicalb (z : sint) : bool := (snd z <=? max_mag) && (negb (fst z) || negb (snd z =? 0)).

(* FillBytes / EncodeBytes *)
Definition encode (z : sint) : list N :=
  let '(neg, mag) := z in
  if neg then 0 :: inv_bytes (be_bytes mag_len mag) else 1 :: be_bytes mag_len mag.

(* DecodeBytes *)
Definition decode (b : list N) : option sint :=
  if negb (Nat.eqb (length b) encoded_len) then None else
  match b with
  | [] => None
  | s :: raw =>
    if s =? 0 then let m := be_val 256 (inv_bytes raw) in Some (negb (m =? 0), m)
    else if s =? 1 then Some (false, be_val 256 raw)
    else None
  end.

(* Int.Cmp *)
Definition cmp (a b : sint) : comparison :=
  let '(na, ma) := a in
  let '(nb, mb) := b in
  if Bool.eqb na nb then (if na then CompOpp (ma ?= mb) else ma ?= mb)
  else if na then Lt else Gt.

(* ---------- decimal strings ---------- *)

Definition c_plus : N := 43.
Definition c_minus : N := 45.
Definition c_zero : N := 48.

Definition is_digit (c : N) : bool := (48 <=? c) && (c <=? 57).
Definition digit_val (c : N) : N := c - 48.
Definition dec_val (s : list N) : N := be_val 10 (map digit_val s).

(* strconv.ParseUint(s, 10, 64) *)
Definition parse_uint64 (s : list N) : option N :=
  match s with
  | [] => None
  | _ => if forallb is_digit s
         then (let v := dec_val s in if v <? 2 ^ 64 then Some v else None)
         else None
  end.

(* uint256.Int.fromDecimal: up to `fuel` rounds of 19 characters from the
   least significant end; mult = 10^(19*round); Add and Mul wrap mod 2^256 *)
Fixpoint from_dec_rounds (fuel : nat) (mult : N) (bs : list N) (acc : N) : option N :=
  match fuel with
  | O => Some acc
  | S f =>
    match bs with
    | [] => Some acc
    | _ =>
      let rem := length bs in
      let chunk := if Nat.ltb 19 rem then skipn (rem - 19) bs else bs in
      match parse_uint64 chunk with
      | None => None
      | Some num =>
        from_dec_rounds f (mult * 10 ^ 19)
          (if Nat.ltb 19 rem then firstn (rem - 19) bs else [])
          ((acc + (num * mult) mod 2 ^ 256) mod 2 ^ 256)
      end
    end
  end.

Definition u256_from_decimal (bs : list N) : option N :=
  match bs with
  | [] => None                                   (* io.EOF *)
  | _ => from_dec_rounds 5 1 bs 0
  end.

(* "Remove any number of leading zeroes" of uint256.SetFromDecimal: the last
   character is kept when all are zeros *)
Fixpoint strip_zeros (s : list N) : list N :=
  match s with
  | c :: ((_ :: _) as r) => if c =? 48 then strip_zeros r else s
  | _ => s
  end.

Definition strip_plus (s : list N) : list N :=
  match s with
  | c :: r => if c =? 43 then r else s
  | [] => s
  end.

(* uint256.Int.SetFromDecimal; max_dec is the library's twoPow256Sub1
   (equal to signed256.Max().String(), which is what Gen dumps) *)
Definition u256_set_from_decimal (s : list N) : option N :=
  let s := strip_zeros (strip_plus s) in
  let n := length s in
  let m := length max_dec in
  if Nat.ltb n m then u256_from_decimal s
  else if Nat.eqb n m then
    match lex_compare s max_dec with
    | Gt => None
    | _ => u256_from_decimal s
    end
  else None.

(* signed256.Int.SetFromDecimal / ParseDecimal (with the repair: the first
   character after the optional sign must be a digit) *)
Definition set_from_decimal (s : list N) : option sint :=
  match s with
  | [] => None
  | c :: r =>
    let '(neg, s') := if c =? 43 then (false, r) else if c =? 45 then (true, r) else (false, s) in
    match s' with
    | [] => None
    | d :: _ =>
      if negb (is_digit d) then None else
      match u256_set_from_decimal s' with
      | None => None
      | Some m => Some (neg && negb (m =? 0), m)
      end
    end
  end.

(* signed256.ParseNormalizedDecimal *)
Definition parse_normalized (neg : bool) (digits : list N) : option sint :=
  match digits with
  | [] => None
  | _ =>
    if negb (forallb is_digit digits) then None else
    match (if Nat.leb (length digits) 20 then parse_uint64 digits else None) with
    | Some v => Some (neg && negb (v =? 0), v)
    | None =>
      match u256_set_from_decimal digits with
      | None => None
      | Some m => Some (neg && negb (m =? 0), m)
      end
    end
  end.

(* uint256.Int.Dec: decimal digits, no leading zeros, "0" for zero *)
Fixpoint dec_aux (fuel : nat) (n : N) (acc : list N) : list N :=
  match fuel with
  | O => acc
  | S f =>
    let acc' := (48 + n mod 10) :: acc in
    if n / 10 =? 0 then acc' else dec_aux f (n / 10) acc'
  end.
Definition dec_string (n : N) : list N := dec_aux (S (N.to_nat (N.log2 n))) n [].

(* Int.String *)
Definition to_string (z : sint) : list N :=
  let '(neg, mag) := z in
  if mag =? 0 then [48] else if neg then 45 :: dec_string mag else dec_string mag.

(* ---------- pkg/core/object ---------- *)

Fixpoint drop_zeros (s : list N) : list N :=
  match s with
  | c :: r => if c =? 48 then drop_zeros r else s
  | [] => []
  end.

(* splitIntString *)
Definition split_int_string (s : list N) : option (bool * list N) :=
  match s with
  | [] => None
  | c :: r =>
    let '(neg, body) := if c =? 45 then (true, r) else if c =? 43 then (false, r) else (false, s) in
    match body with
    | [] => None
    | _ =>
      let ds := drop_zeros body in
      if forallb is_digit ds
      then (match ds with [] => Some (false, [48]) | _ => Some (neg, ds) end)
      else None
    end
  end.

(* compareNormalizedDigits *)
Definition compare_normalized_digits (a b : list N) : comparison :=
  if negb (Nat.eqb (length a) (length b))
  then (if Nat.ltb (length a) (length b) then Lt else Gt)
  else lex_compare a b.

(* compareIntStrings *)
Definition compare_int_strings (a b : list N) : option comparison :=
  match split_int_string a, split_int_string b with
  | Some (na, da), Some (nb, db) =>
    Some (if negb (Bool.eqb na nb) then (if na then Lt else Gt)
          else if negb (Nat.eqb (length da) (length db))
          then (if Nat.ltb (length da) (length db)
                then (if na then Gt else Lt)
                else (if na then Lt else Gt))
          else (let c := lex_compare da db in if na then CompOpp c else c))
  | _, _ => None
  end.

(* ---------- reference (what the property text says) ---------- *)

(* an optionally signed, non-empty string of decimal digits and its value *)
Definition spec_parse (s : list N) : option Z :=
  match s with
  | [] => None
  | c :: r =>
    let '(neg, ds) := if c =? 45 then (true, r) else if c =? 43 then (false, r) else (false, s) in
    match ds with
    | [] => None
    | _ => if forallb is_digit ds
           then Some (if neg then (- Z.of_N (dec_val ds))%Z else Z.of_N (dec_val ds))
           else None
    end
  end.

Definition in_range (v : Z) : bool := (Z.abs_N v <=? max_mag).

(* the reader every decimal-reading place must implement *)
Definition spec_read (s : list N) : option sint :=
  match spec_parse s with
  | Some v => if in_range v then Some (of_Z v) else None
  | None => None
  end.

Definition encode_Z (v : Z) : list N := encode (of_Z v).
