(* C05, decimal part 1: digit strings, the uint256 reader, SetFromDecimal and
   ParseNormalizedDecimal are exactly the reference reader. *)
From Coq Require Import List NArith ZArith Bool Arith Lia.
Import ListNotations.
From NV Require Import Gen.S256Consts S256.S256 S256.BytesProofs S256.CodecProofs.
Local Open Scope N_scope.

Lemma is_digit_spec c : is_digit c = true <-> 48 <= c <= 57.
Proof. unfold is_digit. rewrite andb_true_iff, !N.leb_le. tauto. Qed.

Lemma digits_Forall s : forallb is_digit s = true -> Forall (fun d => d < 10) (map digit_val s).
Proof.
  induction s as [|c r IH]; cbn [forallb map]; intros H; constructor.
  - apply andb_true_iff in H as [H _]. apply is_digit_spec in H. unfold digit_val. lia.
  - apply IH. apply andb_true_iff in H as [_ H]. exact H.
Qed.

Lemma dec_val_cons c r : dec_val (c :: r) = digit_val c * 10 ^ N.of_nat (length r) + dec_val r.
Proof. unfold dec_val. cbn [map be_val]. now rewrite map_length. Qed.

Lemma dec_val_app a b : dec_val (a ++ b) = dec_val a * 10 ^ N.of_nat (length b) + dec_val b.
Proof. unfold dec_val. rewrite map_app, be_val_app, map_length. reflexivity. Qed.

Lemma pow10_pos k : 0 < 10 ^ k.
Proof. apply N.neq_0_lt_0, N.pow_nonzero. discriminate. Qed.

Lemma dec_val_bound s : forallb is_digit s = true -> dec_val s < 10 ^ N.of_nat (length s).
Proof.
  intros H. unfold dec_val. rewrite <- (map_length digit_val s).
  apply be_val_bound; [lia|]. now apply digits_Forall.
Qed.

Lemma dec_val_lower c r : is_digit c = true -> c <> 48 -> 10 ^ N.of_nat (length r) <= dec_val (c :: r).
Proof.
  intros Hd Hc. rewrite dec_val_cons. apply is_digit_spec in Hd. unfold digit_val.
  pose proof (pow10_pos (N.of_nat (length r))). nia.
Qed.

Lemma lex_compare_digits s : forall t, forallb is_digit s = true -> forallb is_digit t = true ->
  lex_compare s t = lex_compare (map digit_val s) (map digit_val t).
Proof.
  induction s as [|x s IH]; intros [|y t] Hs Ht; try reflexivity.
  cbn [forallb] in *. apply andb_true_iff in Hs as [Hx Hs]. apply andb_true_iff in Ht as [Hy Ht].
  cbn [map lex_compare]. rewrite (IH t Hs Ht).
  apply is_digit_spec in Hx. apply is_digit_spec in Hy. unfold digit_val.
  destruct (N.compare_spec x y) as [E|L|G].
  - subst. now rewrite N.compare_refl.
  - assert (x - 48 < y - 48) as H by lia. apply N.compare_lt_iff in H. now rewrite H.
  - assert (y - 48 < x - 48) as H by lia. apply N.compare_gt_iff in H. now rewrite H.
Qed.

Lemma lex_dec_val s t : length s = length t -> forallb is_digit s = true -> forallb is_digit t = true ->
  lex_compare s t = (dec_val s ?= dec_val t).
Proof.
  intros Hl Hs Ht. rewrite lex_compare_digits by assumption. unfold dec_val.
  apply lex_be_val; [lia| now rewrite !map_length | now apply digits_Forall | now apply digits_Forall].
Qed.

(* ---- strip_zeros ---- *)
Lemma strip_zeros_cons c r : r <> [] -> strip_zeros (c :: r) = if c =? 48 then strip_zeros r else c :: r.
Proof. destruct r; [congruence|reflexivity]. Qed.

Lemma strip_zeros_props s :
  forallb is_digit (strip_zeros s) = forallb is_digit s /\
  dec_val (strip_zeros s) = dec_val s /\
  (length (strip_zeros s) <= length s)%nat /\
  (s <> [] -> strip_zeros s <> []) /\
  (forall c r, strip_zeros s = c :: r -> r <> [] -> c <> 48).
Proof.
  induction s as [|c r IH].
  - cbn. repeat split; auto; intros; discriminate.
  - destruct r as [|d r'].
    + cbn [strip_zeros]. repeat split; auto. intros c0 r0 E Hr. injection E as _ E. congruence.
    + rewrite strip_zeros_cons by discriminate.
      destruct (N.eqb_spec c 48) as [E|NE].
      * destruct IH as (I1 & I2 & I3 & I4 & I5). subst c. repeat split.
        -- rewrite I1. reflexivity.
        -- rewrite I2. rewrite (dec_val_cons 48). unfold digit_val. simpl (48 - 48). lia.
        -- simpl length in *. lia.
        -- intros _. apply I4. discriminate.
        -- exact I5.
      * repeat split; auto. intros c0 r0 E0 _. injection E0 as E0 _. congruence.
Qed.

(* ---- chunked reader ---- *)
Lemma parse_uint64_small s : s <> [] -> (length s <= 19)%nat -> forallb is_digit s = true ->
  parse_uint64 s = Some (dec_val s).
Proof.
  intros Hne Hl Hd. unfold parse_uint64. destruct s; [congruence|]. rewrite Hd.
  pose proof (dec_val_bound _ Hd) as B.
  assert (10 ^ N.of_nat (length (n :: s)) <= 10 ^ 19) as P by (apply N.pow_le_mono_r; lia).
  assert (10 ^ 19 < 2 ^ 64) as Q by (vm_compute; reflexivity).
  assert (dec_val (n :: s) <? 2 ^ 64 = true) as R by (apply N.ltb_lt; lia).
  rewrite R. reflexivity.
Qed.

Lemma parse_uint64_nondigit s : forallb is_digit s = false -> parse_uint64 s = None.
Proof. intros H. unfold parse_uint64. destruct s; [reflexivity|]. now rewrite H. Qed.

Lemma forallb_split {A} (f : A -> bool) n l : forallb f l = forallb f (firstn n l) && forallb f (skipn n l).
Proof. rewrite <- (firstn_skipn n l) at 1. apply forallb_app. Qed.

Lemma fdr_nil fuel mult acc : from_dec_rounds fuel mult [] acc = Some acc.
Proof. destruct fuel; reflexivity. Qed.

Lemma fdr_step f mult bs acc : bs <> [] ->
  from_dec_rounds (S f) mult bs acc =
  match parse_uint64 (if Nat.ltb 19 (length bs) then skipn (length bs - 19) bs else bs) with
  | None => None
  | Some num =>
    from_dec_rounds f (mult * 10 ^ 19)
      (if Nat.ltb 19 (length bs) then firstn (length bs - 19) bs else [])
      ((acc + (num * mult) mod 2 ^ 256) mod 2 ^ 256)
  end.
Proof. destruct bs; [congruence|reflexivity]. Qed.

Lemma fdr_reject fuel : forall mult bs acc, (length bs <= 19 * fuel)%nat ->
  forallb is_digit bs = false -> from_dec_rounds fuel mult bs acc = None.
Proof.
  induction fuel as [|f IH]; intros mult bs acc Hl Hd.
  - destruct bs; [discriminate|simpl in Hl; lia].
  - destruct bs as [|c r]; [discriminate|]. remember (c :: r) as bs eqn:Ebs.
    rewrite fdr_step by (subst; discriminate).
    destruct (Nat.ltb_spec 19 (length bs)) as [L|L].
    + rewrite (forallb_split is_digit (length bs - 19)) in Hd.
      destruct (forallb is_digit (skipn (length bs - 19) bs)) eqn:Ek.
      * rewrite andb_true_r in Hd.
        rewrite parse_uint64_small; [| |rewrite skipn_length; lia|exact Ek].
        2:{ intros E. apply (f_equal (@length N)) in E. rewrite skipn_length in E. simpl in E. lia. }
        apply IH; [|exact Hd]. rewrite firstn_length. lia.
      * now rewrite parse_uint64_nondigit.
    + now rewrite parse_uint64_nondigit.
Qed.

Lemma fdr_ok fuel : forall mult bs acc, (length bs <= 19 * fuel)%nat ->
  forallb is_digit bs = true -> acc + dec_val bs * mult < 2 ^ 256 ->
  from_dec_rounds fuel mult bs acc = Some (acc + dec_val bs * mult).
Proof.
  induction fuel as [|f IH]; intros mult bs acc Hl Hd Hb.
  - destruct bs; [|simpl in Hl; lia]. cbn. f_equal. unfold dec_val. cbn. lia.
  - destruct bs as [|c r]. { cbn. f_equal. unfold dec_val. cbn. lia. }
    remember (c :: r) as bs eqn:Ebs.
    rewrite fdr_step by (subst; discriminate).
    destruct (Nat.ltb_spec 19 (length bs)) as [L|L].
    + pose proof Hd as Hd'. rewrite (forallb_split is_digit (length bs - 19)) in Hd'.
      apply andb_true_iff in Hd' as [Hp Hk].
      assert (length (skipn (length bs - 19) bs) = 19%nat) as Lk by (rewrite skipn_length; lia).
      rewrite parse_uint64_small; [| |lia|exact Hk].
      2:{ intros E. rewrite E in Lk. discriminate. }
      pose proof (dec_val_app (firstn (length bs - 19) bs) (skipn (length bs - 19) bs)) as Hs.
      rewrite firstn_skipn, Lk in Hs. change (N.of_nat 19) with 19 in Hs.
      set (pre := firstn (length bs - 19) bs) in *. set (ch := skipn (length bs - 19) bs) in *.
      assert (dec_val ch * mult <= dec_val bs * mult) as Hle by nia.
      rewrite (N.mod_small (dec_val ch * mult)) by lia.
      rewrite (N.mod_small (acc + dec_val ch * mult)) by lia.
      rewrite IH.
      * f_equal. rewrite Hs. lia.
      * unfold pre. rewrite firstn_length. lia.
      * exact Hp.
      * rewrite Hs in Hb. lia.
    + rewrite parse_uint64_small; [|subst; discriminate|exact L|exact Hd].
      rewrite fdr_nil. f_equal.
      rewrite (N.mod_small (dec_val bs * mult)) by lia.
      apply N.mod_small. lia.
Qed.

(* ---- facts about the generated bound ---- *)
Lemma max_dec_digits : forallb is_digit max_dec = true.
Proof. vm_compute. reflexivity. Qed.
Lemma max_dec_val : dec_val max_dec = max_mag.
Proof. vm_compute. reflexivity. Qed.
Lemma max_dec_len : length max_dec = 78%nat.
Proof. vm_compute. reflexivity. Qed.
Lemma max_mag_bounds : 10 ^ 77 <= max_mag /\ max_mag < 10 ^ 78 /\ max_mag < 2 ^ 256.
Proof. vm_compute. repeat split; congruence. Qed.

(* ---- uint256.SetFromDecimal ---- *)
Definition digits_read (s : list N) : option N :=
  match s with
  | [] => None
  | _ => if forallb is_digit s then (if dec_val s <=? max_mag then Some (dec_val s) else None) else None
  end.

Lemma u256_from_decimal_ok t : t <> [] -> (length t <= 95)%nat -> forallb is_digit t = true ->
  dec_val t <= max_mag -> u256_from_decimal t = Some (dec_val t).
Proof.
  intros Hne Hl Hd Hv. unfold u256_from_decimal. destruct t; [congruence|].
  pose proof max_mag_bounds as (_ & _ & B).
  rewrite fdr_ok; [f_equal; lia|simpl in *; lia|exact Hd|lia].
Qed.

Lemma u256_from_decimal_reject t : (length t <= 95)%nat -> forallb is_digit t = false ->
  u256_from_decimal t = None.
Proof.
  intros Hl Hd. unfold u256_from_decimal. destruct t; [reflexivity|].
  apply fdr_reject; [simpl in *; lia|exact Hd].
Qed.

Lemma u256_set_from_decimal_spec s : u256_set_from_decimal s = digits_read (strip_plus s).
Proof.
  unfold u256_set_from_decimal. set (p := strip_plus s).
  destruct (strip_zeros_props p) as (Hd & Hv & Hl & Hne & Hh).
  set (t := strip_zeros p) in *. rewrite max_dec_len.
  pose proof max_mag_bounds as (B1 & B2 & B3).
  destruct p as [|c0 p0] eqn:Ep.
  { subst t. cbn. reflexivity. }
  rewrite <- Ep in *. assert (p <> []) as Pne by (rewrite Ep; discriminate).
  specialize (Hne Pne).
  unfold digits_read. rewrite Ep at 1. rewrite <- Hd, <- Hv.
  destruct (Nat.ltb_spec (length t) 78) as [L|L].
  - destruct (forallb is_digit t) eqn:Dt.
    + pose proof (dec_val_bound _ Dt) as Bv.
      assert (10 ^ N.of_nat (length t) <= 10 ^ 77) as P by (apply N.pow_le_mono_r; lia).
      assert (dec_val t <= max_mag) as Hle by lia.
      rewrite u256_from_decimal_ok by (auto; lia).
      apply N.leb_le in Hle. now rewrite Hle.
    + apply u256_from_decimal_reject; [lia|exact Dt].
  - destruct (Nat.eqb_spec (length t) 78) as [E|NE].
    + destruct (forallb is_digit t) eqn:Dt.
      * rewrite (lex_dec_val t max_dec) by (auto using max_dec_digits; now rewrite max_dec_len).
        rewrite max_dec_val.
        destruct (N.compare_spec (dec_val t) max_mag) as [C|C|C].
        -- rewrite u256_from_decimal_ok by (auto; lia).
           assert (dec_val t <=? max_mag = true) as R by (apply N.leb_le; lia). now rewrite R.
        -- rewrite u256_from_decimal_ok by (auto; lia).
           assert (dec_val t <=? max_mag = true) as R by (apply N.leb_le; lia). now rewrite R.
        -- assert (dec_val t <=? max_mag = false) as R by (apply N.leb_gt; lia). now rewrite R.
      * destruct (lex_compare t max_dec); try reflexivity; apply u256_from_decimal_reject; auto; lia.
    + destruct (forallb is_digit t) eqn:Dt; [|reflexivity].
      destruct t as [|c r] eqn:Et; [congruence|].
      assert (r <> []) as Rne by (intros ->; simpl in *; lia).
      pose proof (Hh c r eq_refl Rne) as Hc.
      pose proof Dt as Dt'. cbn [forallb] in Dt'. apply andb_true_iff in Dt' as [Dc _].
      pose proof (dec_val_lower c r Dc Hc) as Lw.
      assert (10 ^ 78 <= 10 ^ N.of_nat (length r)) as P by (apply N.pow_le_mono_r; simpl in *; lia).
      assert (dec_val (c :: r) <=? max_mag = false) as R by (apply N.leb_gt; lia).
      now rewrite R.
Qed.

(* ---- signed256.SetFromDecimal = reference reader ---- *)
Lemma of_Z_pos m : of_Z (Z.of_N m) = (false, m).
Proof. unfold of_Z. f_equal; [apply Z.ltb_ge; lia|apply Zabs2N.id]. Qed.

Lemma of_Z_neg m : of_Z (- Z.of_N m) = (negb (m =? 0), m).
Proof.
  unfold of_Z. f_equal.
  - destruct (N.eqb_spec m 0); cbn [negb]; [apply Z.ltb_ge|apply Z.ltb_lt]; lia.
  - now rewrite Zabs2N.inj_opp, Zabs2N.id.
Qed.

Lemma in_range_pos m : in_range (Z.of_N m) = (m <=? max_mag).
Proof. unfold in_range. now rewrite Zabs2N.id. Qed.
Lemma in_range_neg m : in_range (- Z.of_N m) = (m <=? max_mag).
Proof. unfold in_range. now rewrite Zabs2N.inj_opp, Zabs2N.id. Qed.

Lemma strip_plus_digit d r : is_digit d = true -> strip_plus (d :: r) = d :: r.
Proof.
  intros H. apply is_digit_spec in H. unfold strip_plus.
  destruct (N.eqb_spec d 43); [lia|reflexivity].
Qed.

(* body of both readers after the sign was taken off *)
Lemma signed_body neg body :
  match body with
  | [] => None
  | d :: _ =>
    if negb (is_digit d) then None else
    match u256_set_from_decimal body with
    | None => None
    | Some m => Some (neg && negb (m =? 0), m)
    end
  end =
  match body with
  | [] => None
  | _ => if forallb is_digit body
         then (let v := if neg then (- Z.of_N (dec_val body))%Z else Z.of_N (dec_val body) in
               if in_range v then Some (of_Z v) else None)
         else None
  end.
Proof.
  destruct body as [|d r]; [reflexivity|].
  destruct (is_digit d) eqn:Dd; cbn [negb].
  - rewrite u256_set_from_decimal_spec, strip_plus_digit by exact Dd.
    unfold digits_read. destruct (forallb is_digit (d :: r)); [|reflexivity].
    cbv zeta. destruct neg.
    + rewrite in_range_neg, of_Z_neg. destruct (dec_val (d :: r) <=? max_mag); reflexivity.
    + rewrite in_range_pos, of_Z_pos. destruct (dec_val (d :: r) <=? max_mag); reflexivity.
  - cbn [forallb]. rewrite Dd. reflexivity.
Qed.

Theorem set_from_decimal_spec s : set_from_decimal s = spec_read s.
Proof.
  unfold set_from_decimal, spec_read, spec_parse.
  destruct s as [|c r]; [reflexivity|].
  destruct (N.eqb_spec c 43) as [E1|N1]; destruct (N.eqb_spec c 45) as [E2|N2]; try lia; cbv beta iota.
  - etransitivity; [exact (signed_body false r)|]. cbv zeta. destruct r; [reflexivity|].
    destruct (forallb is_digit (n :: r)); reflexivity.
  - etransitivity; [exact (signed_body true r)|]. cbv zeta. destruct r; [reflexivity|].
    destruct (forallb is_digit (n :: r)); reflexivity.
  - etransitivity; [exact (signed_body false (c :: r))|]. cbv zeta.
    destruct (forallb is_digit (c :: r)); reflexivity.
Qed.

Lemma parse_normalized_spec neg ds : parse_normalized neg ds =
  match ds with
  | [] => None
  | _ => if forallb is_digit ds
         then (if dec_val ds <=? max_mag then Some (neg && negb (dec_val ds =? 0), dec_val ds) else None)
         else None
  end.
Proof.
  unfold parse_normalized. destruct ds as [|d r]; [reflexivity|].
  destruct (forallb is_digit (d :: r)) eqn:Dd; cbn [negb]; [|reflexivity].
  pose proof Dd as Dd'. cbn [forallb] in Dd'. apply andb_true_iff in Dd' as [D1 _].
  assert (u256_set_from_decimal (d :: r) =
          if dec_val (d :: r) <=? max_mag then Some (dec_val (d :: r)) else None) as U.
  { rewrite u256_set_from_decimal_spec, strip_plus_digit by exact D1. unfold digits_read. now rewrite Dd. }
  pose proof max_mag_bounds as (_ & _ & B3). rewrite max_mag_value in *.
  destruct (Nat.leb (length (d :: r)) 20).
  - unfold parse_uint64. rewrite Dd. cbv zeta.
    destruct (N.ltb_spec (dec_val (d :: r)) (2 ^ 64)) as [L|L].
    + assert (dec_val (d :: r) <=? 2 ^ 256 - 1 = true) as R.
      { apply N.leb_le. assert (2 ^ 64 < 2 ^ 256 - 1) by (vm_compute; reflexivity). lia. }
      now rewrite R.
    + rewrite U. destruct (dec_val (d :: r) <=? 2 ^ 256 - 1); reflexivity.
  - rewrite U. destruct (dec_val (d :: r) <=? 2 ^ 256 - 1); reflexivity.
Qed.
