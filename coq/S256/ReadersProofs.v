(* C05, decimal part 2: splitIntString, compareIntStrings,
   compareNormalizedDigits and String agree with the reference reader. *)
From Coq Require Import List NArith ZArith Bool Arith Lia.
Import ListNotations.
From NV Require Import Gen.S256Consts S256.S256 S256.BytesProofs S256.CodecProofs S256.DecimalProofs.
Local Open Scope N_scope.

(* a normalized digit string: what splitIntString hands on *)
Definition normalized (d : list N) : Prop :=
  d <> [] /\ forallb is_digit d = true /\ (forall c r, d = c :: r -> r <> [] -> c <> 48).

Lemma drop_zeros_props s :
  forallb is_digit (drop_zeros s) = forallb is_digit s /\
  dec_val (drop_zeros s) = dec_val s /\
  (forall c r, drop_zeros s = c :: r -> c <> 48).
Proof.
  induction s as [|c r IH]; [cbn; repeat split; intros; discriminate|].
  cbn [drop_zeros]. destruct (N.eqb_spec c 48) as [E|NE].
  - subst. destruct IH as (I1 & I2 & I3). split; [|split].
    + rewrite I1. reflexivity.
    + rewrite I2, (dec_val_cons 48). unfold digit_val. simpl (48 - 48). lia.
    + exact I3.
  - repeat split; auto. intros c0 r0 E. injection E as E _. congruence.
Qed.

Definition split_val (p : bool * list N) : Z :=
  if fst p then (- Z.of_N (dec_val (snd p)))%Z else Z.of_N (dec_val (snd p)).

Lemma dec_val_nil : dec_val [] = 0.
Proof. reflexivity. Qed.

Lemma split_body neg body : body <> [] ->
  match (let ds := drop_zeros body in
         if forallb is_digit ds
         then (match ds with [] => Some (false, [48]) | _ => Some (neg, ds) end)
         else None) with
  | Some p => normalized (snd p) /\ (fst p = true -> dec_val (snd p) <> 0) /\
              forallb is_digit body = true /\
              split_val p = (if neg then (- Z.of_N (dec_val body))%Z else Z.of_N (dec_val body))
  | None => forallb is_digit body = false
  end.
Proof.
  intros Hne. cbv zeta. destruct (drop_zeros_props body) as (D1 & D2 & D3).
  rewrite D1. destruct (forallb is_digit body) eqn:Db; [|reflexivity].
  destruct (drop_zeros body) as [|c r] eqn:Ed.
  - cbn [fst snd]. repeat split; try discriminate.
    + intros c r E Hr. injection E as _ E. congruence.
    + unfold split_val. cbn [fst snd]. rewrite <- D2, dec_val_nil.
      destruct neg; reflexivity.
  - cbn [fst snd].
    pose proof D1 as Db'. cbn [forallb] in Db'. apply andb_true_iff in Db' as [Dc _].
    pose proof (dec_val_lower c r Dc (D3 c r eq_refl)) as Lw.
    pose proof (pow10_pos (N.of_nat (length r))).
    repeat split; try discriminate; auto.
    + intros c0 r0 E _. injection E as E _. subst. apply (D3 c0 r eq_refl).
    + intros _. lia.
    + unfold split_val. cbn [fst snd]. now rewrite D2.
Qed.

Lemma split_int_string_spec s :
  match split_int_string s with
  | Some p => normalized (snd p) /\ (fst p = true -> dec_val (snd p) <> 0) /\
              spec_parse s = Some (split_val p)
  | None => spec_parse s = None
  end.
Proof.
  unfold split_int_string, spec_parse. destruct s as [|c r]; [reflexivity|].
  assert (forall neg body,
    match (match body with
           | [] => None
           | _ => let ds := drop_zeros body in
                  if forallb is_digit ds
                  then (match ds with [] => Some (false, [48]) | _ => Some (neg, ds) end)
                  else None
           end) with
    | Some p => normalized (snd p) /\ (fst p = true -> dec_val (snd p) <> 0) /\
                match body with
                | [] => None
                | _ => if forallb is_digit body
                       then Some (if neg then (- Z.of_N (dec_val body))%Z else Z.of_N (dec_val body))
                       else None
                end = Some (split_val p)
    | None => match body with
              | [] => None
              | _ => if forallb is_digit body
                     then Some (if neg then (- Z.of_N (dec_val body))%Z else Z.of_N (dec_val body))
                     else None
              end = None
    end) as K.
  { intros neg body. destruct body as [|b0 b1]; [reflexivity|].
    pose proof (split_body neg (b0 :: b1)) as H. specialize (H ltac:(discriminate)).
    cbv zeta in *.
    destruct (if forallb is_digit (drop_zeros (b0 :: b1))
              then match drop_zeros (b0 :: b1) with
                   | [] => Some (false, [48])
                   | _ :: _ => Some (neg, drop_zeros (b0 :: b1))
                   end
              else None) as [p|].
    - destruct H as (H1 & H2 & H3 & H4). repeat split; try apply H1; auto. rewrite H3, H4. reflexivity.
    - rewrite H. reflexivity. }
  destruct (N.eqb_spec c 45) as [E1|N1]; [|destruct (N.eqb_spec c 43) as [E2|N2]]; cbv beta iota.
  - exact (K true r).
  - exact (K false r).
  - exact (K false (c :: r)).
Qed.

(* every reader agrees with SetFromDecimal *)
Theorem readers_agree s :
  match split_int_string s with
  | Some (n, d) => parse_normalized n d = set_from_decimal s
  | None => set_from_decimal s = None
  end.
Proof.
  pose proof (split_int_string_spec s) as H. rewrite set_from_decimal_spec. unfold spec_read.
  destruct (split_int_string s) as [[n d]|].
  - destruct H as ((Hne & Hd & _) & Hnz & Hs). cbn [fst snd] in *. rewrite Hs.
    rewrite parse_normalized_spec. destruct d as [|d0 d1]; [congruence|]. rewrite Hd.
    unfold split_val. cbn [fst snd]. destruct n.
    + rewrite in_range_neg, of_Z_neg. reflexivity.
    + rewrite in_range_pos, of_Z_pos. reflexivity.
  - rewrite H. reflexivity.
Qed.

(* ---- comparison of normalized digit strings ---- *)
Lemma normalized_len_lt a b : normalized a -> normalized b ->
  (length a < length b)%nat -> dec_val a < dec_val b.
Proof.
  intros (Ha & Da & _) (Hb & Db & Zb) L.
  destruct b as [|c r]; [congruence|].
  assert (r <> []) as Rne. { intros ->. destruct a; [congruence|simpl in L; lia]. }
  pose proof Db as Db'. cbn [forallb] in Db'. apply andb_true_iff in Db' as [Dc _].
  pose proof (dec_val_lower c r Dc (Zb c r eq_refl Rne)) as Lw.
  pose proof (dec_val_bound a Da) as Ub.
  assert (10 ^ N.of_nat (length a) <= 10 ^ N.of_nat (length r)) by (apply N.pow_le_mono_r; simpl in L; lia).
  lia.
Qed.

Lemma compare_normalized_digits_spec a b : normalized a -> normalized b ->
  compare_normalized_digits a b = (dec_val a ?= dec_val b).
Proof.
  intros Na Nb. unfold compare_normalized_digits.
  destruct (Nat.eqb_spec (length a) (length b)) as [E|NE]; cbn [negb].
  - apply lex_dec_val; [exact E|apply Na|apply Nb].
  - destruct (Nat.ltb_spec (length a) (length b)) as [L|L]; symmetry.
    + apply N.compare_lt_iff. now apply normalized_len_lt.
    + apply N.compare_gt_iff. apply normalized_len_lt; auto. lia.
Qed.

Theorem compare_int_strings_spec a b :
  compare_int_strings a b =
  match spec_parse a, spec_parse b with
  | Some x, Some y => Some (x ?= y)%Z
  | _, _ => None
  end.
Proof.
  unfold compare_int_strings.
  pose proof (split_int_string_spec a) as Ha. pose proof (split_int_string_spec b) as Hb.
  destruct (split_int_string a) as [[na da]|]; [|now rewrite Ha].
  destruct Ha as (Na & Za & Sa). rewrite Sa.
  destruct (split_int_string b) as [[nb db]|]; [|now rewrite Hb].
  destruct Hb as (Nb & Zb & Sb). rewrite Sb. cbn [fst snd] in *. f_equal.
  pose proof (compare_normalized_digits_spec da db Na Nb) as C.
  unfold compare_normalized_digits in C. unfold split_val. cbn [fst snd].
  destruct na, nb; cbn [Bool.eqb negb].
  - rewrite Z.compare_opp, N2Z.inj_compare, (N.compare_antisym (dec_val da)). rewrite <- C.
    destruct (Nat.eqb (length da) (length db)); cbn [negb]; [reflexivity|].
    destruct (Nat.ltb (length da) (length db)); reflexivity.
  - specialize (Za eq_refl). symmetry. apply Z.compare_lt_iff. lia.
  - specialize (Zb eq_refl). symmetry. apply Z.compare_gt_iff. lia.
  - rewrite N2Z.inj_compare, <- C.
    destruct (Nat.eqb (length da) (length db)); cbn [negb]; [reflexivity|].
    destruct (Nat.ltb (length da) (length db)); reflexivity.
Qed.

(* ---- printing ---- *)
Lemma dec_aux_app f : forall n acc, dec_aux f n acc = dec_aux f n [] ++ acc.
Proof.
  induction f as [|f IH]; intros n acc; [reflexivity|].
  cbn [dec_aux]. destruct (n / 10 =? 0); [reflexivity|].
  rewrite (IH (n / 10) (_ :: acc)), (IH (n / 10) [_]), <- app_assoc. reflexivity.
Qed.

Lemma log2_div10 n : n / 10 <> 0 -> N.log2 (n / 10) < N.log2 n.
Proof.
  intros H. assert (0 < n / 10) as P by (apply N.neq_0_lt_0; exact H).
  pose proof (N.log2_double (n / 10) P) as D.
  assert (2 * (n / 10) <= n) as Le. { clear. pose proof (N.mul_div_le n 10). lia. }
  pose proof (N.log2_le_mono _ _ Le) as M. rewrite D in M.
  apply N.lt_succ_l, N.le_succ_l in M || (apply N.le_succ_l in M; exact M).
Qed.

Lemma digit_char_ok n : is_digit (48 + n mod 10) = true.
Proof.
  apply is_digit_spec. assert (n mod 10 < 10) as H by (apply N.mod_lt; discriminate).
  generalize dependent (n mod 10). intros. lia.
Qed.

Lemma digit_char_val n : 48 + n mod 10 - 48 = n mod 10.
Proof. generalize (n mod 10). intros. lia. Qed.

Lemma div_mod10 n : n = n / 10 * 10 + n mod 10.
Proof. pose proof (N.div_mod' n 10) as H. rewrite (N.mul_comm 10) in H. exact H. Qed.

Lemma dec_aux_props f : forall n, (N.to_nat (N.log2 n) < f)%nat ->
  dec_aux f n [] <> [] /\ forallb is_digit (dec_aux f n []) = true /\ dec_val (dec_aux f n []) = n.
Proof.
  induction f as [|f IH]; intros n Hf; [lia|].
  cbn [dec_aux]. destruct (N.eqb_spec (n / 10) 0) as [E|NE].
  - repeat split; [discriminate|cbn [forallb]; now rewrite digit_char_ok|].
    unfold dec_val, digit_val. cbn [map be_val length]. rewrite digit_char_val.
    pose proof (div_mod10 n) as Q. rewrite E in Q. cbn. generalize dependent (n mod 10). intros. lia.
  - rewrite dec_aux_app.
    assert (N.to_nat (N.log2 (n / 10)) < f)%nat as Hf' by (pose proof (log2_div10 n NE); lia).
    destruct (IH (n / 10) Hf') as (I1 & I2 & I3). repeat split.
    + destruct (dec_aux f (n / 10) []); [congruence|discriminate].
    + rewrite forallb_app, I2. cbn [forallb]. now rewrite digit_char_ok.
    + rewrite dec_val_app, I3. unfold dec_val at 1, digit_val. cbn [map be_val length].
      rewrite digit_char_val. pose proof (div_mod10 n) as Q. cbn.
      generalize dependent (n mod 10). generalize dependent (n / 10). intros. lia.
Qed.

Lemma dec_string_props n :
  dec_string n <> [] /\ forallb is_digit (dec_string n) = true /\ dec_val (dec_string n) = n.
Proof. apply dec_aux_props. lia. Qed.

Theorem parse_print z : canonical z -> set_from_decimal (to_string z) = Some z.
Proof.
  intros Hc. rewrite set_from_decimal_spec. destruct z as [neg mag].
  destruct Hc as [Hm Hn]. cbn [fst snd] in *. unfold to_string.
  destruct (N.eqb_spec mag 0) as [E|NE].
  - subst. destruct neg; [now specialize (Hn eq_refl)|]. vm_compute. reflexivity.
  - destruct (dec_string_props mag) as (P1 & P2 & P3).
    unfold spec_read, spec_parse. destruct neg.
    + cbn [N.eqb Pos.eqb]. destruct (dec_string mag) as [|c r] eqn:Es; [congruence|].
      rewrite P2, P3, in_range_neg, of_Z_neg.
      apply N.leb_le in Hm. rewrite Hm. apply N.eqb_neq in NE. rewrite NE. reflexivity.
    + destruct (dec_string mag) as [|c r] eqn:Es; [congruence|].
      pose proof P2 as P2'. cbn [forallb] in P2'. apply andb_true_iff in P2' as [Dc _].
      apply is_digit_spec in Dc.
      destruct (N.eqb_spec c 45); [lia|]. destruct (N.eqb_spec c 43); [lia|].
      rewrite P2, P3, in_range_pos, of_Z_pos. apply N.leb_le in Hm. now rewrite Hm.
Qed.

(* acceptance exactness in iff form *)
Theorem accept_exact s :
  set_from_decimal s <> None <-> exists v, spec_parse s = Some v /\ (Z.abs v <= Z.of_N max_mag)%Z.
Proof.
  rewrite set_from_decimal_spec. unfold spec_read. split.
  - destruct (spec_parse s) as [v|]; [|congruence]. unfold in_range.
    destruct (N.leb_spec (Z.abs_N v) max_mag) as [L|L]; [|congruence].
    intros _. exists v. split; [reflexivity|]. rewrite <- N2Z.inj_abs_N. lia.
  - intros (v & -> & Hv). unfold in_range.
    assert (Z.abs_N v <=? max_mag = true) as R.
    { apply N.leb_le. apply N2Z.inj_le. rewrite N2Z.inj_abs_N. exact Hv. }
    rewrite R. discriminate.
Qed.
