(* C05, encoding part: round trip, order preservation, decode totality, Cmp. *)
From Coq Require Import List NArith ZArith Bool Arith Lia.
Import ListNotations.
From NV Require Import Gen.S256Consts S256.S256 S256.BytesProofs.
Local Open Scope N_scope.

Lemma encoded_len_succ : encoded_len = S mag_len.
Proof. reflexivity. Qed.

Lemma max_mag_lt m : m <= max_mag <-> m < 256 ^ N.of_nat mag_len.
Proof. unfold max_mag. pose proof (pow256_pos (N.of_nat mag_len)). lia. Qed.

Lemma canonicalb_spec z : canonicalb z = true <-> canonical z.
Proof.
  destruct z as [neg mag]. unfold canonicalb, canonical. cbn [fst snd].
  rewrite andb_true_iff, orb_true_iff, N.leb_le, !negb_true_iff, N.eqb_neq.
  destruct neg; intuition congruence.
Qed.

Lemma encode_length z : length (encode z) = encoded_len.
Proof.
  destruct z as [[|] mag]; cbn [encode length]; rewrite ?inv_bytes_length, be_bytes_length; reflexivity.
Qed.

Lemma encode_bytes z : canonical z -> Forall (fun d => d < 256) (encode z).
Proof.
  destruct z as [neg mag]. intros [Hm _]. cbn [fst snd] in *. apply max_mag_lt in Hm.
  destruct neg; cbn [encode]; constructor; try lia.
  - apply inv_bytes_bound, be_bytes_bound, Hm.
  - apply be_bytes_bound, Hm.
Qed.

Lemma decode_encode z : canonical z -> decode (encode z) = Some z.
Proof.
  intros Hc. pose proof (encode_length z) as Hl. destruct z as [neg mag].
  destruct Hc as [Hm Hn]. cbn [fst snd] in *. apply max_mag_lt in Hm.
  unfold decode. rewrite Hl, Nat.eqb_refl. cbn [negb].
  destruct neg; cbn [encode N.eqb].
  - rewrite inv_bytes_invol by (apply be_bytes_bound, Hm).
    rewrite be_val_bytes by exact Hm.
    specialize (Hn eq_refl). apply N.eqb_neq in Hn. rewrite Hn. reflexivity.
  - rewrite be_val_bytes by exact Hm. reflexivity.
Qed.

Lemma val_of_Z v : val (of_Z v) = v.
Proof. unfold val, of_Z. cbn [fst snd]. destruct (Z.ltb_spec v 0); rewrite N2Z.inj_abs_N; lia. Qed.

Lemma of_Z_val z : canonical z -> of_Z (val z) = z.
Proof.
  destruct z as [neg mag]. intros [_ Hn]. cbn [fst snd] in *. unfold of_Z, val. cbn [fst snd].
  destruct neg.
  - specialize (Hn eq_refl). f_equal.
    + apply Z.ltb_lt. lia.
    + rewrite Zabs2N.inj_opp, Zabs2N.id. reflexivity.
  - f_equal.
    + apply Z.ltb_ge. lia.
    + apply Zabs2N.id.
Qed.

Lemma canonical_of_Z v : (Z.abs v <= Z.of_N max_mag)%Z -> canonical (of_Z v).
Proof.
  intros H. unfold canonical, of_Z. cbn [fst snd]. split.
  - apply N2Z.inj_le. rewrite N2Z.inj_abs_N. exact H.
  - intros Hlt. apply Z.ltb_lt in Hlt. intros E. apply (f_equal Z.of_N) in E. rewrite N2Z.inj_abs_N in E. simpl in E. lia.
Qed.

Lemma N_compare_Z a b : (a ?= b) = (Z.of_N a ?= Z.of_N b)%Z.
Proof. symmetry. apply N2Z.inj_compare. Qed.

Lemma encode_order a b : canonical a -> canonical b ->
  lex_compare (encode a) (encode b) = (val a ?= val b)%Z.
Proof.
  destruct a as [na ma], b as [nb mb]. intros [Ha Hna] [Hb Hnb]. cbn [fst snd] in *.
  apply max_mag_lt in Ha. apply max_mag_lt in Hb.
  pose proof (be_bytes_bound _ _ Ha) as Fa. pose proof (be_bytes_bound _ _ Hb) as Fb.
  unfold val. cbn [fst snd].
  destruct na, nb; cbn [encode lex_compare N.compare].
  - rewrite lex_compare_inv by (rewrite ?be_bytes_length; auto).
    rewrite (lex_be_val 256) by (rewrite ?be_bytes_length; auto; reflexivity).
    rewrite !be_val_bytes by assumption.
    rewrite N_compare_Z, <- Z.compare_opp. reflexivity.
  - specialize (Hna eq_refl). symmetry. apply Z.compare_lt_iff. lia.
  - specialize (Hnb eq_refl). symmetry. apply Z.compare_gt_iff. lia.
  - rewrite (lex_be_val 256) by (rewrite ?be_bytes_length; auto; reflexivity).
    rewrite !be_val_bytes by assumption. apply N_compare_Z.
Qed.

Lemma cmp_val a b : canonical a -> canonical b -> cmp a b = (val a ?= val b)%Z.
Proof.
  destruct a as [na ma], b as [nb mb]. intros [Ha Hna] [Hb Hnb]. cbn [fst snd] in *.
  unfold val, cmp. cbn [fst snd].
  destruct na, nb; cbn [Bool.eqb].
  - rewrite N_compare_Z, <- Z.compare_antisym, <- Z.compare_opp. reflexivity.
  - specialize (Hna eq_refl). symmetry. apply Z.compare_lt_iff. lia.
  - specialize (Hnb eq_refl). symmetry. apply Z.compare_gt_iff. lia.
  - apply N_compare_Z.
Qed.

(* decoding is total on well-formed keys and lands in the canonical range *)
Lemma decode_total b : length b = encoded_len -> Forall (fun d => d < 256) b ->
  (hd 2 b <= 1) -> exists z, decode b = Some z /\ canonical z.
Proof.
  intros Hl Hb Hs. unfold decode. rewrite Hl, Nat.eqb_refl. cbn [negb].
  destruct b as [|s raw]; [discriminate|]. cbn [hd] in Hs.
  inversion Hb as [|? ? _ Hraw]; subst.
  rewrite encoded_len_succ in Hl. simpl in Hl. injection Hl as Hl.
  destruct (N.eqb_spec s 0).
  - eexists; split; [reflexivity|]. split; cbn [fst snd].
    + apply max_mag_lt. rewrite <- Hl, <- inv_bytes_length.
      apply be_val_bound; [lia|]. apply inv_bytes_bound, Hraw.
    + rewrite negb_true_iff, N.eqb_neq. auto.
  - destruct (N.eqb_spec s 1); [|lia].
    eexists; split; [reflexivity|]. split; cbn [fst snd]; [|discriminate].
    apply max_mag_lt. rewrite <- Hl. apply be_val_bound; [lia|exact Hraw].
Qed.

(* keys with any other sign byte or length are rejected *)
Lemma decode_reject b : (length b <> encoded_len \/ 1 < hd 0 b) -> decode b = None.
Proof.
  intros [H|H]; unfold decode.
  - apply Nat.eqb_neq in H. rewrite H. reflexivity.
  - destruct (Nat.eqb (length b) encoded_len); [|reflexivity]. cbn [negb].
    destruct b as [|s raw]; [reflexivity|]. cbn [hd] in H.
    destruct (N.eqb_spec s 0); [lia|]. destruct (N.eqb_spec s 1); [lia|]. reflexivity.
Qed.

(* the one non-canonical key: sign byte 0 followed by 0xFF bytes decodes to 0 *)
Lemma decode_negzero : decode (0 :: repeat 255 mag_len) = Some (false, 0).
Proof. vm_compute. reflexivity. Qed.

(* Z-level statements *)
Lemma roundtrip_Z v : (Z.abs v <= Z.of_N max_mag)%Z ->
  option_map val (decode (encode_Z v)) = Some v.
Proof.
  intros H. unfold encode_Z. rewrite decode_encode by (apply canonical_of_Z, H).
  cbn [option_map]. now rewrite val_of_Z.
Qed.

Lemma order_Z a b : (Z.abs a <= Z.of_N max_mag)%Z -> (Z.abs b <= Z.of_N max_mag)%Z ->
  lex_compare (encode_Z a) (encode_Z b) = (a ?= b)%Z.
Proof.
  intros Ha Hb. unfold encode_Z. rewrite encode_order by (apply canonical_of_Z; assumption).
  now rewrite !val_of_Z.
Qed.

Lemma max_mag_value : max_mag = 2 ^ 256 - 1.
Proof. vm_compute. reflexivity. Qed.
