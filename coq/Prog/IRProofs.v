(* Soundness of the dominance analysis of Prog/IR.v, proved once for every IR program. *)
From Coq Require Import String List Bool.
Import ListNotations.
From NV Require Import Prog.IR.

Section Sound.
  Variable isg : string -> bool.
  Variable crit : string -> bool.

  (* has check g passed after trace t, starting from knowledge st *)
  Fixpoint tr_st (st : bool) (t : list event) : bool :=
    match t with
    | [] => st
    | EvEffect _ :: r => tr_st st r
    | EvGuard g' b :: r => tr_st (st || (isg g' && b)) r
    end.

  (* every critical effect of t happens when the check has passed *)
  Fixpoint tr_ok (st : bool) (t : list event) : Prop :=
    match t with
    | [] => True
    | EvEffect e :: r => (crit e = true -> st = true) /\ tr_ok st r
    | EvGuard g' b :: r => tr_ok (st || (isg g' && b)) r
    end.

  Lemma tr_st_app st t1 t2 : tr_st st (t1 ++ t2) = tr_st (tr_st st t1) t2.
  Proof. revert st. induction t1 as [|[e|g' b] t1 IH]; intros st; cbn; auto. Qed.

  Lemma tr_ok_app st t1 t2 : tr_ok st (t1 ++ t2) <-> tr_ok st t1 /\ tr_ok (tr_st st t1) t2.
  Proof.
    revert st. induction t1 as [|[e|g' b] t1 IH]; intros st; cbn.
    - tauto.
    - rewrite IH. tauto.
    - apply IH.
  Qed.

  Lemma tr_st_mono a b t : (a = true -> b = true) -> tr_st a t = true -> tr_st b t = true.
  Proof.
    revert a b. induction t as [|[e|g' x] t IH]; intros a b Hab; cbn.
    - exact Hab.
    - apply IH. exact Hab.
    - apply IH. intros H. apply orb_true_iff in H. apply orb_true_iff.
      destruct H as [H|H]; [left; auto|right; exact H].
  Qed.

  Lemma tr_st_true t : tr_st true t = true.
  Proof. induction t as [|[e|g' x] t IH]; cbn; auto. Qed.

  Lemma tr_ok_mono a b t : (a = true -> b = true) -> tr_ok a t -> tr_ok b t.
  Proof.
    revert a b. induction t as [|[e|g' x] t IH]; intros a b Hab; cbn.
    - auto.
    - intros [H1 H2]. split; [intros Hc; auto|]. eapply IH; eauto.
    - apply IH. intros H. apply orb_true_iff in H. apply orb_true_iff.
      destruct H as [H|H]; [left; auto|right; exact H].
  Qed.

  Lemma tr_st_ge st t : st = true -> tr_st st t = true.
  Proof. intros ->. apply tr_st_true. Qed.

  Lemma an_sound env s t r :
    exec env s t r ->
    forall st, ok (an isg crit s st) = true ->
      tr_ok st t
      /\ (r = Fall -> fall (an isg crit s st) = true -> tr_st st t = true)
      /\ (r = Jmp -> jmp (an isg crit s st) = true -> tr_st st t = true).
  Proof.
    induction 1 as
      [ | | | e | f | g' sh f Hp | g' sh f t r Hf Hex IH
      | a b t1 t2 r Ha IHa Hb IHb | a b t1 r Ha IHa Hr
      | a b t r Ha IHa | a b t r Hb IHb
      | a | a t1 t2 r Ha IHa Hl IHl | a t1 t2 r Ha IHa Hl IHl | a t1 Ha IHa | a t1 Ha IHa
      | a t r Ha IHa | a t r Ha IHa | a ]; intros st Hok; cbn [an ok fall jmp] in *.
    - (* Skip *) cbn. repeat split; auto; discriminate.
    - (* Return *) cbn. repeat split; auto; discriminate.
    - (* Jump *) cbn. repeat split; auto; discriminate.
    - (* Effect *) cbn. repeat split; try discriminate; auto.
      intros Hc. rewrite Hc in Hok. cbn in Hok. rewrite orb_false_r in Hok. exact Hok.
    - (* Call *) cbn. repeat split; try discriminate; auto.
      intros Hc. rewrite Hc in Hok. cbn in Hok. rewrite orb_false_r in Hok. exact Hok.
    - (* guard passes *) cbn. repeat split; try discriminate; auto.
      intros _ Hfall. apply andb_true_iff in Hfall. destruct Hfall as [H1 _].
      rewrite andb_true_r. exact H1.
    - (* guard fails *) cbn. rewrite andb_false_r, orb_false_r.
      destruct (IH st Hok) as (I1 & I2 & I3). repeat split; auto.
      intros Hr Hfall. apply andb_true_iff in Hfall. destruct Hfall as [_ H2]. auto.
    - (* Seq, first falls *)
      apply andb_true_iff in Hok. destruct Hok as [Hoa Hob].
      destruct (IHa st Hoa) as (A1 & A2 & _).
      destruct (IHb _ Hob) as (B1 & B2 & B3).
      assert (Hm : fall (an isg crit a st) = true -> tr_st st t1 = true) by (intros; auto).
      repeat split.
      + apply tr_ok_app. split; [exact A1|]. eapply tr_ok_mono; [exact Hm|exact B1].
      + intros Hr Hf. rewrite tr_st_app. eapply tr_st_mono; [exact Hm|]. auto.
      + intros Hr Hj. apply andb_true_iff in Hj. destruct Hj as [_ Hj].
        rewrite tr_st_app. eapply tr_st_mono; [exact Hm|]. auto.
    - (* Seq, first stops *)
      apply andb_true_iff in Hok. destruct Hok as [Hoa Hob].
      destruct (IHa st Hoa) as (A1 & A2 & A3). repeat split; auto.
      + intros Hj Hjj. apply andb_true_iff in Hjj. destruct Hjj as [Hjj _]. auto.
    - (* Branch left *)
      apply andb_true_iff in Hok. destruct Hok as [Hoa Hob].
      destruct (IHa st Hoa) as (A1 & A2 & A3). repeat split; auto.
      + intros Hr Hf. apply andb_true_iff in Hf. destruct Hf. auto.
      + intros Hr Hf. apply andb_true_iff in Hf. destruct Hf. auto.
    - (* Branch right *)
      apply andb_true_iff in Hok. destruct Hok as [Hoa Hob].
      destruct (IHb st Hob) as (A1 & A2 & A3). repeat split; auto.
      + intros Hr Hf. apply andb_true_iff in Hf. destruct Hf. auto.
      + intros Hr Hf. apply andb_true_iff in Hf. destruct Hf. auto.
    - (* Loop done *) cbn. repeat split; auto; discriminate.
    - (* Loop iterate *)
      destruct (IHa st Hok) as (A1 & _ & _).
      destruct (IHl st Hok) as (L1 & L2 & L3). cbn [an ok fall jmp] in *.
      repeat split.
      + apply tr_ok_app. split; [exact A1|]. eapply tr_ok_mono; [|exact L1]. apply tr_st_ge.
      + intros Hr Hf. rewrite tr_st_app. eapply tr_st_mono; [|exact (L2 Hr Hf)]. apply tr_st_ge.
      + intros Hr Hj. rewrite tr_st_app. eapply tr_st_mono; [|exact (L3 Hr Hj)]. apply tr_st_ge.
    - (* Loop continue *)
      destruct (IHa st Hok) as (A1 & _ & _).
      destruct (IHl st Hok) as (L1 & L2 & L3). cbn [an ok fall jmp] in *.
      repeat split.
      + apply tr_ok_app. split; [exact A1|]. eapply tr_ok_mono; [|exact L1]. apply tr_st_ge.
      + intros Hr Hf. rewrite tr_st_app. eapply tr_st_mono; [|exact (L2 Hr Hf)]. apply tr_st_ge.
      + intros Hr Hj. rewrite tr_st_app. eapply tr_st_mono; [|exact (L3 Hr Hj)]. apply tr_st_ge.
    - (* Loop break *)
      destruct (IHa st Hok) as (A1 & _ & _). repeat split; auto.
      + intros _ Hf. apply tr_st_ge. exact Hf.
      + discriminate.
    - (* Loop return *)
      destruct (IHa st Hok) as (A1 & _ & _). repeat split; auto; discriminate.
    - (* Scope *)
      destruct (IHa st Hok) as (A1 & A2 & A3). repeat split; auto.
      + intros Hr Hf. apply andb_true_iff in Hf. destruct Hf as [Hf Hj].
        destruct r; cbn in Hr; try discriminate; auto.
      + intros Hr. destruct r; cbn in Hr; discriminate.
    - (* Func runs *)
      destruct (IHa st Hok) as (A1 & _ & _). repeat split; auto.
      + intros _ Hf. apply tr_st_ge. exact Hf.
      + discriminate.
    - (* Func not run *) cbn. repeat split; auto; discriminate.
  Qed.

  Lemma tr_st_false_passed t : tr_st false t = true -> exists g, isg g = true /\ In (EvGuard g true) t.
  Proof.
    induction t as [|[e|g' b] t IH]; cbn.
    - discriminate.
    - intros H. destruct (IH H) as (g & Hg & Hin). exists g. auto.
    - destruct (isg g') eqn:Eg; cbn.
      + destruct b; cbn.
        * intros _. exists g'. auto.
        * intros H. destruct (IH H) as (g & Hg & Hin). exists g. auto.
      + intros H. destruct (IH H) as (g & Hg & Hin). exists g. auto.
  Qed.

  (* Main theorem: if the analysis accepts s then in every execution every critical
     effect is preceded by a passed evaluation of check g. *)
  Theorem dominated_sound env s t r :
    dominated isg crit s = true -> exec env s t r ->
    forall t1 e t2, t = (t1 ++ EvEffect e :: t2)%list -> crit e = true ->
    exists g, isg g = true /\ In (EvGuard g true) t1.
  Proof.
    intros Hd Hex t1 e t2 -> Hc.
    destruct (an_sound _ _ _ _ Hex false Hd) as (Hok & _ & _).
    apply tr_ok_app in Hok. destruct Hok as [_ Hok]. cbn in Hok. destruct Hok as [Hst _].
    apply tr_st_false_passed. auto.
  Qed.

  Lemma exec_guard_env env s t r : exec env s t r -> forall gg bb, In (EvGuard gg bb) t -> bb = env gg.
  Proof.
    induction 1 as
      [ | | | e | f | g' sh f Hp | g' sh f t r Hf Hex IH
      | a b t1 t2 r Ha IHa Hb IHb | a b t1 r Ha IHa Hr
      | a b t r Ha IHa | a b t r Hb IHb
      | a | a t1 t2 r Ha IHa Hl IHl | a t1 t2 r Ha IHa Hl IHl | a t1 Ha IHa | a t1 Ha IHa
      | a t r Ha IHa | a t r Ha IHa | a ]; intros gg bb Hin; cbn in Hin.
    - contradiction.
    - contradiction.
    - contradiction.
    - destruct Hin as [Hin|[]]; discriminate.
    - destruct Hin as [Hin|[]]; discriminate.
    - destruct Hin as [Hin|[]]. injection Hin as <- <-. congruence.
    - destruct Hin as [Hin|Hin]; [injection Hin as <- <-; congruence|eauto].
    - apply in_app_iff in Hin. destruct Hin; eauto.
    - eauto.
    - eauto.
    - eauto.
    - contradiction.
    - apply in_app_iff in Hin. destruct Hin; eauto.
    - apply in_app_iff in Hin. destruct Hin; eauto.
    - eauto.
    - eauto.
    - eauto.
    - eauto.
    - contradiction.
  Qed.

  (* A request that fails check g causes no critical effect at all. *)
  Theorem failing_check_no_effect env s t r :
    dominated isg crit s = true -> exec env s t r -> (forall g, isg g = true -> env g = false) ->
    forall e, In (EvEffect e) t -> crit e = false.
  Proof.
    intros Hd Hex Henv e Hin.
    destruct (crit e) eqn:Hc; [|reflexivity]. exfalso.
    apply in_split in Hin. destruct Hin as (t1 & t2 & ->).
    destruct (dominated_sound env s _ r Hd Hex t1 e t2 eq_refl Hc) as (g & Hg & Hp).
    assert (Hin' : In (EvGuard g true) (t1 ++ EvEffect e :: t2)) by (apply in_app_iff; now left).
    apply (exec_guard_env _ _ _ _ Hex) in Hin'. rewrite (Henv g Hg) in Hin'. discriminate.
  Qed.
End Sound.

(* lifted to handler tables: handler_ok means every listed check dominates *)
Theorem handler_ok_with_sound fuel prog noinl gs crit h body env t r :
  handler_ok_with fuel prog noinl gs crit h = true ->
  lookup prog h = Some body ->
  exec env (inline_with fuel prog noinl body) t r ->
  forall isg, In isg gs -> (forall g, isg g = true -> env g = false) ->
  forall e, In (EvEffect e) t -> crit e = false.
Proof.
  unfold handler_ok_with. intros Hok Hl Hex isg Hg Henv e Hin. rewrite Hl in Hok.
  rewrite forallb_forall in Hok. specialize (Hok isg Hg).
  eapply failing_check_no_effect; eauto.
Qed.

Theorem handler_ok_with_order fuel prog noinl gs crit h body env t r :
  handler_ok_with fuel prog noinl gs crit h = true ->
  lookup prog h = Some body ->
  exec env (inline_with fuel prog noinl body) t r ->
  forall isg, In isg gs ->
  forall t1 e t2, t = (t1 ++ EvEffect e :: t2)%list -> crit e = true ->
  exists g, isg g = true /\ In (EvGuard g true) t1.
Proof.
  unfold handler_ok_with. intros Hok Hl Hex isg Hg. rewrite Hl in Hok.
  rewrite forallb_forall in Hok. specialize (Hok isg Hg).
  eapply dominated_sound; eauto.
Qed.

Theorem handler_ok_sound fuel prog gs crit h body env t r :
  handler_ok fuel prog gs crit h = true ->
  lookup prog h = Some body ->
  exec env (inline fuel prog body) t r ->
  forall g, In g gs -> env g = false ->
  forall e, In (EvEffect e) t -> crit e = false.
Proof.
  unfold handler_ok, inline. intros Hok Hl Hex g Hg Henv e Hin.
  eapply (handler_ok_with_sound _ _ _ _ _ _ _ _ _ _ Hok Hl Hex (String.eqb g)); eauto.
  - apply in_map. exact Hg.
  - intros g' Hg'. apply String.eqb_eq in Hg'. subst. exact Henv.
Qed.
