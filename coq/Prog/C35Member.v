(* Model of the membership getters behind every alphabet check (pkg/innerring/state.go,
   indexer.go): keys are nat, lists are key lists; either chain lookup may fail.
   Definitions only. *)
From Coq Require Import List Arith Bool ZArith.
Import ListNotations.
Local Open Scope Z_scope.

(* keyPosition: index of the first occurrence, -1 if absent *)
Fixpoint key_position_from (i : Z) (k : nat) (l : list nat) : Z :=
  match l with
  | [] => -1
  | x :: r => if Nat.eqb x k then i else key_position_from (i + 1) k r
  end.
Definition key_position (k : nat) (l : list nat) : Z := key_position_from 0 k l.

(* innerRingIndexer.update with timeout 0: the inner ring list is fetched first, then the
   committee; any failure fails the whole update *)
Definition update (own : nat) (ir alpha : list nat) (fail_ir fail_alpha : bool) : option (Z * Z * Z) :=
  if fail_ir then None else if fail_alpha then None
  else Some (key_position own ir, Z.of_nat (length ir), key_position own alpha).

(* Server.InnerRingIndex / AlphabetIndex / InnerRingSize: -1 / -1 / 0 on failure *)
Definition ir_index own ir alpha fi fa : Z := match update own ir alpha fi fa with Some (i, _, _) => i | None => -1 end.
Definition ir_size own ir alpha fi fa : Z := match update own ir alpha fi fa with Some (_, s, _) => s | None => 0 end.
Definition alpha_index own ir alpha fi fa : Z := match update own ir alpha fi fa with Some (_, _, a) => a | None => -1 end.
Definition is_alphabet own ir alpha fi fa : bool := 0 <=? alpha_index own ir alpha fi fa.
Definition is_active own ir alpha fi fa : bool := 0 <=? ir_index own ir alpha fi fa.

(* observed: own, ir, alpha, fail flags, (IsAlphabet, IsActive, AlphabetIndex, InnerRingIndex, InnerRingSize) *)
Definition case := (nat * list nat * list nat * bool * bool * (bool * bool * Z * Z * Z))%type.
Definition mismatch (c : case) : bool :=
  let '(own, ir, alpha, fi, fa, (ia, ic, ai, ii, sz)) := c in
  negb (Bool.eqb ia (is_alphabet own ir alpha fi fa) && Bool.eqb ic (is_active own ir alpha fi fa)
        && Z.eqb ai (alpha_index own ir alpha fi fa) && Z.eqb ii (ir_index own ir alpha fi fa)
        && Z.eqb sz (ir_size own ir alpha fi fa)).
(* reference, straight from the property: a node that is not in the alphabet list, or whose
   lookup failed, must be reported as non-member with a negative index *)
Definition ref_violation (c : case) : bool :=
  let '(own, ir, alpha, fi, fa, (ia, ic, ai, ii, sz)) := c in
  let member := negb fi && negb fa && existsb (Nat.eqb own) alpha in
  negb member && (ia || (0 <=? ai)).
Fixpoint idx_from {A} (i : nat) (f : A -> bool) (cs : list A) : list nat :=
  match cs with [] => [] | c :: r => if f c then i :: idx_from (S i) f r else idx_from (S i) f r end.
Definition mismatch_idx := idx_from 0 mismatch.
Definition ref_violation_idx := idx_from 0 ref_violation.

(* ---- histories on one indexer instance (cache with a timeout; only a reset forces a
   refresh) ---------------------------------------------------------------------------- *)
Record cache := mkcache { c_valid : bool; c_ir : Z; c_size : Z; c_alpha : Z }.
Definition cache0 : cache := mkcache false 0 0 0.

Record mstep := mkstep { s_reset : bool; s_ir : list nat; s_alpha : list nat; s_fail_ir : bool; s_fail_alpha : bool }.

(* innerRingIndexer.update: within the timeout the cached indexes are returned; otherwise the
   inner ring list is fetched and stored, then the committee; lastAccess is set only after both
   succeeded, so a failed refresh is retried by the next lookup *)
Definition cupdate (own : nat) (c : cache) (s : mstep) : cache * option (Z * Z * Z) :=
  let c := if s_reset s then mkcache false (c_ir c) (c_size c) (c_alpha c) else c in
  if c_valid c then (c, Some (c_ir c, c_size c, c_alpha c))
  else if s_fail_ir s then (c, None)
  else let c1 := mkcache false (key_position own (s_ir s)) (Z.of_nat (length (s_ir s))) (c_alpha c) in
       if s_fail_alpha s then (c1, None)
       else let c2 := mkcache true (c_ir c1) (c_size c1) (key_position own (s_alpha s)) in
            (c2, Some (c_ir c2, c_size c2, c_alpha c2)).

(* one step = the five getters called in a row (IsAlphabet, IsActive, AlphabetIndex,
   InnerRingIndex, InnerRingSize), each doing its own update *)
Definition obs := (bool * bool * Z * Z * Z)%type.
Definition cstep (own : nat) (c : cache) (s : mstep) : cache * obs :=
  let get (c : cache) (f : Z * Z * Z -> Z) (d : Z) := let '(c', r) := cupdate own c (mkstep false (s_ir s) (s_alpha s) (s_fail_ir s) (s_fail_alpha s)) in
                                                      (c', match r with Some t => f t | None => d end) in
  let '(c0, r0) := cupdate own c s in
  let a0 := match r0 with Some (_, _, a) => a | None => -1 end in
  let '(c1, i1) := get c0 (fun t => fst (fst t)) (-1) in
  let '(c2, a2) := get c1 (fun t => snd t) (-1) in
  let '(c3, i3) := get c2 (fun t => fst (fst t)) (-1) in
  let '(c4, z4) := get c3 (fun t => snd (fst t)) 0 in
  (c4, (0 <=? a0, 0 <=? i1, a2, i3, z4)).

Fixpoint crun (own : nat) (c : cache) (ss : list mstep) : list obs :=
  match ss with
  | [] => []
  | s :: r => let '(c', o) := cstep own c s in o :: crun own c' r
  end.

Definition obs_eqb (a b : obs) : bool :=
  let '(a1, a2, a3, a4, a5) := a in let '(b1, b2, b3, b4, b5) := b in
  Bool.eqb a1 b1 && Bool.eqb a2 b2 && Z.eqb a3 b3 && Z.eqb a4 b4 && Z.eqb a5 b5.
Fixpoint obs_list_eqb (a b : list obs) : bool :=
  match a, b with
  | [], [] => true
  | x :: r, y :: s => obs_eqb x y && obs_list_eqb r s
  | _, _ => false
  end.

(* reference for histories, from the property: the node may be reported as alphabet member
   only if the alphabet list of the last COMPLETE refresh contained its key *)
Fixpoint ref_hist (own : nat) (valid : bool) (good : option (list nat)) (ss : list (mstep * obs)) : bool :=
  match ss with
  | [] => true
  | (s, (ia, _, ai, _, _)) :: r =>
      let valid := if s_reset s then false else valid in
      let refreshed := negb valid && negb (s_fail_ir s) && negb (s_fail_alpha s) in
      let good' := if refreshed then Some (s_alpha s) else good in
      let valid' := valid || refreshed in
      let member := match good' with Some l => (valid') && existsb (Nat.eqb own) l | None => false end in
      (member || negb (ia || (0 <=? ai))) && ref_hist own valid' good' r
  end.

Definition hcase := (nat * list (mstep * obs))%type.
Definition hist_mismatch (h : hcase) : bool :=
  let '(own, ss) := h in negb (obs_list_eqb (crun own cache0 (map fst ss)) (map snd ss)).
Definition hist_ref_violation (h : hcase) : bool :=
  let '(own, ss) := h in negb (ref_hist own false None ss).
Definition hist_mismatch_idx := idx_from 0 hist_mismatch.
Definition hist_ref_violation_idx := idx_from 0 hist_ref_violation.
