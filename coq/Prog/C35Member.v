(* Model of the membership getters behind every alphabet check (pkg/innerring/state.go,
   indexer.go): keys are nat, lists are key lists; either chain lookup may fail.
   Definitions only. *)
From Coq Require Import List Arith Bool ZArith.
Import ListNotations.
Local Open Scope Z_scope.

(* keyPosition: index of the first occurrence, -1 if absent *)
Fixpoint key_position_from (i : Z) (k : nat) (l : list nat) : Z :=
  match l with
  | [] => -1
  | x :: r => if Nat.eqb x k then i else key_position_from (i + 1) k r
  end.
Definition key_position (k : nat) (l : list nat) : Z := key_position_from 0 k l.

(* innerRingIndexer.update with timeout 0: the inner ring list is fetched first, then the
   committee; any failure fails the whole update *)
Definition update (own : nat) (ir alpha : list nat) (fail_ir fail_alpha : bool) : option (Z * Z * Z) :=
  if fail_ir then None else if fail_alpha then None
  else Some (key_position own ir, Z.of_nat (length ir), key_position own alpha).

(* Server.InnerRingIndex / AlphabetIndex / InnerRingSize: -1 / -1 / 0 on failure *)
Definition ir_index own ir alpha fi fa : Z := match update own ir alpha fi fa with Some (i, _, _) => i | None => -1 end.
Definition ir_size own ir alpha fi fa : Z := match update own ir alpha fi fa with Some (_, s, _) => s | None => 0 end.
Definition alpha_index own ir alpha fi fa : Z := match update own ir alpha fi fa with Some (_, _, a) => a | None => -1 end.
Definition is_alphabet own ir alpha fi fa : bool := 0 <=? alpha_index own ir alpha fi fa.
Definition is_active own ir alpha fi fa : bool := 0 <=? ir_index own ir alpha fi fa.

(* observed: own, ir, alpha, fail flags, (IsAlphabet, IsActive, AlphabetIndex, InnerRingIndex, InnerRingSize) *)
Definition case := (nat * list nat * list nat * bool * bool * (bool * bool * Z * Z * Z))%type.
Definition mismatch (c : case) : bool :=
  let '(own, ir, alpha, fi, fa, (ia, ic, ai, ii, sz)) := c in
  negb (Bool.eqb ia (is_alphabet own ir alpha fi fa) && Bool.eqb ic (is_active own ir alpha fi fa)
        && Z.eqb ai (alpha_index own ir alpha fi fa) && Z.eqb ii (ir_index own ir alpha fi fa)
        && Z.eqb sz (ir_size own ir alpha fi fa)).
(* reference, straight from the property: a node that is not in the alphabet list, or whose
   lookup failed, must be reported as non-member with a negative index *)
Definition ref_violation (c : case) : bool :=
  let '(own, ir, alpha, fi, fa, (ia, ic, ai, ii, sz)) := c in
  let member := negb fi && negb fa && existsb (Nat.eqb own) alpha in
  negb member && (ia || (0 <=? ai)).
Fixpoint idx_from {A} (i : nat) (f : A -> bool) (cs : list A) : list nat :=
  match cs with [] => [] | c :: r => if f c then i :: idx_from (S i) f r else idx_from (S i) f r end.
Definition mismatch_idx := idx_from 0 mismatch.
Definition ref_violation_idx := idx_from 0 ref_violation.
