(* Executable comparison for the correspondence check of C32 (check itself). *)
From Coq Require Import List Arith Bool.
Import ListNotations.
From NV Require Import Prog.Tables_C32.

(* abstract signature scheme: a signature is (signer, signed body) *)
Definition verify (k b : nat) (s : nat * nat) : bool := Nat.eqb k (fst s) && Nat.eqb b (snd s).
Definition model_valid (allowed : list nat) (b : nat) (s : option (nat * (nat * nat))) : bool :=
  is_valid_request nat (nat * nat) nat Nat.eqb verify allowed b s.

(* (signature as sent, implementation said PermissionDenied, implementation had an effect) *)
Definition case := (option (nat * (nat * nat)) * bool * bool)%type.

(* forbidden: the model rejects but the implementation served or had an effect *)
Definition forbidden (c : case) : bool :=
  let '(s, denied, effect) := c in
  negb (model_valid [1] 0 s) && (negb denied || effect).

(* informational: the model accepts but the implementation denied *)
Definition overstrict (c : case) : bool :=
  let '(s, denied, _) := c in model_valid [1] 0 s && denied.

Fixpoint idx_from (i : nat) (f : case -> bool) (cs : list case) : list nat :=
  match cs with
  | [] => []
  | c :: r => if f c then i :: idx_from (S i) f r else idx_from (S i) f r
  end.
Definition forbidden_idx := idx_from 0 forbidden.
Definition overstrict_idx := idx_from 0 overstrict.
