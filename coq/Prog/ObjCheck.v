(* Executable comparison for the correspondence checks of C29 / C45. *)
From Coq Require Import List Arith Bool NArith.
Import ListNotations.

(* (scenario makes a check fail?, scenario is maintenance?, status code, #effects, #data messages) *)
Definition case := (bool * bool * N * nat * nat)%type.
Definition maintenance_code : N := 1027%N.

(* C29: a request failing a check must get an error status and cause no effect / data *)
Definition c29_forbidden (c : case) : bool :=
  let '(fails, _, code, eff, data) := c in
  fails && (N.eqb code 0 || negb (Nat.eqb eff 0) || negb (Nat.eqb data 0)).

(* C45: in maintenance the status is NODE_UNDER_MAINTENANCE and nothing is touched *)
Definition c45_forbidden (c : case) : bool :=
  let '(_, maint, code, eff, data) := c in
  maint && (negb (N.eqb code maintenance_code) || negb (Nat.eqb eff 0) || negb (Nat.eqb data 0)).

Fixpoint idx_from {A} (i : nat) (f : A -> bool) (cs : list A) : list nat :=
  match cs with
  | [] => []
  | c :: r => if f c then i :: idx_from (S i) f r else idx_from (S i) f r
  end.
Definition c29_forbidden_idx := idx_from 0 c29_forbidden.
Definition c45_forbidden_idx := idx_from 0 c45_forbidden.
