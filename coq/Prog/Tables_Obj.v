(* Tables for the object service handlers (C29, C45, C31): hand-written, reviewed,
   part of the trusted base. The IR itself is regenerated from /repo (Gen/Prog_ObjSvc.v). *)
From Coq Require Import String List Bool.
Import ListNotations.
From NV Require Import Prog.IR.
Open Scope string_scope.

Definition obj_fuel : nat := 3.

(* client-facing handlers as registered in cmd/neofs-node/object.go (Head and SearchV2
   are served by their *Buffered variants) *)
Definition client_handlers : list string :=
  ["objsvc.Server.Get"; "objsvc.Server.HeadBuffered"; "objsvc.Server.GetRange";
   "objsvc.Server.Delete"; "objsvc.Server.SearchV2Buffered"; "objsvc.Server.Put"].
Definition replicate_handler : string := "objsvc.Server.Replicate".

(* helpers that only build / send an error-status (or the final PUT) response *)
Definition obj_noinl (f : string) : bool :=
  mem f ["objsvc.Server.sendStatusGetResponse"; "objsvc.Server.sendStatusPutResponse";
         "objsvc.Server.sendStatusRangeResponse"; "objsvc.Server.makeStatusDeleteResponse";
         "objsvc.Server.makeStatusHeadResponse"; "objsvc.Server.signSearchResponse";
         "objsvc.Server.sendPutResponse"; "objsvc.Server.pushOpExecResult"].

(* effects that read, write or forward object data, or send data to the client *)
Definition obj_crit (e : string) : bool :=
  (has_prefix "s.handlers." e && negb (String.eqb e "s.handlers.Put"))  (* handlers.Put only creates the stream object *)
  || has_prefix "s.storage." e || has_prefix "s.nodeClients." e || has_prefix "s.meta." e
  || has_prefix "ps.forward" e
  || has_prefix "objsvc.forward" e || has_prefix "objsvc.putToRemoteNode" e
  || has_prefix "objsvc.searchOnRemote" e || has_prefix "objsvc.Server.searchOnRemote" e
  || has_prefix "objsvc.Server.ProcessSearch" e || has_prefix "objsvc.Server.processSearchRequest" e
  || has_suffix ".Send" e || has_suffix ".SendMsg" e || has_suffix ".SendAndClose" e
  || has_suffix ".WriteHeader" e || has_suffix ".WriteChunk" e.

(* the checks *)
Definition g_sig (g : string) : bool := has_prefix "VerifyRequestSignatures" g.
Definition g_maint (g : string) : bool := String.eqb g "LocalNodeUnderMaintenance".
Definition g_meta (g : string) : bool := String.eqb g "handleRequestMetaHeader".
Definition g_info (g : string) : bool := has_suffix "RequestToInfo" g.
(* PUT: the classifier may exempt a request from ACL checks (aclsvc.ErrSkipRequest) *)
Definition g_basic (g : string) : bool :=
  String.eqb g "CheckBasicACL" || String.eqb g "PutRequestToInfo:aclsvc.ErrSkipRequest".
Definition g_eacl (g : string) : bool :=
  String.eqb g "CheckEACL" || String.eqb g "PutRequestToInfo:aclsvc.ErrSkipRequest".

Definition c29_guards : list (string -> bool) := [g_sig; g_maint; g_meta; g_info; g_basic; g_eacl].

(* PUT is a loop over stream messages: each message is signature- and maintenance-checked;
   the ACL checks are made on the init message and dominate its forwarding. Chunk
   forwarding and the final close act on a stream whose init message passed the checks
   (state of putStream; validated by the correspondence check, not by the IR analysis). *)
Definition put_crit_acl (e : string) : bool := obj_crit e && negb (String.eqb e "ps.forwardChunkRequest").

Definition unary_handlers : list string :=
  ["objsvc.Server.Get"; "objsvc.Server.HeadBuffered"; "objsvc.Server.GetRange";
   "objsvc.Server.Delete"; "objsvc.Server.SearchV2Buffered"].

Definition c29_bad (prog : list (string * stmt)) : list string :=
  bad_handlers_with obj_fuel prog obj_noinl c29_guards obj_crit unary_handlers
  ++ bad_handlers_with obj_fuel prog obj_noinl [g_sig; g_maint] obj_crit ["objsvc.Server.Put"]
  ++ bad_handlers_with obj_fuel prog obj_noinl [g_meta; g_info; g_basic; g_eacl] put_crit_acl ["objsvc.Server.Put"].

(* header-time eACL: in the GET stream every send of header/payload made by WriteHeader is
   dominated by ValidateHeader *)
Definition g_hdr (g : string) : bool := String.eqb g "ValidateHeader".
Definition c29_hdr_bad (prog : list (string * stmt)) : list string :=
  bad_handlers_with obj_fuel prog obj_noinl [g_hdr] obj_crit ["objsvc.getStream.WriteHeader"].

(* accepted shapes of the `if` after each check *)
Definition obj_shapes : list string :=
  ["init; if err != nil"; "assign; if err != nil"; "assign; if metaHdrErr != nil";
   "if s.fsChain.LocalNodeUnderMaintenance(..)";
   "if !s.aclChecker.CheckBasicACL(..)";
   "if !s.aclChecker.CheckBasicACL(..) || !s.aclChecker.StickyBitCheck(..)";
   "assign; if err != nil && !errors.Is(err, aclsvc.ErrNotMatched)";
   "assign; if err != nil { if !errors.Is(err, aclsvc.ErrNotMatched) }";
   "init; if err != nil { if !errors.Is(err, aclsvc.ErrSkipRequest) } else";
   "exemption"].

Definition obj_bad_shapes (prog : list (string * stmt)) : list (string * string * string) :=
  flat_map (fun h => match lookup prog h with
                     | None => [(h, "<missing>", "")]
                     | Some b => map (fun gs => (h, fst gs, snd gs))
                                     (filter (fun gs => negb (mem (snd gs) obj_shapes)) (guards_of b))
                     end) (client_handlers ++ ["objsvc.getStream.WriteHeader"; "objsvc.getStream.ValidateHeader"]).

(* C45 *)
Definition c45_bad (prog : list (string * stmt)) : list string :=
  bad_handlers_with obj_fuel prog obj_noinl [g_maint] obj_crit client_handlers.
(* "only": replication between nodes is not refused in maintenance *)
Definition c45_replicate_guarded (prog : list (string * stmt)) : bool :=
  match lookup prog replicate_handler with
  | None => true
  | Some b => existsb (fun gs => g_maint (fst gs)) (guards_of (inline_with obj_fuel prog obj_noinl b))
  end.
