(* C32 tables (hand-written, reviewed; part of the trusted base):
   the check that must dominate, and which calls are harmless when the check fails. *)
From Coq Require Import String List Bool.
Import ListNotations.
From NV Require Import Prog.IR.
Open Scope string_scope.

Definition c32_guards : list string := ["isValidRequest"].

(* Calls that may run for a request whose signature check failed: building the
   PermissionDenied status from the error value. Nothing else. *)
Definition c32_benign : list string := ["err.Error"; "status.Error"].

Definition c32_crit (e : string) : bool := negb (mem e c32_benign).

(* accepted source shapes of the `if` that follows the evaluation of the check *)
Definition c32_shapes : list string := ["init; if err != nil"; "assign; if err != nil"].

Definition c32_fuel : nat := 4.

Definition node_handlers (ms : list string) : list string := map (fun m => "control.Server." ++ m) ms.
Definition ir_handlers (ms : list string) : list string := map (fun m => "ctlir.Server." ++ m) ms.

(* every handler evaluates the check with an accepted shape *)
Definition shapes_ok (prog : list (string * stmt)) (hs : list string) : list string :=
  filter (fun h => match lookup prog h with
                   | None => true
                   | Some b => negb (forallb (fun gs => negb (mem (fst gs) c32_guards) || mem (snd gs) c32_shapes) (guards_of b))
                   end) hs.

(* Model of the check itself (sign.go isValidRequest), over an abstract signature
   scheme: a request carries an optional (key, signature); `verify key body sig` is the
   scheme's verification predicate. *)
Section Valid.
  Variable key sigt body : Type.
  Variable key_eqb : key -> key -> bool.
  Variable verify : key -> body -> sigt -> bool.
  Definition is_valid_request (allowed : list key) (b : body) (s : option (key * sigt)) : bool :=
    match s with
    | None => false
    | Some (k, sg) => existsb (key_eqb k) allowed && verify k b sg
    end.
End Valid.
