(* C14 static tables (hand-written, reviewed; trusted base). IR: Gen/Prog_Shard.v,
   regenerated from pkg/local_object_storage/shard on every run. *)
From Coq Require Import String List Bool.
Import ListNotations.
From NV Require Import Prog.IR.
Open Scope string_scope.

Definition c14_fuel : nat := 4.

(* component calls that change stored objects, metadata or write-cache contents *)
Definition c14_mut (e : string) : bool :=
  mem e ["s.metaBase.Put"; "s.metaBase.PutCounted"; "s.metaBase.PutBatch"; "s.metaBase.Delete";
         "s.metaBase.MarkGarbage"; "s.metaBase.InhumeContainer"; "s.metaBase.DeleteContainer";
         "s.metaBase.ReviveObject"; "s.metaBase.ResyncFromBlobstor"; "s.metaBase.Reset";
         "s.metaBase.SyncCounters";
         "s.blobStor.Put"; "s.blobStor.PutBatch"; "s.blobStor.Delete";
         "s.writeCache.Put"; "s.writeCache.Delete"; "s.writeCache.Flush"].

(* the mode checks: `Mode.ReadOnly()` and the GC's `s.info.Mode != mode.ReadWrite` *)
Definition c14_isg (g : string) : bool := mem g ["ReadOnly"; "ModeNotReadWrite"].

Definition c14_shape_ok (sh : string) : bool :=
  mem sh ["if s.info.Mode.ReadOnly(..)"; "if m.ReadOnly(..)"; "if s.GetMode(..).ReadOnly(..)";
          "if s.info.Mode != mode.ReadWrite";
          "if !s.info.Mode.ReadOnly(..)"].   (* Dump: requires read-only, nothing to protect *)

(* EVERY function of the package (exported operations, background jobs, helpers) *)
Definition c14_all (prog : list (string * stmt)) : list string := map fst prog.
Definition c14_bad (prog : list (string * stmt)) : list string :=
  bad_handlers_with c14_fuel prog (fun _ => false) [c14_isg] c14_mut (c14_all prog).
Definition c14_bad_shapes (prog : list (string * stmt)) : list (string * string * string) :=
  flat_map (fun nb => map (fun gs => (fst nb, fst gs, snd gs))
                          (filter (fun gs => c14_isg (fst gs) && negb (c14_shape_ok (snd gs))) (guards_of (snd nb)))) prog.
(* the known mutating calls really occur (the deny-list is not stale) *)
Definition c14_mut_present (prog : list (string * stmt)) : list string :=
  filter c14_mut (nodup string_dec (flat_map (fun nb => names (snd nb)) prog)).
(* calls on the three components that are classified as non-mutating: listed so that a new
   mutating component method cannot appear unnoticed *)
Definition c14_readonly_calls : list string :=
  ["s.metaBase.CollectRawWithAttribute"; "s.writeCache.Iterate"; "s.blobStor.Iterate"; "s.blobStor.Exists";
   "s.writeCache.Head"; "s.blobStor.Head"; "s.blobStor.ShardID"; "s.writeCache.Init"; "s.metaBase.IsLocked";
   "s.metaBase.ListWithCursor"; "s.blobStor.Get"; "s.metaBase.ObjectStatus"; "s.writeCache.ObjectStatus";
   "s.metaBase.Open"; "s.writeCache.Open"; "s.writeCache.ReadHeader"; "s.blobStor.ReadHeader"; "s.metaBase.Reload";
   "s.metaBase.Init"; "s.metaBase.Search"; "s.metaBase.Select"; "s.metaBase.IterateExpired"; "s.metaBase.Exists";
   "s.metaBase.DumpInfo"; "s.blobStor.Type"; "s.blobStor.Path"; "s.writeCache.DumpInfo"; "s.metaBase.ObjectCounters";
   "s.metaBase.Containers"; "s.metaBase.GetContainerInfo"; "s.metaBase.GetGarbage"; "s.blobStor.Close";
   "s.blobStor.Open"; "s.blobStor.Init"; "s.writeCache.Get"; "s.writeCache.GetBytes"; "s.writeCache.GetStream";
   "s.writeCache.GetRangeStream"; "s.blobStor.GetBytes"; "s.blobStor.GetStream"; "s.blobStor.GetRangeStream";
   "s.blobStor.GetRange"; "s.metaBase.Get"; "s.metaBase.Close"; "s.writeCache.Close"; "s.writeCache.SetMode";
   "s.metaBase.SetMode"; "s.blobStor.SetCompressor"; "s.blobStor.SetLogger"; "s.blobStor.SetShardID";
   "s.metaBase.ReadShardID"; "s.metaBase.WriteShardID"; "s.writeCache.SetLogger"; "s.writeCache.SetShardIDMetrics";
   "s.metaBase.SetLogger"; "s.metaBase.ResolveECPart"; "s.metaBase.ResolveECPartWithPayloadLen";
   "s.metaBase.IterateExpiredObjects"; "s.blobStor.IterateAddresses"; "s.blobStor.IterateSizes";
   "s.writeCache.HeadToBuffer"; "s.blobStor.HeadToBuffer"; "s.metaBase.ExistsPhysical"; "s.metaBase.GetChildren";
   "s.writeCache.ReadObjectParts"; "s.blobStor.ReadObjectParts"; "s.blobStor.ReadPayloadRange"; "s.writeCache.ReadPayloadRange";
   "s.writeCache.HasAddress"; "s.metaBase.CurrentEpoch"].
Definition c14_unclassified (prog : list (string * stmt)) : list string :=
  filter (fun e => (has_prefix "s.metaBase." e || has_prefix "s.blobStor." e || has_prefix "s.writeCache." e)
                   && negb (c14_mut e) && negb (mem e c14_readonly_calls))
         (nodup string_dec (flat_map (fun nb => names (snd nb)) prog)).
