(* C35 tables (hand-written, reviewed; trusted base). IR: Gen/Prog_IR.v regenerated from
   pkg/innerring and pkg/innerring/processors/* on every run. *)
From Coq Require Import String List Bool ZArith.
Import ListNotations.
From NV Require Import Prog.IR.
Open Scope string_scope.

Definition c35_fuel : nat := 5.

(* the membership checks *)
Definition c35_isg (g : string) : bool := mem g ["IsAlphabet"; "AlphabetIndex"; "InnerRingIndex"].

(* chain transactions that need alphabet authority: direct and notary invocations through
   the morph clients, co-signing, gas transfers, epoch ticks, mint/burn/lock/cheque wrappers *)
Definition c35_chain (e : string) : bool :=
  has_suffix ".Invoke" e || has_suffix ".NotaryInvoke" e || has_suffix ".NotarySignAndInvokeTX" e
  || has_suffix ".TransferGas" e || has_suffix ".NewEpoch" e || has_suffix ".Mint" e || has_suffix ".Burn" e
  || has_suffix ".Cheque" e || has_suffix "Client.Lock" e || has_suffix ".SetConfig" e
  || has_suffix ".AlphabetUpdate" e || has_suffix ".UpdateInnerRing" e || has_suffix ".SetInnerRing" e
  || has_suffix ".UpdateNotaryList" e || has_suffix ".UpdateAlphabetList" e || has_suffix ".UpdateNeoFSAlphabetList" e.

(* calls into the analysed packages that were not inlined (depth exhausted) are unknown and
   therefore treated as needing the check *)
Definition c35_crit (prog : list (string * stmt)) (e : string) : bool :=
  c35_chain e || match lookup prog e with Some _ => true | None => false end.

(* functions called by some function of the analysed packages *)
Fixpoint calls_of (s : stmt) : list string :=
  match s with
  | Call f => [f]
  | GuardIf _ _ f => calls_of f
  | Seq a b | Branch a b => (calls_of a ++ calls_of b)%list
  | Loop a | Scope a | Func a => calls_of a
  | _ => []
  end.
Definition called (prog : list (string * stmt)) : list string := flat_map (fun nb => calls_of (snd nb)) prog.

(* entry points: functions no analysed function calls (event handlers, timer and startup
   entry points, exported methods used by other packages). Excluded with reason:
   operator-triggered control-plane calls (property C32 governs them) *)
Definition c35_excluded : list string :=
  ["innerring.Server.SignNotary"].   (* control-service request by an administrator *)
Definition c35_roots (prog : list (string * stmt)) : list string :=
  let cl := called prog in
  filter (fun n => negb (mem n cl) && negb (mem n c35_excluded)) (map fst prog).

Definition c35_bad (prog : list (string * stmt)) : list string :=
  bad_handlers_with c35_fuel prog (fun _ => false) [c35_isg] (c35_crit prog) (c35_roots prog).

(* accepted source shapes of a membership check, with the index values each one refuses *)
Definition shape_ok (sh : string) : bool :=
  (has_prefix "if !" sh && has_suffix ".IsAlphabet(..)" sh)
  || mem sh ["assign; if index < 0";
             "assign; if index < 0 || index >= len(s.contracts.alphabet)";
             "assign; if err != nil"].
Definition c35_bad_shapes (prog : list (string * stmt)) : list (string * string * string) :=
  flat_map (fun nb => map (fun gs => (fst nb, fst gs, snd gs))
                          (filter (fun gs => c35_isg (fst gs) && negb (shape_ok (snd gs))) (guards_of (snd nb)))) prog.

(* ---- what the index getters and the accepted shapes mean ------------------------- *)
Local Open Scope Z_scope.
(* Server.AlphabetIndex / InnerRingIndex: -1 when the lookup fails; keyPosition gives -1 for
   a key that is not in the list *)
Definition index_of (lookup : option Z) : Z := match lookup with None => -1 | Some i => i end.
Definition is_member (lookup : option Z) : bool := 0 <=? index_of lookup.
(* does a check of this shape stop a node whose index is i (n = number of alphabet contracts) *)
Definition shape_refuses (sh : string) (i n : Z) : bool :=
  if (has_prefix "if !" sh && has_suffix ".IsAlphabet(..)" sh)%bool then negb (0 <=? i)
  else if String.eqb sh "assign; if index < 0" then i <? 0
  else if String.eqb sh "assign; if index < 0 || index >= len(s.contracts.alphabet)" then (i <? 0) || (n <=? i)
  else if String.eqb sh "assign; if index >= len(s.contracts.alphabet)" then n <=? i
  else false.
