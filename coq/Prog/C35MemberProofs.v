From Coq Require Import List Arith Bool ZArith Lia.
Import ListNotations.
From NV Require Import Prog.C35Member.
Local Open Scope Z_scope.

Lemma key_position_from_spec i k l : 0 <= i ->
  (In k l -> i <= key_position_from i k l) /\ (~ In k l -> key_position_from i k l = -1).
Proof.
  revert i. induction l as [|x r IH]; intros i Hi; cbn [key_position_from In].
  - split; [intros []|reflexivity].
  - destruct (Nat.eqb_spec x k) as [->|Hne].
    + split; [intros _; lia|intros H; exfalso; apply H; now left].
    + destruct (IH (i + 1) ltac:(lia)) as [A B]. split.
      * intros [H|H]; [contradiction|]. specialize (A H). lia.
      * intros H. apply B. intros Hin. apply H. now right.
Qed.

Lemma key_position_nonneg_iff k l : (0 <=? key_position k l) = true <-> In k l.
Proof.
  unfold key_position. destruct (key_position_from_spec 0 k l ltac:(lia)) as [A B].
  destruct (in_dec Nat.eq_dec k l) as [Hin|Hnin].
  - split; [intros _; exact Hin|intros _]. apply Z.leb_le. auto.
  - split; [|intros H; contradiction]. rewrite (B Hnin). cbn. discriminate.
Qed.

Lemma is_alphabet_iff own ir alpha fi fa :
  is_alphabet own ir alpha fi fa = true <-> fi = false /\ fa = false /\ In own alpha.
Proof.
  unfold is_alphabet, alpha_index, update. destruct fi, fa; cbn.
  - split; [discriminate|intros (H & _); discriminate].
  - split; [discriminate|intros (H & _); discriminate].
  - split; [discriminate|intros (_ & H & _); discriminate].
  - rewrite key_position_nonneg_iff. tauto.
Qed.

Lemma non_member_negative own ir alpha fi fa :
  ~ (fi = false /\ fa = false /\ In own alpha) -> alpha_index own ir alpha fi fa < 0.
Proof.
  intros H. destruct (0 <=? alpha_index own ir alpha fi fa) eqn:E.
  - exfalso. apply H. apply (proj1 (is_alphabet_iff own ir alpha fi fa)). exact E.
  - apply Z.leb_gt. exact E.
Qed.

Lemma is_active_iff own ir alpha fi fa :
  is_active own ir alpha fi fa = true <-> fi = false /\ fa = false /\ In own ir.
Proof.
  unfold is_active, ir_index, update. destruct fi, fa; cbn.
  - split; [discriminate|intros (H & _); discriminate].
  - split; [discriminate|intros (H & _); discriminate].
  - split; [discriminate|intros (_ & H & _); discriminate].
  - rewrite key_position_nonneg_iff. tauto.
Qed.
