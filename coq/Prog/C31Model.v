(* C31 — model of Server.Replicate's decision (pkg/services/object/server.go), over
   abstract facts about the request: which signature scheme, whether the signature
   verifies for (key, object ID), container membership of server and client key, whether
   the object message decodes. Definitions only. *)
From Coq Require Import List Arith Bool NArith.
Import ListNotations.

Record rep := mkrep {
  scheme : nat;            (* 0..2 supported, >= 3 unsupported *)
  sig_ok : bool;
  server_in_cur : bool;    (* local node in the container at the current epoch *)
  client_in_cur : bool;    (* signer's key in the container at the current epoch *)
  client_in_prev : bool;   (* ... at the previous epoch *)
  cnr_missing : bool;
  obj_ok : bool;
}.

Inductive outcome := Stored | BadRequest | CnrNotFound | AccessDenied.

Definition replicate (r : rep) : outcome :=
  if negb (scheme r <? 3) then BadRequest else
  if negb (sig_ok r) then BadRequest else
  if cnr_missing r then CnrNotFound else
  if negb (server_in_cur r) then AccessDenied else
  if negb (client_in_cur r || client_in_prev r) then AccessDenied else
  if negb (obj_ok r) then BadRequest else Stored.

Definition code_of (o : outcome) : N :=
  match o with Stored => 0 | BadRequest => 1028 | CnrNotFound => 3072 | AccessDenied => 2048 end%N.

(* reference = the property text: store only if signed by a container node (current or
   previous epoch), the server is a container node, the object is valid *)
Definition may_store (r : rep) : bool :=
  (scheme r <? 3) && sig_ok r && server_in_cur r && (client_in_cur r || client_in_prev r)
  && obj_ok r && negb (cnr_missing r).

(* observed: (request facts, status code, stored?) *)
Definition case := (rep * N * bool)%type.
Definition model_mismatch (c : case) : bool :=
  let '(r, code, stored) := c in
  negb (N.eqb code (code_of (replicate r))) || negb (Bool.eqb stored (match replicate r with Stored => true | _ => false end)).
Definition ref_violation (c : case) : bool :=
  let '(r, code, stored) := c in
  (stored && negb (may_store r)) || (negb (may_store r) && N.eqb code 0).

Fixpoint idx_from {A} (i : nat) (f : A -> bool) (cs : list A) : list nat :=
  match cs with
  | [] => []
  | c :: r => if f c then i :: idx_from (S i) f r else idx_from (S i) f r
  end.
Definition model_mismatch_idx := idx_from 0 model_mismatch.
Definition ref_violation_idx := idx_from 0 ref_violation.
