(* Proofs about the GAS precision converter model (C39). *)
From Coq Require Import ZArith Bool Lia.
From NV Require Import Gen.IRingPrecisionConsts IRing.Precision.
Local Open Scope Z_scope.

Lemma in_i64_spec x : in_i64 x = true <-> - two63 <= x < two63.
Proof. unfold in_i64. rewrite andb_true_iff, Z.leb_le, Z.ltb_lt. tauto. Qed.

Lemma wrap_i64_range x : - two63 <= wrap_i64 x < two63.
Proof.
  unfold wrap_i64. pose proof (Z.mod_pos_bound (x + two63) two64z eq_refl).
  unfold two63, two64z in *. lia.
Qed.

Lemma wrap_i64_id x : - two63 <= x < two63 -> wrap_i64 x = x.
Proof. intros H. unfold wrap_i64. rewrite Z.mod_small; unfold two63, two64z in *; lia. Qed.

Lemma big_int64_range x : - two63 <= big_int64 x < two63.
Proof.
  unfold big_int64. destruct (x <? 0); [apply wrap_i64_range|].
  pose proof (Z.mod_pos_bound (Z.abs x) two64z eq_refl).
  destruct (Z.abs x mod two64z <? two63) eqn:E; [apply Z.ltb_lt in E|apply Z.ltb_ge in E];
    unfold two63, two64z in *; lia.
Qed.

(* Int64() is the identity on values that fit *)
Lemma big_int64_id x : - two63 <= x < two63 -> big_int64 x = x.
Proof.
  intros H. unfold big_int64. destruct (x <? 0) eqn:Neg.
  - apply Z.ltb_lt in Neg. rewrite Z.mod_small by (unfold two63, two64z in *; lia).
    destruct (Z.abs x <? two63) eqn:E.
    + apply Z.ltb_lt in E. rewrite wrap_i64_id; lia.
    + apply Z.ltb_ge in E. assert (x = - two63) as -> by lia. vm_compute. reflexivity.
  - apply Z.ltb_ge in Neg. rewrite Z.mod_small by (unfold two63, two64z in *; lia).
    rewrite Z.abs_eq by lia. destruct (x <? two63) eqn:E; [reflexivity|]. apply Z.ltb_ge in E. lia.
Qed.

Lemma factor_pos p : 1 <= factor p.
Proof.
  unfold factor. pose proof (Z.abs_nonneg (p - fixed8_precision)).
  pose proof (Z.pow_pos_nonneg 10 (Z.abs (p - fixed8_precision)) ltac:(lia) H). lia.
Qed.

Lemma factor_base : factor fixed8_precision = 1.
Proof. unfold factor. rewrite Z.sub_diag. reflexivity. Qed.

Lemma div_range f w : 1 <= f -> - two63 <= w < two63 -> - two63 <= w / f < two63.
Proof.
  intros Hf Hw. split.
  - apply Z.div_le_lower_bound; [lia|]. unfold two63 in *. nia.
  - destruct (Z_lt_le_dec w 0) as [Hn|Hp].
    + assert (w / f < 0) by (apply Z.div_lt_upper_bound; lia). unfold two63 in *. lia.
    + assert (w / f <= w) by (apply Z.div_le_upper_bound; [lia|nia]). lia.
Qed.

Lemma mul_in_range_factor n f : 1 <= f -> - two63 <= n * f < two63 -> - two63 <= n < two63.
Proof. intros Hf H. unfold two63 in *. nia. Qed.

(* the three shapes of a conversion *)
Lemma cmp_cases p :
  (p < fixed8_precision /\ (p <? fixed8_precision) = true /\ (fixed8_precision <? p) = false) \/
  (p = fixed8_precision /\ (p <? fixed8_precision) = false /\ (fixed8_precision <? p) = false) \/
  (fixed8_precision < p /\ (p <? fixed8_precision) = false /\ (fixed8_precision <? p) = true).
Proof.
  destruct (Z.lt_trichotomy p fixed8_precision) as [H|[H|H]]; [left|right; left|right; right];
    (split; [exact H|]); split;
    try (apply Z.ltb_lt; lia); try (apply Z.ltb_ge; lia).
Qed.

(* ---- never creates value: non-negative amounts, even when the product wraps ---- *)
Theorem no_creation_nonneg p n : 0 <= n < two63 -> round_trip p n <= n.
Proof.
  intros Hn. unfold round_trip, to_fixed8, to_balance.
  pose proof (factor_pos p) as Hf. set (f := factor p) in *.
  destruct (cmp_cases p) as [(Hp & -> & ->)|[(Hp & -> & ->)|(Hp & -> & ->)]]; unfold convert.
  - (* decrease, then multiply back *)
    assert (0 <= n / f) by (apply Z.div_pos; lia).
    assert (f * (n / f) <= n) by (apply Z.mul_div_le; lia).
    assert (n / f <= n) by (apply Z.div_le_upper_bound; [lia|nia]).
    rewrite (big_int64_id (n / f)) by (unfold two63 in *; lia).
    rewrite big_int64_id by (unfold two63 in *; nia). lia.
  - subst p. unfold f. rewrite factor_base, !Z.mul_1_r.
    rewrite (big_int64_id n) by (unfold two63 in *; lia).
    rewrite big_int64_id by (unfold two63 in *; lia). lia.
  - (* multiply (may wrap), then divide *)
    pose proof (big_int64_range (n * f)) as Hr. set (w := big_int64 (n * f)) in *.
    assert (w <= n * f) as Hw.
    { destruct (Z_lt_le_dec (n * f) two63) as [Hs|Hb].
      - unfold w. rewrite big_int64_id; [lia|]. unfold two63 in *. nia.
      - lia. }
    rewrite big_int64_id by (apply div_range; assumption).
    apply Z.le_trans with (n * f / f).
    + apply Z.div_le_mono; lia.
    + rewrite Z.div_mul by lia. lia.
Qed.

(* ---- exact when the target precision is at least the source precision,
        provided the product fits ---- *)
Theorem exact_when_increasing p n :
  fixed8_precision <= p -> in_i64 (n * factor p) = true -> round_trip p n = n.
Proof.
  intros Hp Hi. apply in_i64_spec in Hi. unfold round_trip, to_fixed8, to_balance.
  pose proof (factor_pos p) as Hf. set (f := factor p) in *.
  pose proof (mul_in_range_factor n f Hf Hi) as Hn.
  destruct (cmp_cases p) as [(Hp' & _)|[(Hp' & -> & ->)|(Hp' & -> & ->)]]; unfold convert; [lia| |].
  - subst p. unfold f in *. rewrite factor_base in *. rewrite !Z.mul_1_r in *.
    rewrite (big_int64_id n) by assumption. apply big_int64_id. assumption.
  - rewrite (big_int64_id (n * f)) by assumption. rewrite Z.div_mul by lia.
    apply big_int64_id. assumption.
Qed.

(* ---- no step overflows => no value is created, for every int64 amount ---- *)
Theorem no_creation_no_overflow p n :
  in_i64 n = true -> balance_overflows p n = false -> fixed8_overflows p (to_balance p n) = false ->
  round_trip p n <= n.
Proof.
  intros Hn Hb Hx. apply in_i64_spec in Hn.
  unfold round_trip, fixed8_overflows, balance_overflows, mul_overflows, to_fixed8, to_balance in *.
  pose proof (factor_pos p) as Hf. set (f := factor p) in *.
  destruct (cmp_cases p) as [(Hp & E1 & E2)|[(Hp & E1 & E2)|(Hp & E1 & E2)]];
    rewrite E1, E2 in *; unfold convert in *; simpl in *.
  - rewrite (big_int64_id (n / f)) in * by (apply div_range; assumption).
    apply negb_false_iff in Hx. apply in_i64_spec in Hx.
    rewrite big_int64_id by assumption.
    pose proof (Z.mul_div_le n f ltac:(lia)). lia.
  - subst p. unfold f in *. rewrite factor_base in *. rewrite !Z.mul_1_r in *.
    rewrite (big_int64_id n) by assumption. rewrite big_int64_id by assumption. lia.
  - apply negb_false_iff in Hb. apply in_i64_spec in Hb.
    rewrite (big_int64_id (n * f)) by assumption. rewrite Z.div_mul by lia.
    rewrite big_int64_id by assumption. lia.
Qed.

(* ---- partial form of "never overflow or change sign": outside the
        known-finding class the result is the exact mathematical value ---- *)
Theorem balance_safe_partial p n :
  in_i64 n = true -> balance_overflows p n = false ->
  to_balance p n = to_balance_exact p n /\ (0 <= n -> 0 <= to_balance p n).
Proof.
  intros Hn Hb. apply in_i64_spec in Hn.
  unfold balance_overflows, mul_overflows, to_balance, to_balance_exact in *.
  pose proof (factor_pos p) as Hf. set (f := factor p) in *.
  destruct (p <? fixed8_precision); unfold convert in *; simpl in *.
  - rewrite big_int64_id by (apply div_range; assumption). split; [reflexivity|].
    intros H0. apply Z.div_pos; lia.
  - apply negb_false_iff in Hb. apply in_i64_spec in Hb. rewrite big_int64_id by assumption.
    split; [reflexivity|]. intros H0. nia.
Qed.

Theorem fixed8_safe_partial p n :
  in_i64 n = true -> fixed8_overflows p n = false ->
  to_fixed8 p n = to_fixed8_exact p n /\ (0 <= n -> 0 <= to_fixed8 p n).
Proof.
  intros Hn Hb. apply in_i64_spec in Hn.
  unfold fixed8_overflows, mul_overflows, to_fixed8, to_fixed8_exact in *.
  pose proof (factor_pos p) as Hf. set (f := factor p) in *.
  destruct (fixed8_precision <? p); unfold convert in *; simpl in *.
  - rewrite big_int64_id by (apply div_range; assumption). split; [reflexivity|].
    intros H0. apply Z.div_pos; lia.
  - apply negb_false_iff in Hb. apply in_i64_spec in Hb. rewrite big_int64_id by assumption.
    split; [reflexivity|]. intros H0. nia.
Qed.

(* which precisions are safe for the whole supported range [0, 2^53) *)
Lemma factor_le_1000 p : 5 <= p <= 11 -> 1 <= factor p <= 1000.
Proof.
  intros Hp.
  assert (p = 5 \/ p = 6 \/ p = 7 \/ p = 8 \/ p = 9 \/ p = 10 \/ p = 11) as Hc by lia.
  destruct Hc as [Hc|[Hc|[Hc|[Hc|[Hc|[Hc|Hc]]]]]]; subst p; vm_compute; split; congruence.
Qed.

Lemma small_product_fits n f : 0 <= n < two53 -> 1 <= f <= 1000 -> in_i64 (n * f) = true.
Proof. intros Hn Hf. apply in_i64_spec. unfold two63, two53 in *. nia. Qed.

Theorem balance_no_overflow_upto_11 p n :
  0 <= p <= 11 -> 0 <= n < two53 -> balance_overflows p n = false.
Proof.
  intros Hp Hn. unfold balance_overflows, mul_overflows.
  destruct (p <? fixed8_precision) eqn:E; [reflexivity|]. apply Z.ltb_ge in E.
  unfold fixed8_precision in E.
  rewrite (small_product_fits n (factor p) Hn (factor_le_1000 p ltac:(lia))). reflexivity.
Qed.

Theorem fixed8_no_overflow_from_5 p n :
  5 <= p -> 0 <= n < two53 -> fixed8_overflows p n = false.
Proof.
  intros Hp Hn. unfold fixed8_overflows, mul_overflows.
  destruct (fixed8_precision <? p) eqn:E; [reflexivity|]. apply Z.ltb_ge in E.
  unfold fixed8_precision in E.
  rewrite (small_product_fits n (factor p) Hn (factor_le_1000 p ltac:(lia))). reflexivity.
Qed.

(* ---- refutations (witnesses confirmed against the Go code by the harness) ---- *)

(* full statement that does NOT hold:
     forall p n, 0 <= p <= 18 -> 0 <= n < 2^53 ->
       to_balance p n = to_balance_exact p n /\ 0 <= to_balance p n *)
Theorem in_range_safe_refuted :
  exists p n, 0 <= p <= max_precision /\ 0 <= n < two53 /\
              to_balance p n < 0 /\ to_balance p n <> to_balance_exact p n.
Proof. exists 12, 9007199254740991. vm_compute. repeat split; congruence. Qed.

(* the smallest amount that wraps at the production precision 12 *)
Theorem in_range_safe_refuted_minimal :
  to_balance 12 922337203685477 = 9223372036854770000 /\
  to_balance 12 922337203685478 = -9223372036854771616.
Proof. vm_compute. split; reflexivity. Qed.

Theorem fixed8_in_range_safe_refuted :
  exists p n, 0 <= p <= max_precision /\ 0 <= n < two53 /\ to_fixed8 p n < 0.
Proof. exists 4, 9007199254740991. vm_compute. repeat split; congruence. Qed.

(* "exact whenever the target precision is at least the source precision" needs the no-overflow premise *)
Theorem exact_refuted :
  exists p n, fixed8_precision <= p <= max_precision /\ 0 <= n < two53 /\ round_trip p n <> n.
Proof. exists 12, 9007199254740991. vm_compute. repeat split; congruence. Qed.

(* over ALL int64 amounts "never more than the original" fails for extreme negative amounts *)
Theorem no_creation_refuted_negative :
  exists p n, 0 <= p <= max_precision /\ in_i64 n = true /\ n < round_trip p n.
Proof. exists 7, (-9223372036854775808). vm_compute. repeat split; congruence. Qed.
