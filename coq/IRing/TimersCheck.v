(* Executable comparison used by the correspondence check of C40.
   A case is (number of new-epoch handlers, (mul,div) of the sub-epoch
   handlers, op list, observed per-op invocations from the Go timers). *)
From Coq Require Import List NArith Arith Bool.
Import ListNotations.
From NV Require Import Base.U64 IRing.Timers.
Local Open Scope N_scope.

Definition case := (nat * list (N * N) * list op * list obs)%type.

Definition list_nat_eqb (a b : list nat) : bool :=
  if list_eq_dec Nat.eq_dec a b then true else false.
Definition obs_eqb (a b : obs) : bool :=
  list_nat_eqb (fst a) (fst b) && list_nat_eqb (snd a) (snd b).
Fixpoint obs_list_eqb (a b : list obs) : bool :=
  match a, b with
  | [], [] => true
  | x :: a', y :: b' => obs_eqb x y && obs_list_eqb a' b'
  | _, _ => false
  end.

Definition model_ok (c : case) : bool :=
  let '(ne, deltas, ops, o) := c in obs_list_eqb (run ne ops (init deltas)) o.

(* ---- reference: right-hand sides of the C40 theorems, evaluated on the
   implementation's observations (does not use the model's state machine) --- *)

Fixpoint take_updates (ops : list op) : list N :=
  match ops with Update c :: r => c :: take_updates r | _ => [] end.

(* index of the first block time reaching t *)
Fixpoint find_first (t : N) (curs : list N) (j : nat) : option nat :=
  match curs with
  | [] => None
  | c :: r => if t <=? c then Some j else find_first t r (S j)
  end.

Fixpoint count (x : nat) (l : list nat) : nat :=
  match l with [] => 0%nat | y :: r => ((if Nat.eqb x y then 1 else 0) + count x r)%nat end.

(* handler idx must be invoked exactly once in the call find_first points to
   and never in any other call of the segment *)
Definition handler_ok (idx : nat) (sel : obs -> list nat) (t : N) (curs : list N) (seg : list obs) : bool :=
  let exp := find_first t curs 0 in
  forallb (fun jo : nat * obs =>
             let '(j, o) := jo in
             Nat.eqb (count idx (sel o))
                     (match exp with Some e => if Nat.eqb e j then 1%nat else 0%nat | None => 0%nat end))
          (combine (seq 0 (length curs)) seg).

Definition seg_ok (ne : nat) (deltas : list (N * N)) (l du : N) (curs : list N) (seg : list obs) : bool :=
  Nat.eqb (length seg) (length curs) &&
  (if l + du <? two64 then
     forallb (fun k => handler_ok k fst (l + du) curs seg) (seq 0 ne)
     && forallb (fun o : obs => forallb (fun k => Nat.ltb k ne) (fst o)
                                && forallb (fun i => Nat.ltb i (length deltas)) (snd o)) seg
     && forallb (fun imd : nat * (N * N) =>
                   let '(i, (m, dv)) := imd in
                   if (m <=? dv) && (0 <? dv) && (du * m <? two64)
                   then handler_ok i snd (l + du * m / dv) curs seg else true)
                (combine (seq 0 (length deltas)) deltas)
   else true).

Fixpoint ref_walk (ne : nat) (deltas : list (N * N)) (ops : list op) (o : list obs) : bool :=
  match ops, o with
  | [], [] => true
  | Reset l du :: r, x :: ro =>
      obs_eqb x silent
      && seg_ok ne deltas l du (take_updates r) (firstn (length (take_updates r)) ro)
      && ref_walk ne deltas r ro
  | Update _ :: r, _ :: ro => ref_walk ne deltas r ro
  | _, _ => false
  end.

Definition ref_ok (c : case) : bool :=
  let '(ne, deltas, ops, o) := c in ref_walk ne deltas ops o.

Fixpoint mism_from (i : nat) (f : case -> bool) (cs : list case) : list nat :=
  match cs with
  | [] => []
  | c :: r => if f c then mism_from (S i) f r else i :: mism_from (S i) f r
  end.
Definition model_mismatches := mism_from 0 model_ok.
Definition ref_mismatches := mism_from 0 ref_ok.
