(* Model of pkg/timers/timer.go: EpochTimers.Reset / UpdateTime (C40).
   Definitions only.

   Go (uint64 everywhere, arithmetic wraps):

     func (et *EpochTimers) UpdateTime(curr uint64) {
       if et.done { return }
       if et.nextTickAt <= curr { for h in eHandlers { h() }; et.done = true }
       for dh in deltaHandlers {
         if !dh.done && dh.nextTickAt <= curr { dh.tick(); dh.done = true } } }

     func (et *EpochTimers) Reset(lastTick, dur uint64) {
       et.nextTickAt = lastTick + dur; et.done = false
       for dh in deltaHandlers {
         dh.nextTickAt = lastTick + dur*dh.mul/dh.div; dh.done = false } }

     NewTimers: done=false, nextTickAt=0, per delta done=false, nextTickAt=0,
     mul/div = uint64(EpochMul/EpochDiv) (uint32), panics on div = 0.

   The observable of one call is the pair (indices of new-epoch handlers
   invoked, indices of sub-epoch handlers invoked), each in increasing order. *)
From Coq Require Import List NArith Bool.
Import ListNotations.
From NV Require Import Base.U64.
Local Open Scope N_scope.

Record dh := mkdh { dnext : N; ddone : bool; dmul : N; ddiv : N }.
Record st := mkst { done : bool; next : N; dhs : list dh }.

Inductive op := Reset (last dur : N) | Update (cur : N).

Definition obs := (list nat * list nat)%type.
Definition silent : obs := ([], []).

Definition init (deltas : list (N * N)) : st :=
  mkst false 0 (map (fun md => mkdh 0 false (fst md) (snd md)) deltas).

(* lastTick + dur*mul/div, as uint64 *)
Definition delta_at (last dur m d : N) : N := add64 last (mul64 dur m / d).

Definition reset (last dur : N) (s : st) : st :=
  mkst false (add64 last dur)
       (map (fun d => mkdh (delta_at last dur (dmul d) (ddiv d)) false (dmul d) (ddiv d)) (dhs s)).

Definition due (cur : N) (d : dh) : bool := negb (ddone d) && (dnext d <=? cur).

Definition fire_delta (cur : N) (d : dh) : dh :=
  if due cur d then mkdh (dnext d) true (dmul d) (ddiv d) else d.

Definition due_at (cur : N) (l : list dh) (i : nat) : bool :=
  match nth_error l i with Some d => due cur d | None => false end.

Definition update (ne : nat) (cur : N) (s : st) : st * obs :=
  if done s then (s, silent)
  else
    let fire := next s <=? cur in
    (mkst fire (next s) (map (fire_delta cur) (dhs s)),
     (if fire then seq 0 ne else [], filter (due_at cur (dhs s)) (seq 0 (length (dhs s))))).

Definition step (ne : nat) (o : op) (s : st) : st * obs :=
  match o with
  | Reset l d => (reset l d s, silent)
  | Update c => update ne c s
  end.

(* whole history: one observable per op *)
Fixpoint run (ne : nat) (ops : list op) (s : st) : list obs :=
  match ops with
  | [] => []
  | o :: r => let '(s', f) := step ne o s in f :: run ne r s'
  end.

Fixpoint final (ne : nat) (ops : list op) (s : st) : st :=
  match ops with
  | [] => s
  | o :: r => final ne r (fst (step ne o s))
  end.

(* block-time updates only (the part of a history between two resets) *)
Definition run_updates (ne : nat) (curs : list N) (s : st) : list obs :=
  run ne (map Update curs) s.

(* multiplier / divisor of the i-th sub-epoch handler: constant over a history *)
Definition muldiv (s : st) : list (N * N) := map (fun d => (dmul d, ddiv d)) (dhs s).

(* "the first observed block time that reaches t is the j-th one" *)
Definition first_reach (t : N) (curs : list N) (j : nat) : Prop :=
  (j < length curs)%nat /\ t <= nth j curs 0 /\ forall i, (i < j)%nat -> nth i curs 0 < t.

(* decidable form of first_reach (used for concrete examples) *)
Definition first_reachb (t : N) (curs : list N) (j : nat) : bool :=
  Nat.ltb j (length curs) && (t <=? nth j curs 0) && forallb (fun c => c <? t) (firstn j curs).
