(* Proofs about the epoch timer model (C40). *)
From Coq Require Import List NArith Bool Lia Arith.
Import ListNotations.
From NV Require Import Base.U64 IRing.Timers.
Local Open Scope N_scope.
Local Arguments N.leb : simpl never.

(* ---- generic list facts ------------------------------------------------ *)

Lemma count_filter (f : nat -> bool) l x :
  count_occ Nat.eq_dec (filter f l) x = if f x then count_occ Nat.eq_dec l x else 0%nat.
Proof.
  induction l as [|a l IH]; simpl.
  - destruct (f x); reflexivity.
  - destruct (f a) eqn:Fa; simpl.
    + destruct (Nat.eq_dec a x) as [->|Hne].
      * rewrite Fa. rewrite IH, Fa. reflexivity.
      * exact IH.
    + destruct (Nat.eq_dec a x) as [->|Hne].
      * rewrite Fa in *. exact IH.
      * exact IH.
Qed.

Lemma count_seq a n k :
  count_occ Nat.eq_dec (seq a n) k = if (a <=? k)%nat && (k <? a + n)%nat then 1%nat else 0%nat.
Proof.
  revert a. induction n as [|n IH]; intros a; simpl.
  - destruct (a <=? k)%nat eqn:E1; destruct (k <? a + 0)%nat eqn:E2; simpl; try reflexivity.
    apply Nat.leb_le in E1. apply Nat.ltb_lt in E2. lia.
  - rewrite IH. destruct (Nat.eq_dec a k) as [->|Hne].
    + replace (S k <=? k)%nat with false by (symmetry; apply Nat.leb_gt; lia).
      replace (k <=? k)%nat with true by (symmetry; apply Nat.leb_le; lia).
      replace (k <? k + S n)%nat with true by (symmetry; apply Nat.ltb_lt; lia).
      reflexivity.
    + destruct (S a <=? k)%nat eqn:E1; destruct (a <=? k)%nat eqn:E2;
      destruct (k <? S a + n)%nat eqn:E3; destruct (k <? a + S n)%nat eqn:E4; simpl; try reflexivity;
      repeat match goal with
      | H : (_ <=? _)%nat = true |- _ => apply Nat.leb_le in H
      | H : (_ <=? _)%nat = false |- _ => apply Nat.leb_gt in H
      | H : (_ <? _)%nat = true |- _ => apply Nat.ltb_lt in H
      | H : (_ <? _)%nat = false |- _ => apply Nat.ltb_ge in H
      end; lia.
Qed.

(* ---- first_reach ------------------------------------------------------- *)

Lemma first_reach_nil t j : ~ first_reach t [] j.
Proof. intros [H _]. simpl in H. lia. Qed.

Lemma first_reach_cons_ge t c r j : t <= c -> (first_reach t (c :: r) j <-> j = 0%nat).
Proof.
  intros Hc. split.
  - intros (_ & _ & Hb). destruct j as [|j]; [reflexivity|].
    specialize (Hb 0%nat ltac:(lia)). simpl in Hb. lia.
  - intros ->. split; [simpl; lia|]. split; [exact Hc|]. intros i Hi. lia.
Qed.

Lemma first_reach_cons_lt_0 t c r : c < t -> ~ first_reach t (c :: r) 0.
Proof. intros Hc (_ & H & _). simpl in H. lia. Qed.

Lemma first_reach_cons_lt t c r j : c < t -> (first_reach t (c :: r) (S j) <-> first_reach t r j).
Proof.
  intros Hc. split.
  - intros (Hl & Ht & Hb). split; [simpl in Hl; lia|]. split; [exact Ht|].
    intros i Hi. apply (Hb (S i)). lia.
  - intros (Hl & Ht & Hb). split; [simpl; lia|]. split; [exact Ht|].
    intros [|i] Hi; [exact Hc|]. simpl. apply Hb. lia.
Qed.

Lemma first_reach_existsb t curs : (exists j, first_reach t curs j) <-> existsb (N.leb t) curs = true.
Proof.
  induction curs as [|c r IH]; simpl.
  - split; [intros [j H]; exfalso; exact (first_reach_nil _ _ H)|discriminate].
  - destruct (N.leb t c) eqn:E; simpl.
    + apply N.leb_le in E. split; [reflexivity|]. intros _. exists 0%nat. apply first_reach_cons_ge; auto.
    + apply N.leb_gt in E. rewrite <- IH. split.
      * intros [[|j] H]; [exfalso; exact (first_reach_cons_lt_0 _ _ _ E H)|].
        exists j. apply (first_reach_cons_lt _ _ _ _ E). exact H.
      * intros [j H]. exists (S j). apply first_reach_cons_lt; assumption.
Qed.

Lemma first_reach_unique t curs j1 j2 : first_reach t curs j1 -> first_reach t curs j2 -> j1 = j2.
Proof.
  intros (L1 & T1 & B1) (L2 & T2 & B2).
  destruct (Nat.lt_trichotomy j1 j2) as [H|[H|H]]; [|exact H|].
  - specialize (B2 _ H). lia.
  - specialize (B1 _ H). lia.
Qed.

(* ---- run --------------------------------------------------------------- *)

Lemma run_app ne a b s : run ne (a ++ b) s = run ne a s ++ run ne b (final ne a s).
Proof.
  revert s. induction a as [|o a IH]; intros s; simpl; [reflexivity|].
  destruct (step ne o s) as [s' f] eqn:E. simpl. rewrite IH. reflexivity.
Qed.

Lemma run_length ne ops s : length (run ne ops s) = length ops.
Proof.
  revert s. induction ops as [|o r IH]; intros s; simpl; [reflexivity|].
  destruct (step ne o s) as [s' f]. simpl. rewrite IH. reflexivity.
Qed.

Lemma run_segment ne pre l du curs s :
  run ne (pre ++ Reset l du :: map Update curs) s =
  run ne pre s ++ silent :: run_updates ne curs (reset l du (final ne pre s)).
Proof. rewrite run_app. reflexivity. Qed.

Lemma nth_segment ne pre l du curs s j :
  nth (length pre + 1 + j) (run ne (pre ++ Reset l du :: map Update curs) s) silent =
  nth j (run_updates ne curs (reset l du (final ne pre s))) silent.
Proof.
  rewrite run_segment. rewrite app_nth2; rewrite run_length; [|lia].
  replace (length pre + 1 + j - length pre)%nat with (S j) by lia. reflexivity.
Qed.

Lemma muldiv_step ne o s : muldiv (fst (step ne o s)) = muldiv s.
Proof.
  destruct o as [l du|c]; simpl.
  - unfold muldiv, reset. simpl. rewrite map_map. reflexivity.
  - unfold update. destruct (done s); [reflexivity|]. simpl. unfold muldiv. simpl.
    rewrite map_map. apply map_ext. intros d. unfold fire_delta. destruct (due c d); reflexivity.
Qed.

Lemma muldiv_final ne ops s : muldiv (final ne ops s) = muldiv s.
Proof.
  revert s. induction ops as [|o r IH]; intros s; simpl; [reflexivity|].
  rewrite IH. apply muldiv_step.
Qed.

Lemma muldiv_nth s i m dv :
  nth_error (muldiv s) i = Some (m, dv) ->
  exists d, nth_error (dhs s) i = Some d /\ dmul d = m /\ ddiv d = dv.
Proof.
  unfold muldiv. intros H. destruct (nth_error (dhs s) i) as [d|] eqn:E.
  - rewrite (map_nth_error _ _ _ E) in H. inversion H. exists d. auto.
  - apply nth_error_None in E. assert (nth_error (map (fun d => (dmul d, ddiv d)) (dhs s)) i = None).
    { apply nth_error_None. rewrite map_length. exact E. }
    congruence.
Qed.

(* ---- once the epoch tick has fired nothing fires until the next reset --- *)

Lemma update_done ne c s : done s = true -> update ne c s = (s, silent).
Proof. intros H. unfold update. rewrite H. reflexivity. Qed.

Lemma silent_after_done ne curs s :
  done s = true -> run_updates ne curs s = repeat silent (length curs).
Proof.
  intros H. unfold run_updates. induction curs as [|c r IH]; simpl; [reflexivity|].
  rewrite (update_done _ _ _ H). rewrite IH. reflexivity.
Qed.

Lemma nth_repeat_silent n j : nth j (repeat silent n) silent = silent.
Proof. revert j. induction n; intros [|j]; simpl; auto. Qed.

Lemma concat_fst_silent n : concat (map fst (repeat silent n)) = [].
Proof. induction n; simpl; auto. Qed.
Lemma concat_snd_silent n : concat (map snd (repeat silent n)) = [].
Proof. induction n; simpl; auto. Qed.

(* one update from a state that is not done *)
Lemma update_live ne c s :
  done s = false ->
  update ne c s =
  (mkst (next s <=? c) (next s) (map (fire_delta c) (dhs s)),
   (if next s <=? c then seq 0 ne else [], filter (due_at c (dhs s)) (seq 0 (length (dhs s))))).
Proof. intros H. unfold update. rewrite H. reflexivity. Qed.

Lemma run_updates_cons ne c r s :
  run_updates ne (c :: r) s = snd (update ne c s) :: run_updates ne r (fst (update ne c s)).
Proof. unfold run_updates. simpl. destruct (update ne c s). reflexivity. Qed.

(* ---- new-epoch handlers -------------------------------------------------- *)

Lemma epoch_char ne curs : forall s j k,
  done s = false ->
  (In k (fst (nth j (run_updates ne curs s) silent)) <-> (k < ne)%nat /\ first_reach (next s) curs j).
Proof.
  induction curs as [|c r IH]; intros s j k Hd.
  - unfold run_updates. simpl. destruct j; simpl; split; try tauto; intros [_ H]; exact (first_reach_nil _ _ H).
  - rewrite run_updates_cons, (update_live _ _ _ Hd). simpl.
    destruct (next s <=? c) eqn:E.
    + apply N.leb_le in E. rewrite (first_reach_cons_ge _ _ r j E).
      destruct j as [|j]; simpl.
      * rewrite in_seq. split; [intros H; split; [lia|reflexivity]|intros [H _]; lia].
      * rewrite silent_after_done by reflexivity. rewrite nth_repeat_silent. simpl.
        split; [tauto|intros [_ H]; discriminate].
    + apply N.leb_gt in E. destruct j as [|j]; simpl.
      * split; [tauto|]. intros [_ H]. exact (first_reach_cons_lt_0 _ _ _ E H).
      * rewrite (first_reach_cons_lt _ _ r j E). apply (IH (mkst false (next s) _)). reflexivity.
Qed.

Lemma epoch_count ne curs : forall s k,
  done s = false ->
  count_occ Nat.eq_dec (concat (map fst (run_updates ne curs s))) k =
  if (k <? ne)%nat && existsb (N.leb (next s)) curs then 1%nat else 0%nat.
Proof.
  induction curs as [|c r IH]; intros s k Hd.
  - unfold run_updates. simpl. rewrite andb_false_r. reflexivity.
  - rewrite run_updates_cons, (update_live _ _ _ Hd). simpl. rewrite count_occ_app.
    destruct (next s <=? c) eqn:E; simpl.
    + rewrite silent_after_done by reflexivity. rewrite concat_fst_silent. simpl.
      rewrite count_seq. simpl. rewrite andb_true_r. destruct (k <? ne)%nat; reflexivity.
    + rewrite (IH (mkst false (next s) _)) by reflexivity. reflexivity.
Qed.

(* ---- sub-epoch handlers -------------------------------------------------- *)

Lemma in_fired i c l d :
  nth_error l i = Some d ->
  (In i (filter (due_at c l) (seq 0 (length l))) <-> due c d = true).
Proof.
  intros H. rewrite filter_In, in_seq. unfold due_at. rewrite H.
  assert (i < length l)%nat by (apply nth_error_Some; congruence). split; [tauto|]. intros; split; [lia|assumption].
Qed.

Lemma delta_char ne curs : forall s j i d,
  done s = false -> nth_error (dhs s) i = Some d ->
  (In i (snd (nth j (run_updates ne curs s) silent)) <->
   ddone d = false /\ first_reach (dnext d) curs j /\
   forall k, (k < j)%nat -> nth k curs 0 < next s).
Proof.
  induction curs as [|c r IH]; intros s j i d Hd Hn.
  - unfold run_updates. simpl. destruct j; simpl; split; try tauto; intros (_ & H & _); exact (first_reach_nil _ _ H).
  - rewrite run_updates_cons, (update_live _ _ _ Hd). simpl.
    destruct j as [|j]; simpl.
    + rewrite (in_fired _ _ _ _ Hn). unfold due. rewrite andb_true_iff, negb_true_iff, N.leb_le.
      split.
      * intros [H1 H2]. split; [exact H1|]. split; [apply first_reach_cons_ge; auto|]. intros k Hk; lia.
      * intros (H1 & (_ & H2 & _) & _). simpl in H2. auto.
    + destruct (next s <=? c) eqn:E.
      * apply N.leb_le in E. rewrite silent_after_done by reflexivity. rewrite nth_repeat_silent. simpl.
        split; [tauto|]. intros (_ & _ & H). specialize (H 0%nat ltac:(lia)). simpl in H. lia.
      * apply N.leb_gt in E.
        pose proof (map_nth_error (fire_delta c) _ _ Hn) as Hn'.
        rewrite (IH (mkst false (next s) (map (fire_delta c) (dhs s))) j i _ eq_refl Hn'). simpl.
        unfold fire_delta. destruct (due c d) eqn:Du; simpl.
        -- unfold due in Du. apply andb_true_iff in Du. destruct Du as [D1 D2].
           apply N.leb_le in D2. split; [intros (H & _); discriminate|].
           intros (_ & (_ & _ & H) & _). specialize (H 0%nat ltac:(lia)). simpl in H. lia.
        -- unfold due in Du. apply andb_false_iff in Du.
           split.
           ++ intros (H1 & H2 & H3). split; [exact H1|].
              assert (c < dnext d) as Hlt.
              { destruct Du as [Du|Du]; [rewrite H1 in Du; discriminate|apply N.leb_gt in Du; exact Du]. }
              split; [apply first_reach_cons_lt; assumption|].
              intros [|k] Hk; simpl; [exact E|apply H3; lia].
           ++ intros (H1 & H2 & H3). split; [exact H1|].
              assert (c < dnext d) as Hlt.
              { destruct Du as [Du|Du]; [rewrite H1 in Du; discriminate|apply N.leb_gt in Du; exact Du]. }
              split; [apply (first_reach_cons_lt _ _ _ _ Hlt); assumption|].
              intros k Hk. apply (H3 (S k)). lia.
Qed.

Lemma count_fired i c l d :
  nth_error l i = Some d ->
  count_occ Nat.eq_dec (filter (due_at c l) (seq 0 (length l))) i = if due c d then 1%nat else 0%nat.
Proof.
  intros H. rewrite count_filter. unfold due_at at 1. rewrite H. rewrite count_seq. simpl.
  assert (i < length l)%nat as Hl by (apply nth_error_Some; congruence).
  apply Nat.ltb_lt in Hl. rewrite Hl. reflexivity.
Qed.

Lemma delta_count ne curs : forall s i d,
  done s = false -> nth_error (dhs s) i = Some d -> dnext d <= next s ->
  count_occ Nat.eq_dec (concat (map snd (run_updates ne curs s))) i =
  if negb (ddone d) && existsb (N.leb (dnext d)) curs then 1%nat else 0%nat.
Proof.
  induction curs as [|c r IH]; intros s i d Hd Hn Hle.
  - unfold run_updates. simpl. rewrite andb_false_r. reflexivity.
  - rewrite run_updates_cons, (update_live _ _ _ Hd). simpl. rewrite count_occ_app.
    rewrite (count_fired _ _ _ _ Hn).
    destruct (next s <=? c) eqn:E.
    + apply N.leb_le in E. rewrite silent_after_done by reflexivity. rewrite concat_snd_silent. simpl.
      unfold due. replace (dnext d <=? c) with true by (symmetry; apply N.leb_le; lia).
      simpl. rewrite andb_true_r. destruct (negb (ddone d)); reflexivity.
    + pose proof (map_nth_error (fire_delta c) _ _ Hn) as Hn'.
      rewrite (IH (mkst false (next s) (map (fire_delta c) (dhs s))) i _ eq_refl Hn').
      2:{ simpl. unfold fire_delta. destruct (due c d); simpl; exact Hle. }
      unfold fire_delta. destruct (due c d) eqn:Du; simpl.
      * unfold due in Du. apply andb_true_iff in Du. destruct Du as [D1 D2]. rewrite D1, D2. reflexivity.
      * unfold due in Du. destruct (negb (ddone d)); simpl in *; [|reflexivity]. rewrite Du. reflexivity.
Qed.

(* ---- the state right after Reset ---------------------------------------- *)

Lemma add64_exact a b : a + b < two64 -> add64 a b = a + b.
Proof. intros H. unfold add64. apply wrap64_small. exact H. Qed.

Lemma reset_nth l du s i d :
  nth_error (dhs s) i = Some d ->
  nth_error (dhs (reset l du s)) i =
  Some (mkdh (delta_at l du (dmul d) (ddiv d)) false (dmul d) (ddiv d)).
Proof.
  intros H. unfold reset. simpl.
  exact (map_nth_error (fun d => mkdh (delta_at l du (dmul d) (ddiv d)) false (dmul d) (ddiv d)) i (dhs s) H).
Qed.

(* scheduled time of a sub-epoch tick when nothing wraps and mul <= div *)
Lemma delta_at_exact l du m dv :
  l + du < two64 -> du * m < two64 -> m <= dv -> dv <> 0 ->
  delta_at l du m dv = l + du * m / dv /\ l + du * m / dv <= l + du.
Proof.
  intros H1 H2 H3 H4.
  assert (du * m / dv <= du) as Hq.
  { apply N.le_trans with (du * dv / dv).
    - apply N.div_le_mono; [exact H4|]. apply N.mul_le_mono_l. exact H3.
    - rewrite N.div_mul by exact H4. apply N.le_refl. }
  split; [|lia]. unfold delta_at, mul64. rewrite (wrap64_small (du * m)) by exact H2.
  apply add64_exact. lia.
Qed.

(* ---- segment theorems (block-time updates after one Reset) --------------- *)

Theorem seg_epoch_once ne s l du curs j k :
  l + du < two64 ->
  (In k (fst (nth j (run_updates ne curs (reset l du s)) silent)) <->
   (k < ne)%nat /\ first_reach (l + du) curs j).
Proof.
  intros H. rewrite (epoch_char ne curs (reset l du s) j k eq_refl). simpl.
  rewrite (add64_exact _ _ H). reflexivity.
Qed.

Theorem seg_epoch_count ne s l du curs k :
  l + du < two64 ->
  count_occ Nat.eq_dec (concat (map fst (run_updates ne curs (reset l du s)))) k =
  if (k <? ne)%nat && existsb (N.leb (l + du)) curs then 1%nat else 0%nat.
Proof.
  intros H. rewrite (epoch_count ne curs (reset l du s) k eq_refl). simpl.
  rewrite (add64_exact _ _ H). reflexivity.
Qed.

(* faithful statement with wrap-around and without mul <= div: a sub-epoch
   handler fires at the first block time reaching its (wrapped) schedule,
   provided the new-epoch tick has not fired at an earlier block *)
Theorem seg_delta_general ne s l du curs j i m dv :
  nth_error (muldiv s) i = Some (m, dv) ->
  (In i (snd (nth j (run_updates ne curs (reset l du s)) silent)) <->
   first_reach (delta_at l du m dv) curs j /\
   forall k, (k < j)%nat -> nth k curs 0 < add64 l du).
Proof.
  intros Hm. destruct (muldiv_nth _ _ _ _ Hm) as (d & Hn & <- & <-).
  rewrite (delta_char ne curs (reset l du s) j i _ eq_refl (reset_nth l du s i d Hn)). simpl.
  tauto.
Qed.

Theorem seg_delta_once ne s l du curs j i m dv :
  nth_error (muldiv s) i = Some (m, dv) ->
  l + du < two64 -> du * m < two64 -> m <= dv -> dv <> 0 ->
  (In i (snd (nth j (run_updates ne curs (reset l du s)) silent)) <->
   first_reach (l + du * m / dv) curs j).
Proof.
  intros Hm H1 H2 H3 H4. rewrite (seg_delta_general ne s l du curs j i m dv Hm).
  destruct (delta_at_exact l du m dv H1 H2 H3 H4) as [-> Hle]. rewrite (add64_exact _ _ H1).
  split; [tauto|]. intros H. split; [exact H|]. destruct H as (_ & _ & Hb).
  intros k Hk. specialize (Hb k Hk). lia.
Qed.

Theorem seg_delta_count ne s l du curs i m dv :
  nth_error (muldiv s) i = Some (m, dv) ->
  l + du < two64 -> du * m < two64 -> m <= dv -> dv <> 0 ->
  count_occ Nat.eq_dec (concat (map snd (run_updates ne curs (reset l du s)))) i =
  if existsb (N.leb (l + du * m / dv)) curs then 1%nat else 0%nat.
Proof.
  intros Hm H1 H2 H3 H4. destruct (muldiv_nth _ _ _ _ Hm) as (d & Hn & <- & <-).
  destruct (delta_at_exact l du _ _ H1 H2 H3 H4) as [He Hle].
  rewrite (delta_count ne curs (reset l du s) i _ eq_refl (reset_nth l du s i d Hn)); simpl.
  - rewrite He. reflexivity.
  - rewrite He, (add64_exact _ _ H1). exact Hle.
Qed.

(* every single call invokes a handler at most once *)
Lemma step_nodup ne o s : NoDup (fst (snd (step ne o s))) /\ NoDup (snd (snd (step ne o s))).
Proof.
  destruct o as [l du|c]; simpl; [split; constructor|].
  unfold update. destruct (done s); simpl; [split; constructor|].
  split; [destruct (next s <=? c); [apply seq_NoDup|constructor]|].
  apply NoDup_filter. apply seq_NoDup.
Qed.

Theorem call_nodup ne ops : forall s j,
  NoDup (fst (nth j (run ne ops s) silent)) /\ NoDup (snd (nth j (run ne ops s) silent)).
Proof.
  induction ops as [|o r IH]; intros s j; simpl.
  - destruct j; simpl; split; constructor.
  - pose proof (step_nodup ne o s) as Hs. destruct (step ne o s) as [s' f]. simpl in Hs.
    destruct j as [|j]; simpl; [exact Hs|apply IH].
Qed.

(* ---- whole histories ------------------------------------------------------ *)

Theorem hist_epoch_once ne s pre l du curs j k :
  l + du < two64 ->
  (In k (fst (nth (length pre + 1 + j) (run ne (pre ++ Reset l du :: map Update curs) s) silent)) <->
   (k < ne)%nat /\ first_reach (l + du) curs j).
Proof. intros H. rewrite nth_segment. apply seg_epoch_once. exact H. Qed.

Theorem hist_delta_once ne s pre l du curs j i m dv :
  nth_error (muldiv s) i = Some (m, dv) ->
  l + du < two64 -> du * m < two64 -> m <= dv -> dv <> 0 ->
  (In i (snd (nth (length pre + 1 + j) (run ne (pre ++ Reset l du :: map Update curs) s) silent)) <->
   first_reach (l + du * m / dv) curs j).
Proof.
  intros Hm. rewrite nth_segment. apply seg_delta_once. rewrite muldiv_final. exact Hm.
Qed.

Theorem hist_delta_general ne s pre l du curs j i m dv :
  nth_error (muldiv s) i = Some (m, dv) ->
  (In i (snd (nth (length pre + 1 + j) (run ne (pre ++ Reset l du :: map Update curs) s) silent)) <->
   first_reach (delta_at l du m dv) curs j /\
   forall k, (k < j)%nat -> nth k curs 0 < add64 l du).
Proof.
  intros Hm. rewrite nth_segment. apply seg_delta_general. rewrite muldiv_final. exact Hm.
Qed.

(* the observables of the updates following a Reset, as a sub-list of the history *)
Definition segment_obs ne (pre : list op) l du curs s : list obs :=
  skipn (length pre + 1) (run ne (pre ++ Reset l du :: map Update curs) s).

Lemma segment_obs_eq ne pre l du curs s :
  segment_obs ne pre l du curs s = run_updates ne curs (reset l du (final ne pre s)).
Proof.
  unfold segment_obs. rewrite run_segment.
  replace (length pre + 1)%nat with (length (run ne pre s) + 1)%nat by (rewrite run_length; reflexivity).
  rewrite skipn_app. rewrite skipn_all2 by lia.
  replace (length (run ne pre s) + 1 - length (run ne pre s))%nat with 1%nat by lia. reflexivity.
Qed.

Theorem hist_epoch_count ne s pre l du curs k :
  l + du < two64 ->
  count_occ Nat.eq_dec (concat (map fst (segment_obs ne pre l du curs s))) k =
  if (k <? ne)%nat && existsb (N.leb (l + du)) curs then 1%nat else 0%nat.
Proof. intros H. rewrite segment_obs_eq. apply seg_epoch_count. exact H. Qed.

Theorem hist_delta_count ne s pre l du curs i m dv :
  nth_error (muldiv s) i = Some (m, dv) ->
  l + du < two64 -> du * m < two64 -> m <= dv -> dv <> 0 ->
  count_occ Nat.eq_dec (concat (map snd (segment_obs ne pre l du curs s))) i =
  if existsb (N.leb (l + du * m / dv)) curs then 1%nat else 0%nat.
Proof.
  intros Hm. rewrite segment_obs_eq. apply seg_delta_count. rewrite muldiv_final. exact Hm.
Qed.

(* after the new-epoch tick nothing fires until the next reset *)
Theorem hist_silent_until_reset ne s pre l du curs j j' :
  l + du < two64 ->
  first_reach (l + du) curs j -> (j < j')%nat ->
  nth (length pre + 1 + j') (run ne (pre ++ Reset l du :: map Update curs) s) silent = silent.
Proof.
  intros H Hr Hlt. rewrite nth_segment.
  set (tr := run_updates ne curs (reset l du (final ne pre s))).
  assert (forall k, ~ In k (fst (nth j' tr silent))) as He.
  { intros k Hin. apply (seg_epoch_once ne _ l du curs j' k H) in Hin. destruct Hin as [_ Hin].
    pose proof (first_reach_unique _ _ _ _ Hr Hin). lia. }
  assert (forall i, ~ In i (snd (nth j' tr silent))) as Hdl.
  { intros i Hin. unfold tr in Hin.
    destruct (nth_error (dhs (reset l du (final ne pre s))) i) as [d|] eqn:En.
    - apply (delta_char ne curs (reset l du (final ne pre s)) j' i d eq_refl En) in Hin. destruct Hin as (_ & _ & Hb).
      specialize (Hb j Hlt). simpl in Hb. rewrite (add64_exact _ _ H) in Hb.
      destruct Hr as (_ & Hr & _). lia.
    - (* index outside the handler list: never reported *)
      assert (forall cs st0 jj, done st0 = false -> nth_error (dhs st0) i = None ->
              ~ In i (snd (nth jj (run_updates ne cs st0) silent))) as Hnone.
      { clear. induction cs as [|c r IH]; intros st0 jj Hd Hn.
        - destruct jj; unfold run_updates; simpl; tauto.
        - rewrite run_updates_cons, (update_live _ _ _ Hd). simpl.
          destruct jj as [|jj]; simpl.
          + rewrite filter_In, in_seq. apply nth_error_None in Hn. lia.
          + destruct (next st0 <=? c) eqn:E.
            * rewrite silent_after_done by reflexivity. rewrite nth_repeat_silent. simpl. tauto.
            * apply IH; [reflexivity|]. simpl. apply nth_error_None. rewrite map_length.
              apply nth_error_None. exact Hn. }
      exact (Hnone curs (reset l du (final ne pre s)) j' eq_refl En Hin). }
  destruct (nth j' tr silent) as [a b]. simpl in *. unfold silent.
  destruct a as [|x a]; [|exfalso; apply (He x); left; reflexivity].
  destruct b as [|y b]; [reflexivity|exfalso; apply (Hdl y); left; reflexivity].
Qed.

Lemma first_reachb_spec t curs j : first_reachb t curs j = true -> first_reach t curs j.
Proof.
  unfold first_reachb. rewrite !andb_true_iff. intros [[H1 H2] H3].
  apply Nat.ltb_lt in H1. apply N.leb_le in H2. split; [exact H1|]. split; [exact H2|].
  intros i Hi. rewrite forallb_forall in H3.
  assert (In (nth i curs 0) (firstn j curs)) as Hin.
  { rewrite <- (firstn_skipn j curs) at 1. rewrite app_nth1 by (rewrite firstn_length; lia).
    apply nth_In. rewrite firstn_length. lia. }
  apply H3 in Hin. apply N.ltb_lt in Hin. exact Hin.
Qed.
