(* Model of pkg/innerring/processors/governance/list.go (C36). Definitions only.
   Keys are natural numbers ordered like keys.PublicKeys (the harness reports
   a key as its rank in the sorted universe).

   newAlphabetList(fsChain, mainnet):
     sort both; ln = len(fsChain); ln == 0 -> errEmptyFSChain; len(mainnet) < ln -> errNotEnoughKeys
     hmap[addr] = false for fsChain; newNodes = 0; limit = (ln-1)/3
     for node in mainnet { if len(result) == ln {break}
        if node not in hmap { if newNodes == limit {continue}; newNodes++ } else { hmap[node] = true }
        result = append(result, node) }
     if newNodes == 0 { return nil, nil }
     for node in fsChain { if len(result) == ln {break}; if !hmap[node] { result = append(result, node) } }
     sort result
   updateInnerRing(innerRing, before, after)   (after the repair `fix: innerring/governance: do not list ... twice`):
     len(before) != len(after) -> errNotEqualLen
     for x in innerRing: first j with x == before[j] -> append after[j];
                         else append x unless after contains x
   (the code before the repair appended x unconditionally: update_inner_ring_old) *)
From Coq Require Import List Arith Bool Sorting.Mergesort.
Import ListNotations.

Module NatSort := Sort NatOrder.
Definition sort (l : list nat) : list nat := NatSort.sort l.

Definition mem (x : nat) (l : list nat) : bool := existsb (Nat.eqb x) l.

Inductive alpha_res := ErrEmpty | ErrShort | Unchanged | Proposed (l : list nat).

(* loop over the main-network list; state = (result, marked fsChain keys, newNodes) *)
Fixpoint mn_loop (ln limit : nat) (fs mn res marked : list nat) (nn : nat) : list nat * list nat * nat :=
  match mn with
  | [] => (res, marked, nn)
  | x :: r =>
      if Nat.eqb (length res) ln then (res, marked, nn)
      else if mem x fs then mn_loop ln limit fs r (res ++ [x]) (x :: marked) nn
      else if Nat.eqb nn limit then mn_loop ln limit fs r res marked nn
      else mn_loop ln limit fs r (res ++ [x]) marked (S nn)
  end.

Fixpoint fill (ln : nat) (fs res marked : list nat) : list nat :=
  match fs with
  | [] => res
  | x :: r =>
      if Nat.eqb (length res) ln then res
      else if mem x marked then fill ln r res marked
      else fill ln r (res ++ [x]) marked
  end.

Definition new_alphabet_list (fs0 mn0 : list nat) : alpha_res :=
  let fs := sort fs0 in
  let mn := sort mn0 in
  let ln := length fs in
  if Nat.eqb ln 0 then ErrEmpty
  else if Nat.ltb (length mn) ln then ErrShort
  else
    let '(res, marked, nn) := mn_loop ln ((ln - 1) / 3) fs mn [] [] 0 in
    if Nat.eqb nn 0 then Unchanged
    else Proposed (sort (fill ln fs res marked)).

Fixpoint index_of (x : nat) (l : list nat) : option nat :=
  match l with
  | [] => None
  | y :: r => if Nat.eqb x y then Some 0 else option_map S (index_of x r)
  end.

Definition replace_key (before after : list nat) (x : nat) : nat :=
  match index_of x before with
  | Some j => nth j after x
  | None => x
  end.

(* one step of the loop: the keys appended for inner-ring key x *)
Definition step_key (before after : list nat) (x : nat) : list nat :=
  match index_of x before with
  | Some j => [nth j after x]
  | None => if mem x after then [] else [x]
  end.

Definition update_inner_ring (ir before after : list nat) : option (list nat) :=
  if Nat.eqb (length before) (length after) then Some (flat_map (step_key before after) ir) else None.

(* updateInnerRing before the repair: every key outside `before` is copied *)
Definition update_inner_ring_old (ir before after : list nat) : option (list nat) :=
  if Nat.eqb (length before) (length after) then Some (map (replace_key before after) ir) else None.

(* processAlphabetSync: newAlphabetList sorts fsChain in place, so `before` is the sorted current alphabet *)
Definition pipeline_with (uir : list nat -> list nat -> list nat -> option (list nat))
           (fs mn ir : list nat) : alpha_res * option (list nat) :=
  match new_alphabet_list fs mn with
  | Proposed a =>
      (Proposed a, match uir ir (sort fs) a with Some l => Some (sort l) | None => None end)
  | r => (r, None)
  end.
Definition pipeline := pipeline_with update_inner_ring.
Definition pipeline_old := pipeline_with update_inner_ring_old.
