(* Executable comparison and boolean reference predicates for C36. *)
From Coq Require Import List Arith Bool.
Import ListNotations.
From NV Require Import IRing.Alphabet.

Definition list_nat_eqb (a b : list nat) : bool := if list_eq_dec Nat.eq_dec a b then true else false.

Fixpoint nodupb (l : list nat) : bool :=
  match l with [] => true | x :: r => negb (mem x r) && nodupb r end.
Definition subsetb (a b : list nat) : bool := forallb (fun x => mem x b) a.
Definition new_count (alpha fs : list nat) : nat := length (filter (fun x => negb (mem x fs)) alpha).

(* --- the alphabet part of the property, for a proposed list `alpha` --- *)
Definition alpha_ok (fs mn alpha : list nat) : bool :=
  Nat.eqb (length alpha) (length fs)                       (* same size *)
  && nodupb alpha                                          (* no duplicates *)
  && forallb (fun x => mem x fs || mem x mn) alpha         (* current members and main-network keys *)
  && Nat.leb (new_count alpha fs) ((length fs - 1) / 3)    (* at most floor((n-1)/3) new *)
  && Nat.ltb 0 (new_count alpha fs).                       (* proposed only when something changed *)

Definition alpha_res_ok (fs mn : list nat) (r : alpha_res) : bool :=
  match r with
  | Proposed alpha => alpha_ok fs mn alpha
  | Unchanged => true
  | _ => false
  end.

(* --- the inner-ring part --- *)
Definition ir_expected (ir fs alpha : list nat) : list nat :=
  sort (filter (fun x => negb (mem x fs && negb (mem x alpha))) ir      (* drop replaced keys *)
        ++ filter (fun x => negb (mem x fs) && negb (mem x ir)) alpha).   (* add the new keys (once: a new key may be an inner-ring key already) *)
Definition ir_ok (ir fs alpha newir : list nat) : bool :=
  nodupb newir && list_nat_eqb (sort newir) (ir_expected ir fs alpha).

(* coverage class (the former finding ir-extra-key-promoted): an inner-ring key outside the current
   alphabet is one of the proposed alphabet keys *)
Definition promoted_extra (ir fs alpha : list nat) : bool :=
  existsb (fun x => negb (mem x fs) && mem x alpha) ir.

(* inputs the property quantifies over *)
Definition in_contract (fs mn ir : list nat) : bool :=
  nodupb fs && nodupb mn && nodupb ir && Nat.ltb 0 (length fs) && Nat.leb (length fs) (length mn)
  && subsetb fs ir.

(* case = inputs + what the Go code returned: astat (0 list, 1 empty, 2 short, 3 nil), alpha, irstat (0 ok, 1 len, 7 not run), newir *)
Definition case := (list nat * list nat * list nat * nat * list nat * nat * list nat)%type.

Definition model_ok (c : case) : bool :=
  let '(fs, mn, ir, astat, alpha, irstat, newir) := c in
  match pipeline fs mn ir with
  | (ErrEmpty, _) => Nat.eqb astat 1
  | (ErrShort, _) => Nat.eqb astat 2
  | (Unchanged, _) => Nat.eqb astat 3
  | (Proposed a, r) =>
      Nat.eqb astat 0 && list_nat_eqb a alpha &&
      match r with
      | Some l => Nat.eqb irstat 0 && list_nat_eqb l newir
      | None => Nat.eqb irstat 1
      end
  end.

Definition ref_alpha_ok (c : case) : bool :=
  let '(fs, mn, ir, astat, alpha, irstat, newir) := c in
  if in_contract fs mn ir then
    match astat with
    | 0 => alpha_ok fs mn alpha
    | 3 => true
    | _ => false
    end
  else true.

Definition ref_ir_ok (c : case) : bool :=
  let '(fs, mn, ir, astat, alpha, irstat, newir) := c in
  if in_contract fs mn ir && Nat.eqb astat 0 then Nat.eqb irstat 0 && ir_ok ir fs alpha newir else true.

Definition promoted (c : case) : bool :=
  let '(fs, mn, ir, astat, alpha, irstat, newir) := c in promoted_extra ir fs alpha.

Definition ref_full_ok (c : case) : bool := ref_alpha_ok c && ref_ir_ok c.

Fixpoint mism_from (i : nat) (f : case -> bool) (cs : list case) : list nat :=
  match cs with
  | [] => []
  | c :: r => if f c then mism_from (S i) f r else i :: mism_from (S i) f r
  end.
Definition model_mismatches := mism_from 0 model_ok.
Definition ref_full_mismatches := mism_from 0 ref_full_ok.
Definition promoted_class := mism_from 0 (fun c => negb (promoted c)).

(* --- finite universe of 8 keys: subsets as bit masks --- *)
Definition keys_of_mask (m : nat) : list nat := filter (fun i => Nat.testbit m i) (seq 0 8).
Definition pair_ok (a b : nat) : bool :=
  let fs := keys_of_mask a in let mn := keys_of_mask b in
  if Nat.ltb 0 (length fs) && Nat.ltb (length fs) 8 && Nat.leb (length fs) (length mn)
  then alpha_res_ok fs mn (new_alphabet_list fs mn) else true.
Definition universe8_ok : bool :=
  forallb (fun a => forallb (fun b => pair_ok a b) (seq 0 256)) (seq 0 256).
