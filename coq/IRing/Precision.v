(* Model of pkg/util/precision/converter.go (C39). Definitions only.

   Go:
     NewConverter(p): exp = |int(p) - 8|; factor = big.NewInt(int64(math.Pow10(exp)))
     convert(n, factor, decrease) = decrease ? n.Div(factor) : n.Mul(factor)      (big.Int)
     ToBalancePrecision(n int64) = convert(big(n), factor, 8 > p).Int64()
     ToFixed8(n int64)           = convert(big(n), factor, 8 < p).Int64()

   big.Int.Div is Euclidean division; for a positive divisor that is floor
   division = Z.div.  big.Int.Int64() does not fail when the value does not
   fit: it takes the low 64 bits of |x| as an int64 and negates (wrapping) if
   x < 0 -- modelled literally by big_int64. *)
From Coq Require Import ZArith Bool List.
Import ListNotations.
From NV Require Import Gen.IRingPrecisionConsts.
Local Open Scope Z_scope.

Definition two63 : Z := 9223372036854775808.
Definition two64z : Z := 18446744073709551616.
Definition two53 : Z := 9007199254740992.

Definition in_i64 (x : Z) : bool := (- two63 <=? x) && (x <? two63).

(* int64 two's-complement wrap *)
Definition wrap_i64 (x : Z) : Z := (x + two63) mod two64z - two63.

Definition big_int64 (x : Z) : Z :=
  let a := Z.abs x mod two64z in                       (* low64(x.abs) *)
  let v := if a <? two63 then a else a - two64z in     (* int64(uint64) *)
  if x <? 0 then wrap_i64 (- v) else v.                (* if x.neg { v = -v } *)

Definition factor (p : Z) : Z := 10 ^ Z.abs (p - fixed8_precision).

Definition convert (n f : Z) (decrease : bool) : Z := if decrease then n / f else n * f.

Definition to_balance (p n : Z) : Z := big_int64 (convert n (factor p) (p <? fixed8_precision)).
Definition to_fixed8 (p n : Z) : Z := big_int64 (convert n (factor p) (fixed8_precision <? p)).
Definition round_trip (p n : Z) : Z := to_fixed8 p (to_balance p n).

(* exact (mathematical) results *)
Definition to_balance_exact (p n : Z) : Z := convert n (factor p) (p <? fixed8_precision).
Definition to_fixed8_exact (p n : Z) : Z := convert n (factor p) (fixed8_precision <? p).

(* known-finding class: the conversion multiplies and the product leaves int64,
   so Int64() wraps silently *)
Definition mul_overflows (decrease : bool) (n f : Z) : bool := negb decrease && negb (in_i64 (n * f)).
Definition balance_overflows (p n : Z) : bool := mul_overflows (p <? fixed8_precision) n (factor p).
Definition fixed8_overflows (p n : Z) : bool := mul_overflows (fixed8_precision <? p) n (factor p).
