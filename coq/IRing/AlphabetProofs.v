(* Proofs for C36: updateInnerRing for all lists (induction); newAlphabetList on
   the property's finite domain (all subsets of an 8-key universe) by computation. *)
From Coq Require Import List Arith Bool Lia.
Import ListNotations.
From NV Require Import IRing.Alphabet IRing.AlphabetCheck.

(* ---- small facts --------------------------------------------------------- *)

Lemma mem_In x l : mem x l = true <-> In x l.
Proof.
  unfold mem. rewrite existsb_exists. split.
  - intros (y & Hy & E). apply Nat.eqb_eq in E. subst. exact Hy.
  - intros H. exists x. split; [exact H|apply Nat.eqb_refl].
Qed.

Lemma nodupb_spec l : nodupb l = true <-> NoDup l.
Proof.
  induction l as [|x r IH]; simpl.
  - split; [constructor|reflexivity].
  - rewrite andb_true_iff, negb_true_iff, IH. split.
    + intros [H1 H2]. constructor; [|exact H2]. intros Hin. apply mem_In in Hin. congruence.
    + intros H. inversion H as [|? ? Hn Hr]; subst. split; [|exact Hr].
      destruct (mem x r) eqn:E; [|reflexivity]. apply mem_In in E. contradiction.
Qed.

Lemma index_of_Some x l j : index_of x l = Some j -> nth_error l j = Some x.
Proof.
  revert j. induction l as [|y r IH]; simpl; intros j H; [discriminate|].
  destruct (Nat.eqb x y) eqn:E.
  - inversion H. subst. apply Nat.eqb_eq in E. subst. reflexivity.
  - destruct (index_of x r) as [k|]; simpl in H; [|discriminate]. inversion H. subst. simpl. apply IH. reflexivity.
Qed.

Lemma index_of_None x l : index_of x l = None <-> ~ In x l.
Proof.
  induction l as [|y r IH]; simpl; [tauto|].
  destruct (Nat.eqb x y) eqn:E.
  - apply Nat.eqb_eq in E. subst. split; [discriminate|]. intros H. exfalso. apply H. left. reflexivity.
  - apply Nat.eqb_neq in E. destruct (index_of x r) as [k|]; simpl.
    + split; [discriminate|]. intros H. exfalso. assert (~ In x r) by tauto. apply IH in H0. discriminate.
    + split; [|reflexivity]. intros _ [H|H]; [congruence|]. apply IH in H; [exact H|reflexivity].
Qed.

Lemma index_of_nth l : forall j y, NoDup l -> nth_error l j = Some y -> index_of y l = Some j.
Proof.
  induction l as [|x r IH]; intros j y Hnd Hn; [destruct j; discriminate|].
  inversion Hnd as [|? ? Hx Hr]; subst. destruct j as [|j]; simpl in *.
  - inversion Hn. subst. rewrite Nat.eqb_refl. reflexivity.
  - destruct (Nat.eqb y x) eqn:E.
    + apply Nat.eqb_eq in E. subst. exfalso. apply Hx. eapply nth_error_In. exact Hn.
    + rewrite (IH j y Hr Hn). reflexivity.
Qed.

Lemma NoDup_map_inj_on (f : nat -> nat) l :
  (forall x y, In x l -> In y l -> f x = f y -> x = y) -> NoDup l -> NoDup (map f l).
Proof.
  induction l as [|a r IH]; intros Hinj Hnd; simpl; [constructor|].
  inversion Hnd as [|? ? Ha Hr]; subst. constructor.
  - intros Hin. apply in_map_iff in Hin. destruct Hin as (y & Hy & Hyr).
    assert (y = a) by (apply Hinj; [right; exact Hyr|left; reflexivity|exact Hy]). subst. contradiction.
  - apply IH; [|exact Hr]. intros x y Hx Hy. apply Hinj; right; assumption.
Qed.

(* ---- updateInnerRing, all lists ------------------------------------------- *)

Lemma NoDup_app_intro (l1 l2 : list nat) :
  NoDup l1 -> NoDup l2 -> (forall z, In z l1 -> ~ In z l2) -> NoDup (l1 ++ l2).
Proof.
  induction l1 as [|a r IH]; intros H1 H2 Hd; simpl; [exact H2|].
  inversion H1 as [|? ? Ha Hr]; subst. constructor.
  - intros Hin. apply in_app_or in Hin. destruct Hin as [Hin|Hin]; [contradiction|].
    apply (Hd a); [left; reflexivity|exact Hin].
  - apply IH; [exact Hr|exact H2|]. intros z Hz. apply Hd. right. exact Hz.
Qed.

Lemma NoDup_flat_map_disj (g : nat -> list nat) l :
  NoDup l -> (forall x, In x l -> NoDup (g x)) ->
  (forall x y z, In x l -> In y l -> In z (g x) -> In z (g y) -> x = y) ->
  NoDup (flat_map g l).
Proof.
  induction l as [|a r IH]; intros Hnd Hg Hdis; simpl; [constructor|].
  inversion Hnd as [|? ? Ha Hr]; subst.
  apply NoDup_app_intro.
  - apply Hg. left. reflexivity.
  - apply IH; [exact Hr| |].
    + intros x Hx. apply Hg. right. exact Hx.
    + intros x y z Hx Hy. apply Hdis; right; assumption.
  - intros z Hz Hin. apply in_flat_map in Hin. destruct Hin as (y & Hy & Hzy).
    assert (a = y) by (apply (Hdis a y z); [left; reflexivity|right; exact Hy|exact Hz|exact Hzy]).
    subst. contradiction.
Qed.

Section UpdateInnerRing.
  Variables ir before after : list nat.
  Hypothesis Hlen : length before = length after.
  Hypothesis Hnb : NoDup before.
  Hypothesis Hna : NoDup after.
  Hypothesis Hni : NoDup ir.

  Let f := replace_key before after.
  Let g := step_key before after.

  Lemma f_in_before x : In x before -> exists j, nth_error before j = Some x /\ nth_error after j = Some (f x).
  Proof.
    intros Hin. unfold f, replace_key. destruct (index_of x before) as [j|] eqn:E.
    - exists j. pose proof (index_of_Some _ _ _ E) as Hj. split; [exact Hj|].
      assert (j < length after) as Hl by (rewrite <- Hlen; apply nth_error_Some; congruence).
      apply nth_error_nth'. exact Hl.
    - apply index_of_None in E. contradiction.
  Qed.

  Lemma f_not_before x : ~ In x before -> f x = x.
  Proof. intros H. unfold f, replace_key. apply index_of_None in H. rewrite H. reflexivity. Qed.

  Lemma f_in_after x : In x before -> In (f x) after.
  Proof. intros Bx. destruct (f_in_before x Bx) as (j & _ & Hj). eapply nth_error_In. exact Hj. Qed.

  Lemma f_inj_before x y : In x before -> In y before -> f x = f y -> x = y.
  Proof.
    intros Bx By E.
    destruct (f_in_before x Bx) as (j & Hj1 & Hj2). destruct (f_in_before y By) as (k & Hk1 & Hk2).
    rewrite E in Hj2.
    assert (j = k).
    { apply (proj1 (NoDup_nth_error after) Hna); [apply nth_error_Some; congruence|congruence]. }
    subst. congruence.
  Qed.

  (* the keys appended for x *)
  Lemma g_before x : In x before -> g x = [f x].
  Proof.
    intros Bx. unfold g, step_key, f, replace_key. destruct (index_of x before) eqn:E; [reflexivity|].
    apply index_of_None in E. contradiction.
  Qed.

  Lemma g_not_before x : ~ In x before -> g x = if mem x after then [] else [x].
  Proof. intros H. unfold g, step_key. apply index_of_None in H. rewrite H. reflexivity. Qed.

  Lemma g_spec x z : In z (g x) <-> (In x before /\ z = f x) \/ (~ In x before /\ ~ In x after /\ z = x).
  Proof.
    destruct (in_dec Nat.eq_dec x before) as [Bx|Bx].
    - rewrite (g_before x Bx). simpl. split.
      + intros [H|[]]. left. split; [exact Bx|congruence].
      + intros [[_ H]|[H _]]; [left; congruence|contradiction].
    - rewrite (g_not_before x Bx). destruct (mem x after) eqn:E.
      + apply mem_In in E. simpl. split; [tauto|]. intros [[H _]|[_ [H _]]]; contradiction.
      + assert (~ In x after) as Ha by (intros H; apply mem_In in H; congruence).
        simpl. split.
        * intros [H|[]]. right. repeat split; [exact Bx|exact Ha|congruence].
        * intros [[H _]|[_ [_ H]]]; [contradiction|left; congruence].
  Qed.

  Lemma g_nodup x : NoDup (g x).
  Proof.
    unfold g, step_key. destruct (index_of x before).
    - constructor; [intros []|constructor].
    - destruct (mem x after); [constructor|constructor; [intros []|constructor]].
  Qed.

  (* no premise about extra inner-ring keys any more *)
  Lemma uir_nodup : NoDup (flat_map g ir).
  Proof.
    apply NoDup_flat_map_disj; [exact Hni|intros; apply g_nodup|].
    intros x y z _ _ Hx Hy. apply g_spec in Hx. apply g_spec in Hy.
    destruct Hx as [[Bx Ex]|[Bx [Ax Ex]]]; destruct Hy as [[By Ey]|[By [Ay Ey]]].
    - apply f_inj_before; [exact Bx|exact By|congruence].
    - exfalso. apply Ay. rewrite <- Ey, Ex. apply f_in_after. exact Bx.
    - exfalso. apply Ax. rewrite <- Ex, Ey. apply f_in_after. exact By.
    - congruence.
  Qed.

  Hypothesis Hincl : incl before ir.

  Lemma uir_members z : In z (flat_map g ir) <-> (In z ir /\ ~ In z before /\ ~ In z after) \/ In z after.
  Proof.
    rewrite in_flat_map. split.
    - intros (x & Hx & Hzx). apply g_spec in Hzx. destruct Hzx as [[Bx E]|[Bx [Ax E]]]; subst.
      + right. apply f_in_after. exact Bx.
      + left. tauto.
    - intros [(Hz & Hb & Ha)|Hz].
      + exists z. split; [exact Hz|]. apply g_spec. right. tauto.
      + apply In_nth_error in Hz. destruct Hz as (j & Hj).
        assert (j < length before) as Hl by (rewrite Hlen; apply nth_error_Some; congruence).
        destruct (nth_error before j) as [y|] eqn:Ey; [|apply nth_error_None in Ey; lia].
        assert (In y before) as By by (eapply nth_error_In; exact Ey).
        exists y. split; [apply Hincl; exact By|].
        apply g_spec. left. split; [exact By|].
        unfold f, replace_key. rewrite (index_of_nth before j y Hnb Ey).
        apply nth_error_nth with (d := y) in Hj. symmetry. exact Hj.
  Qed.
End UpdateInnerRing.

(* FULL statement for the repaired updateInnerRing *)
Theorem update_inner_ring_full ir before after :
  length before = length after -> NoDup before -> NoDup after -> NoDup ir -> incl before ir ->
  exists l, update_inner_ring ir before after = Some l /\ NoDup l /\
            forall z, In z l <-> (In z ir /\ ~ (In z before /\ ~ In z after)) \/ (In z after /\ ~ In z before).
Proof.
  intros Hlen Hnb Hna Hni Hincl. unfold update_inner_ring.
  rewrite (proj2 (Nat.eqb_eq _ _) Hlen). eexists. split; [reflexivity|]. split.
  - apply uir_nodup; assumption.
  - intros z. rewrite (uir_members ir before after Hlen Hnb Hincl z).
    destruct (in_dec Nat.eq_dec z before) as [B|B]; destruct (in_dec Nat.eq_dec z after) as [A|A];
      destruct (in_dec Nat.eq_dec z ir) as [I|I]; try tauto.
    exfalso. apply I. apply Hincl. exact B.
Qed.

(* the code before the repair (update_inner_ring_old) violated the statement: an extra inner-ring
   key that is voted into the alphabet appeared twice (was confirmed on the Go code) *)
Theorem update_inner_ring_old_refuted :
  exists fs mn ir a l,
    NoDup fs /\ NoDup mn /\ NoDup ir /\ incl fs ir /\
    pipeline_old fs mn ir = (Proposed a, Some l) /\ ~ NoDup l.
Proof.
  exists [1;2;3;4], [0;1;2;3], [1;2;3;4;0], [0;1;2;3], [0;0;1;2;3].
  repeat split; try (apply nodupb_spec; reflexivity).
  - intros x Hx. change [1;2;3;4;0] with ([1;2;3;4] ++ [0]). apply in_or_app. left. exact Hx.
  - intros H. apply nodupb_spec in H. discriminate.
Qed.

(* ---- newAlphabetList on the property's domain ------------------------------ *)

Lemma universe8_computed : universe8_ok = true.
Proof. vm_compute. reflexivity. Qed.

Theorem alphabet_universe8 a b :
  a < 256 -> b < 256 ->
  let fs := keys_of_mask a in let mn := keys_of_mask b in
  0 < length fs < 8 -> length fs <= length mn ->
  alpha_res_ok fs mn (new_alphabet_list fs mn) = true.
Proof.
  intros Ha Hb fs mn Hfs Hmn. pose proof universe8_computed as H. unfold universe8_ok in H.
  rewrite forallb_forall in H. specialize (H a ltac:(apply in_seq; lia)).
  rewrite forallb_forall in H. specialize (H b ltac:(apply in_seq; lia)).
  unfold pair_ok in H. fold fs mn in H.
  replace (0 <? length fs) with true in H by (symmetry; apply Nat.ltb_lt; lia).
  replace (length fs <? 8) with true in H by (symmetry; apply Nat.ltb_lt; lia).
  replace (length fs <=? length mn) with true in H by (symmetry; apply Nat.leb_le; lia).
  exact H.
Qed.

(* reading of alpha_ok in Prop *)
Theorem alpha_ok_spec fs mn alpha :
  alpha_ok fs mn alpha = true ->
  length alpha = length fs /\ NoDup alpha /\ (forall x, In x alpha -> In x fs \/ In x mn) /\
  new_count alpha fs <= (length fs - 1) / 3 /\ 0 < new_count alpha fs.
Proof.
  unfold alpha_ok. rewrite !andb_true_iff. intros [[[[H1 H2] H3] H4] H5].
  apply Nat.eqb_eq in H1. apply nodupb_spec in H2. apply Nat.leb_le in H4. apply Nat.ltb_lt in H5.
  repeat split; try assumption.
  intros x Hx. rewrite forallb_forall in H3. specialize (H3 x Hx). apply orb_true_iff in H3.
  destruct H3 as [H|H]; apply mem_In in H; tauto.
Qed.
