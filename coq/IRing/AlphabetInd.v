(* Proofs for C36, unbounded part: newAlphabetList (model new_alphabet_list) for key lists of
   ARBITRARY length, by induction over the two loops (loop invariants `core`, `fill_spec`).
   No finite universe here; keys are nat, only decidable equality of keys is used (the order
   matters only through `sort`, which is handled as a permutation). *)
From Coq Require Import List Arith Bool Lia Sorting.Permutation.
Import ListNotations.
From NV Require Import IRing.Alphabet IRing.AlphabetCheck IRing.AlphabetProofs.

(* ---- sort is a permutation -------------------------------------------------- *)

Lemma sort_perm l : Permutation l (sort l).
Proof. apply NatSort.Permuted_sort. Qed.

Lemma sort_In x l : In x (sort l) <-> In x l.
Proof.
  split; intros H.
  - eapply Permutation_in; [apply Permutation_sym; apply sort_perm|exact H].
  - eapply Permutation_in; [apply sort_perm|exact H].
Qed.

Lemma sort_length l : length (sort l) = length l.
Proof. symmetry. apply Permutation_length. apply sort_perm. Qed.

Lemma sort_NoDup l : NoDup l -> NoDup (sort l).
Proof. intros H. eapply Permutation_NoDup; [apply sort_perm|exact H]. Qed.

Lemma mem_iff_eq x a b : (In x a <-> In x b) -> mem x a = mem x b.
Proof.
  intros H. destruct (mem x a) eqn:Ea; destruct (mem x b) eqn:Eb; try reflexivity.
  - apply mem_In in Ea. apply H in Ea. apply mem_In in Ea. congruence.
  - apply mem_In in Eb. apply H in Eb. apply mem_In in Eb. congruence.
Qed.

Lemma mem_sort x l : mem x (sort l) = mem x l.
Proof. apply mem_iff_eq. apply sort_In. Qed.

Lemma mem_false x l : mem x l = false <-> ~ In x l.
Proof.
  split.
  - intros E H. apply mem_In in H. congruence.
  - intros H. destruct (mem x l) eqn:E; [|reflexivity]. apply mem_In in E. contradiction.
Qed.

Lemma filter_perm_length (f : nat -> bool) l l' :
  Permutation l l' -> length (filter f l) = length (filter f l').
Proof.
  induction 1; simpl.
  - reflexivity.
  - destruct (f x); simpl; congruence.
  - destruct (f x); destruct (f y); simpl; reflexivity.
  - congruence.
Qed.

Lemma new_count_sort_l a fs : new_count (sort a) fs = new_count a fs.
Proof. unfold new_count. symmetry. apply filter_perm_length. apply sort_perm. Qed.

Lemma new_count_sort_r a fs : new_count a (sort fs) = new_count a fs.
Proof.
  unfold new_count. f_equal. apply filter_ext. intros x. rewrite mem_sort. reflexivity.
Qed.

Lemma new_count_app a b fs : new_count (a ++ b) fs = new_count a fs + new_count b fs.
Proof. unfold new_count. rewrite filter_app, app_length. reflexivity. Qed.

Lemma NoDup_snoc (l : list nat) x : NoDup l -> ~ In x l -> NoDup (l ++ [x]).
Proof.
  intros Hl Hx. apply NoDup_app_intro; [exact Hl|constructor; [intros []|constructor]|].
  intros z Hz [E|[]]. subst. contradiction.
Qed.

Lemma In_firstn (x : nat) : forall n l, In x (firstn n l) -> In x l.
Proof.
  induction n as [|n IH]; intros l H; [destruct H|].
  destruct l as [|a r]; [destruct H|]. simpl in H. destruct H as [H|H]; [left; exact H|right; apply IH; exact H].
Qed.

(* ---- the main-network loop --------------------------------------------------- *)

Section Loops.
  Variables (fs : list nat) (ln limit : nat).

  (* loop invariant of the main-network loop (the part that does not mention the remaining keys):
     res has no duplicates, marked = the current-alphabet keys taken so far, nn = number of new keys taken *)
  Definition core (res marked : list nat) (nn : nat) : Prop :=
    NoDup res /\ (forall y, In y marked <-> In y res /\ In y fs) /\ nn = new_count res fs /\
    nn <= limit /\ length res <= ln /\ length res = length marked + nn.

  Lemma core_push_member res marked nn x :
    core res marked nn -> ~ In x res -> mem x fs = true -> length res <> ln ->
    core (res ++ [x]) (x :: marked) nn.
  Proof.
    intros (H1 & H2 & H3 & H4 & H5 & H6) Hx Hm Hl. apply mem_In in Hm.
    repeat split.
    - apply NoDup_snoc; assumption.
    - destruct H as [E|H]; [subst; apply in_or_app; right; left; reflexivity|].
      apply in_or_app. left. apply H2. exact H.
    - destruct H as [E|H]; [subst; exact Hm|]. apply H2. exact H.
    - intros [Hy Hf]. apply in_app_or in Hy. destruct Hy as [Hy|[E|[]]].
      + right. apply H2. tauto.
      + left. exact E.
    - rewrite new_count_app. unfold new_count at 2. simpl.
      rewrite (proj2 (mem_In x fs) Hm). simpl. lia.
    - exact H4.
    - rewrite app_length. simpl. lia.
    - rewrite app_length. simpl. lia.
  Qed.

  Lemma core_push_new res marked nn x :
    core res marked nn -> ~ In x res -> mem x fs = false -> length res <> ln -> nn <> limit ->
    core (res ++ [x]) marked (S nn).
  Proof.
    intros (H1 & H2 & H3 & H4 & H5 & H6) Hx Hm Hl Hlim.
    assert (~ In x fs) as Hnf by (apply mem_false; exact Hm).
    repeat split.
    - apply NoDup_snoc; assumption.
    - apply in_or_app. left. apply H2. exact H.
    - apply H2. exact H.
    - intros [Hy Hf]. apply in_app_or in Hy. destruct Hy as [Hy|[E|[]]].
      + apply H2. tauto.
      + subst. contradiction.
    - rewrite new_count_app. unfold new_count at 2. simpl. rewrite Hm. simpl. lia.
    - lia.
    - rewrite app_length. simpl. lia.
    - rewrite app_length. simpl. lia.
  Qed.

  Lemma mn_loop_spec : forall mn res marked nn res' marked' nn',
    mn_loop ln limit fs mn res marked nn = (res', marked', nn') ->
    core res marked nn -> NoDup mn -> (forall y, In y res -> ~ In y mn) ->
    core res' marked' nn' /\ (forall y, In y res' -> In y res \/ In y mn) /\ nn <= nn'.
  Proof.
    induction mn as [|x r IH]; intros res marked nn res' marked' nn' E Hc Hnd Hfresh; simpl in E.
    - inversion E; subst. split; [exact Hc|]. split; [tauto|lia].
    - inversion Hnd as [|? ? Hxr Hr]; subst.
      assert (~ In x res) as Hxres by (intros H; apply (Hfresh x H); left; reflexivity).
      assert (forall y, In y (res ++ [x]) -> ~ In y r) as Hfresh'.
      { intros y Hy. apply in_app_or in Hy. destruct Hy as [Hy|[Ey|[]]].
        - intros Hyr. apply (Hfresh y Hy). right. exact Hyr.
        - subst. exact Hxr. }
      destruct (Nat.eqb (length res) ln) eqn:E1.
      + inversion E; subst. split; [exact Hc|]. split; [tauto|lia].
      + apply Nat.eqb_neq in E1. destruct (mem x fs) eqn:E2.
        * destruct (IH _ _ _ _ _ _ E (core_push_member _ _ _ _ Hc Hxres E2 E1) Hr Hfresh') as (A & B & C).
          split; [exact A|]. split; [|exact C].
          intros y Hy. destruct (B y Hy) as [H|H]; [|right; right; exact H].
          apply in_app_or in H. destruct H as [H|[H|[]]]; [left; exact H|right; left; exact H].
        * destruct (Nat.eqb nn limit) eqn:E3.
          -- assert (forall y, In y res -> ~ In y r) as Hf2.
             { intros y Hy Hyr. apply (Hfresh y Hy). right. exact Hyr. }
             destruct (IH _ _ _ _ _ _ E Hc Hr Hf2) as (A & B & C).
             split; [exact A|]. split; [|exact C].
             intros y Hy. destruct (B y Hy) as [H|H]; [left; exact H|right; right; exact H].
          -- apply Nat.eqb_neq in E3.
             destruct (IH _ _ _ _ _ _ E (core_push_new _ _ _ _ Hc Hxres E2 E1 E3) Hr Hfresh') as (A & B & C).
             split; [exact A|]. split; [|lia].
             intros y Hy. destruct (B y Hy) as [H|H]; [|right; right; exact H].
             apply in_app_or in H. destruct H as [H|[H|[]]]; [left; exact H|right; left; exact H].
  Qed.

  Lemma mn_loop_mono : forall mn res marked nn res' marked' nn',
    mn_loop ln limit fs mn res marked nn = (res', marked', nn') -> nn <= nn'.
  Proof.
    induction mn as [|x r IH]; intros res marked nn res' marked' nn' E; cbn [mn_loop] in E.
    - inversion E. lia.
    - destruct (Nat.eqb (length res) ln); [inversion E; lia|].
      destruct (mem x fs); [apply IH in E; exact E|].
      destruct (Nat.eqb nn limit); [apply IH in E; exact E|].
      apply IH in E. lia.
  Qed.

  (* exactly when the loop ends with newNodes = 0 (started with 0 and a positive limit):
     the keys it looked at -- the first ln - len(result) main-network keys -- are all current keys *)
  Lemma mn_loop_zero : forall mn res marked res' marked' nn',
    limit <> 0 -> length res <= ln ->
    mn_loop ln limit fs mn res marked 0 = (res', marked', nn') ->
    (nn' = 0 <-> forall x, In x (firstn (ln - length res) mn) -> In x fs).
  Proof.
    induction mn as [|x r IH]; intros res marked res' marked' nn' Hlim Hl E; cbn [mn_loop] in E.
    - inversion E; subst. rewrite firstn_nil. split; [intros _ x []|reflexivity].
    - destruct (Nat.eqb (length res) ln) eqn:E1.
      + apply Nat.eqb_eq in E1. rewrite <- E1, Nat.sub_diag. simpl.
        assert (nn' = 0) as Z by (inversion E; reflexivity).
        split; [intros _ y []|intros _; exact Z].
      + apply Nat.eqb_neq in E1.
        replace (ln - length res) with (S (ln - length (res ++ [x]))) by (rewrite app_length; simpl; lia).
        simpl firstn. destruct (mem x fs) eqn:E2.
        * assert (length (res ++ [x]) <= ln) as Hl' by (rewrite app_length; simpl; lia).
          rewrite (IH _ _ _ _ _ Hlim Hl' E).
          apply mem_In in E2. split.
          -- intros H y [Ey|Hy]; [subst; exact E2|apply H; exact Hy].
          -- intros H y Hy. apply H. right. exact Hy.
        * destruct (Nat.eqb 0 limit) eqn:E3; [apply Nat.eqb_eq in E3; lia|].
          assert (~ In x fs) as Hx by (apply mem_false; exact E2).
          split.
          -- intros Hz. exfalso.
             pose proof (mn_loop_mono _ _ _ _ _ _ _ E) as Hge.
             lia.
          -- intros H. exfalso. apply Hx. apply H. left. reflexivity.
  Qed.

  (* ---- the fill loop over the current alphabet ------------------------------ *)

  Definition unmarked (marked r : list nat) : nat := length (filter (fun y => negb (mem y marked)) r).

  Lemma fill_spec marked : forall r res,
    NoDup r -> NoDup res -> (forall y, In y r -> In y res -> In y marked) ->
    (forall y, In y r -> In y fs) -> length res <= ln ->
    let out := fill ln r res marked in
    NoDup out /\ (forall y, In y out -> In y res \/ In y r) /\
    length out = Nat.min ln (length res + unmarked marked r) /\
    new_count out fs = new_count res fs.
  Proof.
    induction r as [|x r IH]; intros res Hr Hres Hm Hfs Hl; simpl.
    - unfold unmarked. simpl. repeat split; [exact Hres|tauto|lia].
    - inversion Hr as [|? ? Hxr Hr']; subst.
      destruct (Nat.eqb (length res) ln) eqn:E1.
      + apply Nat.eqb_eq in E1. repeat split; [exact Hres|tauto|lia].
      + apply Nat.eqb_neq in E1. unfold unmarked. simpl. destruct (mem x marked) eqn:E2; simpl.
        * destruct (IH res Hr' Hres) as (A & B & C & D); try assumption.
          -- intros y Hy. apply Hm. right. exact Hy.
          -- intros y Hy. apply Hfs. right. exact Hy.
          -- repeat split; [exact A| |exact C|exact D].
             intros y Hy. destruct (B y Hy); [left; assumption|right; right; assumption].
        * assert (~ In x res) as Hxres.
          { intros H. apply mem_false in E2. apply E2. apply Hm; [left; reflexivity|exact H]. }
          destruct (IH (res ++ [x]) Hr') as (A & B & C & D).
          -- apply NoDup_snoc; assumption.
          -- intros y Hy Hyr. apply in_app_or in Hyr. destruct Hyr as [Hyr|[Ey|[]]].
             ++ apply Hm; [right; exact Hy|exact Hyr].
             ++ subst. contradiction.
          -- intros y Hy. apply Hfs. right. exact Hy.
          -- rewrite app_length. simpl. lia.
          -- repeat split; [exact A| | |].
             ++ intros y Hy. destruct (B y Hy) as [H|H]; [|right; right; exact H].
                apply in_app_or in H. destruct H as [H|[H|[]]]; [left; exact H|right; left; exact H].
             ++ rewrite C. rewrite app_length. unfold unmarked. simpl. lia.
             ++ rewrite D. rewrite new_count_app. unfold new_count at 2. simpl.
                rewrite (proj2 (mem_In x fs) (Hfs x (or_introl eq_refl))). simpl. lia.
  Qed.

  (* enough unmarked keys are left to fill the list up to ln *)
  Lemma unmarked_enough res marked nn :
    NoDup fs -> length fs = ln -> core res marked nn -> ln <= length res + unmarked marked fs.
  Proof.
    intros Hnd Hlen (H1 & H2 & H3 & H4 & H5 & H6).
    assert (length (filter (fun y => mem y marked) fs) <= length marked) as Hle.
    { apply NoDup_incl_length; [apply NoDup_filter; exact Hnd|].
      intros y Hy. apply filter_In in Hy. apply mem_In. tauto. }
    assert (length (filter (fun y => mem y marked) fs) + unmarked marked fs = length fs) as Hsplit.
    { unfold unmarked. clear. induction fs as [|a r IH]; simpl; [reflexivity|].
      destruct (mem a marked); simpl; lia. }
    lia.
  Qed.
End Loops.

(* ---- newAlphabetList, all duplicate-free key lists --------------------------- *)

(* what a proposed list satisfies (the property's clauses, in Prop) *)
Definition alpha_spec (fs mn alpha : list nat) : Prop :=
  length alpha = length fs /\ NoDup alpha /\ (forall x, In x alpha -> In x fs \/ In x mn) /\
  1 <= new_count alpha fs /\ new_count alpha fs <= (length fs - 1) / 3.

(* exactly when the code returns (nil, nil): the limit floor((n-1)/3) is zero, or the first n keys of
   the sorted main-network list are all current alphabet keys (then they ARE the current alphabet) *)
Definition unchanged_cond (fs mn : list nat) : Prop :=
  (length fs - 1) / 3 = 0 \/ forall x, In x (firstn (length fs) (sort mn)) -> In x fs.

Theorem new_alphabet_list_all fs mn :
  NoDup fs -> NoDup mn ->
  match new_alphabet_list fs mn with
  | ErrEmpty => length fs = 0
  | ErrShort => 0 < length fs /\ length mn < length fs
  | Unchanged => 0 < length fs <= length mn /\ unchanged_cond fs mn
  | Proposed alpha => 0 < length fs <= length mn /\ ~ unchanged_cond fs mn /\ alpha_spec fs mn alpha
  end.
Proof.
  intros Hfs Hmn. unfold new_alphabet_list.
  destruct (Nat.eqb (length (sort fs)) 0) eqn:E0.
  { apply Nat.eqb_eq in E0. rewrite sort_length in E0. exact E0. }
  apply Nat.eqb_neq in E0.
  destruct (Nat.ltb (length (sort mn)) (length (sort fs))) eqn:E1.
  { apply Nat.ltb_lt in E1. rewrite !sort_length in *. lia. }
  apply Nat.ltb_ge in E1.
  destruct (mn_loop (length (sort fs)) ((length (sort fs) - 1) / 3) (sort fs) (sort mn) [] [] 0)
    as [[res marked] nn] eqn:EL.
  assert (core (sort fs) (length (sort fs)) ((length (sort fs) - 1) / 3) [] [] 0) as Hc0.
  { unfold core, new_count. simpl. repeat split; try lia; try constructor; try tauto. }
  destruct (mn_loop_spec _ _ _ _ _ _ _ _ _ _ EL Hc0 (sort_NoDup _ Hmn) ltac:(intros y []))
    as (Hc & Hmem & _).
  pose proof Hc as (C1 & C2 & C3 & C4 & C5 & C6).
  assert (0 < length fs <= length mn) as Hlens by (rewrite !sort_length in *; lia).
  (* characterisation of nn = 0 *)
  assert (nn = 0 <-> unchanged_cond fs mn) as Hzero.
  { unfold unchanged_cond. destruct (Nat.eq_dec ((length (sort fs) - 1) / 3) 0) as [Z|Z].
    - rewrite sort_length in Z. split; [intros _; left; exact Z|intros _]. rewrite sort_length in C4. lia.
    - rewrite (mn_loop_zero _ _ _ _ [] _ _ _ _ Z (Nat.le_0_l _) EL). simpl length. rewrite Nat.sub_0_r.
      rewrite sort_length in *. split.
      + intros H. right. intros x Hx. apply sort_In. apply H. exact Hx.
      + intros [H|H]; [contradiction|]. intros x Hx. apply sort_In. apply H. exact Hx. }
  destruct (Nat.eqb nn 0) eqn:E2.
  { apply Nat.eqb_eq in E2. split; [exact Hlens|]. apply Hzero. exact E2. }
  apply Nat.eqb_neq in E2. split; [exact Hlens|]. split; [intros H; apply Hzero in H; contradiction|].
  destruct (fill_spec (sort fs) (length (sort fs)) marked (sort fs) res (sort_NoDup _ Hfs) C1)
    as (F1 & F2 & F3 & F4).
  { intros y Hy Hyr. apply C2. tauto. }
  { tauto. }
  { exact C5. }
  pose proof (unmarked_enough _ _ _ _ _ _ (sort_NoDup _ Hfs) eq_refl Hc) as Hen.
  unfold alpha_spec. repeat rewrite sort_length in *. repeat split.
  - rewrite F3. lia.
  - apply sort_NoDup. exact F1.
  - intros x Hx. apply (proj1 (sort_In _ _)) in Hx. destruct (F2 x Hx) as [H|H].
    + destruct (Hmem x H) as [[]|H']. right. apply (proj1 (sort_In _ _)). exact H'.
    + left. apply (proj1 (sort_In _ _)). exact H.
  - rewrite new_count_sort_l, <- (new_count_sort_r _ fs), F4, <- C3. lia.
  - rewrite new_count_sort_l, <- (new_count_sort_r _ fs), F4, <- C3. exact C4.
Qed.

(* corollaries in the property's words *)

(* a proposed list differs from the current alphabet: it has a key that is not a current one, and
   (same size, no duplicates) a current key is missing from it *)
Lemma proposed_differs fs mn alpha :
  alpha_spec fs mn alpha -> exists x, In x alpha /\ ~ In x fs.
Proof.
  intros (_ & _ & _ & H & _). unfold new_count in H.
  destruct (filter (fun x => negb (mem x fs)) alpha) as [|x r] eqn:E; [simpl in H; lia|].
  assert (In x (filter (fun x => negb (mem x fs)) alpha)) as Hx by (rewrite E; left; reflexivity).
  apply filter_In in Hx. destruct Hx as [Hx Hb]. exists x. split; [exact Hx|].
  apply negb_true_iff in Hb. apply mem_false. exact Hb.
Qed.

(* "only proposed when something changed": when every main-network key is a current key
   (the main network has the same alphabet) nothing is proposed *)
Lemma same_alphabet_unchanged fs mn :
  NoDup fs -> NoDup mn -> 0 < length fs <= length mn -> incl mn fs ->
  new_alphabet_list fs mn = Unchanged.
Proof.
  intros Hfs Hmn Hl Hincl. pose proof (new_alphabet_list_all fs mn Hfs Hmn) as H.
  destruct (new_alphabet_list fs mn) as [| | |alpha]; try lia; [reflexivity|].
  destruct H as (_ & Hn & _). exfalso. apply Hn. right.
  intros x Hx. apply Hincl. apply sort_In. eapply In_firstn. exact Hx.
Qed.

(* boolean form, the unbounded version of alphabet_universe8 *)
Theorem alpha_res_ok_all fs mn :
  NoDup fs -> NoDup mn -> 0 < length fs <= length mn ->
  alpha_res_ok fs mn (new_alphabet_list fs mn) = true.
Proof.
  intros Hfs Hmn Hl. pose proof (new_alphabet_list_all fs mn Hfs Hmn) as H.
  destruct (new_alphabet_list fs mn) as [| | |alpha]; simpl; try reflexivity; try lia.
  destruct H as (_ & _ & (A & B & C & D & E)). unfold alpha_ok.
  rewrite !andb_true_iff. repeat split.
  - apply Nat.eqb_eq. exact A.
  - apply nodupb_spec. exact B.
  - apply forallb_forall. intros x Hx. apply orb_true_iff. destruct (C x Hx); [left|right]; apply mem_In; assumption.
  - apply Nat.leb_le. exact E.
  - apply Nat.ltb_lt. lia.
Qed.

(* reading of the boolean inner-ring reference ir_ok (used on the Go results) in Prop: it is the
   conclusion of update_inner_ring_full *)
Theorem ir_ok_spec ir fs alpha newir :
  ir_ok ir fs alpha newir = true ->
  NoDup newir /\
  forall z, In z newir <-> (In z ir /\ ~ (In z fs /\ ~ In z alpha)) \/ (In z alpha /\ ~ In z fs).
Proof.
  unfold ir_ok. rewrite andb_true_iff. intros [H1 H2]. apply nodupb_spec in H1. split; [exact H1|].
  unfold list_nat_eqb in H2. destruct (list_eq_dec Nat.eq_dec (sort newir) (ir_expected ir fs alpha)) as [E|]; [|discriminate].
  intros z. rewrite <- (sort_In z newir), E. unfold ir_expected. rewrite sort_In, in_app_iff, !filter_In. cbv beta.
  destruct (mem z fs) eqn:Ef; [apply mem_In in Ef|apply (proj1 (mem_false _ _)) in Ef];
    (destruct (mem z alpha) eqn:Ea; [apply mem_In in Ea|apply (proj1 (mem_false _ _)) in Ea]);
    (destruct (mem z ir) eqn:Ei; [apply mem_In in Ei|apply (proj1 (mem_false _ _)) in Ei]);
    simpl; intuition congruence.
Qed.

(* ---- end to end: what processAlphabetSync computes (pipeline = newAlphabetList, then
   updateInnerRing with before = the sorted current alphabet, then sort) ------------------------ *)
Theorem pipeline_all fs mn ir :
  NoDup fs -> NoDup mn -> NoDup ir -> incl fs ir -> 0 < length fs <= length mn ->
  match pipeline fs mn ir with
  | (Unchanged, None) => unchanged_cond fs mn
  | (Proposed a, Some l) =>
      ~ unchanged_cond fs mn /\ alpha_spec fs mn a /\ NoDup l /\
      forall z, In z l <-> (In z ir /\ ~ (In z fs /\ ~ In z a)) \/ (In z a /\ ~ In z fs)
  | _ => False
  end.
Proof.
  intros Hfs Hmn Hir Hincl Hl. unfold pipeline, pipeline_with.
  pose proof (new_alphabet_list_all fs mn Hfs Hmn) as H.
  destruct (new_alphabet_list fs mn) as [| | |a]; try lia.
  - exact (proj2 H).
  - destruct H as (_ & Hn & Hs). pose proof Hs as (S1 & S2 & _).
    destruct (update_inner_ring_full ir (sort fs) a) as (l & El & Hnd & Hmem).
    + rewrite sort_length. symmetry. exact S1.
    + apply sort_NoDup. exact Hfs.
    + exact S2.
    + exact Hir.
    + intros x Hx. apply Hincl. apply (proj1 (sort_In _ _)). exact Hx.
    + rewrite El. split; [exact Hn|]. split; [exact Hs|]. split; [apply sort_NoDup; exact Hnd|].
      intros z. rewrite sort_In, Hmem, !sort_In. reflexivity.
Qed.
