(* Executable comparison used by the correspondence check of C39.
   A case is (precision p, amount n, and the three int64 results observed from
   the Go code: ToBalancePrecision(n), ToFixed8(n), ToFixed8(ToBalancePrecision(n))). *)
From Coq Require Import ZArith Bool List.
Import ListNotations.
From NV Require Import Gen.IRingPrecisionConsts IRing.Precision.
Local Open Scope Z_scope.

Definition case := (Z * Z * Z * Z * Z)%type.

Definition model_ok (c : case) : bool :=
  let '(p, n, tb, tf, rt) := c in
  (to_balance p n =? tb) && (to_fixed8 p n =? tf) && (round_trip p n =? rt).

(* the property as written, evaluated on the implementation's outputs *)
Definition ref_full_ok (c : case) : bool :=
  let '(p, n, tb, tf, rt) := c in
  (rt <=? n)
  && (if 8 <=? p then rt =? n else true)   (* Fixed8 = 8 decimals by definition, independent of Gen *)
  && (if (0 <=? n) && (n <? two53)
      then (tb =? to_balance_exact p n) && (0 <=? tb) && (tf =? to_fixed8_exact p n) && (0 <=? tf)
      else true).

(* known-finding class: some multiplication step of the case leaves int64 *)
Definition known (c : case) : bool :=
  let '(p, n, tb, tf, rt) := c in
  balance_overflows p n || fixed8_overflows p n || fixed8_overflows p tb.

(* what is proved (C39_*_partial, C39_no_creation*, C39_exact): outside the class the property holds;
   inside it non-negative amounts still never grow *)
Definition ref_partial_ok (c : case) : bool :=
  let '(p, n, tb, tf, rt) := c in
  (known c || ref_full_ok c) && (if 0 <=? n then rt <=? n else true).

Fixpoint mism_from (i : nat) (f : case -> bool) (cs : list case) : list nat :=
  match cs with
  | [] => []
  | c :: r => if f c then mism_from (S i) f r else i :: mism_from (S i) f r
  end.
Definition model_mismatches := mism_from 0 model_ok.
Definition ref_full_mismatches := mism_from 0 ref_full_ok.
Definition ref_partial_mismatches := mism_from 0 ref_partial_ok.
Definition known_class := mism_from 0 (fun c => negb (known c)).

(* factors computed by the Go code vs 10^|p-8| *)
Definition factor_table_mismatches : list nat :=
  map fst (filter (fun pf : nat * Z => negb (factor (Z.of_nat (fst pf)) =? snd pf))
                  (combine (seq 0 (length go_factors)) go_factors))
  ++ (if Nat.eqb (length go_factors) (Z.to_nat max_precision + 1) then [] else [999%nat]).
