(* C18: no blob is lost by the rebuild.  On the blob sets of the order-independence theorem every
   tombstone, every lock and every object not removed by a tombstone of the set is indexed, with
   its own header, whatever the enumeration order and the batch size (the batches partition the
   enumeration: BatchProofs.batching_irrelevant). *)
From Coq Require Import List NArith ZArith Bool Lia Permutation.
Import ListNotations.
From NV Require Import Meta.SMap Meta.Model Meta.Spec Resync.Model Resync.BatchProofs Resync.FlatProofs.
Local Open Scope N_scope.

Theorem flat_known bs e B order :
  (0 < bs)%nat -> flat_ok B = true -> Permutation order B ->
  snd (resync_bs bs e (map to_blob order)) = true /\
  forall c i h, In (c, i, h) B -> must_know B (c, i, h) = true ->
  exists en, In (i, en) (objs (bucket_or_new (fst (resync_bs bs e (map to_blob order))) c)) /\ e_hdr en = h.
Proof.
  intros Hbs Hok Hperm.
  unfold flat_ok in Hok. apply andb_true_iff in Hok as [Hok Hpair]. apply andb_true_iff in Hok as [Hok Hnd].
  apply andb_true_iff in Hok as [Hflat Htgt]. rewrite forallb_forall in Hflat, Htgt.
  assert (Hincl : incl ([] ++ order) B) by (intros x Hx; simpl in Hx; eapply Permutation_in; eauto).
  assert (HN : NoDup (map addr ([] ++ order))).
  { simpl. eapply Permutation_NoDup; [apply Permutation_map; apply Permutation_sym; exact Hperm|]. now apply nodup_addr_NoDup. }
  destruct (batch_flat B Hflat Htgt Hnd Hpair order [] (reset_state e) (sinv_init B e) Hincl HN) as (s' & H1 & H2 & _).
  rewrite (batching_irrelevant bs e (map to_blob order) s' Hbs H1). simpl. split; [reflexivity|].
  intros c i h Hin Hk.
  apply (i_stored B c order (bucket_or_new s' c) (H2 c) i h).
  - eapply Permutation_in; [apply Permutation_sym; exact Hperm | exact Hin].
  - unfold must_know, fb_h, fb_c, fb_i in Hk. simpl in Hk.
    destruct (h_typ h); auto; right; right; now apply negb_true_iff in Hk.
Qed.
