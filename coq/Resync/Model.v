(* C18: model of meta.DB.ResyncFromBlobstor over the shared metabase model
   (Meta/Model.v, imported read-only).  Definitions only, executable.

   ResyncFromBlobstor = Reset (every bucket dropped) followed by the blobs of
   the storage in its enumeration order, accumulated in batches of
   [resync_batch_size] objects (Gen/ResyncConsts.v, dumped from the compiled
   code) and written with PutBatch; the epoch is read from the epoch source on
   every PutBatch and is a PARAMETER here (the only production caller,
   neofs-lancet, uses a source that always answers 0).  A PutBatch that fails
   with a non-skippable error rolls its own batch back and aborts the rebuild;
   the batches before it stay committed. *)
From Coq Require Import List NArith ZArith Bool.
Import ListNotations.
From NV Require Import Gen.MetaConsts Gen.ResyncConsts Meta.SMap Meta.Model Meta.Spec.
Local Open Scope N_scope.

Definition blob := (cid * obj)%type.

(* resyncHandler.handle / flush, [fuel] >= number of batches *)
Fixpoint resync_loop (fuel : nat) (bs : nat) (s : state) (l : list blob) : state * bool :=
  match fuel with
  | O => (s, true)
  | S f =>
      match l with
      | [] => (s, true)
      | _ => match batch_loop s (firstn bs l) with
             | inl s' => resync_loop f bs s' (skipn bs l)
             | inr _ => (s, false)
             end
      end
  end.

(* state after Reset: no bucket; the epoch field carries the epoch source's answer *)
Definition reset_state (e : N) : state := mkS [] e.

Definition resync_bs (bs : nat) (e : N) (order : list blob) : state * bool :=
  resync_loop (S (length order)) bs (reset_state e) order.

Definition resync (e : N) (order : list blob) : state * bool := resync_bs resync_batch_size e order.
Definition resync_st (e : N) (order : list blob) : state := fst (resync e order).
Definition resync_ok (e : N) (order : list blob) : bool := snd (resync e order).

(* the node afterwards runs at epoch q *)
Definition at_epoch (s : state) (q : N) : state := mkS (cnrs s) q.

(* ---------------------------------------------------------------- flat blob sets
   regular / link objects, tombstones and locks without family relations *)
Definition fblob := (cid * oid * hdr)%type.
Definition fb_c (b : fblob) : cid := fst (fst b).
Definition fb_i (b : fblob) : oid := snd (fst b).
Definition fb_h (b : fblob) : hdr := snd b.
Definition to_blob (b : fblob) : blob := (fb_c b, Obj (fb_i b) (fb_h b) None).

Definition is_some {A} (o : option A) : bool := match o with Some _ => true | None => false end.

(* shape: no relations; tombstones and locks name a target, the others do not *)
Definition flat_hdr (h : hdr) : bool :=
  simple_hdr h &&
  match h_typ h with
  | TTombstone | TLock => is_some (h_assoc h)
  | _ => negb (is_some (h_assoc h))
  end.

Definition fb_targets (t : otype) (c : cid) (x : oid) (b : fblob) : bool :=
  (fb_c b =? c) && otype_eqb (h_typ (fb_h b)) t && opt_eqb (h_assoc (fb_h b)) (Some x).
Definition tomb_in (B : list fblob) (c : cid) (x : oid) : bool := existsb (fb_targets TTombstone c x) B.
Definition lock_in (B : list fblob) (c : cid) (x : oid) : bool := existsb (fb_targets TLock c x) B.

Definition fb_is (c : cid) (x : oid) (b : fblob) : bool := (fb_c b =? c) && (fb_i b =? x).
(* type of the blob stored under (c, x), if there is one *)
Definition type_in (B : list fblob) (c : cid) (x : oid) : option otype :=
  match find (fb_is c x) B with Some b => Some (h_typ (fb_h b)) | None => None end.

(* the rebuild aborts (order-dependently) on a lock of a non-regular object and on a
   tombstone of a tombstone / lock: such blob sets are outside the theorem *)
Definition target_ok (B : list fblob) (b : fblob) : bool :=
  match h_typ (fb_h b), h_assoc (fb_h b) with
  | TLock, Some x => match type_in B (fb_c b) x with Some TRegular | None => true | _ => false end
  | TTombstone, Some x => match type_in B (fb_c b) x with Some TTombstone | Some TLock => false | _ => true end
  | _, _ => true
  end.

Fixpoint nodup_addr (B : list fblob) : bool :=
  match B with
  | [] => true
  | b :: r => negb (existsb (fb_is (fb_c b) (fb_i b)) r) && nodup_addr r
  end.

(* no target carries both a lock and a tombstone: the one place where the order decides *)
Definition no_pair (B : list fblob) : bool :=
  forallb (fun b => match h_typ (fb_h b), h_assoc (fb_h b) with
                    | TTombstone, Some x => negb (lock_in B (fb_c b) x)
                    | _, _ => true
                    end) B.

(* no tombstoned blob is itself expired at the query epoch (it would be reported
   expired when indexed before its tombstone and removed otherwise) *)
Definition no_tomb_exp (q : N) (B : list fblob) : bool :=
  forallb (fun b => negb (tomb_in B (fb_c b) (fb_i b) &&
                          match h_exp (fb_h b) with Some x => x <? q | None => false end)) B.

Definition flat_ok (B : list fblob) : bool :=
  forallb (fun b => flat_hdr (fb_h b)) B && forallb (target_ok B) B && nodup_addr B && no_pair B.

(* ---------------------------------------------------------------- order-free reference
   the status that follows from the stored objects alone *)
Definition live_lock_in (B : list fblob) (q : N) (c : cid) (x : oid) : bool :=
  existsb (fun b => fb_targets TLock c x b &&
                    negb (match h_exp (fb_h b) with Some e => e <? q | None => false end)) B.
Definition expired_in (B : list fblob) (q : N) (c : cid) (x : oid) : bool :=
  match find (fb_is c x) B with
  | Some b => match h_exp (fb_h b) with Some e => e <? q | None => false end
  | None => false
  end.

Definition status_of_blobs (q : N) (B : list fblob) (c : cid) (a : oid) : status :=
  let locked := live_lock_in B q c a in
  let tomb := tomb_in B c a in
  let s1 := if tomb && negb locked then NotFound else Available in
  let s2 := if tomb then worse Removed s1 else s1 in
  if expired_in B q c a && negb locked then worse Expired s2 else s2.

(* blobs the rebuild must index whatever the order: tombstones, locks and every object that no
   tombstone of the set removes (a tombstoned object read after its tombstone is skipped) *)
Definition must_know (B : list fblob) (b : fblob) : bool :=
  match h_typ (fb_h b) with
  | TTombstone | TLock => true
  | _ => negb (tomb_in B (fb_c b) (fb_i b))
  end.

(* every stored tombstone's target carries a garbage mark *)
Definition tomb_marked (b : cstate) : Prop :=
  forall i en x, In (i, en) (objs b) -> h_typ (e_hdr en) = TTombstone -> h_assoc (e_hdr en) = Some x ->
                 sm_mem x (garb b) = true.

(* number of IDs GetGarbage would have to report *)
Definition garbage_total (bs : list (cid * cstate)) : nat :=
  fold_right (fun cb n => (length (if cgc (snd cb) then sm_keys (objs (snd cb)) else sm_keys (garb (snd cb))) + n)%nat) 0%nat bs.
