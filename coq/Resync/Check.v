(* C18: executable comparison of the rebuild model with the real code.

   A case = resync epoch e, query epoch q, the blob set, and for each enumeration
   order the harness tried: the order (indexes into the blob list), whether
   ResyncFromBlobstor succeeded and a digest of (dumped metabase content, Exists
   at q, Exists ignoring expiration, IsLocked for every universe address,
   GetGarbage).  Mismatch code = case * 100000 + order index. *)
From Coq Require Import List NArith ZArith Bool.
Import ListNotations.
From NV Require Import Gen.MetaConsts Meta.SMap Meta.Model Meta.Spec Meta.Check Resync.Model.
Local Open Scope N_scope.

Definition r_cnrs : list cid := [1; 2].
Definition r_oids : list oid := [1; 2; 3; 4; 5; 6; 7; 8; 9; 10].
Definition r_addrs : list (cid * oid) := flat_map (fun c => map (fun o => (c, o)) r_oids) r_cnrs.
Definition garb_all : nat := 10000.

Definition r_views (s : state) : list (list N) :=
  [ map (fun a => view_exists s false (fst a) (snd a)) r_addrs;
    map (fun a => view_exists s true (fst a) (snd a)) r_addrs;
    map (fun a => b2n (view_locked s (fst a) (snd a))) r_addrs;
    (let bins := view_garbage s garb_all in
     N.of_nat (length bins) :: flat_map (fun b : cid * list oid => fst b :: N.of_nat (length (snd b)) :: snd b) bins) ].

(* own digest (61-bit mask: N.land is much cheaper than a modulus under vm_compute) *)
Definition r_mask : N := 2305843009213693951.  (* 2^61 - 1 *)
Definition r_hash (l : list N) : N :=
  fold_left (fun acc x => N.land (acc * 1000003 + x + 1) r_mask) l 7.
Definition r_digest (st : list N) (views : list (list N)) : N :=
  r_hash (st ++ flat_map (fun l => N.of_nat (length l) :: l) views).

(* enumeration orders of a case: all permutations in lexicographic order (the order in which the
   harness tries them; not written out in the case literal, Coq parses numerals slowly) or an explicit list *)
Inductive pspec := PAll | PList (l : list (list nat)).
Record case := mkCase { k_e : N; k_q : N; k_blobs : list blob; k_perms : pspec }.

Fixpoint perms (n : nat) (l : list nat) : list (list nat) :=
  match n with
  | O => [[]]
  | S n' => flat_map (fun x => map (cons x) (perms n' (remove Nat.eq_dec x l))) l
  end.
Definition case_orders (k : case) : list (list nat) :=
  match k_perms k with
  | PAll => perms (length (k_blobs k)) (seq 0 (length (k_blobs k)))
  | PList l => l
  end.

Definition dummy_blob : blob := (0, Obj 0 (mkHdr TRegular 0 None None None None None None None) None).
Definition apply_order (bl : list blob) (ord : list nat) : list blob := map (fun i => nth i bl dummy_blob) ord.

Definition model_after (k : case) (ord : list nat) : state * bool :=
  let '(s, ok) := resync (k_e k) (apply_order (k_blobs k) ord) in (at_epoch s (k_q k), ok).

Definition model_digest (k : case) (ord : list nat) : N * bool :=
  let '(s, ok) := model_after k ord in (r_digest (enc_state s) (r_views s), ok).

Definition code (i j : nat) : N := N.of_nat i * 100000 + N.of_nat j.

(* per case and order: digest * 2 + success flag; compared with the implementation's by the driver *)
Definition model_digests (cases : list case) : list N :=
  flat_map (fun k => map (fun ord => let '(d, ok) := model_digest k ord in d * 2 + b2n ok) (case_orders k)) cases.

(* second pass: the model's state and views in full for one order *)
Definition model_full (k : case) (ord : list nat) : list N :=
  let '(s, ok) := model_after k ord in
  b2n ok :: enc_state s ++ [999999] ++ flat_map (fun l => N.of_nat (length l) :: l) (r_views s).

(* ---- class of a blob set with respect to the premises of C18_order_independent_partial:
   0 = all premises hold; bit 1: family relations / not a flat header; bit 2: a target that
   makes the rebuild abort, or duplicate addresses; bit 4: lock and tombstone on one target;
   bit 8: a tombstoned blob expired at the query epoch *)
Fixpoint to_fblobs (bl : list blob) : option (list fblob) :=
  match bl with
  | [] => Some []
  | (c, Obj i h None) :: r => match to_fblobs r with Some l => Some ((c, i, h) :: l) | None => None end
  | _ => None
  end.

Definition case_class (k : case) : N :=
  match to_fblobs (k_blobs k) with
  | None => 1
  | Some B =>
      (if forallb (fun b => flat_hdr (fb_h b)) B then 0 else 1) +
      (if forallb (target_ok B) B && nodup_addr B then 0 else 2) +
      (if no_pair B then 0 else 4) +
      (if no_tomb_exp (k_q k) B then 0 else 8)
  end.
Definition case_classes (cases : list case) : list N := map case_class cases.

(* ---- reference: on blob sets satisfying the premises every order must give the status
   that follows from the blobs (right-hand side of the theorem), evaluated against the
   view classes of the model state the digest tied to the implementation *)
Definition ref_perm_ok (k : case) (B : list fblob) (ord : list nat) : bool :=
  let '(s, ok) := model_after k ord in
  ok && forallb (fun a : cid * oid =>
                   match status_of_class (view_exists s false (fst a) (snd a)) with
                   | Some st => status_eqb st (status_of_blobs (k_q k) B (fst a) (snd a))
                   | None => false
                   end) r_addrs.

Fixpoint ref_perms (i j : nat) (k : case) (B : list fblob) (ps : list (list nat)) : list N :=
  match ps with
  | [] => []
  | p :: r => (if ref_perm_ok k B p then [] else [code i j]) ++ ref_perms i (S j) k B r
  end.

Definition ref_mismatches (cases : list case) : list N :=
  mism_from (fun i k => if case_class k =? 0
                        then match to_fblobs (k_blobs k) with Some B => ref_perms i 0 k B (case_orders k) | None => [] end
                        else []) 0 cases.

(* ---- every blob of a premise-satisfying set (in blob-list order): class of the status that follows
   from the blobs (right-hand side of C18_status_follows_from_blobs_partial) * 2 + whether the rebuild
   must index it (C18_no_blob_lost_partial).  Order-free: evaluated once per case, compared by the
   driver with Exists of the real metabase on every blob address after every enumeration order. *)
Definition ref_all (k : case) : list N :=
  if case_class k =? 0 then
    match to_fblobs (k_blobs k) with
    | Some B => map (fun b => class_of_status (status_of_blobs (k_q k) B (fb_c b) (fb_i b)) * 2 + b2n (must_know B b)) B
    | None => []
    end
  else [].
Definition ref_alls (cases : list case) : list N :=
  flat_map (fun k => let l := ref_all k in N.of_nat (length l) :: l) cases.

(* removed objects are reported by GetGarbage (C18_gc_reclaims), evaluated on the model state *)
Definition gc_perm_ok (k : case) (ord : list nat) : bool :=
  let '(s, _) := model_after k ord in
  forallb (fun cb : cid * cstate =>
             forallb (fun kv : oid * entry =>
                        match h_typ (e_hdr (snd kv)), h_assoc (e_hdr (snd kv)) with
                        | TTombstone, Some x => existsb (fun bin : cid * list oid => (fst bin =? fst cb) && existsb (N.eqb x) (snd bin))
                                                        (view_garbage s garb_all)
                        | _, _ => true
                        end) (objs (snd cb))) (cnrs s).
Fixpoint gc_perms (i j : nat) (k : case) (ps : list (list nat)) : list N :=
  match ps with
  | [] => []
  | p :: r => (if gc_perm_ok k p then [] else [code i j]) ++ gc_perms i (S j) k r
  end.
Definition gc_mismatches (cases : list case) : list N :=
  mism_from (fun i k => gc_perms i 0 k (case_orders k)) 0 cases.
